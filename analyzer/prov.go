package main

import (
	"fmt"
	"go/token"
	"go/types"
	"sort"
	"strings"

	"golang.org/x/tools/go/ssa"
)

// Field provenance (DESIGN A3 / P4), may-flavour.
//
// prov(v) is the set of atoms v can derive from:
//   Info.<path>      a field of *nfpm.Info (SSA field names, '.'-joined)
//   Content.<path>   a field of *files.Content
//   FileInfo.<path>  a field of *files.ContentFileInfo
//   <T>.<path>       a field of another named struct reached through a pointer
//   const:<v>        a constant
//   global:<name>    a package-level variable
//   call:<callee>    an opaque (external or too deep) call whose operands are
//                    also included
//   param:<fn>.<n>   an unbound parameter
//
// Roots are type-based: every pointer dereference restarts the path at the
// pointee's named type, so `content.FileInfo.Mode` is FileInfo.Mode whatever
// variable held the content. This is field-based (not object-sensitive), which
// is what the wiring rules need: they ask "which configuration field feeds this
// slot", not "which entry".

type provSet map[string]bool

func (p provSet) add(q provSet) {
	for k := range q {
		p[k] = true
	}
}

func (p provSet) list() []string {
	var out []string
	for k := range p {
		out = append(out, k)
	}
	sort.Strings(out)
	return out
}

func (p provSet) String() string { return strings.Join(p.list(), " ") }

// fields returns only the configuration-field atoms (Info./Content./FileInfo.).
func (p provSet) fields() []string {
	var out []string
	for k := range p {
		if strings.HasPrefix(k, "Info.") || strings.HasPrefix(k, "Content.") || strings.HasPrefix(k, "FileInfo.") {
			out = append(out, k)
		}
	}
	sort.Strings(out)
	return out
}

func (p provSet) has(atom string) bool { return p[atom] }

func (p provSet) hasPrefix(pre string) bool {
	for k := range p {
		if strings.HasPrefix(k, pre) {
			return true
		}
	}
	return false
}

func (p provSet) consts() []string {
	var out []string
	for k := range p {
		if strings.HasPrefix(k, "const:") {
			out = append(out, strings.TrimPrefix(k, "const:"))
		}
	}
	sort.Strings(out)
	return out
}

type provAnalysis struct {
	c        *Ctx
	maxDepth int
	memo     map[provKey]provSet
	busy     map[provKey]bool
	sites    map[*ssa.Function][]ssa.CallInstruction
	dynSites []ssa.CallInstruction
	// scope restricts the field-store closure (nil = whole module)
	scope     []*ssa.Function
	fstores   map[string][]ssa.Value
	busyField map[string]bool
	// row binding: while a value is evaluated "for row k" of a literal table,
	// reads of the loop element's fields stand for that row's stored values
	rowElem *ssa.IndexAddr
	rowBind map[string]ssa.Value
}

type provKey struct {
	v   ssa.Value
	ctx *provCtx
}

// provCtx binds the parameters of an inlined callee to the caller's values.
type provCtx struct {
	parent *provCtx
	call   *ssa.CallCommon
	fn     *ssa.Function
	depth  int
}

// callSites lists the module call instructions that can invoke fn: static
// calls, and — for functions used as values — dynamic calls of a func value
// with an identical signature.
func (pa *provAnalysis) callSites(fn *ssa.Function) []ssa.CallInstruction {
	if pa.sites == nil {
		pa.sites = map[*ssa.Function][]ssa.CallInstruction{}
		var dyn []ssa.CallInstruction
		for _, f := range pa.c.ModFuncs {
			forEachInstr(f, func(in ssa.Instruction) {
				call, ok := in.(ssa.CallInstruction)
				if !ok {
					return
				}
				cc := call.Common()
				if sc := cc.StaticCallee(); sc != nil {
					pa.sites[sc] = append(pa.sites[sc], call)
					return
				}
				if _, isB := cc.Value.(*ssa.Builtin); !isB && !cc.IsInvoke() {
					dyn = append(dyn, call)
				}
			})
		}
		pa.dynSites = dyn
	}
	out := pa.sites[fn]
	if fn.Signature.Recv() == nil {
		for _, d := range pa.dynSites {
			if types.Identical(d.Common().Value.Type().Underlying(), fn.Signature) {
				out = append(out, d)
			}
		}
	}
	return out
}

// newProvScoped: provenance whose field-store closure only looks at the
// given functions (one packager's call graph).
func newProvScoped(c *Ctx, reach map[*ssa.Function]bool) *provAnalysis {
	pa := newProv(c)
	pa.scope = sortedFuncs(c, reach)
	return pa
}

func newProv(c *Ctx) *provAnalysis {
	return &provAnalysis{c: c, maxDepth: 4, memo: map[provKey]provSet{}, busy: map[provKey]bool{}, busyField: map[string]bool{}}
}

func rootTypeName(t types.Type) string {
	t = derefType(t)
	n, ok := t.(*types.Named)
	if !ok {
		return ""
	}
	o := n.Obj()
	if o.Pkg() == nil {
		return o.Name()
	}
	switch o.Pkg().Path() {
	case modPath:
		if o.Name() == "Config" {
			return "Info" // Config embeds Info; paths are reported below Info
		}
		return o.Name()
	case filesPath:
		if o.Name() == "ContentFileInfo" {
			return "FileInfo"
		}
		return o.Name()
	}
	return o.Name()
}

func (pa *provAnalysis) Of(v ssa.Value) provSet { return pa.of(v, nil) }

func (pa *provAnalysis) of(v ssa.Value, ctx *provCtx) provSet {
	if pa.rowElem != nil {
		if ia, f, ok := loopElemField(v); ok && ia == pa.rowElem {
			if bv := pa.rowBind[f]; bv != nil {
				return pa.of(bv, ctx)
			}
		}
	}
	if v == nil {
		return provSet{}
	}
	k := provKey{v, ctx}
	if s, ok := pa.memo[k]; ok {
		return s
	}
	if pa.busy[k] {
		return provSet{}
	}
	pa.busy[k] = true
	s := pa.of1(v, ctx)
	delete(pa.busy, k)
	pa.memo[k] = s
	return s
}

func (pa *provAnalysis) union(ctx *provCtx, vals ...ssa.Value) provSet {
	out := provSet{}
	for _, v := range vals {
		out.add(pa.of(v, ctx))
	}
	return out
}

// addrProv: provenance of the value stored at an address.
func (pa *provAnalysis) addrProv(addr ssa.Value, ctx *provCtx) provSet {
	switch a := addr.(type) {
	case *ssa.FieldAddr:
		path, root := addrPath(a)
		out := provSet{}
		switch r := root.(type) {
		case *ssa.Alloc:
			// local struct (or heap literal): what was stored into this field
			out.add(pa.storedInto(a, r, path, ctx))
			// ... or into the struct as a whole (a copy of a slice element, a
			// dereferenced parameter): the same field of the copied value
			for _, ref := range *r.Referrers() {
				if st, ok := ref.(*ssa.Store); ok && st.Addr == ssa.Value(r) {
					if _, isConst := st.Val.(*ssa.Const); !isConst {
						out.add(pa.fieldOfValue(st.Val, path, ctx, 0))
					}
				}
			}
			if rn := rootTypeName(r.Type()); rn == "Info" || rn == "Content" || rn == "FileInfo" {
				out[rn+"."+path] = true
				if rn != "Info" {
					pa.fieldClosure(r.Type(), path, out)
				}
			}
			return out
		default:
			rn := rootTypeName(root.Type())
			if rn == "" {
				rn = "?"
			}
			if rn == "Info" && strings.HasPrefix(path, "Info.") {
				path = strings.TrimPrefix(path, "Info.") // Config{Info}.X
			}
			out[rn+"."+path] = true
			// fields of local non-config structs reached through a pointer
			// value: include what flows into the same field of its allocation
			if al := allocOf(root); al != nil {
				out.add(pa.storedInto(a, al, path, ctx))
			}
			// field-based closure for everything but the configuration itself:
			// whatever the scope stores into this field of this type
			if rn != "Info" {
				pa.fieldClosure(root.Type(), path, out)
			}
			return out
		}
	case *ssa.Alloc:
		out := provSet{}
		// a local struct read as a whole: everything stored into its fields
		if _, isStruct := derefType(a.Type()).Underlying().(*types.Struct); isStruct {
			pa.storesBelow(a, ctx, out, 0)
		}
		out.add(pa.storesThroughTable(a))
		for _, ref := range *a.Referrers() {
			if st, ok := ref.(*ssa.Store); ok && st.Addr == ssa.Value(a) {
				out.add(pa.of(st.Val, ctx))
			}
			// captured by reference: stores made through the free variable in
			// the closures that capture it
			if mc, ok := ref.(*ssa.MakeClosure); ok {
				if cf, ok := mc.Fn.(*ssa.Function); ok {
					for i, b := range mc.Bindings {
						if b != ssa.Value(a) || i >= len(cf.FreeVars) {
							continue
						}
						fv := cf.FreeVars[i]
						if fv.Referrers() == nil {
							continue
						}
						for _, r2 := range *fv.Referrers() {
							if st, ok := r2.(*ssa.Store); ok && st.Addr == ssa.Value(fv) {
								out.add(pa.of(st.Val, nil))
							}
						}
					}
				}
			}
			// a call that receives the address of this local (x.Set(v),
			// fmt.Fprintf(&buf, ...)) may write its other operands into it
			if call, ok := ref.(ssa.CallInstruction); ok {
				cc := call.Common()
				isArg := false
				for _, arg := range cc.Args {
					if arg == ssa.Value(a) {
						isArg = true
					}
				}
				if isArg {
					for _, arg := range cc.Args {
						if arg != ssa.Value(a) {
							out.add(pa.of(arg, ctx))
						}
					}
				}
			}
		}
		return out
	case *ssa.IndexAddr:
		// element of an array/slice: everything stored into any element
		out := provSet{}
		if al := allocOf(a.X); al != nil {
			for _, ref := range *al.Referrers() {
				if ia, ok := ref.(*ssa.IndexAddr); ok {
					pa.storesBelow(ia, ctx, out, 0)
				}
			}
			return out
		}
		out.add(pa.of(a.X, ctx))
		return out
	case *ssa.Global:
		return provSet{"global:" + globalName(a): true}
	case *ssa.FreeVar:
		return pa.of(a, ctx)
	}
	return pa.of(addr, ctx)
}

// fieldClosure (scoped analyses only): whatever the functions in scope store
// into field `path` of struct type t, whichever object it is.
func (pa *provAnalysis) fieldClosure(t types.Type, path string, out provSet) {
	if pa.scope == nil {
		return
	}
	k := types.TypeString(derefType(t), nil) + "." + path
	if pa.busyField[k] {
		return
	}
	pa.busyField[k] = true
	for _, v := range pa.fieldStores()[k] {
		out.add(pa.of(v, nil))
	}
	delete(pa.busyField, k)
}

// fieldOfValue: provenance of field `path` of a struct value.
func (pa *provAnalysis) fieldOfValue(v ssa.Value, path string, ctx *provCtx, depth int) provSet {
	if depth > 6 {
		return pa.of(v, ctx)
	}
	switch x := v.(type) {
	case *ssa.UnOp:
		if x.Op == token.MUL {
			return pa.addrFieldProv(x.X, path, ctx, depth+1)
		}
	case *ssa.Phi:
		out := provSet{}
		for _, e := range x.Edges {
			out.add(pa.fieldOfValue(e, path, ctx, depth+1))
		}
		return out
	case *ssa.Parameter:
		// a struct passed by value: the same field of every call site's argument
		if _, isStruct := x.Type().Underlying().(*types.Struct); isStruct {
			fn := x.Parent()
			idx := -1
			for i, p := range fn.Params {
				if p == x {
					idx = i
				}
			}
			sites := pa.callSites(fn)
			if idx >= 0 && len(sites) > 0 {
				out := provSet{}
				for _, cs := range sites {
					if idx < len(cs.Common().Args) {
						out.add(pa.fieldOfValue(cs.Common().Args[idx], path, nil, depth+1))
					}
				}
				return out
			}
		}
	}
	return pa.of(v, ctx)
}

// storedAt: values stored at addr.<path> (FieldAddr chains below addr).
func (pa *provAnalysis) storedAt(addr ssa.Value, path string, ctx *provCtx, out provSet) {
	var visit func(v ssa.Value, prefix string, d int)
	visit = func(v ssa.Value, prefix string, d int) {
		if d > 6 || v.Referrers() == nil {
			return
		}
		for _, ref := range *v.Referrers() {
			f2, ok := ref.(*ssa.FieldAddr)
			if !ok {
				continue
			}
			p := fieldName(f2.X.Type(), f2.Field)
			if prefix != "" {
				p = prefix + "." + p
			}
			if p == path {
				for _, r2 := range *f2.Referrers() {
					if st, ok := r2.(*ssa.Store); ok && st.Addr == ssa.Value(f2) {
						out.add(pa.of(st.Val, ctx))
					}
				}
			} else if strings.HasPrefix(path, p+".") {
				visit(f2, p, d+1)
			}
		}
	}
	visit(addr, "", 0)
}

// addrFieldProv: provenance of field `path` of the struct stored at addr.
func (pa *provAnalysis) addrFieldProv(addr ssa.Value, path string, ctx *provCtx, depth int) provSet {
	out := provSet{}
	if depth > 6 {
		return pa.addrProv(addr, ctx)
	}
	whole := func(a ssa.Value) {
		if a.Referrers() == nil {
			return
		}
		for _, ref := range *a.Referrers() {
			if st, ok := ref.(*ssa.Store); ok && st.Addr == a {
				if _, isConst := st.Val.(*ssa.Const); !isConst {
					out.add(pa.fieldOfValue(st.Val, path, ctx, depth+1))
				}
			}
		}
	}
	switch a := addr.(type) {
	case *ssa.Alloc:
		pa.storedAt(a, path, ctx, out)
		whole(a)
		return out
	case *ssa.IndexAddr:
		if al := allocOf(a.X); al != nil {
			for _, ref := range *al.Referrers() {
				if ia, ok := ref.(*ssa.IndexAddr); ok {
					pa.storedAt(ia, path, ctx, out)
					whole(ia)
				}
			}
			return out
		}
		// a slice produced elsewhere (call result, parameter): follow it to
		// its backing literal when it is a module function's result
		if call, ok := a.X.(*ssa.Call); ok {
			if sc := call.Call.StaticCallee(); sc != nil && sc.Blocks != nil && pa.c.isModuleFunc(sc) {
				for _, b := range sc.Blocks {
					if ret, ok := b.Instrs[len(b.Instrs)-1].(*ssa.Return); ok {
						for _, res := range retResults(ret) {
							if al := allocOf(res); al != nil {
								for _, ref := range *al.Referrers() {
									if ia, ok := ref.(*ssa.IndexAddr); ok {
										pa.storedAt(ia, path, nil, out)
									}
								}
							}
						}
					}
				}
				if len(out) > 0 {
					return out
				}
			}
		}
		return pa.of(a.X, ctx)
	case *ssa.FieldAddr:
		return pa.addrFieldProv(a.X, fieldName(a.X.Type(), a.Field)+"."+path, ctx, depth+1)
	}
	// pointer from elsewhere: type-rooted atom
	rn := rootTypeName(addr.Type())
	if rn != "" {
		out[rn+"."+path] = true
		if rn != "Info" {
			pa.fieldClosure(addr.Type(), path, out)
		}
		return out
	}
	return pa.addrProv(addr, ctx)
}

// storesBelow unions everything stored at addr or at any field/element
// address derived from it.
func (pa *provAnalysis) storesBelow(addr ssa.Value, ctx *provCtx, out provSet, depth int) {
	if depth > 5 || addr.Referrers() == nil {
		return
	}
	for _, ref := range *addr.Referrers() {
		switch r := ref.(type) {
		case *ssa.Store:
			if r.Addr == addr {
				out.add(pa.of(r.Val, ctx))
			}
		case *ssa.FieldAddr:
			pa.storesBelow(r, ctx, out, depth+1)
		case *ssa.IndexAddr:
			pa.storesBelow(r, ctx, out, depth+1)
		}
	}
}

// fieldStores indexes, for the functions in scope, the values stored into
// each struct field ("<type>.<path>").
func (pa *provAnalysis) fieldStores() map[string][]ssa.Value {
	if pa.fstores != nil {
		return pa.fstores
	}
	pa.fstores = map[string][]ssa.Value{}
	fns := pa.scope
	if fns == nil {
		fns = pa.c.ModFuncs
	}
	for _, fn := range fns {
		forEachInstr(fn, func(in ssa.Instruction) {
			st, ok := in.(*ssa.Store)
			if !ok {
				return
			}
			fa, ok := st.Addr.(*ssa.FieldAddr)
			if !ok {
				return
			}
			path, root := addrPath(fa)
			if root == nil {
				return
			}
			// index under every suffix rooted at a struct boundary
			k := types.TypeString(derefType(root.Type()), nil) + "." + path
			pa.fstores[k] = append(pa.fstores[k], st.Val)
			// also under the innermost struct (elements of arrays of structs)
			k2 := types.TypeString(derefType(fa.X.Type()), nil) + "." + fieldName(fa.X.Type(), fa.Field)
			if k2 != k {
				pa.fstores[k2] = append(pa.fstores[k2], st.Val)
			}
		})
	}
	return pa.fstores
}

func globalName(g *ssa.Global) string {
	if g.Pkg != nil && g.Pkg.Pkg != nil {
		return relPkg(g.Pkg.Pkg.Path()) + "." + g.Name()
	}
	return g.Name()
}

func allocOf(v ssa.Value) *ssa.Alloc {
	for i := 0; i < 10 && v != nil; i++ {
		switch x := v.(type) {
		case *ssa.Alloc:
			return x
		case *ssa.Slice:
			v = x.X
		case *ssa.ChangeType:
			v = x.X
		default:
			return nil
		}
	}
	return nil
}

// storedInto: union of the values stored into root.<path> anywhere in the
// function (flow-insensitive).
func (pa *provAnalysis) storedInto(fa *ssa.FieldAddr, root *ssa.Alloc, path string, ctx *provCtx) provSet {
	out := provSet{}
	var visit func(v ssa.Value, prefix string)
	visit = func(v ssa.Value, prefix string) {
		refs := v.Referrers()
		if refs == nil {
			return
		}
		for _, ref := range *refs {
			f2, ok := ref.(*ssa.FieldAddr)
			if !ok {
				continue
			}
			p := fieldName(f2.X.Type(), f2.Field)
			if prefix != "" {
				p = prefix + "." + p
			}
			if p == path {
				for _, r2 := range *f2.Referrers() {
					if st, ok := r2.(*ssa.Store); ok && st.Addr == ssa.Value(f2) {
						out.add(pa.of(st.Val, ctx))
					}
				}
			} else if strings.HasPrefix(path, p+".") {
				visit(f2, p)
			}
		}
	}
	visit(root, "")
	return out
}

func (pa *provAnalysis) of1(v ssa.Value, ctx *provCtx) provSet {
	switch x := v.(type) {
	case *ssa.Const:
		if x.Value == nil {
			return provSet{"const:nil": true}
		}
		if b, ok := x.Type().Underlying().(*types.Basic); ok && b.Info()&types.IsString != 0 {
			return provSet{"const:" + constString(x): true}
		}
		return provSet{"const:" + x.Value.ExactString(): true}
	case *ssa.Parameter:
		if ctx != nil && ctx.fn == x.Parent() {
			for i, p := range ctx.fn.Params {
				if p == x && i < len(ctx.call.Args) {
					return pa.of(ctx.call.Args[i], ctx.parent)
				}
			}
		}
		if rn := rootTypeName(x.Type()); rn == "Info" || rn == "Content" || rn == "FileInfo" {
			return provSet{}
		}
		// unbound parameter: join over the module's call sites of the function
		// (context-insensitive); entry points keep a param atom
		out := provSet{}
		sites := pa.callSites(x.Parent())
		idx := -1
		for i, p := range x.Parent().Params {
			if p == x {
				idx = i
			}
		}
		for _, cs := range sites {
			if idx >= 0 && idx < len(cs.Common().Args) {
				out.add(pa.of(cs.Common().Args[idx], nil))
			}
		}
		if len(sites) == 0 {
			out["param:"+pa.c.funcKey(x.Parent())+"."+x.Name()] = true
		}
		return out
	case *ssa.FreeVar:
		// bound value in the creating function
		fn := x.Parent()
		out := provSet{}
		if p := fn.Parent(); p != nil {
			forEachInstr(p, func(in ssa.Instruction) {
				if mc, ok := in.(*ssa.MakeClosure); ok && mc.Fn == fn {
					for i, fv := range fn.FreeVars {
						if fv == x && i < len(mc.Bindings) {
							b := mc.Bindings[i]
							if _, isAlloc := b.(*ssa.Alloc); isAlloc && isPointerToCell(x) {
								out.add(pa.addrProv(b, nil))
							} else {
								out.add(pa.of(b, nil))
							}
						}
					}
				}
			})
		}
		return out
	case *ssa.UnOp:
		if x.Op == token.MUL {
			// a captured-by-reference variable
			if fv, ok := x.X.(*ssa.FreeVar); ok {
				return pa.of(fv, ctx)
			}
			return pa.addrProv(x.X, ctx)
		}
		return pa.of(x.X, ctx)
	case *ssa.FieldAddr, *ssa.IndexAddr:
		// address used as a value (&info.Deb.Triggers.Interest): what it points to
		return pa.addrProv(v, ctx)
	case *ssa.Field:
		out := pa.of(x.X, ctx)
		return out
	case *ssa.BinOp:
		return pa.union(ctx, x.X, x.Y)
	case *ssa.Phi:
		return pa.union(ctx, x.Edges...)
	case *ssa.ChangeType:
		return pa.of(x.X, ctx)
	case *ssa.Convert:
		return pa.of(x.X, ctx)
	case *ssa.MakeInterface:
		return pa.of(x.X, ctx)
	case *ssa.ChangeInterface:
		return pa.of(x.X, ctx)
	case *ssa.TypeAssert:
		return pa.of(x.X, ctx)
	case *ssa.Slice:
		if al := allocOf(x.X); al != nil {
			return pa.addrProv(&ssa.IndexAddr{X: al}, ctx)
		}
		return pa.of(x.X, ctx)
	case *ssa.Index:
		return pa.of(x.X, ctx)
	case *ssa.Lookup:
		out := pa.of(x.X, ctx)
		out2 := provSet{}
		out2.add(out)
		// the index selects, it does not flow into the value: keep it apart
		for a := range pa.of(x.Index, ctx) {
			if !strings.HasPrefix(a, "idx:") {
				out2["idx:"+a] = true
			}
		}
		// values put into a local map
		if mm, ok := x.X.(*ssa.MakeMap); ok {
			for _, ref := range *mm.Referrers() {
				if mu, ok := ref.(*ssa.MapUpdate); ok {
					out2.add(pa.of(mu.Value, ctx))
				}
			}
		}
		return out2
	case *ssa.Extract:
		if call, ok := x.Tuple.(*ssa.Call); ok {
			return pa.callProv(call, x.Index, ctx)
		}
		return pa.of(x.Tuple, ctx)
	case *ssa.Next:
		return pa.of(x.Iter, ctx)
	case *ssa.Range:
		return pa.of(x.X, ctx)
	case *ssa.Call:
		return pa.callProv(x, 0, ctx)
	case *ssa.Alloc:
		// pointer to a local: provenance of everything stored below it
		out := provSet{}
		pa.storesBelow(x, ctx, out, 0)
		if rn := rootTypeName(x.Type()); rn != "" {
			out["alloc:"+rn] = true
		}
		return out
	case *ssa.Global:
		return provSet{"global:" + globalName(x): true}
	case *ssa.Function:
		return provSet{"func:" + pa.c.funcKey(x): true}
	case *ssa.MakeClosure:
		out := provSet{"func:" + pa.c.funcKey(x.Fn.(*ssa.Function)): true}
		return out
	case *ssa.MakeMap:
		out := provSet{}
		for _, ref := range *x.Referrers() {
			if mu, ok := ref.(*ssa.MapUpdate); ok && mu.Map == ssa.Value(x) {
				out.add(pa.of(mu.Value, ctx))
			}
		}
		return out
	case *ssa.MakeSlice, *ssa.MakeChan:
		return provSet{}
	}
	return provSet{fmt.Sprintf("opaque:%T", v): true}
}

func isPointerToCell(fv *ssa.FreeVar) bool {
	_, ok := fv.Type().Underlying().(*types.Pointer)
	return ok
}

func (pa *provAnalysis) callProv(call *ssa.Call, result int, ctx *provCtx) provSet {
	cc := call.Common()
	if b, ok := cc.Value.(*ssa.Builtin); ok {
		switch b.Name() {
		case "append":
			return pa.union(ctx, cc.Args...)
		case "len", "cap":
			out := pa.union(ctx, cc.Args...)
			out["call:builtin."+b.Name()] = true
			return out
		}
		return pa.union(ctx, cc.Args...)
	}
	depth := 0
	if ctx != nil {
		depth = ctx.depth
	}
	if sc := cc.StaticCallee(); sc != nil && sc.Blocks != nil && pa.c.isModuleFunc(sc) && depth < pa.maxDepth {
		nctx := &provCtx{parent: ctx, call: cc, fn: sc, depth: depth + 1}
		out := provSet{}
		for _, b := range sc.Blocks {
			if ret, ok := b.Instrs[len(b.Instrs)-1].(*ssa.Return); ok {
				res := retResults(ret)
				if result < len(res) {
					out.add(pa.of(res[result], nctx))
				}
			}
		}
		out["via:"+pa.c.funcKey(sc)] = true
		return out
	}
	out := provSet{}
	// key enumeration of a map yields its keys, not its values
	if o := calleeObj(call); o != nil && o.Name() == "Keys" && o.Pkg() != nil && strings.HasSuffix(o.Pkg().Path(), "maps") && len(cc.Args) == 1 {
		if kp, ok := pa.mapKeysProv(cc.Args[0], ctx, 0); ok {
			kp["call:"+calleeName(call)] = true
			return kp
		}
	}
	for _, a := range cc.Args {
		out.add(pa.of(a, ctx))
	}
	if cc.IsInvoke() {
		out.add(pa.of(cc.Value, ctx))
	}
	out["call:"+calleeName(call)] = true
	return out
}

// mapKeysProv: provenance of the keys of a locally built map.
func (pa *provAnalysis) mapKeysProv(v ssa.Value, ctx *provCtx, depth int) (provSet, bool) {
	if depth > 6 {
		return nil, false
	}
	switch x := v.(type) {
	case *ssa.MakeMap:
		out := provSet{}
		for _, ref := range *x.Referrers() {
			if mu, ok := ref.(*ssa.MapUpdate); ok && mu.Map == ssa.Value(x) {
				out.add(pa.of(mu.Key, ctx))
			}
		}
		return out, true
	case *ssa.Parameter:
		if ctx != nil && ctx.fn == x.Parent() {
			for i, p := range ctx.fn.Params {
				if p == x && i < len(ctx.call.Args) {
					return pa.mapKeysProv(ctx.call.Args[i], ctx.parent, depth+1)
				}
			}
		}
		out := provSet{}
		found := false
		idx := -1
		for i, p := range x.Parent().Params {
			if p == x {
				idx = i
			}
		}
		for _, cs := range pa.callSites(x.Parent()) {
			if idx >= 0 && idx < len(cs.Common().Args) {
				if kp, ok := pa.mapKeysProv(cs.Common().Args[idx], nil, depth+1); ok {
					out.add(kp)
					found = true
				} else {
					return nil, false
				}
			}
		}
		return out, found
	case *ssa.ChangeType:
		return pa.mapKeysProv(x.X, ctx, depth+1)
	case *ssa.Phi:
		out := provSet{}
		for _, e := range x.Edges {
			kp, ok := pa.mapKeysProv(e, ctx, depth+1)
			if !ok {
				return nil, false
			}
			out.add(kp)
		}
		return out, true
	}
	return nil, false
}

// storesThroughTable: the address of the local was put into a row of a
// literal table ({&x, source}) and a loop stores through the row's pointer
// (*row.target = f(row.source)): the provenance of what is stored, evaluated
// for the rows that point at this local.
func (pa *provAnalysis) storesThroughTable(al *ssa.Alloc) provSet {
	out := provSet{}
	if pa.rowElem != nil || al.Referrers() == nil {
		return out
	}
	escapes := false
	for _, ref := range *al.Referrers() {
		if st, ok := ref.(*ssa.Store); ok && st.Val == ssa.Value(al) {
			escapes = true
		}
	}
	if !escapes {
		return out
	}
	forEachInstr(al.Parent(), func(in ssa.Instruction) {
		st, ok := in.(*ssa.Store)
		if !ok {
			return
		}
		ia, f, ok := loopElemField(st.Addr)
		if !ok {
			return
		}
		var arr *ssa.Alloc
		switch x := ia.X.(type) {
		case *ssa.Slice:
			arr, _ = x.X.(*ssa.Alloc)
		case *ssa.Alloc:
			arr = x
		}
		if arr == nil {
			return
		}
		for _, row := range tableRows(arr, ia) {
			if row[f] != ssa.Value(al) {
				continue
			}
			sub := newProv(pa.c)
			sub.rowElem, sub.rowBind = ia, row
			out.add(sub.of(st.Val, nil))
		}
	})
	return out
}
