package main

import (
	"fmt"
	"go/types"
	"sort"
	"strings"

	"golang.org/x/tools/go/ssa"
)

// Effect summaries of module functions (transitive over static calls, closures
// created and CHA-resolved interface calls into module code).

type effectSet map[string]bool

var streamWriteMethods = map[string]bool{
	"Write": true, "WriteString": true, "WriteByte": true, "WriteRune": true,
	"WriteHeader": true, "WriteGlobalHeader": true, "WriteTo": true, "ReadFrom": true, "Flush": true,
	"AddFile": true, "AddCustomTag": true, "Execute": true, "ExecuteTemplate": true,
}

var streamWriteFuncs = map[string]bool{
	"fmt.Fprint": true, "fmt.Fprintf": true, "fmt.Fprintln": true,
	"fmt.Print": true, "fmt.Printf": true, "fmt.Println": true,
	"io.Copy": true, "io.CopyN": true, "io.CopyBuffer": true, "io.WriteString": true,
}

var fsWriteFuncs = map[string]bool{
	"os.Create": true, "os.CreateTemp": true, "os.WriteFile": true, "os.Mkdir": true, "os.MkdirAll": true, "os.MkdirTemp": true,
	"os.Remove": true, "os.RemoveAll": true, "os.Rename": true, "os.Chmod": true, "os.Chown": true, "os.Lchown": true,
	"os.Chtimes": true, "os.Truncate": true, "os.Symlink": true, "os.Link": true, "os.Chdir": true, "os.Setenv": true, "os.Unsetenv": true,
	"io/ioutil.WriteFile": true, "io/ioutil.TempFile": true, "io/ioutil.TempDir": true,
}

func qualifiedName(o *types.Func) string {
	if o == nil || o.Pkg() == nil {
		return ""
	}
	sig := o.Type().(*types.Signature)
	if sig.Recv() != nil {
		return ""
	}
	return o.Pkg().Path() + "." + o.Name()
}

// directEffects of one function body.
func (c *Ctx) directEffects(fn *ssa.Function) effectSet {
	out := effectSet{}
	forEachInstr(fn, func(in ssa.Instruction) {
		switch x := in.(type) {
		case ssa.CallInstruction:
			cc := x.Common()
			if o := calleeObj(x); o != nil {
				q := qualifiedName(o)
				if streamWriteFuncs[q] {
					out["streamwrite"] = true
				}
				if fsWriteFuncs[q] {
					out["fswrite"] = true
				}
				if q == "os.OpenFile" && !openFileReadOnly(x) {
					out["fswrite"] = true
				}
				sig := o.Type().(*types.Signature)
				if sig.Recv() != nil && streamWriteMethods[o.Name()] && !isHashOrPureReceiver(sig.Recv().Type()) {
					out["streamwrite"] = true
				}
			} else if _, isB := cc.Value.(*ssa.Builtin); !isB {
				if _, isMC := cc.Value.(*ssa.MakeClosure); !isMC {
					// a call through a func-typed parameter that every module
					// call site binds to a known function is no unknown call:
					// those functions are summarised at the sites that pass them
					if _, isPrm := cc.Value.(*ssa.Parameter); !isPrm || len(calleeCandidates(c, cc)) == 0 {
						out["dynamiccall"] = true
					}
				}
			}
			if _, ok := in.(*ssa.Go); ok {
				out["go"] = true
			}
		case *ssa.Store:
			if g := rootGlobal(x.Addr); g != nil {
				out["globalwrite"] = true
			}
		case *ssa.MapUpdate:
			if g := rootGlobal(x.Map); g != nil {
				out["globalwrite"] = true
			}
		}
	})
	return out
}

func isHashOrPureReceiver(t types.Type) bool {
	s := types.TypeString(t, nil)
	return strings.HasPrefix(s, "hash.") || strings.Contains(s, "crypto/")
}

// openFileReadOnly: os.OpenFile with a constant flag without write bits.
func openFileReadOnly(call ssa.CallInstruction) bool {
	args := call.Common().Args
	if len(args) < 2 {
		return false
	}
	k, ok := args[1].(*ssa.Const)
	if !ok || k.Value == nil {
		return false
	}
	v, ok := int64Of(k)
	if !ok {
		return false
	}
	// O_WRONLY=1 O_RDWR=2 O_APPEND=0x400 O_CREATE=0x40 O_TRUNC=0x200 (linux)
	return v&(1|2|0x400|0x40|0x200) == 0
}

func int64Of(k *ssa.Const) (int64, bool) {
	if k == nil || k.Value == nil {
		return 0, false
	}
	return k.Int64(), true
}

// rootGlobal follows address arithmetic back to a package-level variable.
func rootGlobal(v ssa.Value) *ssa.Global {
	for i := 0; i < 20 && v != nil; i++ {
		switch x := v.(type) {
		case *ssa.Global:
			return x
		case *ssa.FieldAddr:
			v = x.X
		case *ssa.IndexAddr:
			v = x.X
		case *ssa.UnOp:
			v = x.X // load of a global holding a map/slice/pointer
		case *ssa.Slice:
			v = x.X
		case *ssa.ChangeType:
			v = x.X
		default:
			return nil
		}
	}
	return nil
}

// Effects computes transitive summaries for all module functions.
func (c *Ctx) Effects() map[*ssa.Function]effectSet {
	direct := map[*ssa.Function]effectSet{}
	callees := map[*ssa.Function][]*ssa.Function{}
	for _, fn := range c.ModFuncs {
		direct[fn] = c.directEffects(fn)
		seen := map[*ssa.Function]bool{}
		forEachInstr(fn, func(in ssa.Instruction) {
			add := func(f *ssa.Function) {
				if f != nil && f.Blocks != nil && c.isModuleFunc(f) && !seen[f] {
					seen[f] = true
					callees[fn] = append(callees[fn], f)
				}
			}
			if call, ok := in.(ssa.CallInstruction); ok {
				if sc := call.Common().StaticCallee(); sc != nil {
					add(sc)
				} else if call.Common().IsInvoke() {
					m := call.Common().Method
					it, _ := call.Common().Value.Type().Underlying().(*types.Interface)
					for _, cand := range c.ModFuncs {
						if cand.Signature.Recv() != nil && cand.Name() == m.Name() && it != nil && types.Implements(cand.Signature.Recv().Type(), it) {
							add(cand)
						}
					}
				}
			}
			if mc, ok := in.(*ssa.MakeClosure); ok {
				if f, ok := mc.Fn.(*ssa.Function); ok {
					add(f)
				}
			}
			var ops []*ssa.Value
			for _, op := range in.Operands(ops) {
				if f, ok := (*op).(*ssa.Function); ok {
					add(f)
				}
			}
		})
	}
	out := map[*ssa.Function]effectSet{}
	for fn, d := range direct {
		s := effectSet{}
		for k := range d {
			s[k] = true
		}
		out[fn] = s
	}
	for changed := true; changed; {
		changed = false
		for fn, cs := range callees {
			for _, cal := range cs {
				for k := range out[cal] {
					if !out[fn][k] {
						out[fn][k] = true
						changed = true
					}
				}
			}
		}
	}
	return out
}

// ---------------------------------------------------------------------------
// Map-range classifier (DESIGN A8, rule T2)

type mapRange struct {
	Fn     *ssa.Function
	Range  *ssa.Range
	Next   *ssa.Next
	Body   *ssa.BasicBlock // first block of the loop body
	Key    ssa.Value       // extract #1 (may be nil)
	Val    ssa.Value       // extract #2 (may be nil)
	Tokens []string
	Idiom  string
}

func findMapRanges(fn *ssa.Function) []*mapRange {
	var out []*mapRange
	forEachInstr(fn, func(in ssa.Instruction) {
		rg, ok := in.(*ssa.Range)
		if !ok {
			return
		}
		if _, isMap := rg.X.Type().Underlying().(*types.Map); !isMap {
			return
		}
		mr := &mapRange{Fn: fn, Range: rg}
		for _, ref := range *rg.Referrers() {
			if nx, ok := ref.(*ssa.Next); ok {
				mr.Next = nx
			}
		}
		if mr.Next == nil {
			return
		}
		for _, ref := range *mr.Next.Referrers() {
			ex, ok := ref.(*ssa.Extract)
			if !ok {
				continue
			}
			switch ex.Index {
			case 0:
				for _, r2 := range *ex.Referrers() {
					if ifi, ok := r2.(*ssa.If); ok {
						mr.Body = ifi.Block().Succs[0]
					}
				}
			case 1:
				mr.Key = ex
			case 2:
				mr.Val = ex
			}
		}
		if mr.Body != nil {
			out = append(out, mr)
		}
	})
	return out
}

func (mr *mapRange) bodyBlocks() []*ssa.BasicBlock {
	var out []*ssa.BasicBlock
	for _, b := range mr.Fn.Blocks {
		if mr.Body.Dominates(b) {
			out = append(out, b)
		}
	}
	return out
}

var pureStdPkgs = map[string]bool{
	"strings": true, "path": true, "path/filepath": true, "errors": true, "strconv": true,
	"unicode": true, "unicode/utf8": true, "slices": true, "sort": true, "bytes": true,
}

var pureStdFuncs = map[string]bool{
	"os.Expand": true, "os.Stat": true, "os.Lstat": true, "os.Readlink": true,
	"fmt.Sprintf": true, "fmt.Sprint": true, "fmt.Errorf": true, "os.ExpandEnv": false,
}

// derivesFromEntry: address rooted in the ranged map's element for the loop
// key (m[k], the loop value, or a field/pointee of either).
func (mr *mapRange) derivesFromEntry(v ssa.Value) bool {
	for i := 0; i < 20 && v != nil; i++ {
		if v == mr.Val {
			return true
		}
		switch x := v.(type) {
		case *ssa.FieldAddr:
			v = x.X
		case *ssa.IndexAddr:
			v = x.X
		case *ssa.UnOp:
			v = x.X
		case *ssa.Lookup:
			if x.Index == mr.Key && mapSameRoot(x.X, mr.Range.X) {
				return true
			}
			return false
		case *ssa.Extract:
			v = x.Tuple
		default:
			return false
		}
	}
	return false
}

// mapSameRoot: both values are loads of the same field/variable chain (the
// ranged map re-read inside the body, e.g. c.Deb.Fields).
func mapSameRoot(a, b ssa.Value) bool {
	return exprKey(a) != "" && exprKey(a) == exprKey(b)
}

// exprKey renders an address/load chain structurally ("" when not a chain).
func exprKey(v ssa.Value) string {
	switch x := v.(type) {
	case *ssa.Parameter:
		return "param:" + x.Name()
	case *ssa.FreeVar:
		return "free:" + x.Name()
	case *ssa.Global:
		return "global:" + x.String()
	case *ssa.Alloc:
		return fmt.Sprintf("alloc:%p", x)
	case *ssa.MakeMap:
		return fmt.Sprintf("makemap:%p", x)
	case *ssa.FieldAddr:
		if k := exprKey(x.X); k != "" {
			return k + "." + fieldName(x.X.Type(), x.Field)
		}
	case *ssa.UnOp:
		if k := exprKey(x.X); k != "" {
			return "*" + k
		}
	case *ssa.Lookup:
		if k := exprKey(x.X); k != "" {
			if ik := exprKey(x.Index); ik != "" {
				return k + "[" + ik + "]"
			}
			if kc, ok := x.Index.(*ssa.Const); ok {
				return k + "[" + kc.String() + "]"
			}
		}
	case *ssa.Extract:
		return fmt.Sprintf("extract:%p#%d", x.Tuple, x.Index)
	case *ssa.Phi:
		return fmt.Sprintf("phi:%p", x)
	}
	return ""
}

func (mr *mapRange) classify(c *Ctx, eff map[*ssa.Function]effectSet) {
	tok := map[string]bool{}
	inBody := map[*ssa.BasicBlock]bool{}
	for _, b := range mr.bodyBlocks() {
		inBody[b] = true
	}
	for b := range inBody {
		for _, in := range b.Instrs {
			switch x := in.(type) {
			case *ssa.MapUpdate:
				if x.Key == mr.Key {
					tok["mapupdate:loopkey"] = true
				} else {
					tok["mapupdate:other"] = true
				}
			case *ssa.Store:
				switch {
				case mr.derivesFromEntry(x.Addr):
					tok["store:entry"] = true
				case isTempAlloc(x.Addr, inBody):
					// temporaries that live entirely inside the body (variadic
					// argument arrays, per-iteration copies)
				case isLocalAlloc(x.Addr):
					tok["store:local"] = true
				case rootIsCallResult(x.Addr):
					tok["store:callresult"] = true
				default:
					tok["store:other"] = true
				}
			case *ssa.Return:
				if len(x.Results) > 0 && types.Identical(x.Results[len(x.Results)-1].Type(), types.Universe.Lookup("error").Type()) {
					tok["return:error"] = true
				} else {
					tok["return:other"] = true
				}
			case *ssa.Go:
				tok["go"] = true
			case *ssa.Defer:
				tok["defer"] = true
			case *ssa.Send:
				tok["send"] = true
			case *ssa.Call:
				cc := x.Common()
				if bi, ok := cc.Value.(*ssa.Builtin); ok {
					switch bi.Name() {
					case "delete":
						keyArg := cc.Args[1]
						if ld, ok := keyArg.(*ssa.UnOp); ok {
							if w := cellValue(ld); w != nil {
								keyArg = w
							}
						}
						if len(cc.Args) == 2 && keyArg == mr.Key {
							tok["delete:loopkey"] = true
						} else {
							tok["delete:other"] = true
						}
					case "append":
						if mr.appendSortedAfterLoop(x, inBody) {
							tok["append:sorted"] = true
						} else {
							tok["append:unsorted"] = true
						}
					case "len", "cap", "min", "max":
					default:
						tok["builtin:"+bi.Name()] = true
					}
					continue
				}
				if o := calleeObj(x); o != nil {
					q := qualifiedName(o)
					pk := ""
					if o.Pkg() != nil {
						pk = o.Pkg().Path()
					}
					if sc := cc.StaticCallee(); sc != nil && c.isModuleFunc(sc) && sc.Blocks != nil {
						e := eff[sc]
						bad := []string{}
						for _, k := range []string{"streamwrite", "fswrite", "globalwrite", "dynamiccall", "go"} {
							if e[k] {
								bad = append(bad, k)
							}
						}
						if len(bad) == 0 {
							tok["call:clean"] = true
						} else {
							tok["call:impure:"+funcObjName(o)+"("+strings.Join(bad, "+")+")"] = true
						}
						continue
					}
					if pureStdFuncs[q] || (pureStdPkgs[pk] && o.Type().(*types.Signature).Recv() == nil) {
						tok["call:pure"] = true
						continue
					}
					tok["call:other:"+funcObjName(o)] = true
					continue
				}
				// a local closure called directly: summarised like any module callee
				if sc := cc.StaticCallee(); sc != nil && sc.Blocks != nil {
					e := eff[sc]
					bad := []string{}
					for _, k := range []string{"streamwrite", "fswrite", "globalwrite", "dynamiccall", "go"} {
						if e[k] {
							bad = append(bad, k)
						}
					}
					if len(bad) == 0 {
						tok["call:clean"] = true
					} else {
						tok["call:impure:"+sc.Name()+"("+strings.Join(bad, "+")+")"] = true
					}
					continue
				}
				tok["call:dynamic"] = true
			}
		}
	}
	// "first one wins": a lookup in a map the body itself fills, whose found
	// edge goes on with the next element instead of leaving the function -
	// which entry is kept then depends on the order the map is ranged in
	written := map[string]bool{}
	for b := range inBody {
		for _, in := range b.Instrs {
			if mu, ok := in.(*ssa.MapUpdate); ok {
				if k := exprKey(mu.Map); k != "" {
					written[k] = true
				}
			}
		}
	}
	header := mr.Next.Block()
	for b := range inBody {
		for _, in := range b.Instrs {
			lk, ok := in.(*ssa.Lookup)
			if !ok || !lk.CommaOk || lk.Referrers() == nil || !written[exprKey(lk.X)] {
				continue
			}
			for _, ref := range *lk.Referrers() {
				ex, ok := ref.(*ssa.Extract)
				if !ok || ex.Index != 1 || ex.Referrers() == nil {
					continue
				}
				for _, r2 := range *ex.Referrers() {
					ifi, ok := r2.(*ssa.If)
					if !ok {
						continue
					}
					found := ifi.Block().Succs[0]
					seen := map[*ssa.BasicBlock]bool{}
					var reach func(b *ssa.BasicBlock) bool
					reach = func(b *ssa.BasicBlock) bool {
						if b == header {
							return true
						}
						if seen[b] || !inBody[b] {
							return false
						}
						seen[b] = true
						// the other branch of the very test does not count
						for _, s := range b.Succs {
							if reach(s) {
								return true
							}
						}
						return false
					}
					// only a found-edge that skips the rest of the body (it
					// does not pass the update of that map) is "first wins"
					skips := false
					if reach(found) {
						skips = true
						seen2 := map[*ssa.BasicBlock]bool{}
						var viaUpdate func(b *ssa.BasicBlock) bool
						viaUpdate = func(b *ssa.BasicBlock) bool {
							if seen2[b] || !inBody[b] {
								return false
							}
							seen2[b] = true
							for _, i2 := range b.Instrs {
								if mu, ok := i2.(*ssa.MapUpdate); ok && exprKey(mu.Map) == exprKey(lk.X) {
									return true
								}
							}
							for _, s := range b.Succs {
								if viaUpdate(s) {
									return true
								}
							}
							return false
						}
						if viaUpdate(found) {
							skips = false // found entries are replaced/updated: last one wins, same for all orders only if keyed by loop key
						}
					}
					if skips {
						tok["skip:first-wins"] = true
					}
				}
			}
		}
	}
	for k := range tok {
		mr.Tokens = append(mr.Tokens, k)
	}
	sort.Strings(mr.Tokens)
	subset := func(allowed ...string) bool {
		al := map[string]bool{}
		for _, a := range allowed {
			al[a] = true
		}
		for k := range tok {
			if !al[k] {
				return false
			}
		}
		return true
	}
	switch {
	case subset("mapupdate:loopkey", "delete:loopkey", "store:entry", "call:pure", "call:clean"):
		mr.Idiom = "(i) only writes/deletes entries keyed by the loop key"
	case subset("append:sorted", "call:pure"):
		mr.Idiom = "(ii) collected, then sorted before any other use"
	case subset("return:error", "call:pure", "call:clean", "store:local"):
		mr.Idiom = "(iii) the body's only effect is returning an error"
	}
}

// isTempAlloc: the stored-to local is referenced only from inside the loop body.
func isTempAlloc(v ssa.Value, inBody map[*ssa.BasicBlock]bool) bool {
	for i := 0; i < 20 && v != nil; i++ {
		switch x := v.(type) {
		case *ssa.Alloc:
			if !inBody[x.Block()] {
				return false
			}
			return refsInside(x, inBody, 0)
		case *ssa.FieldAddr:
			v = x.X
		case *ssa.IndexAddr:
			v = x.X
		default:
			return false
		}
	}
	return false
}

func refsInside(v ssa.Value, inBody map[*ssa.BasicBlock]bool, depth int) bool {
	if depth > 6 || v.Referrers() == nil {
		return true
	}
	for _, ref := range *v.Referrers() {
		if !inBody[ref.Block()] {
			return false
		}
		switch x := ref.(type) {
		case *ssa.FieldAddr:
			if !refsInside(x, inBody, depth+1) {
				return false
			}
		case *ssa.IndexAddr:
			if !refsInside(x, inBody, depth+1) {
				return false
			}
		case *ssa.Slice:
			if !refsInside(x, inBody, depth+1) {
				return false
			}
		}
	}
	return true
}

func rootIsCallResult(v ssa.Value) bool {
	for i := 0; i < 20 && v != nil; i++ {
		switch x := v.(type) {
		case *ssa.Call:
			return true
		case *ssa.Extract:
			v = x.Tuple
		case *ssa.FieldAddr:
			v = x.X
		case *ssa.IndexAddr:
			v = x.X
		default:
			return false
		}
	}
	return false
}

func isLocalAlloc(v ssa.Value) bool {
	for i := 0; i < 20 && v != nil; i++ {
		switch x := v.(type) {
		case *ssa.Alloc:
			return true
		case *ssa.FieldAddr:
			v = x.X
		case *ssa.IndexAddr:
			v = x.X
		default:
			return false
		}
	}
	return false
}

// appendSortedAfterLoop: the appended slice leaves the loop only through the
// loop-header phi, and every use of that phi outside the loop is a sort call
// or is dominated by one.
func (mr *mapRange) appendSortedAfterLoop(app *ssa.Call, inBody map[*ssa.BasicBlock]bool) bool {
	// the accumulator phi lives in the header block (block of Next)
	header := mr.Next.Block()
	var phi *ssa.Phi
	for _, ref := range *app.Referrers() {
		if p, ok := ref.(*ssa.Phi); ok && p.Block() == header {
			phi = p
		}
	}
	if phi == nil {
		return false
	}
	var sortCall ssa.Instruction
	var outside []ssa.Instruction
	for _, ref := range *phi.Referrers() {
		if inBody[ref.Block()] || ref.Block() == header && ref == ssa.Instruction(phi) {
			continue
		}
		outside = append(outside, ref)
	}
	isSort := func(in ssa.Instruction) bool {
		call, ok := in.(*ssa.Call)
		if !ok {
			return false
		}
		o := calleeObj(call)
		if o == nil || o.Pkg() == nil {
			return false
		}
		switch o.Pkg().Path() + "." + o.Name() {
		case "sort.Strings", "sort.Sort", "sort.Stable", "sort.Slice", "sort.SliceStable", "slices.Sort", "slices.SortFunc", "slices.SortStableFunc":
			return true
		}
		return false
	}
	for _, u := range outside {
		if isSort(u) {
			sortCall = u
		}
		// sort.Sort(res) wraps res in an interface first
		if mi, ok := u.(*ssa.MakeInterface); ok {
			for _, r2 := range *mi.Referrers() {
				if isSort(r2) {
					sortCall = r2
				}
			}
		}
	}
	if sortCall == nil {
		return false
	}
	for _, u := range outside {
		if u == sortCall {
			continue
		}
		if mi, ok := u.(*ssa.MakeInterface); ok {
			allSort := true
			for _, r2 := range *mi.Referrers() {
				if r2 != sortCall {
					allSort = false
				}
			}
			if allSort {
				continue
			}
		}
		if !instrDominates(sortCall, u) {
			return false
		}
	}
	return true
}

// reviewed exceptions, pinned by effect signature (DESIGN C07-T2 (iv))
var mapRangeExceptions = map[string]struct {
	tokens string
	reason string
}{
	"files.addGlobbedFiles": {
		tokens: "call:clean,call:pure,mapupdate:other,return:error,store:callresult",
		reason: "inserts are keyed by the normalised destination of the loop entry (distinct keys commute), parents are set-like implicit directories, and the only other effect is the collision/parent error exit, which is reached for the same inputs whatever the order",
	},
}

// checkMapRanges applies T2 to every map range of the selected functions and
// to unsorted key-enumeration calls. Returns the number of instances.
func checkMapRanges(c *Ctx, r *Report, rule string, sel func(*ssa.Function) bool) int {
	eff := c.Effects()
	n := 0
	for _, fn := range c.ModFuncs {
		if !sel(fn) {
			continue
		}
		for i, mr := range findMapRanges(fn) {
			n++
			mr.classify(c, eff)
			construct := fmt.Sprintf("map-range#%d in %s", i+1, c.funcKey(fn))
			toks := strings.Join(mr.Tokens, ",")
			if mr.Idiom != "" {
				r.Pass(rule, construct, c.instrPos(mr.Range), mr.Idiom+" [effects: "+toks+"]")
				continue
			}
			if ex, ok := mapRangeExceptions[c.funcKey(fn)]; ok && ex.tokens == toks {
				r.Pass(rule, construct, c.instrPos(mr.Range), "(iv) reviewed exception pinned by effect signature ["+toks+"]: "+ex.reason)
				continue
			}
			r.Fail(rule, construct, c.instrPos(mr.Range), "iteration over a map whose body has order-dependent effects ["+toks+"]: the result can depend on hash-map iteration order")
		}
		// unsorted key enumeration
		forEachInstr(fn, func(in ssa.Instruction) {
			call, ok := in.(*ssa.Call)
			if !ok {
				return
			}
			o := calleeObj(call)
			if o == nil || o.Pkg() == nil {
				return
			}
			q := o.Pkg().Path() + "." + o.Name()
			switch q {
			case "golang.org/x/exp/maps.Keys", "golang.org/x/exp/maps.Values", "maps.Keys", "maps.Values", "reflect.MapKeys", "reflect.MapRange":
			default:
				if !(o.Name() == "MapKeys" || o.Name() == "MapRange") || o.Pkg().Path() != "reflect" {
					return
				}
			}
			n++
			construct := fmt.Sprintf("key-enumeration %s in %s", o.Name(), c.funcKey(fn))
			ok2 := false
			for _, ref := range *call.Referrers() {
				if rc, ok := ref.(*ssa.Call); ok {
					if ro := calleeObj(rc); ro != nil && ro.Pkg() != nil {
						switch ro.Pkg().Path() + "." + ro.Name() {
						case "sort.Strings", "slices.Sort", "sort.Slice", "slices.SortFunc":
							ok2 = true
							for _, other := range *call.Referrers() {
								if other != ref && !instrDominates(rc, other) {
									ok2 = false
								}
							}
						}
					}
				}
			}
			r.Check(ok2, rule, construct, c.instrPos(call), "unsorted key enumeration must be sorted before any other use")
		})
	}
	return n
}
