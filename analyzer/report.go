package main

import (
	"encoding/json"
	"fmt"
	"os"
	"path/filepath"
	"sort"
	"strconv"
	"strings"
)

func strconvUnquote(s string) (string, error) { return strconv.Unquote(s) }

// Obligation is one decided fact: rule applied to a construct.
type Obligation struct {
	Rule      string `json:"rule"`
	Construct string `json:"construct"` // line-independent key
	Pos       string `json:"pos,omitempty"`
	OK        bool   `json:"ok"`
	Detail    string `json:"detail,omitempty"`
	Known     bool   `json:"known_finding,omitempty"`
}

// Report accumulates the obligations of one property check.
type Report struct {
	Property    string
	Obls        []Obligation
	Notes       []string
	Floors      map[string][2]int // rule -> {matched, floor}
	Analysed    map[string]int    // free-form counters (functions, call sites, ...)
	Assumptions []string
	Explanation string
	Exhaustive  bool
	Rules       []string
}

func newReport(id string) *Report {
	return &Report{Property: id, Floors: map[string][2]int{}, Analysed: map[string]int{}}
}

func (r *Report) Pass(rule, construct, pos, detail string) {
	r.Obls = append(r.Obls, Obligation{Rule: rule, Construct: construct, Pos: pos, OK: true, Detail: detail})
}

func (r *Report) Fail(rule, construct, pos, detail string) {
	r.Obls = append(r.Obls, Obligation{Rule: rule, Construct: construct, Pos: pos, OK: false, Detail: detail})
}

func (r *Report) Check(ok bool, rule, construct, pos, detail string) {
	if ok {
		r.Pass(rule, construct, pos, detail)
	} else {
		r.Fail(rule, construct, pos, detail)
	}
}

func (r *Report) Note(format string, a ...any) {
	r.Notes = append(r.Notes, fmt.Sprintf(format, a...))
}

func (r *Report) Count(key string, n int) { r.Analysed[key] += n }

// Floor records an instance floor: a rule that matched fewer instances than
// were confirmed by hand on the pinned tree fails (never vacuously true).
func (r *Report) Floor(rule string, matched, floor int) {
	r.Floors[rule] = [2]int{matched, floor}
	if matched < floor {
		r.Fail("instance-floor", rule, "-", fmt.Sprintf("rule %s matched %d instance(s), fewer than the %d confirmed on the pinned tree: the mechanism it anchors on is missing or rewritten beyond the enumerated idioms", rule, matched, floor))
	}
}

func (r *Report) Unresolved(role, detail string) {
	r.Fail("anchor-unresolved", role, "-", detail)
}

// KnownFinding is one entry of /verif/known_findings.json.
type KnownFinding struct {
	Property  string `json:"property"`
	Rule      string `json:"rule"`
	Construct string `json:"construct"`
	What      string `json:"what"`
	Status    string `json:"status"` // "known" | "fixed"
	Commit    string `json:"commit,omitempty"`
}

func loadKnown(path string) ([]KnownFinding, error) {
	b, err := os.ReadFile(path)
	if err != nil {
		if os.IsNotExist(err) {
			return nil, nil
		}
		return nil, err
	}
	var out []KnownFinding
	if err := json.Unmarshal(b, &out); err != nil {
		return nil, fmt.Errorf("%s: %w", path, err)
	}
	return out, nil
}

type evidence struct {
	PropertyID  string         `json:"property_id"`
	Tier        string         `json:"tier"`
	Seed        int            `json:"seed"`
	Level       string         `json:"level"`
	Coverage    map[string]any `json:"coverage"`
	Assumptions []string       `json:"assumptions"`
	WallS       float64        `json:"wall_s"`
	Violations  int            `json:"violations"`
}

// finish applies the known-findings file, writes evidence and replay files,
// prints the protocol lines and returns the exit code.
func (r *Report) finish(c *Ctx, verifDir, outDir, tier string, seed int, wall float64) int {
	known, err := loadKnown(filepath.Join(verifDir, "known_findings.json"))
	if err != nil {
		fmt.Fprintf(os.Stderr, "nfpmcheck: %v\n", err)
		return 2
	}
	sort.SliceStable(r.Obls, func(i, j int) bool {
		a, b := r.Obls[i], r.Obls[j]
		if a.Rule != b.Rule {
			return a.Rule < b.Rule
		}
		return a.Construct < b.Construct
	})
	usedKnown := map[int]bool{}
	var violations []Obligation
	var knownHits []KnownFinding
	discharged := 0
	for i := range r.Obls {
		o := &r.Obls[i]
		if o.OK {
			discharged++
			continue
		}
		matched := false
		for k, kf := range known {
			if kf.Status != "known" || kf.Property != r.Property {
				continue
			}
			if kf.Rule == o.Rule && kf.Construct == o.Construct {
				matched = true
				o.Known = true
				if !usedKnown[k] {
					usedKnown[k] = true
					knownHits = append(knownHits, kf)
				}
				break
			}
		}
		if !matched {
			violations = append(violations, *o)
		}
	}

	evDir := filepath.Join(outDir, "evidence")
	replayDir := filepath.Join(evDir, "replay")
	_ = os.MkdirAll(replayDir, 0o755)
	// remove stale replay files of this property
	if olds, _ := filepath.Glob(filepath.Join(replayDir, r.Property+"-*.json")); olds != nil {
		for _, o := range olds {
			_ = os.Remove(o)
		}
	}

	for _, kf := range knownHits {
		fmt.Printf("KNOWN-FINDING: property=%s rule=%s construct=%q %s\n", kf.Property, kf.Rule, kf.Construct, kf.What)
	}
	for i, v := range violations {
		p := filepath.Join(replayDir, fmt.Sprintf("%s-%d.json", r.Property, i+1))
		b, _ := json.MarshalIndent(map[string]any{
			"property":  r.Property,
			"rule":      v.Rule,
			"construct": v.Construct,
			"pos":       v.Pos,
			"detail":    v.Detail,
			"tier":      tier,
		}, "", " ")
		_ = os.WriteFile(p, append(b, '\n'), 0o644)
		fmt.Printf("VIOLATION property=%s replay=%s\n", r.Property, p)
		fmt.Printf("  rule=%s construct=%q at %s: %s\n", v.Rule, v.Construct, v.Pos, v.Detail)
	}

	// samples: all failures, then a spread of discharged obligations
	var samples []any
	for _, o := range r.Obls {
		if !o.OK {
			samples = append(samples, o)
		}
	}
	perRule := map[string]int{}
	for _, o := range r.Obls {
		if o.OK && perRule[o.Rule] < 6 {
			perRule[o.Rule]++
			samples = append(samples, o)
		}
	}
	ruleCounts := map[string]map[string]int{}
	distinct := map[string]bool{}
	for _, o := range r.Obls {
		m := ruleCounts[o.Rule]
		if m == nil {
			m = map[string]int{}
			ruleCounts[o.Rule] = m
		}
		m["obligations"]++
		if o.OK {
			m["discharged"]++
		}
		distinct[o.Rule+"\x00"+o.Construct] = true
	}
	floors := map[string]any{}
	for k, v := range r.Floors {
		floors[k] = map[string]int{"matched": v[0], "floor": v[1]}
	}
	pkgs := 0
	funcs := 0
	if c != nil {
		pkgs = len(c.Pkgs)
		funcs = len(c.ModFuncs)
	}
	cov := map[string]any{
		"explanation":         r.Explanation,
		"obligations":         len(r.Obls),
		"discharged":          discharged,
		"evaluations":         len(r.Obls),
		"distinct_nontrivial": len(distinct),
		"rule":                "one obligation per (rule, construct) instance found in /repo's current source; distinct = distinct (rule, construct) keys; every instance is non-trivial in the sense that it names a concrete code construct (function, call site, literal row, table cell) the rule was applied to",
		"rules":               r.Rules,
		"per_rule":            ruleCounts,
		"instance_floors":     floors,
		"analysed":            r.Analysed,
		"packages_loaded":     pkgs,
		"module_functions":    funcs,
		"samples":             samples,
		"exhaustive":          r.Exhaustive,
		"notes":               append([]string{}, r.Notes...),
		"known_findings_hit":  knownHits,
		"checker_cmd":         fmt.Sprintf("bin/nfpmcheck -property %s -tier %s", r.Property, tier),
		"trusted_base":        []string{"go/types type checker", "golang.org/x/tools/go/ssa v0.29.0 construction and dominator tree", "/verif/spec oracle tables (transcribed from the property statements)"},
	}
	ev := evidence{
		PropertyID:  r.Property,
		Tier:        tier,
		Seed:        seed,
		Level:       "other",
		Coverage:    cov,
		Assumptions: r.Assumptions,
		WallS:       wall,
		Violations:  len(violations),
	}
	if ev.Assumptions == nil {
		ev.Assumptions = []string{}
	}
	b, _ := json.MarshalIndent(ev, "", " ")
	if err := os.WriteFile(filepath.Join(evDir, r.Property+".json"), append(b, '\n'), 0o644); err != nil {
		fmt.Fprintf(os.Stderr, "nfpmcheck: write evidence: %v\n", err)
		return 2
	}
	fmt.Printf("%s tier=%s obligations=%d discharged=%d known=%d violations=%d wall=%.1fs\n",
		r.Property, tier, len(r.Obls), discharged, len(r.Obls)-discharged-len(violations), len(violations), wall)
	if len(violations) > 0 {
		return 1
	}
	return 0
}

func joinSorted(m map[string]bool) string {
	var s []string
	for k := range m {
		s = append(s, k)
	}
	sort.Strings(s)
	return strings.Join(s, ",")
}

// importRules runs another property's check and copies the obligations of
// the named rules that are necessary conditions of this property as well
// (select == nil: every obligation of the rule; otherwise only constructs it
// accepts). Unresolved anchors of the other check whose construct contains
// one of `anchors` are copied too, so a lost anchor cannot silently empty
// the import. Returns the number of obligations copied.
func importRules(c *Ctx, r *Report, check func(*Ctx, *Report), prefix string, rules []string, sel func(Obligation) bool, anchors ...string) int {
	tmp := newReport("tmp")
	check(c, tmp)
	want := map[string]bool{}
	for _, x := range rules {
		want[x] = true
	}
	n := 0
	for _, o := range tmp.Obls {
		switch {
		case want[o.Rule] && (sel == nil || sel(o)):
			o.Rule = prefix + o.Rule
			r.Obls = append(r.Obls, o)
			n++
		case o.Rule == "anchor-unresolved":
			for _, a := range anchors {
				if strings.Contains(o.Construct, a) {
					r.Obls = append(r.Obls, o)
					n++
				}
			}
		}
	}
	return n
}
