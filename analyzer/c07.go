package main

import (
	"fmt"
	"go/token"
	"go/types"
	"regexp"
	"strings"

	"golang.org/x/tools/go/ssa"
)

func init() { register("C07", checkC07) }

// scanHit is one occurrence of a construct whose expected count on nfpm is
// zero outside an enumerated gate.
type scanHit struct {
	Kind   string
	Fn     *ssa.Function
	In     ssa.Instruction
	Detail string
}

var nondetCalls = map[string]string{
	"time.Now": "clock", "time.Since": "clock", "time.Until": "clock",
	"os.Hostname": "hostname",
	"os.Getenv":   "env", "os.LookupEnv": "env", "os.Environ": "env", "os.ExpandEnv": "env",
	"os.Getpid": "pid", "os.Getppid": "pid", "os.Getuid": "pid", "os.Getgid": "pid", "os.Geteuid": "pid", "os.Getegid": "pid",
	"os.Getwd": "cwd", "os.Executable": "cwd", "os.UserHomeDir": "env", "os.TempDir": "env",
	"runtime.NumCPU": "cpu", "runtime.GOMAXPROCS": "cpu", "runtime.NumGoroutine": "cpu",
	"os/user.Current": "user", "os/user.Lookup": "user",
}

// scanNondeterminism lists calls to (and function-value references of)
// nondeterminism sources.
func scanNondeterminism(fns []*ssa.Function) []scanHit {
	var hits []scanHit
	for _, fn := range fns {
		forEachInstr(fn, func(in ssa.Instruction) {
			if call, ok := in.(ssa.CallInstruction); ok {
				if o := calleeObj(call); o != nil {
					q := qualifiedName(o)
					if k, ok := nondetCalls[q]; ok {
						hits = append(hits, scanHit{k, fn, in, q})
					}
					if o.Pkg() != nil {
						switch o.Pkg().Path() {
						case "math/rand", "math/rand/v2":
							hits = append(hits, scanHit{"rand", fn, in, "math/rand." + o.Name()})
						case "crypto/rand":
							hits = append(hits, scanHit{"cryptorand", fn, in, "crypto/rand." + o.Name()})
						}
					}
				}
			}
			var ops []*ssa.Value
			for _, op := range in.Operands(ops) {
				if op == nil || *op == nil {
					continue
				}
				if f, ok := (*op).(*ssa.Function); ok && f.Object() != nil {
					if _, isCall := in.(ssa.CallInstruction); isCall && in.(ssa.CallInstruction).Common().Value == *op {
						continue
					}
					if fo, ok := f.Object().(*types.Func); ok {
						q := qualifiedName(fo)
						if k, ok := nondetCalls[q]; ok {
							hits = append(hits, scanHit{k + "-ref", fn, in, q + " (as a value)"})
						}
					}
				}
				if g, ok := (*op).(*ssa.Global); ok && g.Pkg != nil && g.Pkg.Pkg != nil && g.Pkg.Pkg.Path() == "crypto/rand" {
					hits = append(hits, scanHit{"cryptorand", fn, in, "crypto/rand." + g.Name()})
				}
			}
		})
	}
	return hits
}

func scanGoroutines(fns []*ssa.Function) []scanHit {
	var hits []scanHit
	for _, fn := range fns {
		forEachInstr(fn, func(in ssa.Instruction) {
			if _, ok := in.(*ssa.Go); ok {
				hits = append(hits, scanHit{"go", fn, in, "go statement"})
			}
		})
	}
	return hits
}

// scanCompressorHeaderStores: stores into gzip/pgzip header fields.
func scanCompressorHeaderStores(fns []*ssa.Function) []scanHit {
	var hits []scanHit
	for _, fn := range fns {
		forEachInstr(fn, func(in ssa.Instruction) {
			st, ok := in.(*ssa.Store)
			if !ok {
				return
			}
			fa, ok := st.Addr.(*ssa.FieldAddr)
			if !ok {
				return
			}
			path, root := addrPath(fa)
			if root == nil {
				return
			}
			tn := types.TypeString(derefType(root.Type()), nil)
			if !(strings.HasSuffix(tn, "gzip.Writer") || strings.HasSuffix(tn, "gzip.Header")) {
				return
			}
			if _, isConst := st.Val.(*ssa.Const); isConst {
				return
			}
			hits = append(hits, scanHit{"gzip-header", fn, in, tn + "." + path + " set from a non-constant"})
		})
	}
	return hits
}

// mtimeSource: the value is (derived from) the configured package mtime or an
// entry's own mtime.
func mtimeAtoms(p provSet) []string {
	var out []string
	for _, a := range p.list() {
		if a == "Info.MTime" || a == "FileInfo.MTime" {
			out = append(out, a)
		}
	}
	return out
}

func checkC07(c *Ctx, r *Report) {
	r.Rules = []string{"T1 single clock gate", "T1 gate fed from configured/entry mtime", "T1 entry mtime defaulting", "T1 host-name gate", "T1 no other nondeterminism source", "T2 order-insensitive map iteration", "T4 no non-constant compressor header field", "T5 no goroutine", "fixture (positive examples)", "T6-no-carried-state no package-level variable is written on a packaging path", "T7-template-zone changelog templates of nfpm's own use no local-zone date function", "fresh-G4/G4-pool buffers under archive writers start empty (imported from C11)", "T1-gate-shape the clock gate reads the clock only after every configured time was found zero", "T2 (extended) first-one-wins skips inside map ranges", "T1-defaults-kept the file info of an entry that went through the defaults is not replaced afterwards", "T1-env-default a time taken from the environment or the clock is stored into Info.MTime only where the configured one is zero"}
	r.Explanation = "Who-may-call and effect rules over go/ssa on all non-test module code: the wall clock is read only inside internal/modtime.Get and every call of it passes the configured package mtime or the entry's mtime first (so a configured mtime makes the clock fallback dead); prepared entries get the package mtime when they have none; os.Hostname is reachable only when no build host is configured (decided by abstract evaluation with the field fixed); no other nondeterminism source (environment, math/rand, pid, cwd, CPU count, user) is called from packaging code outside the enumerated gates; every map iteration is order-insensitive by an enumerated idiom or sorted; compressor header fields get no non-constant value; module code starts no goroutine. Each zero-count rule is run against a positive fixture on every run. These are necessary conditions for reproducible output; byte equality of two runs is not computed."
	r.Explanation += " (T6) no function on a packaging path writes a package-level variable, directly or through sync.Map: nothing computed for one build can reach the next build in the same process."
	r.Explanation += " (T7-template-zone) a constant template text handed to the changelog renderer contains none of sprig's local-zone date functions. (fresh-G4) imported from C11."
	r.Explanation += " (T1-gate-shape) in the clock gate the time.Now call lies behind the loop over the configured times and its value is only returned. T2 also treats a lookup in a map the ranged body fills, whose found edge goes on with the next element, as order-dependent."
	r.Assumptions = []string{
		"pgzip, zstd, xz and compress/gzip output does not depend on GOMAXPROCS, scheduling or the clock when no header field is set (library property)",
		"text/template visits map keys in sorted order (deb/ipk custom fields)",
		"chglog formats dates from the changelog file, not from the clock",
		"crypto/rand is used only by internal/sign (the property excludes signing)",
	}
	fns := c.ModFuncs
	r.Count("module_functions", len(fns))

	// ---- T1 clock / env / other sources ----
	hits := scanNondeterminism(fns)
	clockInGate := 0
	for _, h := range hits {
		fk := c.funcKey(h.Fn)
		construct := fmt.Sprintf("%s in %s", h.Detail, fk)
		switch h.Kind {
		case "clock":
			if fk == "internal/modtime.Get" {
				clockInGate++
				r.Pass("T1-clock", construct, c.instrPos(h.In), "the clock gate itself")
				// the gate reads the clock only as the last resort: the read
				// lies behind the scan of the configured times (every path to
				// it has seen all of them zero) and is returned as it is - a
				// clock value obtained up front can end up compared with, or
				// substituted for, a configured time
				gate := h.In.Parent()
				okShape := false
				why := "the clock is read before the configured times have been examined"
				if call, isCall := h.In.(*ssa.Call); isCall {
					returned := false
					if call.Referrers() != nil {
						for _, ref := range *call.Referrers() {
							if _, isRet := ref.(*ssa.Return); isRet {
								returned = true
							} else if _, isDbg := ref.(*ssa.DebugRef); !isDbg {
								returned = false
								why = "the clock value is used for something other than being returned"
								break
							}
						}
					}
					// behind a loop over the arguments: some block with a back
					// edge dominates the read, and the read is not inside it
					behind := false
					for _, b := range gate.Blocks {
						for _, p := range b.Preds {
							if b.Dominates(p) && b.Dominates(call.Block()) && !blockReaches(call.Block(), b) {
								behind = true
							}
						}
					}
					// ... or behind a library scan of the arguments whose
					// "none found" edge is the one that reads the clock:
					// slices.IndexFunc(times, nonZero) < 0
					if !behind {
						for _, p := range call.Block().Preds {
							ifi, isIf := p.Instrs[len(p.Instrs)-1].(*ssa.If)
							if !isIf || len(call.Block().Preds) != 1 {
								continue
							}
							bo, isBO := ifi.Cond.(*ssa.BinOp)
							if !isBO {
								continue
							}
							for _, side := range []ssa.Value{bo.X, bo.Y} {
								if sc, isSC := side.(*ssa.Call); isSC {
									if o := calleeObj(sc); o != nil && (qualifiedName(o) == "slices.IndexFunc" || qualifiedName(o) == "slices.ContainsFunc") && len(sc.Call.Args) > 0 {
										if _, isPrm := sc.Call.Args[0].(*ssa.Parameter); isPrm {
											behind = true
										}
									}
								}
							}
						}
					}
					okShape = returned && behind
				}
				r.Check(okShape, "T1-gate-shape", "the clock gate falls back to the clock only after every configured time was found zero", c.instrPos(h.In), why)
			} else {
				r.Fail("T1-clock", construct, c.instrPos(h.In), "the wall clock is read outside internal/modtime.Get: a timestamp or value in the package can depend on build time")
			}
		case "hostname":
			// decided below by evaluation
		case "env":
			if fk == "internal/modtime.FromEnv" {
				r.Pass("T1-env", construct, c.instrPos(h.In), "SOURCE_DATE_EPOCH gate")
			} else {
				r.Fail("T1-env", construct, c.instrPos(h.In), "the process environment is read outside the SOURCE_DATE_EPOCH gate and the parser's caller-supplied mapping")
			}
		case "env-ref":
			if fk == "nfpm.Parse" || fk == "nfpm.ParseFile" {
				r.Pass("T1-env", construct, c.instrPos(h.In), "default mapping handed to the parser (configuration input, not build state)")
			} else {
				r.Fail("T1-env", construct, c.instrPos(h.In), "os.Getenv used as a mapping outside the parse entry points")
			}
		case "cryptorand":
			if c.funcPkgPath(h.Fn) == modPath+"/internal/sign" {
				r.Pass("T1-rand", construct, c.instrPos(h.In), "signing only (excluded by the property)")
			} else {
				r.Fail("T1-rand", construct, c.instrPos(h.In), "randomness outside internal/sign")
			}
		default:
			if strings.HasPrefix(c.funcPkgPath(h.Fn), modPath+"/internal/cmd") || c.funcPkgPath(h.Fn) == modPath+"/cmd/nfpm" {
				r.Note("CLI-only use of %s in %s (not on a packaging path)", h.Detail, fk)
				continue
			}
			r.Fail("T1-nondet", construct, c.instrPos(h.In), "nondeterminism source ("+h.Kind+") in module code: output could depend on process or machine state")
		}
	}
	r.Floor("T1-clock", clockInGate, 1)

	// ---- T2: the final order of the plan is total (rule of C05) ----
	// buffers under the archive writers start empty (rule of C11): a pooled
	// buffer that can come back dirty makes a rebuild in the same process
	// differ from a build in a fresh one
	r.Floor("fresh-G4", importRules(c, r, checkC11, "fresh-", []string{"G4", "G4-pool", "W3-shared-slice"}, nil), 8)
	r.Floor("order-D6-plain", importRules(c, r, checkC05, "order-", []string{"D6-plain"}, nil), 1)

	// ---- T1-fileinfo: headers are not built from a stat of the source ----
	nfi := 0
	for _, fn := range fns {
		forEachInstr(fn, func(in ssa.Instruction) {
			call, ok := in.(*ssa.Call)
			if !ok || !calleeIs(call, "archive/tar", "", "FileInfoHeader") {
				return
			}
			nfi++
			arg := stripIface(call.Call.Args[0])
			okT := isContentPtr(arg.Type())
			r.Check(okT, "T1-fileinfo", fmt.Sprintf("tar.FileInfoHeader#%d in %s is given the entry", nfi, c.funcKey(fn)), c.instrPos(call),
				"the header is built from an os.FileInfo of the source instead of the prepared entry: access and change times (written as PAX atime/ctime records), uid and gid of the build machine end up in the package")
		})
	}
	r.Floor("T1-fileinfo", nfi, 2)

	// ---- T6 no state carried from one build to the next ----
	checkNoCarriedState(c, r, "T6-no-carried-state")
	checkDefaultsKept(c, r)
	checkEnvTimeOnlyDefault(c, r)
	checkChangelogTemplates(c, r)

	// ---- T1 SOURCE_DATE_EPOCH gate: no value-dependent handling ----
	for _, fn := range fns {
		if c.funcPkgPath(fn) != modPath+"/internal/modtime" {
			continue
		}
		reads := false
		forEachInstr(fn, func(in ssa.Instruction) {
			if call, ok := in.(*ssa.Call); ok && calleeIs(call, "os", "", "Getenv") {
				reads = true
			}
		})
		if !reads {
			continue
		}
		n := 0
		forEachInstr(fn, func(in ssa.Instruction) {
			ifi, ok := in.(*ssa.If)
			if !ok {
				return
			}
			n++
			okCond := false
			if bo, ok := ifi.Cond.(*ssa.BinOp); ok && (bo.Op == token.EQL || bo.Op == token.NEQ) {
				for _, pair := range [][2]ssa.Value{{bo.X, bo.Y}, {bo.Y, bo.X}} {
					k, isK := pair[1].(*ssa.Const)
					if !isK {
						continue
					}
					// emptiness of the variable's text, or nil-ness of a parse error
					if k.Value != nil && k.Value.Kind().String() == "String" && constString(k) == "" {
						if call, ok := pair[0].(*ssa.Call); ok && calleeIs(call, "os", "", "Getenv") {
							okCond = true
						}
					}
					if k.IsNil() && types.Identical(pair[0].Type(), errorType) {
						okCond = true
					}
				}
			}
			r.Check(okCond, "T1-epoch", fmt.Sprintf("condition#%d in %s", n, c.funcKey(fn)), c.instrPos(ifi),
				"the SOURCE_DATE_EPOCH gate may only distinguish 'unset' (empty text) and 'unparsable' (parse error); any other condition makes some valid epoch value fall through to the build-time clock")
		})
		unix := false
		forEachInstr(fn, func(in ssa.Instruction) {
			if call, ok := in.(*ssa.Call); ok && calleeIs(call, "time", "", "Unix") {
				p := pa0(c).Of(call.Call.Args[0])
				if p.has("call:strconv.ParseInt") || p.has("call:strconv.Atoi") || p.has("call:strconv.ParseUint") {
					unix = true
				}
			}
		})
		r.Check(unix, "T1-epoch", "parsed epoch reaches time.Unix in "+c.funcKey(fn), c.pos(fn.Pos()), "the parsed value itself must become the package time")
	}

	// ---- T1 gate arguments ----
	pa := newProv(c)
	gate := c.Func("internal/modtime", "Get")
	if gate == nil {
		r.Unresolved("internal/modtime.Get", "clock gate not found")
	}
	gateCalls := 0
	perFn := map[string]int{}
	for _, fn := range fns {
		forEachInstr(fn, func(in ssa.Instruction) {
			call, ok := in.(*ssa.Call)
			if !ok || gate == nil || call.Call.StaticCallee() != gate {
				return
			}
			gateCalls++
			fk := c.funcKey(fn)
			perFn[fk]++
			construct := fmt.Sprintf("modtime.Get#%d in %s", perFn[fk], fk)
			p := pa.Of(call.Call.Args[0])
			m := mtimeAtoms(p)
			r.Check(len(m) > 0, "T1-gate-arg", construct, c.instrPos(call),
				fmt.Sprintf("arguments derive from {%s}; the gate must be given the configured package mtime (Info.MTime) or the entry mtime so that the clock fallback is dead once an mtime is configured", strings.Join(p.fields(), ",")))
		})
	}
	r.Floor("T1-gate-arg", gateCalls, 8)

	// ---- T1 entry mtime defaulting ----
	checkEntryMtimeDefault(c, r, pa)

	// ---- T1 hostname gate ----
	hostCalls := 0
	for _, h := range hits {
		if h.Kind != "hostname" {
			continue
		}
		hostCalls++
		ev := newEvaluator(c)
		obj := newAObj("info")
		obj.Fields["Overridables.RPM.BuildHost"] = cStr("fixed-build-host")
		ev.Defaults[c.infoPtrKey()] = obj
		fr := ev.Explore(h.Fn, make([]AV, len(h.Fn.Params)))
		live := fr != nil && fr.Live(h.In.Block())
		r.Check(!live, "T1-hostname", "os.Hostname in "+c.funcKey(h.Fn), c.instrPos(h.In),
			"with rpm.buildhost configured the call to os.Hostname must be dead; it is "+map[bool]string{true: "still reachable", false: "unreachable"}[live])
	}
	r.Floor("T1-hostname", hostCalls, 1)

	// ---- T2 ----
	n := checkMapRanges(c, r, "T2", func(fn *ssa.Function) bool { return true })
	r.Floor("T2", n, 6)

	// ---- T4 / T5 ----
	for _, h := range scanCompressorHeaderStores(fns) {
		r.Fail("T4", h.Detail+" in "+c.funcKey(h.Fn), c.instrPos(h.In), "a compressor header field is set from a non-constant value")
	}
	for _, h := range scanGoroutines(fns) {
		r.Fail("T5", "go statement in "+c.funcKey(h.Fn), c.instrPos(h.In), "module code starts a goroutine: output order/content may depend on scheduling")
	}
	r.Pass("T4", "all module functions", "-", "no store into a gzip/pgzip header field from a non-constant")
	r.Pass("T5", "all module functions", "-", "no go statement in module code")

	// ---- fixture ----
	checkFixture(c, r, []string{"clock", "rand", "pid", "cpu", "env", "hostname", "go", "gzip-header", "maprange", "globalwrite", "syncmap-write"})
}

// checkEntryMtimeDefault: nfpm.PrepareForPackager hands Info.MTime to the
// planner, and the planner stores its time parameter into entries' MTime.
func checkEntryMtimeDefault(c *Ctx, r *Report, pa *provAnalysis) {
	np := c.Func("", "PrepareForPackager")
	fp := c.Func("files", "PrepareForPackager")
	if np == nil || fp == nil {
		r.Unresolved("PrepareForPackager", "prepare boundary not found")
		return
	}
	ok := false
	// the call may sit in a thin wrapper that np uses (`return files.Prepare...`)
	scan := []*ssa.Function{np}
	forEachInstr(np, func(in ssa.Instruction) {
		if call, isC := in.(*ssa.Call); isC {
			if sc := call.Call.StaticCallee(); sc != nil && returnsResultOf(sc, fp, 0) {
				scan = append(scan, sc)
			}
		}
	})
	forEachInstrIn(scan, func(in ssa.Instruction) {
		call, isC := in.(*ssa.Call)
		if !isC || call.Call.StaticCallee() != fp {
			return
		}
		for _, a := range call.Call.Args {
			if isNamed(a.Type(), "time", "Time") && pa.Of(a).has("Info.MTime") {
				ok = true
			}
		}
	})
	r.Check(ok, "T1-entry-mtime", "nfpm.PrepareForPackager -> files.PrepareForPackager", c.pos(np.Pos()), "the configured package mtime must be passed to the planner")

	// in package files: a time.Time parameter is stored into ContentFileInfo.MTime
	stores := 0
	for _, fn := range c.ModFuncs {
		if c.funcPkgPath(fn) != filesPath {
			continue
		}
		forEachInstr(fn, func(in ssa.Instruction) {
			st, isS := in.(*ssa.Store)
			if !isS {
				return
			}
			fa, isF := st.Addr.(*ssa.FieldAddr)
			if !isF || fieldName(fa.X.Type(), fa.Field) != "MTime" || rootTypeName(fa.X.Type()) != "FileInfo" {
				return
			}
			if p, isP := st.Val.(*ssa.Parameter); isP && isNamed(p.Type(), "time", "Time") {
				stores++
			}
		})
	}
	r.Check(stores >= 2, "T1-entry-mtime", "files: entry MTime defaulted from the mtime parameter", "-",
		fmt.Sprintf("%d store(s) of the planner's time parameter into an entry's MTime (expected: implicit parents and entries without their own mtime)", stores))
}

// checkFixture runs the zero-count scanners on the positive fixture.
func checkFixture(c *Ctx, r *Report, kinds []string) {
	fx, err := loadFixture(verifDir)
	if err != nil {
		r.Fail("fixture", "load", "-", "the positive fixture could not be loaded: "+err.Error())
		return
	}
	found := map[string]bool{}
	for _, h := range scanNondeterminism(fx.ModFuncs) {
		found[h.Kind] = true
	}
	for range scanGoroutines(fx.ModFuncs) {
		found["go"] = true
	}
	for range scanCompressorHeaderStores(fx.ModFuncs) {
		found["gzip-header"] = true
	}
	for _, h := range scanGlobalWrites(fx, fx.ModFuncs) {
		found[h.Kind] = true
	}
	for range scanFsWrites(fx.ModFuncs) {
		found["fswrite"] = true
	}
	for range scanSyncMapWrites(fx.ModFuncs) {
		found["syncmap-write"] = true
	}
	for range scanAtomicMix(fx.ModFuncs) {
		found["atomic-mix"] = true
	}
	for _, h := range scanPrefixTests(fx, fx.ModFuncs) {
		if !h.OK {
			found["bare-prefix"] = true
		}
	}
	fr := newReport("fixture")
	checkMapRanges(fx, fr, "T2", func(*ssa.Function) bool { return true })
	for _, o := range fr.Obls {
		if !o.OK {
			found["maprange"] = true
		}
	}
	for _, k := range kinds {
		r.Check(found[k], "fixture", "positive example: "+k, "analyzer/fixture/fixture.go", "the scanner for this zero-count rule must match its seeded example on every run")
	}
}

// scanGlobalWrites: stores to / map updates through package-level variables.
func scanGlobalWrites(c *Ctx, fns []*ssa.Function) []scanHit {
	var hits []scanHit
	once := onceInitFuncs(c)
	for _, fn := range fns {
		if fn.Name() == "init" || strings.HasPrefix(fn.Name(), "init#") {
			continue
		}
		if once[fn] {
			// one-time initialisation that cannot depend on the caller: the
			// function captures nothing, takes nothing, and runs under a
			// package-level sync.Once (which orders it before every reader)
			continue
		}
		forEachInstr(fn, func(in ssa.Instruction) {
			switch x := in.(type) {
			case *ssa.Store:
				if g := rootGlobal(x.Addr); g != nil {
					hits = append(hits, scanHit{"globalwrite", fn, in, "store to " + globalName(g)})
				}
			case *ssa.MapUpdate:
				if g := rootGlobal(x.Map); g != nil {
					hits = append(hits, scanHit{"globalwrite", fn, in, "map update of " + globalName(g)})
				}
			case *ssa.Call:
				if b, ok := x.Call.Value.(*ssa.Builtin); ok && b.Name() == "delete" {
					if g := rootGlobal(x.Call.Args[0]); g != nil {
						hits = append(hits, scanHit{"globalwrite", fn, in, "delete from " + globalName(g)})
					}
				}
			}
		})
	}
	return hits
}

func scanFsWrites(fns []*ssa.Function) []scanHit {
	var hits []scanHit
	for _, fn := range fns {
		forEachInstr(fn, func(in ssa.Instruction) {
			call, ok := in.(ssa.CallInstruction)
			if !ok {
				return
			}
			o := calleeObj(call)
			if o == nil {
				return
			}
			q := qualifiedName(o)
			if fsWriteFuncs[q] || (q == "os.OpenFile" && !openFileReadOnly(call)) {
				hits = append(hits, scanHit{"fswrite", fn, in, q})
			}
		})
	}
	return hits
}

// scanAtomicMix: a struct field accessed through sync/atomic somewhere and by
// a plain load/store elsewhere.
func scanAtomicMix(fns []*ssa.Function) []scanHit {
	atomicFields := map[string]bool{}
	isAtomicArg := map[ssa.Value]bool{}
	for _, fn := range fns {
		forEachInstr(fn, func(in ssa.Instruction) {
			call, ok := in.(ssa.CallInstruction)
			if !ok {
				return
			}
			o := calleeObj(call)
			if o == nil || o.Pkg() == nil || o.Pkg().Path() != "sync/atomic" {
				return
			}
			for _, a := range call.Common().Args {
				if fa, ok := a.(*ssa.FieldAddr); ok {
					atomicFields[fieldKey(fa)] = true
					isAtomicArg[fa] = true
				}
			}
		})
	}
	var hits []scanHit
	for _, fn := range fns {
		forEachInstr(fn, func(in ssa.Instruction) {
			var fa *ssa.FieldAddr
			switch x := in.(type) {
			case *ssa.Store:
				fa, _ = x.Addr.(*ssa.FieldAddr)
			case *ssa.UnOp:
				if x.Op == token.MUL {
					fa, _ = x.X.(*ssa.FieldAddr)
				}
			}
			if fa == nil || isAtomicArg[fa] || !atomicFields[fieldKey(fa)] {
				return
			}
			hits = append(hits, scanHit{"atomic-mix", fn, in, "plain access to atomically accessed field " + fieldKey(fa)})
		})
	}
	return hits
}

func pa0(c *Ctx) *provAnalysis { return newProv(c) }

// checkNoCarriedState: "bytes are a function only of the configuration and
// the sources" also across builds in one process: code on a packaging path
// (packagers, planner, defaults, validation, signing helpers) writes no
// package-level variable - neither directly nor through sync.Map - so
// nothing computed for one build (a stat result, a parsed key, a table) can
// be seen by the next. Registration of packagers happens outside these paths.
func checkNoCarriedState(c *Ctx, r *Report, rule string) {
	var roots []*ssa.Function
	for _, p := range c.Packagers {
		roots = append(roots, p.Package, p.FileName)
	}
	for _, n := range []string{"PrepareForPackager", "Validate", "WithDefaults"} {
		if f := c.Func("", n); f != nil {
			roots = append(roots, f)
		}
	}
	if f := c.Method("", "Config", "Get"); f != nil {
		roots = append(roots, f)
	}
	reach := c.Reach(roots...)
	var fns []*ssa.Function
	for _, fn := range sortedFuncs(c, reach) {
		if c.isModuleFunc(fn) {
			fns = append(fns, fn)
		}
	}
	n := 0
	perFn := map[string]int{}
	report := func(fn *ssa.Function, in ssa.Instruction, what string) {
		n++
		fk := c.funcKey(fn)
		perFn[fk]++
		r.Fail(rule, fmt.Sprintf("%s#%d in %s", what, perFn[fk], fk), c.instrPos(in), "a package-level variable is written on a packaging path: what one build leaves there (a cached stat result, key or table) is seen by the next build in the same process, so the output no longer depends on the configuration and the sources alone")
	}
	for _, h := range scanGlobalWrites(c, fns) {
		report(h.Fn, h.In, h.Detail)
	}
	for _, h := range scanSyncMapWrites(fns) {
		report(h.Fn, h.In, h.Detail)
	}
	// a package-level byte buffer handed to a call is scratch space every
	// build in the process writes through (io.CopyBuffer, Read): two builds
	// at a time copy each other's bytes
	for _, fn := range fns {
		forEachInstr(fn, func(in ssa.Instruction) {
			call, ok := in.(ssa.CallInstruction)
			if !ok {
				return
			}
			// the argument positions a callee writes through
			writes := map[int]bool{}
			if b, isB := call.Common().Value.(*ssa.Builtin); isB && b.Name() == "copy" {
				writes[0] = true
			} else if o := calleeObj(call); o != nil {
				recv := 0
				if sig, _ := o.Type().(*types.Signature); sig != nil && sig.Recv() != nil && !call.Common().IsInvoke() {
					recv = 1
				}
				opk := ""
				if o.Pkg() != nil {
					opk = o.Pkg().Path()
				}
				switch opk + "." + o.Name() {
				case "io.CopyBuffer":
					writes[2] = true
				case "io.ReadFull", "io.ReadAtLeast":
					writes[1] = true
				case "bytes.NewBuffer":
					writes[0] = true
				case "encoding/hex.Encode", "encoding/binary.PutUvarint", "encoding/binary.PutVarint":
					writes[0] = true
				}
				switch o.Name() {
				case "Read", "ReadAt", "Sum", "AppendFormat", "Encode", "PutUint16", "PutUint32", "PutUint64":
					writes[recv] = true
				}
			}
			for ai, a := range call.Common().Args {
				if !writes[ai] {
					continue
				}
				sl, isSl := a.Type().Underlying().(*types.Slice)
				if !isSl {
					continue
				}
				if b, isB := sl.Elem().Underlying().(*types.Basic); !isB || b.Kind() != types.Byte && b.Kind() != types.Uint8 {
					continue
				}
				if g := rootGlobal(a); g != nil {
					report(fn, in, "byte buffer "+globalName(g)+" handed to a call")
				}
			}
		})
	}
	r.Count("packaging_path_functions", len(fns))
	if n == 0 {
		r.Pass(rule, fmt.Sprintf("no package-level write in %d function(s) on packaging paths", len(fns)), "-", "stores, map updates, deletes and sync.Map writes rooted in package-level variables: none")
	}
	if len(fns) < 100 {
		r.Fail("instance-floor", rule, "-", fmt.Sprintf("only %d functions on packaging paths (expected >= 100)", len(fns)))
	}
}

// scanSyncMapWrites: Store/LoadOrStore/Swap/CompareAndSwap/Delete on a
// sync.Map rooted in a package-level variable.
func scanSyncMapWrites(fns []*ssa.Function) []scanHit {
	var hits []scanHit
	for _, fn := range fns {
		forEachInstr(fn, func(in ssa.Instruction) {
			call, ok := in.(ssa.CallInstruction)
			if !ok {
				return
			}
			o := calleeObj(call)
			if o == nil {
				return
			}
			sig, _ := o.Type().(*types.Signature)
			if sig == nil || sig.Recv() == nil || !isPtrToNamed(sig.Recv().Type(), "sync", "Map") {
				return
			}
			switch o.Name() {
			case "Store", "LoadOrStore", "Swap", "CompareAndSwap", "Delete", "LoadAndDelete", "CompareAndDelete", "Clear":
			default:
				return
			}
			if len(call.Common().Args) == 0 {
				return
			}
			if g := rootGlobal(call.Common().Args[0]); g != nil {
				hits = append(hits, scanHit{"syncmap-write", fn, in, "sync.Map." + o.Name() + " on " + globalName(g)})
			}
		})
	}
	return hits
}

// onceInitFuncs: anonymous functions without free variables and parameters
// that are handed to Do of a package-level sync.Once. What they store into
// package-level variables is the same whichever operation comes first.
func onceInitFuncs(c *Ctx) map[*ssa.Function]bool {
	if c.onceInit != nil {
		return c.onceInit
	}
	c.onceInit = map[*ssa.Function]bool{}
	for _, fn := range c.ModFuncs {
		forEachInstr(fn, func(in ssa.Instruction) {
			ci, ok := in.(ssa.CallInstruction)
			if !ok {
				return
			}
			o := calleeObj(ci)
			if o == nil || o.Name() != "Do" || o.Pkg() == nil || o.Pkg().Path() != "sync" {
				return
			}
			sig, _ := o.Type().(*types.Signature)
			if sig == nil || sig.Recv() == nil || !isNamed(derefType(sig.Recv().Type()), "sync", "Once") {
				return
			}
			args := ci.Common().Args
			if len(args) < 2 {
				return
			}
			if _, isG := args[0].(*ssa.Global); !isG {
				return
			}
			var f *ssa.Function
			switch x := args[len(args)-1].(type) {
			case *ssa.Function:
				f = x
			case *ssa.MakeClosure:
				if len(x.Bindings) == 0 {
					f, _ = x.Fn.(*ssa.Function)
				}
			}
			if f != nil && f.Parent() != nil && len(f.FreeVars) == 0 && len(f.Params) == 0 {
				c.onceInit[f] = true
			}
		})
	}
	return c.onceInit
}

// checkChangelogTemplates (T7-template-zone): changelog entries carry dates. The
// dependency's own templates format them in UTC; a template text of nfpm's own
// that is handed to the changelog renderer must not use sprig's date functions
// that format in the machine's local zone (date, htmlDate, now, ago, toDate).
func checkChangelogTemplates(c *Ctx, r *Report) {
	zoneDependent := regexp.MustCompile(`(^|[\s(|{])(date|htmlDate|now|ago|toDate|dateModify|date_modify)([\s)}]|$)`)
	n := 0
	for _, fn := range c.ModFuncs {
		forEachInstr(fn, func(in ssa.Instruction) {
			call, ok := in.(*ssa.Call)
			if !ok {
				return
			}
			o := calleeObj(call)
			if o == nil || o.Pkg() == nil || !strings.HasSuffix(o.Pkg().Path(), "goreleaser/chglog") || !strings.HasPrefix(o.Name(), "LoadTemplate") || len(call.Call.Args) == 0 {
				return
			}
			n++
			construct := fmt.Sprintf("changelog template#%d loaded in %s formats dates zone-independently", n, c.funcKey(fn))
			k, isK := call.Call.Args[0].(*ssa.Const)
			if !isK || !isConstString(k) {
				r.Fail("T7-template-zone", construct, c.instrPos(call), "the template text is not a constant: which date functions it uses cannot be decided")
				return
			}
			m := zoneDependent.FindString(constString(k))
			r.Check(m == "", "T7-template-zone", construct, c.instrPos(call),
				"the template uses "+strings.TrimSpace(m)+", which formats in the machine's local time zone: the same changelog entry renders differently on a build host in another zone (the dependency's templates use date_in_zone ... \"UTC\")")
		})
	}
	r.Count("own_changelog_templates", n)
}

// checkDefaultsKept (T1-defaults-kept): the planner applies the package mtime
// to an entry in WithFileInfoDefaults. An entry that has been through it keeps
// that file info: a later wholesale replacement (a "cleaned" literal with owner
// and group only) puts the zero time - or whatever the literal forgets - into
// every archive.
func checkDefaultsKept(c *Ctx, r *Report) {
	n := 0
	for _, fn := range c.ModFuncs {
		if c.funcPkgPath(fn) != filesPath {
			continue
		}
		k := 0
		forEachInstr(fn, func(in ssa.Instruction) {
			call, ok := in.(*ssa.Call)
			if !ok {
				return
			}
			sc := call.Call.StaticCallee()
			if sc == nil || sc.Name() != "WithFileInfoDefaults" || !c.isModuleFunc(sc) {
				return
			}
			n++
			if call.Referrers() == nil {
				return
			}
			for _, ref := range *call.Referrers() {
				fa, ok := ref.(*ssa.FieldAddr)
				if !ok || fieldName(fa.X.Type(), fa.Field) != "FileInfo" || fa.Referrers() == nil {
					continue
				}
				for _, r2 := range *fa.Referrers() {
					st, ok := r2.(*ssa.Store)
					if !ok || st.Addr != ssa.Value(fa) {
						continue
					}
					// a replacement that carries the time over is fine
					keeps := false
					if al, isAl := st.Val.(*ssa.Alloc); isAl && al.Referrers() != nil {
						for _, r3 := range *al.Referrers() {
							if f3, ok := r3.(*ssa.FieldAddr); ok && fieldName(f3.X.Type(), f3.Field) == "MTime" {
								keeps = true
							}
						}
					}
					k++
					r.Check(keeps, "T1-defaults-kept", fmt.Sprintf("%s: file info replaced#%d after the defaults keeps the time", c.funcKey(fn), k), c.instrPos(st),
						"the entry returned by WithFileInfoDefaults gets a new file info that does not set MTime: the entry is packaged with the zero time instead of the configured package mtime")
				}
			}
		})
	}
	r.Floor("T1-defaults-kept", n, 2)
	if n >= 2 {
		r.Pass("T1-defaults-kept", "files: entries that went through the defaults keep their file info", "-", fmt.Sprintf("%d calls of WithFileInfoDefaults in the planner examined", n))
	}
}

// checkEnvTimeOnlyDefault (T1-env-default): SOURCE_DATE_EPOCH and the clock are
// defaults for an unset mtime. A store of such a value into Info.MTime sits on
// the true edge of a test that the configured mtime is zero - and of nothing
// else: any other route lets the environment replace a configured time.
func checkEnvTimeOnlyDefault(c *Ctx, r *Report) {
	pa := newProv(c)
	n := 0
	for _, fn := range c.ModFuncs {
		k := 0
		forEachInstr(fn, func(in ssa.Instruction) {
			st, ok := in.(*ssa.Store)
			if !ok {
				return
			}
			p, root := addrPath(st.Addr)
			if root == nil || p != "MTime" || rootTypeName(root.Type()) != "Info" {
				return
			}
			pv := pa.Of(st.Val)
			fromEnv := false
			for _, a := range pv.list() {
				if strings.Contains(a, "modtime.FromEnv") || a == "call:os.Getenv" || a == "call:time.Now" || a == "call:os.LookupEnv" {
					fromEnv = true
				}
			}
			if !fromEnv {
				return
			}
			n++
			k++
			// the block is entered only from the true edge of <Info.MTime>.IsZero()
			onlyDefault := false
			b := st.Block()
			if len(b.Preds) == 1 {
				if ifi, isIf := b.Preds[0].Instrs[len(b.Preds[0].Instrs)-1].(*ssa.If); isIf && b.Preds[0].Succs[0] == b {
					if zc, isCall := ifi.Cond.(*ssa.Call); isCall {
						if o := calleeObj(zc); o != nil && o.Name() == "IsZero" && len(zc.Call.Args) == 1 && pa.Of(zc.Call.Args[0]).has("Info.MTime") {
							onlyDefault = true
						}
					}
				}
			}
			if !onlyDefault {
				// written back through a helper that returns the configured time
				// when it is set and the environment's only when it is zero
				if call, isCall := st.Val.(*ssa.Call); isCall {
					if g := call.Call.StaticCallee(); g != nil && len(g.Blocks) > 0 && c.isModuleFunc(g) {
						for i, a := range call.Call.Args {
							if i < len(g.Params) && pa.Of(a).has("Info.MTime") && !hasEnvAtom(pa.Of(a)) && zeroDefaultHelper(g, g.Params[i]) {
								onlyDefault = true
							}
						}
					}
				}
			}
			r.Check(onlyDefault, "T1-env-default", fmt.Sprintf("%s: environment/clock time#%d is stored only where the configured mtime is zero", c.funcKey(fn), k), c.instrPos(st),
				"the store is not on the true edge of a plain <mtime>.IsZero() test: some path replaces a configured mtime by SOURCE_DATE_EPOCH or the clock, and the bytes then follow the environment")
		})
	}
	r.Floor("T1-env-default", n, 1)
}

func hasEnvAtom(p provSet) bool {
	for _, a := range p.list() {
		if strings.Contains(a, "modtime.FromEnv") || a == "call:os.Getenv" || a == "call:time.Now" || a == "call:os.LookupEnv" {
			return true
		}
	}
	return false
}

// zeroDefaultHelper: every return of g yields the parameter p itself, or sits
// in a block entered only from the true edge of p.IsZero().
func zeroDefaultHelper(g *ssa.Function, p *ssa.Parameter) bool {
	n := 0
	for _, b := range g.Blocks {
		ret, ok := b.Instrs[len(b.Instrs)-1].(*ssa.Return)
		if !ok || len(ret.Results) != 1 {
			continue
		}
		n++
		if ret.Results[0] == ssa.Value(p) {
			continue
		}
		if len(b.Preds) != 1 {
			return false
		}
		ifi, isIf := b.Preds[0].Instrs[len(b.Preds[0].Instrs)-1].(*ssa.If)
		if !isIf || b.Preds[0].Succs[0] != b {
			return false
		}
		zc, isCall := ifi.Cond.(*ssa.Call)
		if !isCall || len(zc.Call.Args) != 1 || zc.Call.Args[0] != ssa.Value(p) {
			return false
		}
		if o := calleeObj(zc); o == nil || o.Name() != "IsZero" {
			return false
		}
	}
	return n > 0
}
