package main

import (
	"fmt"
	"go/ast"
	"go/constant"
	"go/token"
	"go/types"
	"os"
	"path/filepath"
	"sort"
	"strings"
	"time"

	"golang.org/x/tools/go/packages"
	"golang.org/x/tools/go/ssa"
	"golang.org/x/tools/go/ssa/ssautil"
)

const modPath = "github.com/goreleaser/nfpm/v2"

// Ctx is everything a rule can look at: the type-checked, SSA-built program
// loaded from /repo's current working tree.
type Ctx struct {
	Tier    string
	RepoDir string
	Fset    *token.FileSet
	Prog    *ssa.Program
	// module packages only, by import path
	Pkgs    map[string]*packages.Package
	SSAPkgs map[string]*ssa.Package
	// all packages (incl. dependencies when loaded with syntax)
	AllPkgs map[string]*packages.Package
	// every module function (incl. anonymous ones and methods), stable order
	ModFuncs []*ssa.Function
	// package-level constant map tables (evaluator; see globalMapTable)
	gtables    map[*ssa.Global]map[constant.Value]constant.Value
	gtablesBad map[*ssa.Global]bool
	onceInit   map[*ssa.Function]bool

	Packagers []*Packager

	LoadSeconds float64
	funcsByObj  map[*types.Func]*ssa.Function
	// ModPrefix is the import-path prefix of the analysed module
	ModPrefix string
}

// Packager is one implementation of nfpm.Packager, discovered by type.
type Packager struct {
	Format   string // the constant registered with nfpm.RegisterPackager
	PkgPath  string
	Type     types.Type // receiver type whose method set implements Packager
	Package  *ssa.Function
	FileName *ssa.Function
	Ext      *ssa.Function
}

func fatalf(format string, a ...any) {
	fmt.Fprintf(os.Stderr, "nfpmcheck: "+format+"\n", a...)
	os.Exit(2)
}

func loadProgram(repo, tier string) (*Ctx, error) {
	return loadModule(repo, tier, modPath, "./...", true)
}

// loadFixture loads the positive-example package that lives next to the
// analyzer's sources (DESIGN §4.2).
func loadFixture(verifDir string) (*Ctx, error) {
	return loadModule(filepath.Join(verifDir, "analyzer"), "quick", "verif/analyzer/fixture", "./fixture", false)
}

func loadModule(repo, tier, prefix, pattern string, packagers bool) (*Ctx, error) {
	start := time.Now()
	mode := packages.NeedName | packages.NeedFiles | packages.NeedCompiledGoFiles |
		packages.NeedImports | packages.NeedTypes | packages.NeedTypesSizes |
		packages.NeedSyntax | packages.NeedTypesInfo | packages.NeedModule
	if tier == "thorough" {
		mode |= packages.NeedDeps
	}
	env := []string{}
	for _, kv := range os.Environ() {
		if strings.HasPrefix(kv, "GOFLAGS=") || strings.HasPrefix(kv, "GOWORK=") ||
			strings.HasPrefix(kv, "GOPROXY=") || strings.HasPrefix(kv, "GOSUMDB=") ||
			strings.HasPrefix(kv, "GOTOOLCHAIN=") {
			continue
		}
		env = append(env, kv)
	}
	modFlag := "-mod=readonly"
	if !packagers {
		modFlag = "-mod=mod"
	}
	env = append(env, "GOFLAGS="+modFlag, "GOWORK=off", "GOPROXY=off", "GOSUMDB=off", "GOTOOLCHAIN=local")
	cfg := &packages.Config{
		Mode:  mode,
		Dir:   repo,
		Env:   env,
		Tests: false,
	}
	initial, err := packages.Load(cfg, pattern)
	if err != nil {
		return nil, fmt.Errorf("load %s: %w", repo, err)
	}
	if len(initial) == 0 {
		return nil, fmt.Errorf("load %s: zero packages", repo)
	}
	var errs []string
	packages.Visit(initial, nil, func(p *packages.Package) {
		for _, e := range p.Errors {
			errs = append(errs, e.Error())
		}
	})
	if len(errs) > 0 {
		sort.Strings(errs)
		if len(errs) > 10 {
			errs = errs[:10]
		}
		return nil, fmt.Errorf("type-check/load errors (the tree must compile): %s", strings.Join(errs, "; "))
	}
	prog, _ := ssautil.AllPackages(initial, ssa.InstantiateGenerics)
	prog.Build()

	c := &Ctx{
		Tier:       tier,
		RepoDir:    repo,
		Fset:       prog.Fset,
		Prog:       prog,
		Pkgs:       map[string]*packages.Package{},
		SSAPkgs:    map[string]*ssa.Package{},
		AllPkgs:    map[string]*packages.Package{},
		funcsByObj: map[*types.Func]*ssa.Function{},
		ModPrefix:  prefix,
	}
	packages.Visit(initial, nil, func(p *packages.Package) { c.AllPkgs[p.PkgPath] = p })
	for _, p := range initial {
		if p.PkgPath != prefix && !strings.HasPrefix(p.PkgPath, prefix+"/") {
			continue
		}
		c.Pkgs[p.PkgPath] = p
		sp := prog.Package(p.Types)
		if sp == nil {
			return nil, fmt.Errorf("no SSA package for %s", p.PkgPath)
		}
		c.SSAPkgs[p.PkgPath] = sp
	}
	if len(c.Pkgs) == 0 {
		return nil, fmt.Errorf("no package of module %s found under %s", prefix, repo)
	}
	// collect module functions
	all := ssautil.AllFunctions(prog)
	for fn := range all {
		if fn.Pkg == nil && fn.Origin() == nil && fn.Parent() == nil {
			continue
		}
		if c.isModuleFunc(fn) && fn.Blocks != nil {
			c.ModFuncs = append(c.ModFuncs, fn)
		}
	}
	sort.Slice(c.ModFuncs, func(i, j int) bool {
		pi, pj := c.ModFuncs[i].Pos(), c.ModFuncs[j].Pos()
		if pi != pj {
			return pi < pj
		}
		return c.ModFuncs[i].String() < c.ModFuncs[j].String()
	})
	for _, fn := range c.ModFuncs {
		if o, ok := fn.Object().(*types.Func); ok && o != nil {
			c.funcsByObj[o] = fn
		}
	}
	moduleFuncsByProg[prog] = c.ModFuncs
	if packagers {
		if err := c.resolvePackagers(); err != nil {
			return nil, err
		}
	}
	c.LoadSeconds = time.Since(start).Seconds()
	return c, nil
}

func (c *Ctx) pkgOfFunc(fn *ssa.Function) *ssa.Package {
	for f := fn; f != nil; f = f.Parent() {
		if f.Pkg != nil {
			return f.Pkg
		}
		if o := f.Origin(); o != nil && o.Pkg != nil {
			return o.Pkg
		}
	}
	return nil
}

func (c *Ctx) isModuleFunc(fn *ssa.Function) bool {
	p := c.pkgOfFunc(fn)
	if p == nil || p.Pkg == nil {
		return false
	}
	pp := p.Pkg.Path()
	return pp == c.ModPrefix || strings.HasPrefix(pp, c.ModPrefix+"/")
}

func (c *Ctx) funcPkgPath(fn *ssa.Function) string {
	p := c.pkgOfFunc(fn)
	if p == nil || p.Pkg == nil {
		return ""
	}
	return p.Pkg.Path()
}

// relPkg returns the package path relative to the module ("" for the root).
func relPkg(path string) string {
	if path == modPath {
		return "nfpm"
	}
	return strings.TrimPrefix(path, modPath+"/")
}

// funcKey is a line-independent, human-readable key for a function.
func (c *Ctx) funcKey(fn *ssa.Function) string {
	if fn == nil {
		return "<nil>"
	}
	name := fn.RelString(nil)
	name = strings.ReplaceAll(name, modPath+"/", "")
	name = strings.ReplaceAll(name, modPath, "nfpm")
	return name
}

func (c *Ctx) pos(p token.Pos) string {
	if !p.IsValid() {
		return "-"
	}
	pp := c.Fset.Position(p)
	rel, err := filepath.Rel(c.RepoDir, pp.Filename)
	if err != nil || strings.HasPrefix(rel, "..") {
		rel = pp.Filename
	}
	return fmt.Sprintf("%s:%d", rel, pp.Line)
}

func (c *Ctx) instrPos(i ssa.Instruction) string {
	if i == nil {
		return "-"
	}
	p := i.Pos()
	if !p.IsValid() {
		// fall back to any operand / the function
		if v, ok := i.(ssa.Value); ok {
			_ = v
		}
		if i.Parent() != nil {
			return c.pos(i.Parent().Pos())
		}
	}
	return c.pos(p)
}

// Pkg returns the module package with the given module-relative path
// ("" or "nfpm" = root).
func (c *Ctx) Pkg(rel string) *ssa.Package {
	if rel == "" || rel == "nfpm" {
		return c.SSAPkgs[modPath]
	}
	return c.SSAPkgs[modPath+"/"+rel]
}

// Func looks up a package-level function by module-relative package and name.
func (c *Ctx) Func(rel, name string) *ssa.Function {
	p := c.Pkg(rel)
	if p == nil {
		return nil
	}
	return p.Func(name)
}

// Method looks up a method (pointer or value receiver) by type and name.
func (c *Ctx) Method(rel, typ, name string) *ssa.Function {
	p := c.Pkg(rel)
	if p == nil {
		return nil
	}
	t := p.Type(typ)
	if t == nil {
		return nil
	}
	for _, recv := range []types.Type{t.Type(), types.NewPointer(t.Type())} {
		ms := c.Prog.MethodSets.MethodSet(recv)
		for i := 0; i < ms.Len(); i++ {
			sel := ms.At(i)
			if sel.Obj().Name() == name {
				if fn := c.Prog.MethodValue(sel); fn != nil && fn.Synthetic == "" {
					return fn
				}
			}
		}
	}
	// wrappers only: fall back to the declared function object
	for _, recv := range []types.Type{t.Type(), types.NewPointer(t.Type())} {
		ms := c.Prog.MethodSets.MethodSet(recv)
		for i := 0; i < ms.Len(); i++ {
			sel := ms.At(i)
			if sel.Obj().Name() == name {
				if f, ok := sel.Obj().(*types.Func); ok {
					if fn := c.Prog.FuncValue(f); fn != nil {
						return fn
					}
				}
			}
		}
	}
	return nil
}

// NamedType returns a named type of a module package.
func (c *Ctx) NamedType(rel, name string) *types.Named {
	p := c.Pkg(rel)
	if p == nil {
		return nil
	}
	o := p.Pkg.Scope().Lookup(name)
	if o == nil {
		return nil
	}
	n, _ := o.Type().(*types.Named)
	return n
}

func (c *Ctx) resolvePackagers() error {
	root := c.Pkg("")
	if root == nil {
		return fmt.Errorf("root package %s not loaded", modPath)
	}
	po := root.Pkg.Scope().Lookup("Packager")
	if po == nil {
		return fmt.Errorf("anchor-unresolved: interface nfpm.Packager")
	}
	iface, ok := po.Type().Underlying().(*types.Interface)
	if !ok {
		return fmt.Errorf("anchor-unresolved: nfpm.Packager is not an interface")
	}
	reg := root.Func("RegisterPackager")
	// formats: constant first argument of RegisterPackager calls, keyed by
	// the static type of the second argument
	formats := map[string]string{} // type string -> format
	for _, fn := range c.ModFuncs {
		for _, b := range fn.Blocks {
			for _, in := range b.Instrs {
				call, ok := in.(ssa.CallInstruction)
				if !ok {
					continue
				}
				if reg == nil || call.Common().StaticCallee() != reg {
					continue
				}
				args := call.Common().Args
				if len(args) != 2 {
					continue
				}
				k, ok := args[0].(*ssa.Const)
				if !ok || k.Value == nil {
					continue
				}
				v := args[1]
				if mi, ok := v.(*ssa.MakeInterface); ok {
					v = mi.X
				}
				formats[types.TypeString(derefType(v.Type()), nil)] = constString(k)
			}
		}
	}
	var paths []string
	for p := range c.SSAPkgs {
		paths = append(paths, p)
	}
	sort.Strings(paths)
	for _, pp := range paths {
		sp := c.SSAPkgs[pp]
		var names []string
		for n := range sp.Members {
			names = append(names, n)
		}
		sort.Strings(names)
		for _, n := range names {
			t, ok := sp.Members[n].(*ssa.Type)
			if !ok {
				continue
			}
			if _, isIface := t.Type().Underlying().(*types.Interface); isIface {
				continue
			}
			var recv types.Type
			if types.Implements(t.Type(), iface) {
				recv = t.Type()
			} else if types.Implements(types.NewPointer(t.Type()), iface) {
				recv = types.NewPointer(t.Type())
			} else {
				continue
			}
			pk := &Packager{PkgPath: pp, Type: recv}
			pk.Format = formats[types.TypeString(t.Type(), nil)]
			pk.Package = c.Method(relPkg(pp), n, "Package")
			pk.FileName = c.Method(relPkg(pp), n, "ConventionalFileName")
			pk.Ext = c.Method(relPkg(pp), n, "ConventionalExtension")
			if pk.Package == nil || pk.FileName == nil {
				return fmt.Errorf("anchor-unresolved: methods of packager %s.%s", pp, n)
			}
			c.Packagers = append(c.Packagers, pk)
		}
	}
	return nil
}

// PackagerByFormat returns the packager registered under format.
func (c *Ctx) PackagerByFormat(f string) *Packager {
	for _, p := range c.Packagers {
		if p.Format == f {
			return p
		}
	}
	return nil
}

func derefType(t types.Type) types.Type {
	if p, ok := t.Underlying().(*types.Pointer); ok {
		return p.Elem()
	}
	return t
}

func constString(k *ssa.Const) string {
	if k == nil || k.Value == nil {
		return ""
	}
	if b, ok := k.Type().Underlying().(*types.Basic); ok && b.Info()&types.IsString != 0 {
		s := k.Value.ExactString()
		// ExactString is quoted
		if u, err := strconvUnquote(s); err == nil {
			return u
		}
		return s
	}
	return k.Value.ExactString()
}

// isNamed reports whether t (after dereferencing one pointer) is the named
// type pkgPath.name.
func isNamed(t types.Type, pkgPath, name string) bool {
	t = derefType(t)
	n, ok := t.(*types.Named)
	if !ok {
		if a, ok2 := t.(*types.Alias); ok2 {
			return isNamed(types.Unalias(a), pkgPath, name)
		}
		return false
	}
	o := n.Obj()
	return o != nil && o.Name() == name && o.Pkg() != nil && o.Pkg().Path() == pkgPath
}

func isPtrToNamed(t types.Type, pkgPath, name string) bool {
	p, ok := t.Underlying().(*types.Pointer)
	if !ok {
		return false
	}
	return isNamed(p.Elem(), pkgPath, name)
}

// calleeIs reports whether the call statically resolves to pkgPath.name (a
// package-level function) or, with recv != "", to method recv.name.
func calleeIs(call ssa.CallInstruction, pkgPath, recv, name string) bool {
	cc := call.Common()
	var fobj *types.Func
	if cc.IsInvoke() {
		fobj = cc.Method
	} else if sc := cc.StaticCallee(); sc != nil {
		if o, ok := sc.Object().(*types.Func); ok {
			fobj = o
		} else if sc.Origin() != nil {
			if o, ok := sc.Origin().Object().(*types.Func); ok {
				fobj = o
			}
		}
	}
	if fobj == nil {
		return false
	}
	return funcObjIs(fobj, pkgPath, recv, name)
}

func funcObjIs(fobj *types.Func, pkgPath, recv, name string) bool {
	if fobj.Name() != name {
		return false
	}
	if fobj.Pkg() == nil || fobj.Pkg().Path() != pkgPath {
		return false
	}
	sig := fobj.Type().(*types.Signature)
	if recv == "" {
		return sig.Recv() == nil
	}
	if sig.Recv() == nil {
		return false
	}
	rt := derefType(sig.Recv().Type())
	if n, ok := rt.(*types.Named); ok {
		return n.Obj().Name() == recv
	}
	return false
}

// calleeObj returns the *types.Func a call resolves to statically (or the
// interface method for invoke-mode calls), else nil.
func calleeObj(call ssa.CallInstruction) *types.Func {
	cc := call.Common()
	if cc.IsInvoke() {
		return cc.Method
	}
	if sc := cc.StaticCallee(); sc != nil {
		if o, ok := sc.Object().(*types.Func); ok {
			return o
		}
		if sc.Origin() != nil {
			if o, ok := sc.Origin().Object().(*types.Func); ok {
				return o
			}
		}
	}
	return nil
}

// calleeName renders the callee for reports: pkg.Func or (pkg.T).Method.
func calleeName(call ssa.CallInstruction) string {
	if o := calleeObj(call); o != nil {
		return funcObjName(o)
	}
	cc := call.Common()
	if b, ok := cc.Value.(*ssa.Builtin); ok {
		return "builtin " + b.Name()
	}
	if mc, ok := cc.Value.(*ssa.MakeClosure); ok {
		return mc.Fn.Name()
	}
	return "dynamic " + cc.Value.Name()
}

func funcObjName(o *types.Func) string {
	sig := o.Type().(*types.Signature)
	pk := ""
	if o.Pkg() != nil {
		pk = o.Pkg().Path()
		pk = strings.TrimPrefix(pk, modPath+"/")
		if pk == modPath {
			pk = "nfpm"
		}
	}
	if sig.Recv() != nil {
		rt := derefType(sig.Recv().Type())
		if n, ok := rt.(*types.Named); ok {
			return fmt.Sprintf("(%s.%s).%s", pk, n.Obj().Name(), o.Name())
		}
		return fmt.Sprintf("(%s).%s", types.TypeString(rt, nil), o.Name())
	}
	return pk + "." + o.Name()
}

// forEachInstr visits the instructions of fn in block order.
func forEachInstr(fn *ssa.Function, f func(ssa.Instruction)) {
	for _, b := range fn.Blocks {
		for _, in := range b.Instrs {
			f(in)
		}
	}
}

// Reach computes the module functions reachable from roots through static
// calls, closures created, and module functions referenced as values. Dynamic
// calls (interface invoke / func values) are resolved by "function referenced
// as a value somewhere in the reachable set" (the builders passed to
// writeTgz/newTGZ are reached this way).
func (c *Ctx) Reach(roots ...*ssa.Function) map[*ssa.Function]bool {
	seen := map[*ssa.Function]bool{}
	var work []*ssa.Function
	push := func(f *ssa.Function) {
		if f == nil || seen[f] || f.Blocks == nil || !c.isModuleFunc(f) {
			return
		}
		seen[f] = true
		work = append(work, f)
	}
	for _, r := range roots {
		push(r)
	}
	for len(work) > 0 {
		fn := work[len(work)-1]
		work = work[:len(work)-1]
		for _, af := range fn.AnonFuncs {
			// only when actually referenced; handled by MakeClosure below
			_ = af
		}
		forEachInstr(fn, func(in ssa.Instruction) {
			if call, ok := in.(ssa.CallInstruction); ok {
				if sc := call.Common().StaticCallee(); sc != nil {
					push(sc)
				} else if call.Common().IsInvoke() {
					// interface method call: all module methods with that name
					// whose receiver implements the interface
					m := call.Common().Method
					it, _ := call.Common().Value.Type().Underlying().(*types.Interface)
					for _, cand := range c.ModFuncs {
						if cand.Signature.Recv() == nil || cand.Name() != m.Name() {
							continue
						}
						if it != nil && types.Implements(cand.Signature.Recv().Type(), it) {
							push(cand)
						}
					}
				}
			}
			var ops []*ssa.Value
			for _, op := range in.Operands(ops) {
				if op == nil || *op == nil {
					continue
				}
				switch v := (*op).(type) {
				case *ssa.Function:
					push(v)
				case *ssa.MakeClosure:
					if f, ok := v.Fn.(*ssa.Function); ok {
						push(f)
					}
				}
			}
			if mc, ok := in.(*ssa.MakeClosure); ok {
				if f, ok := mc.Fn.(*ssa.Function); ok {
					push(f)
				}
			}
		})
	}
	return seen
}

func sortedFuncs(c *Ctx, m map[*ssa.Function]bool) []*ssa.Function {
	var out []*ssa.Function
	for f := range m {
		out = append(out, f)
	}
	sort.Slice(out, func(i, j int) bool {
		if out[i].Pos() != out[j].Pos() {
			return out[i].Pos() < out[j].Pos()
		}
		return out[i].String() < out[j].String()
	})
	return out
}

// enclosingFuncDecl finds the AST of a source function.
func (c *Ctx) syntaxOf(fn *ssa.Function) ast.Node {
	return fn.Syntax()
}

// fileOf returns the parsed file that contains pos.
func (c *Ctx) fileOf(pos token.Pos) (*packages.Package, *ast.File) {
	for _, p := range c.AllPkgs {
		for _, f := range p.Syntax {
			if f.FileStart <= pos && pos <= f.FileEnd {
				return p, f
			}
		}
	}
	return nil, nil
}

// retResults returns the operands of a Return, reading through the go/ssa
// defer spill (`*t0 = x; rundefers; t1 = *t0; return t1`): when an operand is
// a load of a local cell stored earlier in the same block, the stored value is
// returned instead.
func retResults(ret *ssa.Return) []ssa.Value {
	out := make([]ssa.Value, len(ret.Results))
	for i, v := range ret.Results {
		out[i] = resolveSpill(v, ret)
	}
	return out
}

func resolveSpill(v ssa.Value, ret *ssa.Return) ssa.Value {
	ld, ok := v.(*ssa.UnOp)
	if !ok || ld.Op != token.MUL {
		return v
	}
	al, ok := ld.X.(*ssa.Alloc)
	if !ok {
		return v
	}
	var last ssa.Value
	for _, in := range ret.Block().Instrs {
		if in == ssa.Instruction(ld) {
			break
		}
		if st, ok := in.(*ssa.Store); ok && st.Addr == ssa.Value(al) {
			last = st.Val
		}
	}
	if last != nil {
		return last
	}
	return v
}

func constOf(o types.Object) string {
	if k, ok := o.(*types.Const); ok {
		return k.Val().ExactString()
	}
	return ""
}

func ssautilAllFunctions(c *Ctx) map[*ssa.Function]bool { return ssautil.AllFunctions(c.Prog) }

// moduleFuncsByProg: the module functions of each loaded program, for helpers
// that are handed SSA values only.
var moduleFuncsByProg = map[*ssa.Program][]*ssa.Function{}

// isModuleType: t (or what it points to) is a named type declared in the
// analysed module.
func (c *Ctx) isModuleType(t types.Type) bool {
	n, ok := derefType(t).(*types.Named)
	if !ok || n.Obj().Pkg() == nil {
		return false
	}
	p := n.Obj().Pkg().Path()
	return p == modPath || strings.HasPrefix(p, modPath+"/")
}
