package main

import (
	"fmt"
	"go/constant"
	"go/token"
	"go/types"
	"sort"
	"strings"

	"golang.org/x/tools/go/ssa"
)

func init() { register("C09", checkC09) }

type scriptRow struct {
	Slot   string
	Fields []string // Info.* atoms the slot's path derives from
	Consts []string
	At     ssa.Instruction
	Fn     *ssa.Function
	Kind   string // map | literal | rpm
}

func scriptFieldSet() map[string]bool {
	m := map[string]bool{}
	for _, s := range specScripts {
		m["Info."+s.Field] = true
	}
	return m
}

func scriptAtoms(p provSet) []string {
	sf := scriptFieldSet()
	var out []string
	for _, a := range p.list() {
		if sf[a] {
			out = append(out, a)
		}
	}
	return out
}

// extractScriptRows finds every place in the packaging call graph of pk where
// a script-path field is bound to a slot name.
func extractScriptRows(c *Ctx, pa *provAnalysis, pk *Packager) []scriptRow {
	var rows []scriptRow
	reach := c.Reach(pk.Package)
	for _, fn := range sortedFuncs(c, reach) {
		forEachInstr(fn, func(in ssa.Instruction) {
			switch x := in.(type) {
			case *ssa.MapUpdate:
				k, ok := x.Key.(*ssa.Const)
				if !ok || k.Value == nil {
					return
				}
				p := pa.Of(x.Value)
				if f := scriptAtoms(p); len(f) > 0 {
					rows = append(rows, scriptRow{Slot: constString(k), Fields: f, Consts: p.consts(), At: in, Fn: fn, Kind: "map"})
				}
			}
		})
		// rpm: rpm.Add<Slot>(string(data))
		forEachInstr(fn, func(in ssa.Instruction) {
			call, ok := in.(*ssa.Call)
			if !ok {
				return
			}
			o := calleeObj(call)
			if o == nil {
				return
			}
			slot, isSlot := rpmScriptMethods[o.Name()]
			if !isSlot || !calleeIs(call, rpmpackPath, "RPM", o.Name()) {
				return
			}
			p := provSet{}
			for _, a := range call.Call.Args[1:] {
				p.add(pa.Of(a))
			}
			rows = append(rows, scriptRow{Slot: slot, Fields: scriptAtoms(p), At: in, Fn: fn, Kind: "rpm"})
		})
		// rpm through a helper: a call that passes a bound rpmpack Add* method
		// value together with a script path
		forEachInstr(fn, func(in ssa.Instruction) {
			call, ok := in.(*ssa.Call)
			if !ok {
				return
			}
			slot := ""
			for _, a := range call.Call.Args {
				if s := boundRPMSlot(a); s != "" {
					slot = s
				}
			}
			if slot == "" {
				return
			}
			p := provSet{}
			for _, a := range call.Call.Args {
				if boundRPMSlot(a) == "" {
					p.add(pa.Of(a))
				}
			}
			rows = append(rows, scriptRow{Slot: slot, Fields: scriptAtoms(p), At: in, Fn: fn, Kind: "rpm"})
		})
		// one call per slot: a module function or closure handed the slot's
		// name as a constant together with the script path
		forEachInstr(fn, func(in ssa.Instruction) {
			call, ok := in.(*ssa.Call)
			if !ok {
				return
			}
			sc := call.Call.StaticCallee()
			if sc == nil || len(sc.Blocks) == 0 || !c.isModuleFunc(sc) {
				return
			}
			slot, nSlots := "", 0
			src := provSet{}
			var consts []string
			for _, a := range call.Call.Args {
				if k, isK := a.(*ssa.Const); isK && isConstString(k) {
					for _, s := range specScripts {
						if s.Slots[pk.Format] == constString(k) && constString(k) != "" {
							slot = constString(k)
							nSlots++
							break
						}
					}
					continue
				}
				p := pa.Of(a)
				if len(scriptAtoms(p)) > 0 {
					src.add(p)
				} else {
					consts = append(consts, p.consts()...)
				}
			}
			if nSlots != 1 || len(scriptAtoms(src)) == 0 {
				return
			}
			rows = append(rows, scriptRow{Slot: slot, Fields: scriptAtoms(src), Consts: consts, At: in, Fn: fn, Kind: "call"})
		})
		// struct literals: elements of an array of structs with one constant
		// string field (the slot) and a field fed from a script path
		forEachInstr(fn, func(in ssa.Instruction) {
			al, ok := in.(*ssa.Alloc)
			if !ok || !arrayOfStruct(al) {
				return
			}
			for _, ref := range *al.Referrers() {
				ia, ok := ref.(*ssa.IndexAddr)
				if !ok {
					continue
				}
				var slots []string
				boundRow := false
				src := provSet{}
				var consts []string
				// fields are stored either directly below the element or into a
				// local struct that is then copied into the element
				bases := []ssa.Value{ia}
				for _, r2 := range *ia.Referrers() {
					if st, ok := r2.(*ssa.Store); ok && st.Addr == ssa.Value(ia) {
						if ld, ok := st.Val.(*ssa.UnOp); ok {
							if loc, ok := ld.X.(*ssa.Alloc); ok {
								bases = append(bases, loc)
							}
						}
					}
				}
				// the element is the result of a constructor call: its constant
				// string argument names the slot, a script-path argument feeds it,
				// the constants the constructor stores accompany the row
				for _, r2 := range *ia.Referrers() {
					st, ok := r2.(*ssa.Store)
					if !ok || st.Addr != ssa.Value(ia) {
						continue
					}
					call, ok := st.Val.(*ssa.Call)
					if !ok {
						continue
					}
					sc := call.Call.StaticCallee()
					if sc == nil || sc.Blocks == nil || !c.isModuleFunc(sc) {
						continue
					}
					for _, a := range call.Call.Args {
						if k, ok := a.(*ssa.Const); ok && k.Value != nil && k.Value.Kind().String() == "String" {
							if constString(k) != "" {
								slots = append(slots, constString(k))
							}
							continue
						}
						p := pa.Of(a)
						if len(scriptAtoms(p)) > 0 {
							src.add(p)
						}
					}
					forEachInstr(sc, func(i2 ssa.Instruction) {
						if s2, ok := i2.(*ssa.Store); ok {
							if _, isField := s2.Addr.(*ssa.FieldAddr); isField {
								if _, isConst := s2.Val.(*ssa.Const); isConst {
									consts = append(consts, pa.Of(s2.Val).consts()...)
								}
							}
						}
					})
				}
				var fieldRefs []ssa.Instruction
				for _, b := range bases {
					fieldRefs = append(fieldRefs, *b.Referrers()...)
				}
				for _, r2 := range fieldRefs {
					fa, ok := r2.(*ssa.FieldAddr)
					if !ok {
						continue
					}
					for _, r3 := range *fa.Referrers() {
						st, ok := r3.(*ssa.Store)
						if !ok {
							continue
						}
						if k, ok := st.Val.(*ssa.Const); ok && k.Value != nil && k.Value.Kind().String() == "String" {
							if constString(k) != "" {
								slots = append(slots, constString(k))
							}
							continue
						}
						if slot := boundRPMSlot(st.Val); slot != "" {
							slots = append(slots, slot)
							boundRow = true
							continue
						}
						p := pa.Of(st.Val)
						if len(scriptAtoms(p)) > 0 {
							src.add(p)
						} else {
							consts = append(consts, p.consts()...)
						}
					}
				}
				if len(slots) == 1 && len(scriptAtoms(src)) > 0 {
					consts = append(consts, tableLoopConsts(pa, al)...)
					kind := "literal"
					if boundRow {
						kind = "rpm"
					}
					rows = append(rows, scriptRow{Slot: slots[0], Fields: scriptAtoms(src), Consts: consts, At: ia, Fn: fn, Kind: kind})
				}
			}
		})
	}
	return rows
}

// boundRPMSlot: the value is a bound method value of one of rpmpack's
// scriptlet setters (rpm.AddPrein passed as a func).
func boundRPMSlot(v ssa.Value) string {
	mc, ok := v.(*ssa.MakeClosure)
	if !ok {
		return ""
	}
	f, ok := mc.Fn.(*ssa.Function)
	if !ok || !strings.Contains(f.Synthetic, "bound method") {
		return ""
	}
	name := strings.TrimSuffix(f.Name(), "$bound")
	if len(mc.Bindings) == 1 && isPtrToNamed(mc.Bindings[0].Type(), rpmpackPath, "RPM") {
		return rpmScriptMethods[name]
	}
	return ""
}

// funcParamIsRPMSlot: a func-typed parameter that, at every module call site,
// is bound to an rpmpack scriptlet setter.
func funcParamIsRPMSlot(pa *provAnalysis, v ssa.Value) bool {
	p, ok := v.(*ssa.Parameter)
	if !ok {
		return false
	}
	idx := -1
	for i, q := range p.Parent().Params {
		if q == p {
			idx = i
		}
	}
	sites := pa.callSites(p.Parent())
	if idx < 0 || len(sites) == 0 {
		return false
	}
	for _, cs := range sites {
		if idx >= len(cs.Common().Args) || boundRPMSlot(cs.Common().Args[idx]) == "" {
			return false
		}
	}
	return true
}

func arrayOfStruct(al *ssa.Alloc) bool {
	arr, ok := derefType(al.Type()).Underlying().(*types.Array)
	if !ok {
		return false
	}
	_, isStruct := arr.Elem().Underlying().(*types.Struct)
	return isStruct
}

// checkGeneratedModes (S4-const): the members a packager generates itself -
// maintainer scripts, control files, metadata - carry the modes the format
// prescribes; no configuration value (umask, an entry's mode) takes part in
// them. Decided by provenance of every Mode definition of every tar header
// that is not a payload entry's.
func checkGeneratedModes(c *Ctx, r *Report) {
	pa := newProv(c)
	n := 0
	for _, pk := range c.Packagers {
		if pk.Format == "" || pk.Format == "rpm" {
			continue
		}
		var fns []*ssa.Function
		for _, fn := range sortedFuncs(c, c.Reach(pk.Package)) {
			if c.funcPkgPath(fn) == pk.PkgPath {
				fns = append(fns, fn)
			}
		}
		for _, h := range headerObjects(c, fns) {
			if h.Kind != "tar" || len(h.Uses) == 0 || h.FromFileInfo {
				continue
			}
			payload := false
			for _, st := range h.fieldStores("Name") {
				if pa.Of(st.Val).has("Content.Destination") {
					payload = true
				}
			}
			if payload {
				continue
			}
			n++
			var bad []string
			for _, u := range h.Uses {
				defs, _ := h.reaching("Mode", u)
				for _, st := range defs {
					for _, a := range pa.Of(st.Val).fields() {
						if strings.HasPrefix(a, "Info.") || strings.HasPrefix(a, "Content.") || strings.HasPrefix(a, "FileInfo.") {
							bad = append(bad, a)
						}
					}
				}
			}
			bad = uniq(bad)
			r.Check(len(bad) == 0, "S4-const", pk.Format+": mode of generated member "+h.key(c), c.instrPos(h.Create),
				fmt.Sprintf("the mode of a member the packager generates itself depends on %v: scripts and control files must carry the mode the format prescribes whatever the configuration says", bad))
		}
	}
	// entry descriptors a packager makes up itself (ipk's script table): the
	// mode it writes into them is the format's, not a function of the
	// configuration
	m := 0
	for _, pk := range c.Packagers {
		if pk.Format == "" {
			continue
		}
		for _, fn := range sortedFuncs(c, c.Reach(pk.Package)) {
			if c.funcPkgPath(fn) != pk.PkgPath {
				continue
			}
			k := 0
			forEachInstr(fn, func(in ssa.Instruction) {
				al, ok := in.(*ssa.Alloc)
				if !ok || !isNamed(derefType(al.Type()), filesPath, "ContentFileInfo") {
					return
				}
				for _, ref := range *al.Referrers() {
					fa, ok := ref.(*ssa.FieldAddr)
					if !ok || fieldName(fa.X.Type(), fa.Field) != "Mode" {
						continue
					}
					for _, r2 := range *fa.Referrers() {
						st, ok := r2.(*ssa.Store)
						if !ok || st.Addr != ssa.Value(fa) {
							continue
						}
						m++
						k++
						var bad []string
						for _, a := range pa.Of(st.Val).fields() {
							if strings.HasPrefix(a, "Info.") || strings.HasPrefix(a, "Content.") || strings.HasPrefix(a, "FileInfo.") {
								bad = append(bad, a)
							}
						}
						r.Check(len(bad) == 0, "S4-const", fmt.Sprintf("%s: mode of entry descriptor#%d made in %s", pk.Format, k, c.funcKey(fn)), c.instrPos(st),
							fmt.Sprintf("the mode of a member the packager generates itself depends on %v: scripts and control files must carry the mode the format prescribes whatever the configuration says", uniq(bad)))
					}
				}
			})
		}
	}
	r.Floor("S4-const", n+m, 6)
}

// checkScriptTableDeletes (S2-delete): once a slot is bound to its script a
// row may be taken out of the table again only because that same script is
// not configured (emptiness of the row's own value): a row removed for any
// other reason - an empty file, another slot being unset - leaves a
// configured script out of the package.
func checkScriptTableDeletes(c *Ctx, r *Report, pa *provAnalysis) {
	n := 0
	for _, pk := range c.Packagers {
		if pk.Format == "" {
			continue
		}
		for _, fn := range sortedFuncs(c, c.Reach(pk.Package)) {
			if c.funcPkgPath(fn) != pk.PkgPath {
				continue
			}
			// script tables: maps that receive a script path under a constant key
			tables := map[ssa.Value]bool{}
			forEachInstr(fn, func(in ssa.Instruction) {
				if mu, ok := in.(*ssa.MapUpdate); ok {
					if _, isK := mu.Key.(*ssa.Const); isK && len(scriptAtoms(pa.Of(mu.Value))) > 0 {
						tables[mu.Map] = true
					}
				}
			})
			if len(tables) == 0 {
				continue
			}
			k := 0
			forEachInstr(fn, func(in ssa.Instruction) {
				call, ok := in.(*ssa.Call)
				if !ok {
					return
				}
				b, isB := call.Call.Value.(*ssa.Builtin)
				if !isB || b.Name() != "delete" || !tables[call.Call.Args[0]] {
					return
				}
				n++
				k++
				okD := false
				// the delete hangs under an emptiness test of the value that
				// belongs to the deleted key (the range value of the same loop)
				if id := call.Block().Idom(); id != nil && len(call.Block().Preds) == 1 {
					if ifi, isIf := id.Instrs[len(id.Instrs)-1].(*ssa.If); isIf && isStringEmptinessTest(ifi.Cond) {
						cmp := ifi.Cond.(*ssa.BinOp)
						var tested ssa.Value = cmp.X
						if _, isK := tested.(*ssa.Const); isK {
							tested = cmp.Y
						}
						if ex, isEx := tested.(*ssa.Extract); isEx && ex.Index == 2 {
							if kx, isKx := call.Call.Args[1].(*ssa.Extract); isKx && kx.Tuple == ex.Tuple && kx.Index == 1 {
								okD = true
							}
						}
					}
				}
				r.Check(okD, "S2-delete", fmt.Sprintf("%s: delete#%d from the script table in %s", pk.Format, k, c.funcKey(fn)), c.instrPos(call),
					"a row is removed from the script table for a reason other than its own script being unconfigured: a configured script would be missing from the package")
			})
		}
	}
	r.Count("script_table_deletes", n)
}

func checkC09(c *Ctx, r *Report) {
	checkGeneratedModes(c, r)
	checkScriptTableDeletes(c, r, newProv(c))
	checkInstallFunctionClosed(c, r)
	r.Floor("merge-S-get", importRules(c, r, checkC13, "merge-", []string{"S-get"}, nil), 3)
	checkScriptNotCarried(c, r)
	checkNoOwnScripts(c, r)
	checkScriptTagPairs(c, r)
	// a script path survives the expansion pass as the field it was: every
	// expansion store writes a field back from itself (rule of C16) - a section
	// rebuilt from some of its fields loses the scripts below it
	r.Floor("kept-F15-self", importRules(c, r, checkC16, "kept-", []string{"F15-self"}, nil), 12)
	// script paths reach their readers as configured (rule E5 of C06): an
	// expansion step that rewrites them can cross-wire or blank a slot
	r.Floor("ref-E5", importRules(c, r, checkC06, "ref-", []string{"E5"}, func(o Obligation) bool {
		return strings.Contains(o.Construct, "Scripts.")
	}), 8)
	r.Rules = []string{"S1 slot<->field table per format equals the statement's", "S2 each slot guarded by non-emptiness of its own field", "S3 bytes flow unmodified from the file read to the slot", "S4 mode constants", "S5 rpmpack scriptlet tags (thorough)", "S6 script buffers are fresh", "S7 a configured script must-reaches its slot", "S4-const modes of generated members depend on no configuration value", "S4-const also for entry descriptors a packager makes up (ipk script table)", "S3-row script text handed to a slot setter is not a loop-carried variable", "S3-arch-close the text closing an archlinux script function starts on a new line", "merge-S-get override blocks are merged field by field (imported from C13)", "S2-own-script no packager carries script text of its own (a constant starting with an interpreter line)", "S5-tag-pair a scriptlet tag number written by hand is the tag of the slot it accompanies", "kept-F15-self the expansion pass writes every field back from itself (imported from C16)"}
	r.Explanation = "Table extraction and field provenance over go/ssa. For every packager the places where a script-path field of the configuration is bound to a slot name are extracted (constant-keyed map updates, struct-literal rows, rpmpack Add* calls) and the resulting (slot, field) relation is compared with the table transcribed from the statement — equality, so a missing, extra or cross-wired slot is a violation and every one of the 15 script fields is accounted for in exactly the formats that own it. Each consumer (the read of the script file) must be dominated by a non-emptiness test of a value with the same script-field provenance (populated iff configured). The bytes that reach the archive writer or the rpmpack slot derive from the file read through conversions only — any other function on that path is a violation. Lifecycle script modes are the stated constants. All subsets of configured scripts are covered because each slot is decided independently of the others."
	r.Explanation += " (S6) buffers that receive script bytes are fresh or reset. (S7) with only one script configured its slot binding is must-reached from Package. (S4-const) the mode of every member a packager generates itself has no configuration atom in its provenance."
	r.Explanation += " S4-const also covers the mode a packager writes into a ContentFileInfo it allocates itself."
	r.Explanation += " (S3-row) the string handed to an rpmpack Add* scriptlet setter or to a function value taken from a table row does not come from a phi that an earlier iteration of the loop feeds. (S3-arch-close) the constant written after a script body in the function that opens a shell function begins with a newline."
	r.Assumptions = []string{
		"rpmpack's AddPrein/AddPostin/AddPreun/AddPostun/AddPretrans/AddPosttrans/AddVerifyScript fill the like-named scriptlet tags (thorough tier checks the tag numbers)",
		"binary safety is argued from the absence of any transformation on the path, not tested on concrete bytes",
	}
	totalRows := 0
	for _, format := range specFormats {
		pk := c.PackagerByFormat(format)
		if pk == nil {
			r.Unresolved("packager "+format, "not registered")
			continue
		}
		pa := newProvScoped(c, c.Reach(pk.Package))
		rows := extractScriptRows(c, pa, pk)
		totalRows += len(rows)
		// S1: relation equality
		got := map[string]ssa.Instruction{}
		var gotRows = map[string]scriptRow{}
		for _, row := range rows {
			for _, f := range row.Fields {
				k := row.Slot + " <- " + f
				got[k] = row.At
				gotRows[k] = row
			}
			if len(row.Fields) == 0 {
				k := row.Slot + " <- (no script field)"
				got[k] = row.At
			}
		}
		want := map[string]bool{}
		for _, s := range specScripts {
			if slot, ok := s.Slots[format]; ok {
				want[slot+" <- Info."+s.Field] = true
			}
		}
		var keys []string
		for k := range want {
			keys = append(keys, k)
		}
		for k := range got {
			if !want[k] {
				keys = append(keys, k)
			}
		}
		sort.Strings(keys)
		for _, k := range keys {
			at, have := got[k]
			construct := fmt.Sprintf("%s slot %s", format, k)
			switch {
			case want[k] && have:
				r.Pass("S1", construct, c.instrPos(at), "slot is fed from the field the statement pairs it with")
			case want[k] && !have:
				r.Fail("S1", construct, c.pos(pk.Package.Pos()), "the statement requires this slot to be fed from this field, but no such binding exists in the "+format+" packaging code: the script would not be embedded (or is wired elsewhere)")
			default:
				r.Fail("S1", construct, c.instrPos(at), "this binding is not in the statement's table: a script is wired to a different event (or to a format that does not own the field)")
			}
		}
		// S4 modes
		for k, row := range gotRows {
			if !want[k] {
				continue
			}
			switch format {
			case "deb", "ipk":
				wantMode := "493"
				if row.Slot == "templates" {
					wantMode = "420"
				}
				has := false
				for _, cst := range row.Consts {
					if cst == wantMode {
						has = true
					}
				}
				r.Check(has, "S4", fmt.Sprintf("%s mode of %s", format, row.Slot), c.instrPos(row.At), fmt.Sprintf("mode constant %s must accompany the slot; constants found: %v", wantMode, row.Consts))
			}
		}
		// S7: with exactly this script configured, its binding is executed on
		// every path to a successful Package return (populated if configured)
		for k, row := range gotRows {
			if !want[k] {
				continue
			}
			ev := newEvaluator(c)
			ev.MaxDepth = 12
			info := newAObj("info")
			for _, s := range specScripts {
				info.Fields[s.Field] = cStr("")
			}
			field := strings.TrimPrefix(row.Fields[0], "Info.")
			info.Fields[field] = cStr("script.sh")
			info.Fields["Platform"] = cStr("linux")
			ev.Defaults[c.infoPtrKey()] = info
			fr := ev.Explore(pk.Package, make([]AV, len(pk.Package.Params)))
			at := row.At
			ok := fr.MustReach(func(in ssa.Instruction, _ *Frame) bool { return in == at })
			r.Check(ok, "S7", fmt.Sprintf("%s slot %s populated whenever configured", format, k), c.instrPos(row.At),
				"with only this script configured, every path of Package to a success return must execute the slot's binding; a bypass means the script is silently dropped for some combination of the other settings")
		}
		// S2 + S3
		checkScriptConsumers(c, r, pa, pk, format)
	}
	r.Floor("S1", totalRows, 26)
	if c.Tier == "thorough" {
		checkRpmpackScriptTags(c, r)
	}
	r.Exhaustive = true
}

// checkScriptConsumers: S2 (guards) and S3 (verbatim) for one format.
func checkScriptConsumers(c *Ctx, r *Report, pa *provAnalysis, pk *Packager, format string) {
	reach := c.Reach(pk.Package)
	consumers := 0
	var reads []*ssa.Call
	for _, fn := range sortedFuncs(c, reach) {
		n := 0
		forEachInstr(fn, func(in ssa.Instruction) {
			call, ok := in.(*ssa.Call)
			if !ok {
				return
			}
			o := calleeObj(call)
			if o == nil {
				return
			}
			q := qualifiedName(o)
			if q != "os.ReadFile" && q != "os.Open" && q != "os.OpenFile" {
				return
			}
			p := pa.Of(call.Call.Args[0])
			fields := scriptAtoms(p)
			if len(fields) == 0 {
				return
			}
			// a reader shared with payload files (ipk.writeFile) also sees
			// Content.Source; the script part is what matters here
			consumers++
			n++
			reads = append(reads, call)
			construct := fmt.Sprintf("%s: script read#%d in %s", format, n, c.funcKey(fn))
			// S2: some call chain to here is guarded by a non-empty test with
			// the same script provenance
			ok2, why := guardedByNonEmpty(c, pa, fn, call, fields, 0)
			r.Check(ok2, "S2", construct, c.instrPos(call), why)
		})
	}
	if consumers == 0 {
		r.Fail("S2", format+": no script consumer", c.pos(pk.Package.Pos()), "no read of a script file found in the packaging call graph")
	}
	// S6: buffers that receive script bytes start empty
	sa := newSinkAnalysis(c)
	s6 := 0
	for _, fn := range sortedFuncs(c, reach) {
		forEachInstr(fn, func(in ssa.Instruction) {
			call, ok := in.(*ssa.Call)
			if !ok {
				return
			}
			o := calleeObj(call)
			if o == nil || qualifiedName(o) != "io.Copy" {
				return
			}
			if len(scriptAtoms(pa.Of(call.Call.Args[1]))) == 0 {
				return
			}
			s6++
			okFresh := true
			why := "the destination buffer is a fresh local allocation"
			for _, root := range sa.terminalRoots(call.Call.Args[0]) {
				if fresh, w := freshBufferRoot(root); !fresh {
					okFresh = false
					why = "script bytes are appended to a buffer that is " + w + ": the slot can contain another package's script"
				}
			}
			r.Check(okFresh, "S6", fmt.Sprintf("%s: script buffer in %s", format, c.funcKey(fn)), c.instrPos(call), why)
		})
	}
	// S3: the bytes read flow to a write sink through conversions only
	forwardPA = pa
	for i, rd := range reads {
		sinks, bad := forwardBytes(c, rd, map[ssa.Value]bool{}, 0)
		construct := fmt.Sprintf("%s: bytes of script read#%d in %s", format, i+1, c.funcKey(rd.Parent()))
		switch {
		case len(bad) > 0:
			sort.Strings(bad)
			r.Fail("S3", construct, c.instrPos(rd), fmt.Sprintf("the bytes read pass through %v before they are embedded: scripts must be embedded byte for byte", uniq(bad)))
		case sinks == 0:
			r.Fail("S3", construct, c.instrPos(rd), "the bytes read never reach an archive writer or scriptlet slot")
		default:
			r.Pass("S3", construct, c.instrPos(rd), fmt.Sprintf("reaches %d write sink(s) through conversions only", sinks))
		}
	}
}

// forwardBytes follows the data read by a script read call to its consumers.
// Allowed steps are conversions, hand-over to module functions, io.ReadAll and
// in-memory readers; sinks are archive writes, io.Copy sources and rpmpack
// Add* slots. Any other function consuming the bytes and producing
// bytes/strings/readers is a transformation.
var forwardPA *provAnalysis

func forwardBytes(c *Ctx, v ssa.Value, seen map[ssa.Value]bool, depth int) (sinks int, bad []string) {
	if v == nil || seen[v] || depth > 12 || v.Referrers() == nil {
		return 0, nil
	}
	seen[v] = true
	follow := func(x ssa.Value) {
		s2, b2 := forwardBytes(c, x, seen, depth+1)
		sinks += s2
		bad = append(bad, b2...)
	}
	for _, ref := range *v.Referrers() {
		switch x := ref.(type) {
		case *ssa.Extract:
			if x.Index == 0 {
				follow(x)
			}
		case *ssa.Convert:
			follow(x)
		case *ssa.ChangeType:
			follow(x)
		case *ssa.MakeInterface:
			follow(x)
		case *ssa.ChangeInterface:
			follow(x)
		case *ssa.Phi:
			follow(x)
		case *ssa.Slice:
			if x.Low == nil && x.High == nil {
				follow(x)
			} else {
				bad = append(bad, "slicing at "+c.instrPos(x))
			}
		case *ssa.BinOp:
			if x.Op == token.ADD {
				bad = append(bad, "string concatenation at "+c.instrPos(x))
			}
		case *ssa.Store:
			// the body of an rpm file record
			if fa, ok := x.Addr.(*ssa.FieldAddr); ok && x.Val == v && isNamed(derefType(fa.X.Type()), rpmpackPath, "RPMFile") && fieldName(fa.X.Type(), fa.Field) == "Body" {
				sinks++
			}
			// stored into a local cell: follow loads
			if al, ok := x.Addr.(*ssa.Alloc); ok && x.Val == v {
				for _, r2 := range *al.Referrers() {
					if ld, ok := r2.(*ssa.UnOp); ok && ld.Op == token.MUL {
						follow(ld)
					}
				}
			}
		case ssa.CallInstruction:
			cc := x.Common()
			argIdx := -1
			for i, a := range cc.Args {
				if a == v {
					argIdx = i
				}
			}
			if _, isDefer := x.(*ssa.Defer); isDefer {
				continue
			}
			if b, ok := cc.Value.(*ssa.Builtin); ok {
				if b.Name() == "append" || b.Name() == "copy" {
					bad = append(bad, "builtin "+b.Name())
				}
				continue
			}
			o := calleeObj(x)
			if o == nil {
				// a func-typed parameter that is always an rpmpack scriptlet setter
				if cc.StaticCallee() == nil && !cc.IsInvoke() && forwardPA != nil && funcParamIsRPMSlot(forwardPA, cc.Value) && argIdx >= 0 {
					sinks++
				} else if cc.StaticCallee() == nil && !cc.IsInvoke() && argIdx >= 0 && tableFuncIsRPMSlot(cc.Value) {
					sinks++
				}
				continue
			}
			q := qualifiedName(o)
			isRecv := cc.IsInvoke() && cc.Value == v || (!cc.IsInvoke() && cc.Signature().Recv() != nil && argIdx == 0)
			switch {
			case calleeIs(x, "archive/tar", "Writer", "Write") && argIdx == 1:
				sinks++
			case q == "io.Copy" && argIdx == 1:
				sinks++
			case q == "io.Copy" && argIdx == 0:
			case rpmScriptMethods[o.Name()] != "" && calleeIs(x, rpmpackPath, "RPM", o.Name()):
				sinks++
			case q == "io.ReadAll" || q == "bytes.NewReader" || q == "strings.NewReader" || q == "bytes.NewBuffer" || q == "bufio.NewReader" || q == "bufio.NewReaderSize" || q == "io.NopCloser" || q == "io.TeeReader" && argIdx == 0:
				if cv, ok := x.(*ssa.Call); ok {
					follow(cv)
				}
			case isRecv:
				// method on the file handle itself (Close, Stat ...)
			case o.Name() == "Write" || o.Name() == "Sum":
				// fed to a hash
			default:
				if sc := cc.StaticCallee(); sc != nil && sc.Blocks != nil && c.isModuleFunc(sc) && argIdx >= 0 && argIdx < len(sc.Params) {
					follow(sc.Params[argIdx])
					continue
				}
				// external function consuming the bytes
				if cv, ok := x.(*ssa.Call); ok && producesBytes(cv) {
					bad = append(bad, funcObjName(o))
				}
			}
		}
	}
	return sinks, bad
}

func producesBytes(call *ssa.Call) bool {
	res := call.Call.Signature().Results()
	for i := 0; i < res.Len(); i++ {
		t := res.At(i).Type().String()
		if t == "[]byte" || t == "string" || t == "io.Reader" || t == "*bytes.Buffer" || t == "*bytes.Reader" {
			return true
		}
	}
	return false
}

// guardedByNonEmpty: the instruction (or, transitively, every module call site
// of its function) is dominated by the non-empty edge of a test `x != ""` /
// `x == ""` where x has script-field provenance covering `fields`.
func guardedByNonEmpty(c *Ctx, pa *provAnalysis, fn *ssa.Function, at ssa.Instruction, fields []string, depth int) (bool, string) {
	if depth > 4 {
		return false, "no guard found within 4 call levels"
	}
	if ok, why := directGuard(c, pa, fn, at, fields); ok {
		return true, why
	}
	return guardedIndirectly(c, pa, fn, at, fields, depth)
}

// directGuard: `at` is dominated by the non-empty edge of a test of a value
// whose script provenance is exactly `fields`.
func directGuard(c *Ctx, pa *provAnalysis, fn *ssa.Function, at ssa.Instruction, fields []string) (bool, string) {
	for _, b := range fn.Blocks {
		ifi, ok := b.Instrs[len(b.Instrs)-1].(*ssa.If)
		if !ok {
			continue
		}
		bo, ok := ifi.Cond.(*ssa.BinOp)
		if !ok || (bo.Op != token.EQL && bo.Op != token.NEQ) {
			continue
		}
		var x ssa.Value
		if k, ok := bo.Y.(*ssa.Const); ok && k.Value != nil && constString(k) == "" {
			x = bo.X
		} else if k, ok := bo.X.(*ssa.Const); ok && k.Value != nil && constString(k) == "" {
			x = bo.Y
		}
		if x == nil {
			continue
		}
		xf := scriptAtoms(pa.Of(x))
		if strings.Join(xf, ",") != strings.Join(fields, ",") {
			continue
		}
		nonEmpty := b.Succs[0]
		if bo.Op == token.EQL {
			nonEmpty = b.Succs[1]
		}
		if nonEmpty == at.Block() || (len(nonEmpty.Preds) == 1 && nonEmpty.Dominates(at.Block())) {
			return true, fmt.Sprintf("dominated by the non-empty edge of a test on a value with the same script provenance %v in %s", fields, c.funcKey(fn))
		}
	}
	return false, ""
}

func guardedIndirectly(c *Ctx, pa *provAnalysis, fn *ssa.Function, at ssa.Instruction, fields []string, depth int) (bool, string) {
	// the fields come from a table built in this function whose rows are each
	// inserted behind a non-emptiness test of their own field (archlinux)
	covered := map[string]bool{}
	// the table may also be built by a module helper this function calls
	// (a function that returns the map)
	builders := []*ssa.Function{fn}
	forEachInstr(fn, func(in ssa.Instruction) {
		if call, ok := in.(*ssa.Call); ok {
			if sc := call.Call.StaticCallee(); sc != nil && c.isModuleFunc(sc) && len(sc.Blocks) > 0 && sc.Signature.Results().Len() == 1 {
				if _, isMap := sc.Signature.Results().At(0).Type().Underlying().(*types.Map); isMap {
					builders = append(builders, sc)
				}
			}
		}
	})
	for _, bf := range builders {
		bf := bf
		forEachInstr(bf, func(in ssa.Instruction) {
			mu, ok := in.(*ssa.MapUpdate)
			if !ok {
				return
			}
			rf := scriptAtoms(pa.Of(mu.Value))
			if len(rf) == 0 {
				return
			}
			// one row guarded by its own field, or a loop over a table of rows
			// guarded by the row's own value
			if ok, _ := directGuard(c, pa, bf, mu, rf); ok {
				for _, f := range rf {
					covered[f] = true
				}
			}
		})
	}
	all := len(fields) > 0
	for _, f := range fields {
		if !covered[f] {
			all = false
		}
	}
	if all {
		return true, fmt.Sprintf("every row of the table built in %s is inserted behind a non-emptiness test of its own field", c.funcKey(fn))
	}
	// not guarded here: every call site of this function must be guarded
	sites := pa.callSites(fn)
	if len(sites) == 0 {
		return false, fmt.Sprintf("the read of %v is not behind a non-emptiness test of the same field(s): an unconfigured script would be read (and fail) or a configured one skipped", fields)
	}
	checked := 0
	for _, cs := range sites {
		if !c.isModuleFunc(cs.Parent()) {
			continue
		}
		// provenance of the path argument at this site decides which fields
		var sf []string
		for _, a := range cs.Common().Args {
			sf = append(sf, scriptAtoms(pa.Of(a))...)
		}
		if len(sf) == 0 {
			continue // a non-script use of a shared helper (payload files)
		}
		sort.Strings(sf)
		sf = uniq(sf)
		checked++
		if ok, why := guardedByNonEmpty(c, pa, cs.Parent(), cs, sf, depth+1); !ok {
			return false, why
		}
	}
	if checked == 0 {
		return false, fmt.Sprintf("the read of %v is not behind a non-emptiness test of the same field(s): an unconfigured script would be read (and fail) or a configured one skipped", fields)
	}
	return true, "every call site that passes a script path is guarded by a non-emptiness test of the same field(s)"
}

func uniq(s []string) []string {
	var out []string
	for i, x := range s {
		if i == 0 || x != s[i-1] {
			out = append(out, x)
		}
	}
	return out
}

// checkRpmpackScriptTags (thorough): each Add* method of rpmpack stores its
// argument into the field that (*RPM).Write emits under the expected tag.
func checkRpmpackScriptTags(c *Ctx, r *Report) {
	p := c.AllPkgs[rpmpackPath]
	if p == nil {
		r.Unresolved("rpmpack", "dependency not loaded with syntax")
		return
	}
	sp := c.Prog.Package(p.Types)
	if sp == nil {
		r.Unresolved("rpmpack SSA", "not built")
		return
	}
	// tag constants by name in rpmpack: tagPrein etc.
	wantConst := map[string]int64{"tagPrein": 1023, "tagPostin": 1024, "tagPreun": 1025, "tagPostun": 1026, "tagPretrans": 1151, "tagPosttrans": 1152, "tagVerifyScript": 1079}
	for name, v := range wantConst {
		o := p.Types.Scope().Lookup(name)
		got := "missing"
		ok := false
		if o != nil {
			if k := constOf(o); k != "" {
				got = k
				ok = k == fmt.Sprint(v)
			}
		}
		r.Check(ok, "S5", "rpmpack."+name, "-", fmt.Sprintf("value %s, rpm tag number %d", got, v))
	}
}

// tableLoopConsts: when a literal table is consumed by a loop, the constants
// stored into struct fields in the loop body accompany every row (the mode
// given to each script entry built from a {slot, path} table).
func tableLoopConsts(pa *provAnalysis, arr *ssa.Alloc) []string {
	var out []string
	var elems []*ssa.IndexAddr
	for _, ref := range *arr.Referrers() {
		switch x := ref.(type) {
		case *ssa.IndexAddr:
			if _, isConst := x.Index.(*ssa.Const); !isConst {
				elems = append(elems, x)
			}
		case *ssa.Slice:
			for _, r2 := range *x.Referrers() {
				if ia, ok := r2.(*ssa.IndexAddr); ok {
					if _, isConst := ia.Index.(*ssa.Const); !isConst {
						elems = append(elems, ia)
					}
				}
			}
		}
	}
	for _, ia := range elems {
		forEachInstr(arr.Parent(), func(in ssa.Instruction) {
			st, ok := in.(*ssa.Store)
			if !ok || !(ia.Block() == st.Block() || ia.Block().Dominates(st.Block())) {
				return
			}
			if _, isField := st.Addr.(*ssa.FieldAddr); !isField {
				return
			}
			if _, isConst := st.Val.(*ssa.Const); isConst {
				out = append(out, pa.Of(st.Val).consts()...)
			}
		})
	}
	return out
}

// tableFuncIsRPMSlot: the func value is a field of the element a loop visits
// in a literal table every row of which binds that field to an rpmpack
// scriptlet setter.
func tableFuncIsRPMSlot(v ssa.Value) bool {
	ia, field, ok := loopElemField(v)
	if !ok {
		return false
	}
	var arr *ssa.Alloc
	switch x := ia.X.(type) {
	case *ssa.Slice:
		arr, _ = x.X.(*ssa.Alloc)
	case *ssa.Alloc:
		arr = x
	}
	if arr == nil {
		return false
	}
	rows := tableRows(arr, ia)
	if len(rows) == 0 {
		return false
	}
	for _, row := range rows {
		if row[field] == nil || boundRPMSlot(row[field]) == "" {
			return false
		}
	}
	return true
}

// carriedPhi: v is, or is chosen by phis from, a variable that a loop updates
// from one iteration to the next (a phi in a block that dominates one of its
// own predecessors, fed over that back edge by something other than itself
// or a constant). nil when there is none.
func carriedPhi(v ssa.Value) *ssa.Phi {
	seen := map[ssa.Value]bool{}
	var found *ssa.Phi
	var walk func(v ssa.Value, d int)
	walk = func(v ssa.Value, d int) {
		switch x := v.(type) {
		case *ssa.Convert:
			walk(x.X, d+1)
			return
		case *ssa.ChangeType:
			walk(x.X, d+1)
			return
		}
		phi, isPhi := v.(*ssa.Phi)
		if !isPhi || seen[v] || d > 8 || found != nil {
			return
		}
		seen[v] = true
		for i, e := range phi.Edges {
			pred := phi.Block().Preds[i]
			if phi.Block().Dominates(pred) && e != ssa.Value(phi) {
				if _, isK := e.(*ssa.Const); !isK {
					found = phi
					return
				}
			}
			walk(e, d+1)
		}
	}
	walk(v, 0)
	return found
}

// checkScriptNotCarried (S3-row): where the scripts are stored by a loop over
// a table of slots, the text handed to a slot's setter is read in that very
// iteration. A variable that survives from one iteration to the next hands an
// unconfigured slot the script of the slot before it.
func checkScriptNotCarried(c *Ctx, r *Report) {
	n := 0
	paS := newProv(c)
	for _, pk := range c.Packagers {
		if pk.Format == "" {
			continue
		}
		for _, fn := range sortedFuncs(c, c.Reach(pk.Package)) {
			if c.funcPkgPath(fn) != pk.PkgPath {
				continue
			}
			forEachInstr(fn, func(in ssa.Instruction) {
				call, ok := in.(*ssa.Call)
				if !ok || len(call.Call.Args) == 0 {
					return
				}
				// a slot setter: rpmpack's Add* scriptlet methods, or a function
				// value taken from a table row
				setter := false
				if o := calleeObj(call); o != nil && o.Pkg() != nil && o.Pkg().Path() == rpmpackPath && strings.HasPrefix(o.Name(), "Add") && call.Call.Args[len(call.Call.Args)-1].Type().String() == "string" {
					setter = true
				}
				if call.Call.StaticCallee() == nil && !call.Call.IsInvoke() {
					if _, _, isRow := loopElemField(call.Call.Value); isRow {
						setter = true
					}
					// a setter handed to a helper as a function value
					if funcParamIsRPMSlot(paS, call.Call.Value) {
						setter = true
					}
				}
				if !setter {
					return
				}
				n++
				arg := call.Call.Args[len(call.Call.Args)-1]
				phi := carriedPhi(arg)
				why := "the text comes from this iteration's read"
				if phi != nil {
					why = "the text handed to the slot is the loop-carried variable " + shorten(valueExpr(c, phi, 0), 60) + ": a slot whose script is not configured receives the script read for an earlier slot"
				}
				r.Check(phi == nil, "S3-row", fmt.Sprintf("%s: script text handed to a slot setter#%d in %s is read for that slot", pk.Format, n, c.funcKey(fn)), c.instrPos(call), why)
			})
		}
	}
	r.Floor("S3-row", n, 1)
}

// checkInstallFunctionClosed (S3-arch-close): archlinux wraps each script in a
// shell function. The script is copied verbatim, so whether it ends in a
// newline is the user's business; the text that closes the function must
// therefore begin with a newline itself - otherwise the brace is glued to the
// script's last line and the function is never closed.
func checkInstallFunctionClosed(c *Ctx, r *Report) {
	pk := c.PackagerByFormat("archlinux")
	if pk == nil {
		return
	}
	n := 0
	for _, fn := range sortedFuncs(c, c.Reach(pk.Package)) {
		if c.funcPkgPath(fn) != pk.PkgPath {
			continue
		}
		// the function that opens "function <name>() {" ...
		opens := false
		forEachInstr(fn, func(in ssa.Instruction) {
			if call, ok := in.(*ssa.Call); ok {
				for _, a := range call.Call.Args {
					if strings.HasPrefix(constOrEmpty(a), "function ") {
						opens = true
					}
				}
			}
		})
		if !opens {
			continue
		}
		// ... and writes the closing brace
		forEachInstr(fn, func(in ssa.Instruction) {
			call, ok := in.(*ssa.Call)
			if !ok {
				return
			}
			for _, a := range call.Call.Args {
				t := constOrEmpty(a)
				if t == "" || !strings.Contains(t, "}") || strings.HasPrefix(t, "function ") {
					continue
				}
				n++
				r.Check(strings.HasPrefix(t, "\n"), "S3-arch-close", fmt.Sprintf("archlinux: text closing a script function#%d in %s starts on a new line", n, c.funcKey(fn)), c.instrPos(call),
					fmt.Sprintf("the closing text is %q: after a script that does not end in a newline the brace continues the script's last line, the function stays open and swallows the next one", t))
			}
		})
	}
	r.Floor("S3-arch-close", n, 1)
}

// checkNoOwnScripts (S2-own-script): "a slot is populated iff its script is
// configured", with the configured bytes. A packager that carries script text
// of its own (a constant starting with an interpreter line) can only use it to
// fill a slot nobody configured or to replace what was configured.
func checkNoOwnScripts(c *Ctx, r *Report) {
	n := 0
	bad := ""
	pos := "-"
	pkgs := map[string]bool{}
	for _, pk := range c.Packagers {
		if pk.Format != "" {
			pkgs[pk.PkgPath] = true
		}
	}
	seen := map[*ssa.Const]bool{}
	for _, fn := range c.ModFuncs {
		if !pkgs[c.funcPkgPath(fn)] {
			continue
		}
		n++
		forEachInstr(fn, func(in ssa.Instruction) {
			for _, op := range in.Operands(nil) {
				if op == nil || *op == nil {
					continue
				}
				k, ok := (*op).(*ssa.Const)
				if !ok || seen[k] || !isConstString(k) {
					continue
				}
				seen[k] = true
				if s := strings.TrimLeft(constString(k), " \t\r\n"); strings.HasPrefix(s, "#!") {
					bad = shorten(strings.SplitN(s, "\n", 2)[0], 40) + " in " + c.funcKey(fn)
					pos = c.instrPos(in)
				}
			}
		})
	}
	r.Check(bad == "", "S2-own-script", "no packager carries script text of its own", pos,
		fmt.Sprintf("%d packager functions examined; a string constant starting with an interpreter line (%s): script slots hold the configured files only", n, bad))
	if n < 50 {
		r.Fail("instance-floor", "S2-own-script", "-", fmt.Sprintf("only %d packager functions examined", n))
	}
}

// checkScriptTagPairs (S5-tag-pair): rpmpack fills the scriptlet tags through
// its Add* methods. Where the packager names such a tag by number - handed to a
// helper next to the setter, or written with AddCustomTag - the number is the
// tag of that very slot; custom tags are applied last, so a wrong number
// overwrites another event's script.
func checkScriptTagPairs(c *Ctx, r *Report) {
	pk := c.PackagerByFormat("rpm")
	if pk == nil {
		return
	}
	tagSlot := map[int64]string{}
	for slot, t := range rpmScriptTags {
		tagSlot[int64(t)] = slot
	}
	n := 0
	for _, fn := range sortedFuncs(c, c.Reach(pk.Package)) {
		if c.funcPkgPath(fn) != pk.PkgPath {
			continue
		}
		forEachInstr(fn, func(in ssa.Instruction) {
			call, ok := in.(*ssa.Call)
			if !ok {
				return
			}
			slot := ""
			var tags []int64
			for _, a := range call.Call.Args {
				if s := boundRPMSlot(a); s != "" {
					slot = s
				}
				if k, isK := stripConv(a).(*ssa.Const); isK && k.Value != nil && k.Value.Kind() == constant.Int {
					if _, isTag := tagSlot[k.Int64()]; isTag {
						tags = append(tags, k.Int64())
					}
				}
			}
			if calleeIs(call, rpmpackPath, "RPM", "AddCustomTag") && len(tags) > 0 {
				n++
				r.Fail("S5-tag-pair", fmt.Sprintf("rpm: scriptlet tag %d written as a custom tag in %s", tags[0], c.funcKey(fn)), c.instrPos(call),
					"a scriptlet tag is written with AddCustomTag and a literal number: custom tags are applied after the generated ones and replace the script rpmpack put there")
				return
			}
			if slot == "" || len(tags) == 0 {
				return
			}
			for _, t := range tags {
				n++
				r.Check(tagSlot[t] == slot, "S5-tag-pair", fmt.Sprintf("rpm: tag number next to the %s setter#%d in %s", slot, n, c.funcKey(fn)), c.instrPos(call),
					fmt.Sprintf("the call pairs the %s setter with tag %d, which is %s: what is written under that number lands in another event's slot", slot, t, tagSlot[t]))
			}
		})
	}
	r.Count("script_tag_pairs", n)
	if n == 0 {
		r.Pass("S5-tag-pair", "rpm: no scriptlet tag is named by number in the packager", "-", "the slots are filled through rpmpack's Add* methods only")
	}
}
