package main

import (
	"fmt"
	"go/token"
	"go/types"
	"sort"
	"strings"

	"golang.org/x/tools/go/ssa"
)

func init() { register("C08", checkC08) }

const rpmpackPath = "github.com/google/rpmpack"

// cellEvaluator returns an evaluator in which "the *files.Content at hand" has
// the given type (and, optionally, a FileInfo with the given mode).
func cellEvaluator(c *Ctx, typ string, mode *int64) *Evaluator {
	ev := newEvaluator(c)
	obj := newAObj("content")
	obj.Fields["Type"] = cStr(typ)
	obj.Fields["Packager"] = cStr("")
	if mode != nil {
		fi := newAObj("fileinfo")
		fi.Fields["Mode"] = cInt(*mode)
		obj.Fields["FileInfo"] = avObj{fi}
		ev.Defaults[typesKeyPtr(c, "files", "ContentFileInfo")] = fi
	}
	ev.Defaults[c.contentPtrKey()] = obj
	return ev
}

func typesKeyPtr(c *Ctx, rel, name string) string {
	n := c.NamedType(rel, name)
	if n == nil {
		return ""
	}
	return "*" + n.Obj().Pkg().Path() + "." + name
}

// hasConstArg reports whether the call passes the string constant s.
func hasConstArg(call ssa.CallInstruction, s string) bool {
	for _, a := range call.Common().Args {
		if k, ok := a.(*ssa.Const); ok && k.Value != nil && k.Value.Kind().String() == "String" && constString(k) == s {
			return true
		}
	}
	return false
}

// conffilesBuilder finds, in the packaging call graph, the module function
// whose result is written as the member named "./conffiles".
func conffilesBuilder(c *Ctx, reach map[*ssa.Function]bool) (*ssa.Function, ssa.Instruction) {
	for _, fn := range sortedFuncs(c, reach) {
		var found *ssa.Function
		var at ssa.Instruction
		forEachInstr(fn, func(in ssa.Instruction) {
			call, ok := in.(*ssa.Call)
			if !ok || !hasConstArg(call, "./conffiles") {
				return
			}
			for _, a := range call.Call.Args {
				if inner, ok := a.(*ssa.Call); ok {
					if inner.Type().String() != "[]byte" {
						continue
					}
					if sc := inner.Call.StaticCallee(); sc != nil && c.isModuleFunc(sc) {
						found, at = sc, call
					}
				}
			}
		})
		if found != nil {
			return found, at
		}
	}
	return nil, nil
}

// bypassable: inside the contents loop of the frame's function there is a live
// path from the start of the loop body back to the loop header that does not
// execute `at` — i.e. under the cell's assumption the instruction is reached
// on some iterations only, depending on something the cell does not fix.
func bypassable(fr *Frame, at ssa.Instruction) bool {
	fn := fr.Fn
	var body *ssa.BasicBlock
	for _, b := range fn.Blocks {
		for _, in := range b.Instrs {
			if ia, ok := in.(*ssa.IndexAddr); ok && isContentContainer(ia.X.Type()) {
				body = b
			}
		}
	}
	if body == nil || body.Idom() == nil {
		return false
	}
	header := body.Idom()
	target := at.Block()
	seen := map[*ssa.BasicBlock]bool{}
	var dfs func(b *ssa.BasicBlock) bool
	dfs = func(b *ssa.BasicBlock) bool {
		if b == target {
			return false
		}
		if b == header {
			return true
		}
		if seen[b] {
			return false
		}
		seen[b] = true
		for _, s := range b.Succs {
			if !fr.liveEdge[[2]int{b.Index, s.Index}] {
				continue
			}
			if dfs(s) {
				return true
			}
		}
		return false
	}
	return dfs(body)
}

// liveAppends returns the provenance of every value appended in live code.
func liveAppends(pa *provAnalysis, fr *Frame) []provSet {
	var out []provSet
	for _, li := range fr.LiveInstrs() {
		call, ok := li.In.(*ssa.Call)
		if !ok {
			continue
		}
		if b, ok := call.Call.Value.(*ssa.Builtin); ok && b.Name() == "append" && len(call.Call.Args) == 2 {
			out = append(out, pa.Of(call.Call.Args[1]))
		}
	}
	return out
}

func checkC08(c *Ctx, r *Report) {
	r.Rules = []string{"R-conffiles (deb, ipk)", "R-backup (archlinux)", "R-rpmflag", "R-ghost-mode", "R-deb-skips-ghost", "F11 glob expansion keeps the declared type", "cross-check of rpmpack flag constants (thorough)", "R-rpm-only rpm-only entry types planned for rpm only", "R-rpmflag-field every rpm file record's Type is set from its own FileType value", "R-prepared contents are read from the prepared Info only", "R-type-stable an entry's type is assigned only on entries the assigning function has just created", "R-copy-type an entry rebuilt from another takes its type over", "plan-K2c (imported from C05)", "R-prepare-always nfpm.PrepareForPackager plans the contents on every successful call", "plan-D1+D5 typed entries go through the planner mechanism that keeps their type (imported from C05)"}
	r.Explanation = "Exhaustive decision of the (prepared entry type x packager) registration matrix by abstract evaluation over go/ssa: for every prepared type the deb and ipk conffiles builders and the archlinux backup loop are evaluated with the entry's type fixed, and registration (an append of the absolute destination / a 'backup' key-value write of the relative destination) must be live exactly for config, config|noreplace and config|missingok; the rpm payload writer is evaluated likewise and the set of rpmpack file-type constants that can reach the file constructor must be exactly the RPMFILE_* value the statement names for that type; the ghost default mode 0644 is stored iff the mode is 0; deb skips ghost entries; glob expansion copies the declaring entry's type. Together with the relevance table of C05 (types that never reach a format) this covers every cell; nothing is executed."
	r.Explanation += " (R-rpmflag-field) every rpm file record's Type field is stored from a FileType value of its own construction on every path. (R-prepared) after Package has handed an Info to nfpm.PrepareForPackager, every function that reads .Contents reads it from that same Info (followed through parameters, captured variables and identity-returning helpers)."
	r.Explanation += " (R-type-stable) every store to a Content's Type field targets an allocation of the storing function or the result of a function that returns only fresh allocations."
	r.Explanation += " (R-copy-type) every new Content whose fields are loaded from the like-named fields of an existing entry also sets Type."
	r.Explanation += " (R-prepare-always) nfpm.PrepareForPackager, evaluated with name, architecture and version set, must-reaches the planner call."
	r.Assumptions = []string{
		"rpmpack's FileType constants carry the RPMFILE_* values (checked against the constants' values as compiled; rpmpack's use of them is the dependency's)",
		"what a glob matches on disk is not analysed",
	}
	pa := newProv(c)
	cells := 0

	// ---- deb / ipk conffiles ----
	for _, format := range []string{"deb", "ipk"} {
		pk := c.PackagerByFormat(format)
		if pk == nil {
			r.Unresolved("packager "+format, "not registered")
			continue
		}
		reach := c.Reach(pk.Package)
		builder, site := conffilesBuilder(c, reach)
		if builder == nil {
			r.Unresolved(format+" conffiles builder", "no call writes a member named ./conffiles from a module function's result")
			continue
		}
		_ = site
		for _, typ := range preparedTypes {
			cells++
			ev := cellEvaluator(c, typ, nil)
			fr := ev.Explore(builder, make([]AV, len(builder.Params)))
			registered := false
			pathOK := false
			conditional := false
			for _, li := range fr.LiveInstrs() {
				call, ok := li.In.(*ssa.Call)
				if !ok || li.F != fr {
					continue
				}
				// the path joins the list: appended to a slice, or written to
				// the buffer the file is built in
				var item ssa.Value
				if b, ok := call.Call.Value.(*ssa.Builtin); ok && b.Name() == "append" && len(call.Call.Args) == 2 {
					item = call.Call.Args[1]
				} else if o := calleeObj(call); o != nil && (o.Name() == "WriteString" || o.Name() == "Write") && len(call.Call.Args) >= 1 {
					item = call.Call.Args[len(call.Call.Args)-1]
				}
				if item == nil {
					continue
				}
				p := pa.Of(item)
				if p.has("Content.Destination") {
					registered = true
					if p.has("via:files.NormalizeAbsoluteFilePath") {
						pathOK = true
					}
					if bypassable(fr, call) {
						conditional = true
					}
				}
			}
			want := specRelevant(format, "", typ) && configTypes[typ]
			construct := fmt.Sprintf("%s conffiles[type=%q]", format, typ)
			detail := fmt.Sprintf("registered=%v, expected=%v", registered, want)
			ok := registered == want
			if ok && want && !pathOK {
				ok = false
				detail += "; the listed path is not the absolute cleaned destination (files.NormalizeAbsoluteFilePath)"
			}
			if ok && want && conditional {
				ok = false
				detail += "; registration is reached on some iterations only: it depends on something other than the declared type"
			}
			r.Check(ok, "R-conffiles", construct, c.pos(builder.Pos()), detail)
		}
	}

	// ---- archlinux backup ----
	if pk := c.PackagerByFormat("archlinux"); pk != nil {
		reach := c.Reach(pk.Package)
		var host *ssa.Function
		for _, fn := range sortedFuncs(c, reach) {
			forEachInstr(fn, func(in ssa.Instruction) {
				if call, ok := in.(*ssa.Call); ok && hasConstArg(call, "backup") {
					host = fn
				}
			})
		}
		if host == nil {
			r.Unresolved("archlinux backup writer", "no call with the key constant \"backup\"")
		} else {
			for _, typ := range preparedTypes {
				cells++
				ev := cellEvaluator(c, typ, nil)
				fr := ev.Explore(host, make([]AV, len(host.Params)))
				registered, pathOK := false, false
				for _, li := range fr.LiveInstrs() {
					call, ok := li.In.(*ssa.Call)
					if !ok || li.F != fr || !hasConstArg(call, "backup") {
						continue
					}
					registered = true
					for _, a := range call.Call.Args {
						p := pa.Of(a)
						if p.has("Content.Destination") && p.has("via:files.AsRelativePath") {
							pathOK = true
						}
					}
					if bypassable(fr, call) {
						pathOK = false
					}
				}
				want := specRelevant("archlinux", "", typ) && configTypes[typ]
				ok := registered == want && (!want || pathOK)
				r.Check(ok, "R-backup", fmt.Sprintf("archlinux backup[type=%q]", typ), c.pos(host.Pos()),
					fmt.Sprintf("registered=%v (relative destination, on every iteration=%v), expected=%v", registered, pathOK, want))
			}
		}
	}

	checkPreparedInfo(c, r)
	checkTypeStable(c, r)
	checkCopiesKeepType(c, r)
	checkAlwaysPlans(c, r)
	r.Rules = append(r.Rules, "R-own-packager a packager compares the entry tag only with its own name", "R-ghost-nosource the planner leaves a ghost entry's empty source empty", "R-rpmflag-row the rpm file-type flag is chosen per entry")
	checkOwnPackagerName(c, r)
	checkEmptySourceKept(c, r, "R-ghost-nosource")
	checkFlagNotCarried(c, r)
	// a declared entry is never dropped in favour of an earlier one without
	// the collision being reported (rule of C05): the typed entry of an
	// overlapping pair would otherwise lose its registration silently
	r.Floor("plan-K2c", importRules(c, r, checkC05, "plan-", []string{"K2c"}, nil), 4)
	// through which planner mechanism a typed entry goes decides whether it
	// keeps its type: config entries by glob expansion (which copies the
	// declaring entry's type, F11), the rpm-only documentation types as single
	// entries - a tree walk types every file as plain, a glob expansion turns
	// a linked source into a symlink entry (decision table of C05)
	r.Floor("plan-D1+D5", importRules(c, r, checkC05, "plan-", []string{"D1+D5"}, func(o Obligation) bool {
		for _, t := range []string{"config", "doc", "licence", "license", "readme", "ghost"} {
			if strings.Contains(o.Construct, `type=\"`+t) || strings.Contains(o.Construct, `type="`+t) {
				return strings.Contains(o.Construct, `tag=""`) || strings.Contains(o.Construct, `tag=\"\"`)
			}
		}
		return false
	}), 8)

	// ---- rpm flags ----
	if pk := c.PackagerByFormat("rpm"); pk != nil {
		reach := c.Reach(pk.Package)
		var writer *ssa.Function
		for _, fn := range sortedFuncs(c, reach) {
			n := 0
			forEachInstr(fn, func(in ssa.Instruction) {
				if call, ok := in.(*ssa.Call); ok {
					for _, a := range call.Call.Args {
						if isNamed(a.Type(), rpmpackPath, "FileType") {
							n++
						}
					}
				}
			})
			if n >= 3 {
				writer = fn
			}
		}
		if writer == nil {
			// the flags may be computed by a helper: anchor on the function
			// that loops over the contents and adds the records
			writer = payloadWriter(c, pk)
		}
		if writer == nil {
			r.Unresolved("rpm payload writer", "no function passes rpmpack.FileType constants")
		} else {
			for _, typ := range preparedTypes {
				if !specRelevant("rpm", "", typ) {
					continue
				}
				cells++
				ev := cellEvaluator(c, typ, nil)
				fr := ev.Explore(writer, make([]AV, len(writer.Params)))
				flags := map[string]bool{}
				undecided := false
				addFile := false
				for _, li := range fr.LiveInstrs() {
					call, ok := li.In.(*ssa.Call)
					if !ok {
						continue
					}
					if calleeIs(call, rpmpackPath, "RPM", "AddFile") {
						addFile = true
					}
					if li.F != fr {
						continue
					}
					for _, a := range call.Call.Args {
						if !isNamed(a.Type(), rpmpackPath, "FileType") {
							continue
						}
						if v, ok := avInt(li.F.Eval(a)); ok {
							flags[fmt.Sprint(v)] = true
						} else {
							undecided = true
						}
					}
				}
				want := specRPMFlag(typ)
				construct := fmt.Sprintf("rpm flag[type=%q]", typ)
				var got []string
				for k := range flags {
					got = append(got, k)
				}
				sort.Strings(got)
				switch typ {
				case typeDir, typeSymlink:
					r.Check(len(flags) == 0 && !undecided && addFile, "R-rpmflag", construct, c.pos(writer.Pos()),
						fmt.Sprintf("directory/symlink entries carry no file-type flag; flags that can reach the constructor: {%s}, added=%v", strings.Join(got, ","), addFile))
				case typeImplicitDir:
					r.Check(len(flags) == 0 && !addFile, "R-rpmflag", construct, c.pos(writer.Pos()),
						fmt.Sprintf("implied directories are not recorded in rpm; added=%v flags={%s}", addFile, strings.Join(got, ",")))
				default:
					ok := !undecided && len(flags) == 1 && flags[fmt.Sprint(want)] && addFile
					r.Check(ok, "R-rpmflag", construct, c.pos(writer.Pos()),
						fmt.Sprintf("file-type constants that can reach the file constructor: {%s} (undecided=%v, added=%v); the statement requires exactly %d", strings.Join(got, ","), undecided, addFile, want))
				}
			}
			// the flag handed to the constructor is the flag of the record that
			// is added: every file record's Type field is set from a FileType
			// value of its own construction on every path (not left unset and
			// not inherited from a record built for another entry)
			{
				var fns []*ssa.Function
				for _, fn := range sortedFuncs(c, reach) {
					if c.funcPkgPath(fn) == pk.PkgPath {
						fns = append(fns, fn)
					}
				}
				nrec := 0
				for _, h := range headerObjects(c, fns) {
					if h.Kind != "rpm" || len(h.Uses) == 0 {
						continue
					}
					isFile := false
					for _, u := range h.Uses {
						if h.classAt(u)["FILE"] {
							isFile = true
						}
					}
					if !isFile {
						continue
					}
					nrec++
					okT := true
					why := "Type is stored from the constructor's FileType value on every path"
					for _, u := range h.Uses {
						defs, init := h.reaching("Type", u)
						if init {
							okT = false
							why = fmt.Sprintf("at %s the record's Type can be whatever the record held before (unset, or copied from a record built for another entry): the flags would not be those of this entry's type", c.instrPos(u))
						}
						for _, st := range defs {
							if !isNamed(st.Val.Type(), rpmpackPath, "FileType") {
								okT = false
								why = fmt.Sprintf("the Type stored at %s is not a FileType value", c.instrPos(st))
							}
							// ... and it is the flag chosen for the entry's type as it
							// was handed in: a parameter, a constant, or a module
							// function's result - not a value recombined here from
							// something else about the entry (its destination, ...)
							switch sv := stripConv(h.valueOf(st)).(type) {
							case *ssa.Parameter, *ssa.Const:
							case *ssa.Call:
								if sc := sv.Call.StaticCallee(); sc == nil || !c.isModuleFunc(sc) {
									okT = false
									why = fmt.Sprintf("the Type stored at %s is computed by a call outside the module", c.instrPos(st))
								}
							default:
								okT = false
								why = fmt.Sprintf("the Type stored at %s is %s - recombined in the record builder, not the flag chosen for the entry's type: entries get flags their type does not state (a ghost with an extra flag is shipped in the payload)", c.instrPos(st), shorten(valueExpr(c, sv, 0), 80))
							}
						}
					}
					r.Check(okT, "R-rpmflag-field", "rpm: Type of file record "+h.key(c), c.instrPos(h.Create), why)
				}
				if nrec < 1 {
					r.Fail("instance-floor", "R-rpmflag-field", "-", "no rpm file record found")
				}
			}
			// ghost default mode: stored iff mode == 0
			for _, m := range []int64{0, 0o600} {
				m := m
				cells++
				ev := cellEvaluator(c, typeGhost, &m)
				fr := ev.Explore(writer, make([]AV, len(writer.Params)))
				stored := false
				for _, li := range fr.LiveInstrs() {
					st, ok := li.In.(*ssa.Store)
					if !ok {
						continue
					}
					fa, ok := st.Addr.(*ssa.FieldAddr)
					if !ok || fieldName(fa.X.Type(), fa.Field) != "Mode" || rootTypeName(fa.X.Type()) != "FileInfo" {
						continue
					}
					if v, ok := avInt(li.F.Eval(st.Val)); ok && v == 0o644 {
						stored = true
					}
				}
				want := m == 0
				r.Check(stored == want, "R-ghost-mode", fmt.Sprintf("rpm ghost default mode[mode=%#o]", m), c.pos(writer.Pos()),
					fmt.Sprintf("store of 0644 into the ghost entry's mode is live=%v, expected=%v (default only when no mode is set)", stored, want))
			}
			// every other type never gets a mode rewritten
			for _, typ := range []string{typeFile, typeConfig, typeDoc} {
				cells++
				zero := int64(0)
				ev := cellEvaluator(c, typ, &zero)
				fr := ev.Explore(writer, make([]AV, len(writer.Params)))
				stored := false
				for _, li := range fr.LiveInstrs() {
					if st, ok := li.In.(*ssa.Store); ok {
						if fa, ok := st.Addr.(*ssa.FieldAddr); ok && fieldName(fa.X.Type(), fa.Field) == "Mode" && rootTypeName(fa.X.Type()) == "FileInfo" {
							stored = true
						}
					}
				}
				r.Check(!stored, "R-ghost-mode", fmt.Sprintf("rpm mode untouched[type=%q]", typ), c.pos(writer.Pos()), "only ghost entries get a default mode")
			}
		}
		if c.Tier == "thorough" {
			checkRpmpackConstants(c, r)
		}
	}

	// ---- rpm-only types never reach another format (selection in the planner) ----
	if prep := c.Func("files", "PrepareForPackager"); prep != nil {
		for _, format := range specFormats {
			for _, typ := range []string{typeGhost, typeDoc, typeLicence, typeLicense, typeReadme} {
				for _, tag := range []string{"", format} {
					cells++
					ev := newEvaluator(c)
					obj := newAObj("content")
					obj.Fields["Type"] = cStr(typ)
					obj.Fields["Packager"] = cStr(tag)
					ev.Defaults[c.contentPtrKey()] = obj
					args := make([]AV, len(prep.Params))
					for i, p := range prep.Params {
						if b, ok := p.Type().Underlying().(*types.Basic); ok && b.Kind() == types.String {
							args[i] = cStr(format)
						}
					}
					got := planMarkers(c, ev.Explore(prep, args))
					want := format == "rpm"
					r.Check((len(got) > 0) == want, "R-rpm-only", fmt.Sprintf("plan for %s contains type %q [tag=%q]", format, typ, tag), c.pos(prep.Pos()),
						fmt.Sprintf("planner mechanisms live {%s}; rpm-only entry types must be planned for rpm only", joinSorted(got)))
				}
			}
		}
	}

	// ---- deb skips ghost ----
	if pk := c.PackagerByFormat("deb"); pk != nil {
		if w := payloadWriter(c, pk); w != nil {
			cells++
			ev := cellEvaluator(c, typeGhost, nil)
			fr := ev.Explore(w, make([]AV, len(w.Params)))
			wrote := false
			for _, li := range fr.LiveInstrs() {
				if call, ok := li.In.(*ssa.Call); ok && calleeIs(call, "archive/tar", "Writer", "WriteHeader") {
					wrote = true
				}
			}
			r.Check(!wrote, "R-deb-skips-ghost", "deb payload[type=\"ghost\"]", c.pos(w.Pos()), "a ghost entry must not produce a data.tar member")
		} else {
			r.Unresolved("deb payload writer", "not found")
		}
	}

	// ---- F11 ----
	n := 0
	for _, fn := range c.ModFuncs {
		if c.funcPkgPath(fn) != filesPath {
			continue
		}
		hasGlobParam := false
		for _, p := range fn.Params {
			if types_isStringMap(p) {
				hasGlobParam = true
			}
		}
		if !hasGlobParam {
			continue
		}
		forEachInstr(fn, func(in ssa.Instruction) {
			st, ok := in.(*ssa.Store)
			if !ok {
				return
			}
			fa, ok := st.Addr.(*ssa.FieldAddr)
			if !ok || fieldName(fa.X.Type(), fa.Field) != "Type" || !isContentPtr(fa.X.Type()) {
				return
			}
			if _, isAlloc := fa.X.(*ssa.Alloc); !isAlloc {
				// the on-disk-symlink override of an already built entry
				if k, ok := st.Val.(*ssa.Const); ok && constString(k) == typeSymlink {
					r.Pass("F11", "glob expansion: on-disk symlink override in "+c.funcKey(fn), c.instrPos(st), "enumerated override: a matched file that is a symlink on disk becomes a symlink entry")
					return
				}
			}
			n++
			p := pa.Of(st.Val)
			r.Check(p.has("Content.Type") && len(p.consts()) == 0, "F11", "glob expansion: type of the expanded entry in "+c.funcKey(fn), c.instrPos(st),
				"the expanded entry's type must be copied from the declaring entry; derives from {"+p.String()+"}")
		})
	}
	r.Floor("F11", n, 1)
	r.Count("matrix_cells", cells)
	r.Exhaustive = true
}

func types_isStringMap(p *ssa.Parameter) bool {
	return p.Type().String() == "map[string]string"
}

// payloadWriter: the function in R(P) that loops over the contents, branches
// on the entry type and (transitively) writes archive headers named after the
// entry's destination.
func payloadWriter(c *Ctx, pk *Packager) *ssa.Function {
	reach := c.Reach(pk.Package)
	var best *ssa.Function
	for _, fn := range sortedFuncs(c, reach) {
		if c.funcPkgPath(fn) != pk.PkgPath {
			continue
		}
		comparesType, loops := false, false
		forEachInstr(fn, func(in ssa.Instruction) {
			switch x := in.(type) {
			case *ssa.BinOp:
				if x.Op == token.EQL || x.Op == token.NEQ {
					for _, side := range []ssa.Value{x.X, x.Y} {
						if ld, ok := side.(*ssa.UnOp); ok && ld.Op == token.MUL {
							if fa, ok := ld.X.(*ssa.FieldAddr); ok && fieldName(fa.X.Type(), fa.Field) == "Type" && isContentPtr(fa.X.Type()) {
								comparesType = true
							}
						}
					}
				}
			case *ssa.IndexAddr:
				if isContentContainer(x.X.Type()) {
					loops = true
				}
			}
		})
		if loops && !comparesType {
			// the loop hands each entry to a helper of the same package that
			// branches on its type
			forEachInstr(fn, func(in ssa.Instruction) {
				call, ok := in.(*ssa.Call)
				if !ok || comparesType {
					return
				}
				g := call.Call.StaticCallee()
				if g == nil || len(g.Blocks) == 0 || c.funcPkgPath(g) != pk.PkgPath {
					return
				}
				takesEntry := false
				for _, a := range call.Call.Args {
					if isContentPtr(a.Type()) {
						takesEntry = true
					}
				}
				if !takesEntry {
					return
				}
				forEachInstr(g, func(i2 ssa.Instruction) {
					if x, ok := i2.(*ssa.BinOp); ok && (x.Op == token.EQL || x.Op == token.NEQ) {
						for _, side := range []ssa.Value{x.X, x.Y} {
							if ld, ok := side.(*ssa.UnOp); ok && ld.Op == token.MUL {
								if fa, ok := ld.X.(*ssa.FieldAddr); ok && fieldName(fa.X.Type(), fa.Field) == "Type" && isContentPtr(fa.X.Type()) {
									comparesType = true
								}
							}
						}
					}
				})
			})
		}
		if !comparesType || !loops {
			continue
		}
		// must be able to write a header / add a file
		sub := c.Reach(fn)
		writes := false
		for f := range sub {
			forEachInstr(f, func(in ssa.Instruction) {
				if call, ok := in.(ssa.CallInstruction); ok {
					if calleeIs(call, "archive/tar", "Writer", "WriteHeader") || calleeIs(call, rpmpackPath, "RPM", "AddFile") {
						writes = true
					}
				}
			})
		}
		if !writes {
			continue
		}
		// prefer the one whose headers are named after destinations: it stores
		// or passes Content.Destination
		usesDest := false
		for f := range sub {
			forEachInstr(f, func(in ssa.Instruction) {
				if ld, ok := in.(*ssa.UnOp); ok && ld.Op == token.MUL {
					if fa, ok := ld.X.(*ssa.FieldAddr); ok && fieldName(fa.X.Type(), fa.Field) == "Destination" && isContentPtr(fa.X.Type()) {
						usesDest = true
					}
				}
			})
		}
		if usesDest && (best == nil || callsFileOpen(c, fn)) {
			if best == nil || callsFileOpen(c, fn) {
				best = fn
			}
		}
	}
	return best
}

// callsFileOpen: the function (transitively) opens or reads a source file.
func callsFileOpen(c *Ctx, fn *ssa.Function) bool {
	found := false
	for f := range c.Reach(fn) {
		forEachInstr(f, func(in ssa.Instruction) {
			if call, ok := in.(ssa.CallInstruction); ok {
				if o := calleeObj(call); o != nil {
					switch qualifiedName(o) {
					case "os.Open", "os.OpenFile", "os.ReadFile":
						found = true
					}
				}
			}
		})
	}
	return found
}

// checkRpmpackConstants (thorough): the values of rpmpack's FileType constants
// equal the RPMFILE_* numbers.
func checkRpmpackConstants(c *Ctx, r *Report) {
	p := c.AllPkgs[rpmpackPath]
	if p == nil || p.Types == nil {
		r.Unresolved("rpmpack constants", "dependency package not loaded")
		return
	}
	want := map[string]int64{"GenericFile": 0, "ConfigFile": 1, "DocFile": 2, "MissingOkFile": 8, "NoReplaceFile": 16, "GhostFile": 64, "LicenceFile": 128, "ReadmeFile": 256}
	for name, v := range want {
		o := p.Types.Scope().Lookup(name)
		ok := false
		got := "missing"
		if k, isC := o.(*types.Const); isC {
			got = k.Val().ExactString()
			ok = got == fmt.Sprint(v)
		}
		r.Check(ok, "R-rpmpack-const", "rpmpack."+name, "-", fmt.Sprintf("value %s, RPMFILE number %d", got, v))
	}
}

// checkPreparedInfo (R-prepared): conffiles, backup lines and file flags are
// computed from the *prepared* contents (globs expanded, entries for other
// packagers dropped). After Package has handed an Info to
// nfpm.PrepareForPackager, every function it calls that reads .Contents must
// read it from that same Info - not from an unprepared copy or the original.
func checkPreparedInfo(c *Ctx, r *Report) {
	np := c.Func("", "PrepareForPackager")
	if np == nil {
		return
	}
	pa := newProv(c)
	n := 0
	for _, pk := range c.Packagers {
		if pk.Format == "" {
			continue
		}
		var prep *ssa.Call
		forEachInstr(pk.Package, func(in ssa.Instruction) {
			if call, ok := in.(*ssa.Call); ok && call.Call.StaticCallee() == np && prep == nil {
				prep = call
			}
		})
		var pArg ssa.Value
		if prep != nil {
			pArg = prep.Call.Args[0]
		} else {
			// the preparation lives in a helper of Package's: the call to the
			// helper is the prepare step, the argument bound to the parameter
			// the helper prepares is the prepared Info
			forEachInstr(pk.Package, func(in ssa.Instruction) {
				call, ok := in.(*ssa.Call)
				if !ok || prep != nil {
					return
				}
				h := call.Call.StaticCallee()
				if h == nil || !c.isModuleFunc(h) || len(h.Blocks) == 0 {
					return
				}
				forEachInstr(h, func(i2 ssa.Instruction) {
					inner, ok := i2.(*ssa.Call)
					if !ok || inner.Call.StaticCallee() != np || prep != nil {
						return
					}
					v := throughIdentity(c, chaseCell(inner.Call.Args[0], 0))
					for i, q := range h.Params {
						if ssa.Value(q) == v && i < len(call.Call.Args) {
							prep, pArg = call, call.Call.Args[i]
						}
					}
				})
			})
		}
		if prep == nil {
			r.Unresolved(pk.Format+" prepare call", "Package does not call nfpm.PrepareForPackager, directly or in a helper it hands its Info to")
			continue
		}
		n++
		P := throughIdentity(c, pArg)
		same := func(v ssa.Value) bool {
			v = throughIdentity(c, resolveUp(c, pa, chaseCell(v, 0)))
			if v == P {
				return true
			}
			// P is the address of a local, v a load/alias of it - or both load one cell
			if ld, ok := v.(*ssa.UnOp); ok && ld.Op == token.MUL {
				if pl, ok := P.(*ssa.UnOp); ok && pl.Op == token.MUL {
					cellOf := func(x ssa.Value) ssa.Value {
						if fv, ok := x.(*ssa.FreeVar); ok {
							if b := freeVarBinding(fv); b != nil {
								return b
							}
						}
						return x
					}
					pc, vc := cellOf(pl.X), cellOf(ld.X)
					if pc == vc {
						// one variable: the same Info as long as it is not
						// reassigned after the prepare call
						settled := true
						if al, ok := pc.(*ssa.Alloc); ok {
							for _, ref := range *al.Referrers() {
								if st, ok := ref.(*ssa.Store); ok && st.Addr == ssa.Value(al) && !instrDominates(st, prep) {
									settled = false
								}
							}
						}
						return settled
					}
				}
			}
			return false
		}
		isInfoPtr := func(t types.Type) bool { return isPtrToNamed(t, modPath, "Info") }
		type rawParam struct {
			fn  *ssa.Function
			idx int
		}
		raw := map[rawParam]bool{}
		var work []rawParam
		var firstBad ssa.Instruction
		badWhy := ""
		readsContents := func(v ssa.Value) ssa.Instruction {
			if v.Referrers() == nil {
				return nil
			}
			for _, ref := range *v.Referrers() {
				if fa, ok := ref.(*ssa.FieldAddr); ok {
					name := fieldName(fa.X.Type(), fa.Field)
					if name == "Contents" {
						return fa
					}
					if name == "Overridables" {
						for _, r2 := range *fa.Referrers() {
							if f2, ok := r2.(*ssa.FieldAddr); ok && fieldName(f2.X.Type(), f2.Field) == "Contents" {
								return f2
							}
						}
					}
				}
			}
			return nil
		}
		// scan a function body: calls with an Info argument that is not P
		var scan func(fn *ssa.Function, post func(ssa.Instruction) bool, isRaw func(ssa.Value) bool, d int)
		scan = func(fn *ssa.Function, post func(ssa.Instruction) bool, isRaw func(ssa.Value) bool, d int) {
			if d > 6 {
				return
			}
			forEachInstr(fn, func(in ssa.Instruction) {
				if !post(in) {
					return
				}
				switch x := in.(type) {
				case ssa.CallInstruction:
					sc := x.Common().StaticCallee()
					if sc == nil || sc.Blocks == nil || !c.isModuleFunc(sc) || sc == np {
						return
					}
					for i, a := range x.Common().Args {
						if isInfoPtr(a.Type()) && isRaw(a) && i < len(sc.Params) {
							k := rawParam{sc, i}
							if !raw[k] {
								raw[k] = true
								work = append(work, k)
							}
						}
					}
				case *ssa.MakeClosure:
					if f, ok := x.Fn.(*ssa.Function); ok {
						scan(f, func(ssa.Instruction) bool { return true }, isRaw, d+1)
					}
				}
			})
		}
		rawInPackage := func(v ssa.Value) bool { return !same(v) }
		scan(pk.Package, func(in ssa.Instruction) bool { return instrDominates(prep, in) }, rawInPackage, 0)
		// direct reads in Package (and its closures) after prepare
		var infoVals []ssa.Value
		collect := func(fn *ssa.Function) {
			for _, p := range fn.Params {
				if isInfoPtr(p.Type()) {
					infoVals = append(infoVals, p)
				}
			}
			for _, fv := range fn.FreeVars {
				if isInfoPtr(fv.Type()) {
					infoVals = append(infoVals, fv)
				}
			}
			forEachInstr(fn, func(in ssa.Instruction) {
				if v, ok := in.(ssa.Value); ok && isInfoPtr(v.Type()) {
					infoVals = append(infoVals, v)
				}
			})
		}
		collect(pk.Package)
		for _, an := range pk.Package.AnonFuncs {
			collect(an)
		}
		for _, v := range infoVals {
			if same(v) {
				continue
			}
			if rd := readsContents(v); rd != nil && firstBad == nil {
				if rd.Parent() != pk.Package || instrDominates(prep, rd) {
					firstBad = rd
					badWhy = "the contents are read from an Info other than the one handed to PrepareForPackager"
				}
			}
		}
		for len(work) > 0 {
			k := work[0]
			work = work[1:]
			prm := k.fn.Params[k.idx]
			if rd := readsContents(prm); rd != nil && firstBad == nil {
				firstBad = rd
				badWhy = fmt.Sprintf("%s reads the contents of an Info that, at a call after the prepare step, is not the prepared one", c.funcKey(k.fn))
			}
			scan(k.fn, func(ssa.Instruction) bool { return true }, func(v ssa.Value) bool {
				return chaseCell(v, 0) == ssa.Value(prm)
			}, 0)
		}
		construct := pk.Format + ": after the prepare step the contents are read from the prepared Info only"
		if firstBad != nil {
			r.Fail("R-prepared", construct, c.instrPos(firstBad), badWhy+": config entries would be listed (conffiles, backup, flags) as configured - globs unexpanded, entries of other packagers included - while the payload holds the prepared entries")
		} else {
			r.Pass("R-prepared", construct, c.instrPos(prep), "every Info whose contents are read after the prepare call is the value handed to it")
		}
	}
	r.Floor("R-prepared", n, 5)
}

// throughIdentity strips calls of module functions every return of which is
// one and the same parameter (withChangelogIfRequested(info) returns info).
func throughIdentity(c *Ctx, v ssa.Value) ssa.Value {
	for i := 0; i < 4; i++ {
		call, ok := v.(*ssa.Call)
		if !ok {
			return v
		}
		sc := call.Call.StaticCallee()
		if sc == nil || sc.Blocks == nil || !c.isModuleFunc(sc) {
			return v
		}
		idx := -1
		for _, b := range sc.Blocks {
			ret, ok := b.Instrs[len(b.Instrs)-1].(*ssa.Return)
			if !ok {
				continue
			}
			res := retResults(ret)
			if len(res) != 1 {
				return v
			}
			prm, ok := res[0].(*ssa.Parameter)
			if !ok {
				return v
			}
			k := -1
			for j, q := range sc.Params {
				if q == prm {
					k = j
				}
			}
			if k < 0 || idx >= 0 && idx != k {
				return v
			}
			idx = k
		}
		if idx < 0 || idx >= len(call.Call.Args) {
			return v
		}
		v = call.Call.Args[idx]
	}
	return v
}

// freeVarBinding: the value a closure's free variable is bound to where the
// closure is made (nil when not found).
func freeVarBinding(fv *ssa.FreeVar) ssa.Value {
	fn := fv.Parent()
	p := fn.Parent()
	if p == nil {
		return nil
	}
	var b ssa.Value
	forEachInstr(p, func(in ssa.Instruction) {
		if mc, ok := in.(*ssa.MakeClosure); ok && mc.Fn == fn {
			for j, f := range fn.FreeVars {
				if f == fv && j < len(mc.Bindings) {
					b = mc.Bindings[j]
				}
			}
		}
	})
	return b
}

// chaseCell resolves a value through single-source local cells and closure
// captures: a load of a cell that only ever holds one value yields that
// value; a free variable yields what it is bound to.
func chaseCell(v ssa.Value, d int) ssa.Value {
	if d > 8 || v == nil {
		return v
	}
	switch x := v.(type) {
	case *ssa.FreeVar:
		if b := freeVarBinding(x); b != nil {
			return chaseCell(b, d+1)
		}
	case *ssa.UnOp:
		if x.Op != token.MUL {
			return v
		}
		cell := x.X
		if fv, ok := cell.(*ssa.FreeVar); ok {
			cell = freeVarBinding(fv)
		}
		al, ok := cell.(*ssa.Alloc)
		if !ok || al.Referrers() == nil {
			return v
		}
		var src ssa.Value
		for _, ref := range *al.Referrers() {
			if st, ok := ref.(*ssa.Store); ok && st.Addr == ssa.Value(al) {
				s2 := chaseCell(st.Val, d+1)
				if src != nil && s2 != src {
					return v
				}
				src = s2
			}
		}
		if src != nil {
			return src
		}
	}
	return v
}

// checkTypeStable (R-type-stable): the declared type of an entry is what every
// packager's typing decision reads, and one configuration's entries are shared
// by the Infos of all formats. A type is therefore only ever assigned on an
// entry the assigning function has just created (the planner's copies, the
// entries it synthesises for trees, globs and parents); no code rewrites the
// type of an entry it was given.
func checkTypeStable(c *Ctx, r *Report) {
	n := 0
	for _, fn := range c.ModFuncs {
		if strings.HasPrefix(c.funcPkgPath(fn), modPath+"/internal/cmd") {
			continue
		}
		k := 0
		forEachInstr(fn, func(in ssa.Instruction) {
			st, ok := in.(*ssa.Store)
			if !ok {
				return
			}
			fa, ok := st.Addr.(*ssa.FieldAddr)
			if !ok || !isContentPtr(fa.X.Type()) || fieldName(fa.X.Type(), fa.Field) != "Type" {
				return
			}
			n++
			k++
			obj := fa.X
			fresh := freshPointer(c, obj)
			if !fresh {
				// a local cell holding a fresh pointer
				if ld, isLd := obj.(*ssa.UnOp); isLd && ld.Op == token.MUL {
					if al, isAl := ld.X.(*ssa.Alloc); isAl {
						if sa := singleAssignment(al); sa != nil && freshPointer(c, sa.Val) {
							fresh = true
						}
					}
				}
			}
			r.Check(fresh, "R-type-stable", fmt.Sprintf("type assignment#%d in %s", k, c.funcKey(fn)), c.instrPos(st),
				"the entry whose type is assigned here is "+shorten(valueExpr(c, obj, 0), 60)+", not one this function has just created: the declared type of a configured entry would change for every format packaged from the same configuration afterwards")
		})
	}
	r.Floor("R-type-stable", n, 4)
}

// checkCopiesKeepType (R-copy-type): wherever an entry is rebuilt from another
// entry - a new Content whose fields are loaded from the like-named fields of
// an existing one - the type is taken over as well. An entry that loses its
// type on the way is packaged as a plain file: no conffiles line, no %config
// flag, no backup entry, and rpm-only types slip into other formats.
func checkCopiesKeepType(c *Ctx, r *Report) {
	n := 0
	for _, fn := range c.ModFuncs {
		if strings.HasPrefix(c.funcPkgPath(fn), modPath+"/internal/cmd") {
			continue
		}
		k := 0
		forEachInstr(fn, func(in ssa.Instruction) {
			al, ok := in.(*ssa.Alloc)
			if !ok || !isNamed(derefType(al.Type()), filesPath, "Content") || al.Referrers() == nil {
				return
			}
			copied := map[string]bool{}
			set := map[string]bool{}
			for _, ref := range *al.Referrers() {
				fa, ok := ref.(*ssa.FieldAddr)
				if !ok || fa.Referrers() == nil {
					continue
				}
				name := fieldName(fa.X.Type(), fa.Field)
				for _, r2 := range *fa.Referrers() {
					st, ok := r2.(*ssa.Store)
					if !ok || st.Addr != ssa.Value(fa) {
						continue
					}
					set[name] = true
					if ld, isLd := st.Val.(*ssa.UnOp); isLd && ld.Op == token.MUL {
						if fa2, isFA := ld.X.(*ssa.FieldAddr); isFA && isContentPtr(fa2.X.Type()) && fieldName(fa2.X.Type(), fa2.Field) == name {
							copied[name] = true
						}
					}
				}
			}
			if !(copied["Source"] && copied["Destination"]) && len(copied) < 2 {
				return
			}
			n++
			k++
			r.Check(set["Type"], "R-copy-type", fmt.Sprintf("entry copy#%d in %s takes the type over", k, c.funcKey(fn)), c.instrPos(al),
				fmt.Sprintf("the new entry copies %s from an existing entry but never sets Type: it would be planned and packaged as a plain file whatever the configuration declared", joinSorted(copied)))
		})
	}
	r.Floor("R-copy-type", n, 1)
}

// checkAlwaysPlans (R-prepare-always): which entries a format ships - and with
// which type - is decided by the planner for *that* format. Every successful
// call of nfpm.PrepareForPackager therefore runs the planner: a shortcut for
// an Info that "was prepared already" would hand one format the plan made
// for another (rpm-only doc entries inside a deb).
func checkAlwaysPlans(c *Ctx, r *Report) {
	prep := c.Func("", "PrepareForPackager")
	plan := c.Func("files", "PrepareForPackager")
	if prep == nil || plan == nil {
		r.Unresolved("nfpm.PrepareForPackager / files.PrepareForPackager", "not found")
		return
	}
	ev := newEvaluator(c)
	info := newAObj("info")
	info.Fields["Name"] = cStr("n")
	info.Fields["Arch"] = cStr("amd64")
	info.Fields["Version"] = cStr("1.0.0")
	ev.Defaults[c.infoPtrKey()] = info
	fr := ev.Explore(prep, make([]AV, len(prep.Params)))
	must := fr != nil && fr.MustReach(func(in ssa.Instruction, _ *Frame) bool {
		call, ok := in.(*ssa.Call)
		return ok && call.Call.StaticCallee() == plan
	})
	r.Check(must, "R-prepare-always", "nfpm.PrepareForPackager plans the contents on every successful call", c.pos(prep.Pos()),
		"with name, architecture and version set some path returns success without calling the planner: the contents would keep whatever an earlier preparation (for another format) made of them")
}

// checkOwnPackagerName (R-own-packager): where a packager compares an entry's
// packager tag with a constant, the constant is that packager's own name (a
// guard copied from another packager drops exactly the entries addressed to
// this one).
func checkOwnPackagerName(c *Ctx, r *Report) {
	pa := newProv(c)
	n := 0
	for _, pk := range c.Packagers {
		if pk.Format == "" {
			continue
		}
		for _, fn := range c.ModFuncs {
			if c.funcPkgPath(fn) != pk.PkgPath {
				continue
			}
			forEachInstr(fn, func(in ssa.Instruction) {
				bo, ok := in.(*ssa.BinOp)
				if !ok || (bo.Op != token.EQL && bo.Op != token.NEQ) {
					return
				}
				var k *ssa.Const
				var v ssa.Value
				if kk, isK := bo.Y.(*ssa.Const); isK {
					k, v = kk, bo.X
				} else if kk, isK := bo.X.(*ssa.Const); isK {
					k, v = kk, bo.Y
				}
				if k == nil || !isConstString(k) || constString(k) == "" || !pa.Of(v).has("Content.Packager") {
					return
				}
				n++
				r.Check(constString(k) == pk.Format, "R-own-packager", fmt.Sprintf("%s: packager tag compared with the packager's own name in %s", pk.Format, c.funcKey(fn)), c.instrPos(bo),
					fmt.Sprintf("an entry's packager tag is compared with %q in the %s packager: entries addressed to %s itself would be treated as foreign", constString(k), pk.Format, pk.Format))
			})
		}
	}
	r.Count("packager_tag_comparisons_in_packagers", n)
}

// checkFlagNotCarried (R-rpmflag-row): the file-type flag handed to an rpm
// record builder is chosen for the entry at hand - not a variable that keeps
// the flag of an earlier entry when no case matches.
func checkFlagNotCarried(c *Ctx, r *Report) {
	pk := c.PackagerByFormat("rpm")
	if pk == nil {
		return
	}
	n := 0
	for _, fn := range sortedFuncs(c, c.Reach(pk.Package)) {
		if c.funcPkgPath(fn) != pk.PkgPath {
			continue
		}
		forEachInstr(fn, func(in ssa.Instruction) {
			call, ok := in.(*ssa.Call)
			if !ok || call.Call.StaticCallee() == nil || !c.isModuleFunc(call.Call.StaticCallee()) {
				return
			}
			for _, a := range call.Call.Args {
				if !isNamed(a.Type(), rpmpackPath, "FileType") {
					continue
				}
				n++
				phi := carriedPhi(a)
				why := "chosen in this iteration"
				if phi != nil {
					why = "the flag is the loop-carried variable " + shorten(valueExpr(c, phi, 0), 60) + ": an entry for which no case sets it keeps the flag of the entry before it (a plain file after a config file becomes %config)"
				}
				r.Check(phi == nil, "R-rpmflag-row", fmt.Sprintf("rpm: file-type flag#%d handed to %s is chosen for the entry at hand", n, call.Call.StaticCallee().Name()), c.instrPos(call), why)
			}
		})
	}
	r.Floor("R-rpmflag-row", n, 1)
}

// checkEmptySourceKept (R-ghost-nosource): a ghost entry has no source. The
// planner evaluated for a ghost entry does not rewrite that empty source with
// a cleaning function - filepath.Clean("") is "." - unless the store is on the
// non-empty edge of a test of the source: contents that were prepared before
// (an Info packaged twice, PrepareForPackager called ahead of Package) would
// otherwise be stat'ed at "." and the ghost would take the working
// directory's mode instead of the 0644 default.
func checkEmptySourceKept(c *Ctx, r *Report, rule string) {
	var prep *ssa.Function
	if pkg := c.Pkg("files"); pkg != nil {
		prep = pkg.Func("PrepareForPackager")
	}
	if prep == nil {
		r.Unresolved("files.PrepareForPackager", "not found")
		return
	}
	pa := newProv(c)
	ev := cellEvaluator(c, typeGhost, nil)
	fr := ev.Explore(prep, make([]AV, len(prep.Params)))
	if fr == nil {
		r.Unresolved("files.PrepareForPackager", "not evaluated")
		return
	}
	// the same evaluation with the source known to be empty: a rewrite that is
	// dead there is guarded, whatever the shape of the guard
	evE := cellEvaluator(c, typeGhost, nil)
	if o := evE.Defaults[c.contentPtrKey()]; o != nil {
		o.Fields["Source"] = cStr("")
	}
	frE := evE.Explore(prep, make([]AV, len(prep.Params)))
	liveEmpty := map[ssa.Instruction]bool{}
	if frE != nil {
		for _, li := range frE.LiveInstrs() {
			liveEmpty[li.In] = true
		}
	}
	n := 0
	for _, li := range fr.LiveInstrs() {
		st, ok := li.In.(*ssa.Store)
		if !ok {
			continue
		}
		fa, ok := st.Addr.(*ssa.FieldAddr)
		if !ok || !isContentPtr(fa.X.Type()) || fieldName(fa.X.Type(), fa.Field) != "Source" {
			continue
		}
		pv := pa.Of(st.Val)
		if !pv.has("call:path/filepath.Clean") && !pv.has("call:path.Clean") {
			continue
		}
		n++
		guarded := frE != nil && !liveEmpty[st]
		if !guarded && li.F != nil {
			// every edge that is live for a ghost entry and leads to the store
			// comes from the non-empty edge of a test of the source (edges that
			// are dead for a ghost - "or it is a directory" - do not count)
			isGuardEdge := func(p, b *ssa.BasicBlock) bool {
				ifi, isIf := p.Instrs[len(p.Instrs)-1].(*ssa.If)
				if !isIf {
					return false
				}
				bo, isBo := ifi.Cond.(*ssa.BinOp)
				if !isBo {
					return false
				}
				k, isK := bo.Y.(*ssa.Const)
				if !isK || !isConstString(k) || constString(k) != "" || !pa.Of(bo.X).has("Content.Source") {
					return false
				}
				return bo.Op == token.NEQ && p.Succs[0] == b && p.Succs[1] != b || bo.Op == token.EQL && p.Succs[1] == b && p.Succs[0] != b
			}
			seen := map[*ssa.BasicBlock]bool{}
			var guardedBlock func(b *ssa.BasicBlock, d int) bool
			guardedBlock = func(b *ssa.BasicBlock, d int) bool {
				if d > 6 || seen[b] || len(b.Preds) == 0 {
					return false
				}
				seen[b] = true
				nLive := 0
				for _, p := range b.Preds {
					if !li.F.liveEdge[[2]int{p.Index, b.Index}] {
						continue
					}
					nLive++
					if !isGuardEdge(p, b) && !guardedBlock(p, d+1) {
						return false
					}
				}
				return nLive > 0
			}
			guarded = guardedBlock(st.Block(), 0)
		}
		r.Check(guarded, rule, fmt.Sprintf("files: source rewrite#%d live for a ghost entry in %s is on the non-empty edge", n, c.funcKey(st.Parent())), c.instrPos(st),
			"for a ghost entry (which has no source) the planner stores the cleaned source unconditionally: \"\" becomes \".\", and the next preparation of the same contents stats the working directory - the ghost is recorded with its mode (a directory's) instead of the default")
	}
	r.Floor(rule, n, 1)
}
