package main

import (
	"fmt"
	"go/token"
	"go/types"
	"sort"
	"strings"

	"golang.org/x/tools/go/ssa"
)

func init() { register("C10", checkC10) }

const signPath = modPath + "/internal/sign"

// resolveUp follows a value to where it comes from across calls: parameters
// are replaced by the argument at the function's single static call site,
// free variables by their binding, conversions are stripped.
func resolveUp(c *Ctx, pa *provAnalysis, v ssa.Value) ssa.Value {
	for i := 0; i < 16 && v != nil; i++ {
		switch x := v.(type) {
		case *ssa.Parameter:
			fn := x.Parent()
			sites := pa.callSites(fn)
			idx := -1
			for j, p := range fn.Params {
				if p == x {
					idx = j
				}
			}
			var args []ssa.Value
			for _, s := range sites {
				if s.Common().StaticCallee() == fn && idx < len(s.Common().Args) {
					args = append(args, s.Common().Args[idx])
				}
			}
			if len(args) != 1 {
				return v
			}
			v = args[0]
		case *ssa.FreeVar:
			fn := x.Parent()
			var b ssa.Value
			if p := fn.Parent(); p != nil {
				forEachInstr(p, func(in ssa.Instruction) {
					if mc, ok := in.(*ssa.MakeClosure); ok && mc.Fn == fn {
						for j, fv := range fn.FreeVars {
							if fv == x && j < len(mc.Bindings) {
								b = mc.Bindings[j]
							}
						}
					}
				})
			}
			if b == nil {
				return v
			}
			v = b
		case *ssa.MakeInterface:
			v = x.X
		case *ssa.ChangeType:
			v = x.X
		case *ssa.UnOp:
			if w := cellValue(x); w != nil {
				v = w
			} else {
				return v
			}
		default:
			return v
		}
	}
	return v
}

// cellValue: for a load of a local cell (or of a by-reference captured
// variable) that is stored exactly once, the value stored.
func cellValue(ld *ssa.UnOp) ssa.Value {
	if ld.Op != token.MUL {
		return nil
	}
	var cell ssa.Value = ld.X
	if fv, ok := cell.(*ssa.FreeVar); ok {
		fn := fv.Parent()
		if p := fn.Parent(); p != nil {
			forEachInstr(p, func(in ssa.Instruction) {
				if mc, ok := in.(*ssa.MakeClosure); ok && mc.Fn == fn {
					for j, f2 := range fn.FreeVars {
						if f2 == fv && j < len(mc.Bindings) {
							cell = mc.Bindings[j]
						}
					}
				}
			})
		}
	}
	al, ok := cell.(*ssa.Alloc)
	if !ok {
		return nil
	}
	var stored ssa.Value
	n := 0
	for _, ref := range *al.Referrers() {
		if st, ok := ref.(*ssa.Store); ok && st.Addr == ssa.Value(al) {
			n++
			stored = st.Val
		}
	}
	if n == 1 {
		return stored
	}
	return nil
}

// arMember describes one member written to the deb's ar archive.
type arMember struct {
	name ssa.Value
	body ssa.Value
	call *ssa.Call
	done *ssa.BasicBlock // exit block of the table loop the call sits in (nil: straight-line)
	row  int
	site *ssa.Call // call in the analysed function through which a helper writes this member (nil: written directly)
}

// arWriter finds the module helper that writes one ar member (a function that
// calls (*ar.Writer).WriteHeader and Write) and its call sites in fn.
func arMembers(c *Ctx, fn *ssa.Function) []arMember {
	return arMembersDepth(c, fn, 2)
}

func arMembersDepth(c *Ctx, fn *ssa.Function, depth int) []arMember {
	var out []arMember
	forEachInstr(fn, func(in ssa.Instruction) {
		call, ok := in.(*ssa.Call)
		if !ok {
			return
		}
		sc := call.Call.StaticCallee()
		if sc == nil || !c.isModuleFunc(sc) {
			return
		}
		writes := false
		forEachInstr(sc, func(i2 ssa.Instruction) {
			if c2, ok := i2.(*ssa.Call); ok && calleeIs(c2, "github.com/blakesmith/ar", "Writer", "WriteHeader") {
				writes = true
			}
		})
		if !writes {
			// a helper that is handed the archive writer and writes members
			// itself: its members, with its parameters read as the arguments
			// of this call
			takesWriter := false
			for _, a := range call.Call.Args {
				if isPtrToNamed(a.Type(), "github.com/blakesmith/ar", "Writer") {
					takesWriter = true
				}
			}
			if !takesWriter || depth == 0 || len(sc.Blocks) == 0 {
				return
			}
			up := func(v ssa.Value) ssa.Value {
				for i, q := range sc.Params {
					if ssa.Value(q) == v && i < len(call.Call.Args) {
						return call.Call.Args[i]
					}
				}
				return v
			}
			for _, m := range arMembersDepth(c, sc, depth-1) {
				m.name, m.body = up(m.name), up(m.body)
				m.site = call
				out = append(out, m)
			}
			return
		}
		var name, body ssa.Value
		for _, a := range call.Call.Args {
			switch a.Type().String() {
			case "string":
				if name == nil {
					name = a
				}
			case "[]byte":
				body = a
			}
		}
		if name == nil || body == nil {
			return
		}
		// table-driven: the call sits in a loop over a literal table of
		// {name, body, ...} rows - one member per row, in row order
		if ia, nfield, ok := loopElemField(name); ok {
			if ib, bfield, ok := loopElemField(body); ok && ia == ib {
				if arr, done := fullRangeOver(ia, call); arr != nil {
					if rows := tableRows(arr, ia); rows != nil {
						for i, row := range rows {
							n, b := row[nfield], row[bfield]
							if n == nil || b == nil {
								return
							}
							out = append(out, arMember{name: n, body: b, call: call, done: done, row: i})
						}
						return
					}
				}
			}
		}
		out = append(out, arMember{name: name, body: body, call: call})
	})
	return out
}

// memberBefore: a is written before b on every path that writes b.
func memberBefore(a, b arMember) bool {
	if a.site != nil || b.site != nil {
		if a.site == b.site {
			// both written by the helper called at one site: order inside it
			// (nested helpers are not ordered any further)
			if a.call.Parent() != b.call.Parent() {
				return false
			}
			return memberBefore(arMember{call: a.call, done: a.done, row: a.row}, arMember{call: b.call, done: b.done, row: b.row})
		}
		pa, pb := a.call, b.call
		if a.site != nil {
			pa = a.site
		}
		if b.site != nil {
			pb = b.site
		}
		if a.site == nil && a.done != nil {
			return a.done == pb.Block() || a.done.Dominates(pb.Block())
		}
		return instrDominates(pa, pb)
	}
	switch {
	case a.call == b.call:
		return a.done != nil && a.row < b.row
	case a.done != nil:
		return a.done == b.call.Block() || a.done.Dominates(b.call.Block())
	default:
		return instrDominates(a.call, b.call)
	}
}

// at: the instruction of the analysed function at which the member is written.
func (m arMember) at() *ssa.Call {
	if m.site != nil {
		return m.site
	}
	return m.call
}

func constOrEmpty(v ssa.Value) string {
	if k, ok := v.(*ssa.Const); ok && k.Value != nil && k.Value.Kind().String() == "String" {
		return constString(k)
	}
	return ""
}

func checkC10(c *Ctx, r *Report) {
	r.Rules = []string{"F12 signed bytes are the stored bytes (deb debsign, deb dpkg-sig, apk, rpm)", "F12 signature member names", "D7 signature type validated before signing", "signer installed iff configured (rpm)", "E4 signing failures are typed and unwrap", "K-key-read keys are read on every signing call", "E4-wrap errors formatted on signing paths stay in the chain (%w)", "K-settings-ro no packager stores into a signature section", "key-S-get-self Config.Get copies each key id from itself (imported from C13)", "pass-F15-passphrase passphrase precedence per format (imported from C16)", "K-signer-entity the key handed to the OpenPGP signer is the entity the key reader returned (its primary key, no substitute)", "K-armor-whole the choice of the armored key parser does not hinge on how the file begins", "E4-fresh a signing failure returned is built where the failure happens (no failure fished out of the chain with errors.As)", "F12-apk-name-verbatim the apk key name is used as written"}
	r.Explanation = "Value-identity and typed-error rules over go/ssa. (F12) deb: the three byte slices handed to the signing function are the very SSA values written as the bodies of the ar members debian-binary, control.tar.gz and the data member, and they reach io.MultiReader in that order; the signature member is named \"_gpg\"+<type returned by the signer>; the dpkg-sig manifest measures each of the same three values (md5, sha1 and size of one parameter) and names each line with the name the member is stored under; apk: the digest handed to the signer is the value returned by the call that wrote the control segment, and the segments are concatenated signature, control, data with those same buffers; rpm: a signer is installed exactly behind the key-file / callback tests and the callback adapter hands the data through unchanged. (D7) with an invalid debsign type no signer call is live. (E4) every function through which a signing error leaves a packager — including the closures handed to rpmpack — returns either nil or a *nfpm.ErrSigningFailure on every path, and that type has an Unwrap() error method returning the wrapped error. Cryptographic validity is not analysed."
	r.Explanation += " (K-key-read) every signing entry point of internal/sign must-reaches the read of the key file. (E4-wrap) on the signing paths every fmt.Errorf has at least as many %w verbs as error arguments."
	r.Explanation += " (K-settings-ro) no store in a packager package is rooted at a field of a signature section of the Info. (key-S-get-self) imported from C13."
	r.Explanation += " (pass-F15-passphrase) imported from C16, including the rule that a table-driven selection carries no state from one format's row to the next."
	r.Assumptions = []string{
		"go-crypto/openpgp, crypto/rsa and rpmpack's signature header handling are correct",
		"rpmpack passes the signer callback exactly the header (and header+payload) bytes it stores",
	}
	pa := newProv(c)
	checkDebSigning(c, r, pa)
	checkAPKSigning(c, r, pa)
	checkRPMSigning(c, r, pa)
	checkKeyRead(c, r)
	checkTypedFailures(c, r, pa)
	checkSignatureSettingsReadOnly(c, r)
	// the key id a format signs with is that format's own: Config.Get copies
	// each signature's key id from itself (rule of C13)
	// which passphrase unlocks a format's key: the format's own variable, else
	// the general one - decided per format (rule of C16)
	r.Floor("pass-F15-passphrase", importRules(c, r, checkC16, "pass-", []string{"F15-passphrase"}, nil), 3)
	r.Floor("key-S-get-self", importRules(c, r, checkC13, "key-", []string{"S-get-self"}, nil), 1)
}

// checkSignatureSettingsReadOnly (K-settings-ro): what a signature is made with
// and named after - key file, key id, key name, passphrase, type, callback -
// is derived from the settings each time a package is signed. No packager
// stores into a signature section: a value written there (a key name derived
// from today's maintainer) would be used again after the settings it was
// derived from have changed.
func checkSignatureSettingsReadOnly(c *Ctx, r *Report) {
	n := 0
	for _, pk := range c.Packagers {
		if pk.Format == "" {
			continue
		}
		bad := ""
		var at ssa.Instruction
		stores := 0
		for _, fn := range c.ModFuncs {
			if c.funcPkgPath(fn) != pk.PkgPath {
				continue
			}
			forEachInstr(fn, func(in ssa.Instruction) {
				st, ok := in.(*ssa.Store)
				if !ok {
					return
				}
				stores++
				pth, root := addrPath(st.Addr)
				if root == nil {
					return
				}
				rt := rootTypeName(root.Type())
				full := rt + "." + pth
				if strings.Contains(full, "Signature") && (rt == "Info" || strings.HasSuffix(rt, "Signature") || rt == "Overridables") {
					if al := allocOf(st.Addr); al != nil {
						return // a local copy
					}
					bad = full + " in " + c.funcKey(fn)
					at = st
				}
			})
		}
		n++
		pos := "-"
		if at != nil {
			pos = c.instrPos(at)
		}
		r.Check(bad == "", "K-settings-ro", pk.Format+": the packager writes no signature setting", pos,
			fmt.Sprintf("%d store(s) examined; store into %s: a derived value kept in the settings outlives the settings it was derived from", stores, bad))
	}
	r.Floor("K-settings-ro", n, 5)
}

func checkDebSigning(c *Ctx, r *Report, pa *provAnalysis) {
	pk := c.PackagerByFormat("deb")
	if pk == nil {
		r.Unresolved("packager deb", "not registered")
		return
	}
	members := arMembers(c, pk.Package)
	if len(members) < 4 {
		r.Unresolved("deb ar members", fmt.Sprintf("expected 4 member writes (binary, control, data, signature) in Package, found %d", len(members)))
		return
	}
	byName := map[string]arMember{}
	var dataMember, sigMember *arMember
	for i := range members {
		m := members[i]
		n := constOrEmpty(m.name)
		switch {
		case n != "":
			byName[n] = m
		default:
			if bo, ok := m.name.(*ssa.BinOp); ok && bo.Op == token.ADD && constOrEmpty(bo.X) == "_gpg" {
				sigMember = &members[i]
			} else {
				dataMember = &members[i]
			}
		}
	}
	bin, okB := byName["debian-binary"]
	ctl, okC := byName["control.tar.gz"]
	if !okB || !okC || dataMember == nil || sigMember == nil {
		r.Unresolved("deb ar members", "could not identify debian-binary, control.tar.gz, the data member and the _gpg member")
		return
	}
	// the signing calls: module calls taking three []byte, in Package or in
	// the helper that writes the signature member; a helper's parameters are
	// read as the arguments of its call in Package
	scopeFns := []*ssa.Function{pk.Package}
	up := func(v ssa.Value) ssa.Value { return v }
	if sigMember.site != nil {
		h := sigMember.site.Call.StaticCallee()
		scopeFns = append(scopeFns, h)
		site := sigMember.site
		up = func(v ssa.Value) ssa.Value {
			for i, q := range h.Params {
				if ssa.Value(q) == v && i < len(site.Call.Args) {
					return site.Call.Args[i]
				}
			}
			return v
		}
	}
	var signCalls []*ssa.Call
	forEachInstrIn(scopeFns, func(in ssa.Instruction) {
		call, ok := in.(*ssa.Call)
		if !ok || call.Call.StaticCallee() == nil || !c.isModuleFunc(call.Call.StaticCallee()) {
			return
		}
		n := 0
		for _, a := range call.Call.Args {
			if a.Type().String() == "[]byte" {
				n++
			}
		}
		if n == 3 && call != bin.call && call != ctl.call && call != sigMember.site {
			signCalls = append(signCalls, call)
		}
	})
	if len(signCalls) == 0 {
		r.Unresolved("deb signing call", "no call in Package hands three byte slices to a signing function")
		return
	}
	want := []ssa.Value{bin.body, ctl.body, dataMember.body}
	isSignCall := map[ssa.Value]bool{}
	for _, signCall := range signCalls {
		isSignCall[signCall] = true
		var signed []ssa.Value
		for _, a := range signCall.Call.Args {
			if a.Type().String() == "[]byte" {
				signed = append(signed, up(a))
			}
		}
		okSame := len(signed) == 3
		for i := range want {
			if okSame && signed[i] != want[i] {
				okSame = false
			}
		}
		construct := "deb: bytes handed to the signer are the stored member bodies, in member order"
		if len(signCalls) > 1 {
			construct += " (" + signCall.Call.StaticCallee().Name() + ")"
		}
		r.Check(okSame, "F12-deb", construct, c.instrPos(signCall),
			"the signing function must receive exactly the values written as debian-binary, control.tar.gz and the data member, in that order")
	}
	// every value that can be the signer's result #idx (phi edges flattened)
	fromSigner := func(v ssa.Value, idx int) bool {
		var vals []ssa.Value
		seen := map[ssa.Value]bool{}
		var flat func(v ssa.Value)
		flat = func(v ssa.Value) {
			if seen[v] {
				return
			}
			seen[v] = true
			if phi, ok := v.(*ssa.Phi); ok {
				for _, e := range phi.Edges {
					flat(e)
				}
				return
			}
			vals = append(vals, v)
		}
		flat(v)
		for _, x := range vals {
			ex, ok := x.(*ssa.Extract)
			if !ok || !isSignCall[ex.Tuple] || ex.Index != idx {
				return false
			}
		}
		return len(vals) > 0
	}
	// signature member name: "_gpg" + type returned by the signer
	okName := false
	if bo, ok := sigMember.name.(*ssa.BinOp); ok {
		typ := bo.Y
		// the name is put together in the helper that writes the member: its
		// parameter stands for the argument at the call in Package
		if prm, isPrm := typ.(*ssa.Parameter); isPrm && sigMember.site != nil {
			if h := sigMember.site.Call.StaticCallee(); h != nil {
				for i, q := range h.Params {
					if q == prm && i < len(sigMember.site.Call.Args) {
						typ = sigMember.site.Call.Args[i]
					}
				}
			}
		}
		okName = fromSigner(typ, 1) && constOrEmpty(bo.X) == "_gpg"
	}
	r.Check(okName, "F12-deb", "deb: signature member is _gpg<type>", c.instrPos(sigMember.call), "the member name must be \"_gpg\" followed by the signature type the signer reports")
	// the signature body is the signer's result
	r.Check(fromSigner(sigMember.body, 0), "F12-deb", "deb: _gpg member holds the signer's output", c.instrPos(sigMember.call), "the stored signature must be the value returned by the signing function")
	// member order: signature written after the three members
	r.Check(memberBefore(bin, ctl) && memberBefore(ctl, *dataMember) && memberBefore(*dataMember, *sigMember), "F12-deb", "deb: member order binary, control, data, signature", c.instrPos(bin.call), "members must be written in this order on every path")

	// debsign: MultiReader order
	reach := c.Reach(pk.Package)
	for _, fn := range sortedFuncs(c, reach) {
		forEachInstr(fn, func(in ssa.Instruction) {
			call, ok := in.(*ssa.Call)
			if !ok || !calleeIs(call, "io", "", "MultiReader") {
				return
			}
			var got []ssa.Value
			// elements in index order
			sl, _ := call.Call.Args[0].(*ssa.Slice)
			if sl == nil {
				return
			}
			al, _ := sl.X.(*ssa.Alloc)
			if al == nil {
				return
			}
			elems := map[int64]ssa.Value{}
			for _, ref := range *al.Referrers() {
				ia, ok := ref.(*ssa.IndexAddr)
				if !ok {
					continue
				}
				k, ok := ia.Index.(*ssa.Const)
				if !ok {
					continue
				}
				for _, r2 := range *ia.Referrers() {
					if st, ok := r2.(*ssa.Store); ok {
						elems[k.Int64()] = st.Val
					}
				}
			}
			for i := int64(0); i < int64(len(elems)); i++ {
				v := elems[i]
				if mi, ok := v.(*ssa.MakeInterface); ok {
					v = mi.X
				}
				if nr, ok := v.(*ssa.Call); ok && calleeIs(nr, "bytes", "", "NewReader") {
					got = append(got, resolveUp(c, pa, nr.Call.Args[0]))
				} else {
					got = append(got, v)
				}
			}
			okOrder := len(got) == 3
			for i := range want {
				if okOrder && got[i] != want[i] {
					okOrder = false
				}
			}
			r.Check(okOrder, "F12-deb", "deb debsign: signed stream is binary ‖ control ‖ data as stored", c.instrPos(call),
				"the concatenation handed to the OpenPGP signer must consist of readers over the three stored member bodies in member order")
		})
	}
	// dpkg-sig manifest lines
	lines := 0
	for _, fn := range sortedFuncs(c, reach) {
		forEachInstr(fn, func(in ssa.Instruction) {
			call, ok := in.(*ssa.Call)
			if !ok {
				return
			}
			sc := call.Call.StaticCallee()
			if sc == nil || !c.isModuleFunc(sc) || !hashesOneParam(sc) {
				return
			}
			var name, content ssa.Value
			for _, a := range call.Call.Args {
				if a.Type().String() == "string" {
					name = a
				}
				if a.Type().String() == "[]byte" {
					content = a
				}
			}
			// the lines come from a loop over a literal table of {name, body}
			// rows: one line per row
			if name != nil && content != nil {
				if ia, nf, ok1 := loopElemField(name); ok1 {
					if ib, cf, ok2 := loopElemField(content); ok2 && ia == ib {
						var arr *ssa.Alloc
						switch x := ia.X.(type) {
						case *ssa.Slice:
							arr, _ = x.X.(*ssa.Alloc)
						case *ssa.Alloc:
							arr = x
						}
						if arr != nil {
							if rows := tableRows(arr, ia); len(rows) > 0 {
								for _, row := range rows {
									if row[nf] != nil && row[cf] != nil {
										dpkgLine(c, r, pa, members, &lines, call, row[nf], row[cf])
									}
								}
								return
							}
						}
					}
				}
			}
			dpkgLine(c, r, pa, members, &lines, call, name, content)
		})
	}
	r.Floor("F12-dpkg-sig", lines, 3)
	dpkgSigRest(c, r, reach)
}

// dpkgLine checks one manifest line: the body it measures is a stored member's
// and the name it states is that member's.
func dpkgLine(c *Ctx, r *Report, pa *provAnalysis, members []arMember, nLines *int, call *ssa.Call, name, content ssa.Value) {
	*nLines++
	lines := *nLines
	{
		{
			content = resolveUp(c, pa, content)
			name = resolveUp(c, pa, name)
			var member *arMember
			for i := range members {
				if members[i].body == content {
					member = &members[i]
				}
			}
			construct := fmt.Sprintf("deb dpkg-sig: manifest line#%d", lines)
			if member == nil {
				r.Fail("F12-dpkg-sig", construct, c.instrPos(call), "the manifest line does not measure one of the stored member bodies")
				return
			}
			same := name == member.name || (constOrEmpty(name) != "" && constOrEmpty(name) == constOrEmpty(member.name))
			r.Check(same, "F12-dpkg-sig", construct, c.instrPos(call),
				fmt.Sprintf("the line measures the body stored as member %s but names it %s: the manifest must name the members as stored (e.g. data.tar.xz when xz is used)", describeValue(member.name), describeValue(name)))
		}
	}
}

func dpkgSigRest(c *Ctx, r *Report, reach map[*ssa.Function]bool) {
	// D7: with an invalid type no signer call is live (debsign path)
	for _, fn := range sortedFuncs(c, reach) {
		if !comparesFieldToConst(fn, "Overridables.Deb.Signature.Method") {
			continue
		}
		for _, method := range []string{"", "debsign"} {
			ev := newEvaluator(c)
			info := newAObj("info")
			info.Fields["Overridables.Deb.Signature.Type"] = cStr("no-such-role")
			info.Fields["Overridables.Deb.Signature.Method"] = cStr(method)
			ev.Defaults[c.infoPtrKey()] = info
			fr := ev.Explore(fn, make([]AV, len(fn.Params)))
			signed := false
			for _, li := range fr.LiveInstrs() {
				if call, ok := li.In.(*ssa.Call); ok && isSignPrimitive(c, call) {
					signed = true
				}
			}
			r.Check(!signed, "D7", fmt.Sprintf("deb debsign: no signing with an invalid type [method=%q]", method), c.pos(fn.Pos()), "the type must be validated before any signer (key file or callback) is invoked")
		}
	}
}

func describeValue(v ssa.Value) string {
	if s := constOrEmpty(v); s != "" {
		return fmt.Sprintf("%q", s)
	}
	return "<" + v.Name() + ">"
}

// hashesOneParam: a function that computes md5, sha1 and len of one []byte parameter.
func hashesOneParam(fn *ssa.Function) bool {
	var param *ssa.Parameter
	for _, p := range fn.Params {
		if p.Type().String() == "[]byte" {
			param = p
		}
	}
	if param == nil {
		return false
	}
	md5, sha1, ln := false, false, false
	forEachInstr(fn, func(in ssa.Instruction) {
		call, ok := in.(*ssa.Call)
		if !ok {
			return
		}
		if calleeIs(call, "crypto/md5", "", "Sum") && call.Call.Args[0] == ssa.Value(param) {
			md5 = true
		}
		if calleeIs(call, "crypto/sha1", "", "Sum") && call.Call.Args[0] == ssa.Value(param) {
			sha1 = true
		}
		if b, ok := call.Call.Value.(*ssa.Builtin); ok && b.Name() == "len" && call.Call.Args[0] == ssa.Value(param) {
			ln = true
		}
	})
	return md5 && sha1 && ln
}

// isSignPrimitive: a call into internal/sign's signing functions or a dynamic
// call of a SignFn callback.
func isSignPrimitive(c *Ctx, call ssa.CallInstruction) bool {
	if o := calleeObj(call); o != nil && o.Pkg() != nil && o.Pkg().Path() == signPath {
		return strings.Contains(o.Name(), "Sign")
	}
	cc := call.Common()
	if cc.StaticCallee() == nil && !cc.IsInvoke() {
		if _, isB := cc.Value.(*ssa.Builtin); isB {
			return false
		}
		if isSignFnValue(cc.Value, 0) {
			return true
		}
	}
	return false
}

func isSignFnValue(v ssa.Value, d int) bool {
	if d > 6 || v == nil {
		return false
	}
	switch x := v.(type) {
	case *ssa.UnOp:
		if fa, ok := x.X.(*ssa.FieldAddr); ok && fieldName(fa.X.Type(), fa.Field) == "SignFn" {
			return true
		}
		if w := cellValue(x); w != nil {
			return isSignFnValue(w, d+1)
		}
	case *ssa.Phi:
		for _, e := range x.Edges {
			if isSignFnValue(e, d+1) {
				return true
			}
		}
	case *ssa.Field:
		if fieldName(x.X.Type(), x.Field) == "SignFn" {
			return true
		}
	case *ssa.Parameter:
		// a helper that is handed the callback: what its callers (in the same
		// package) pass
		fn := x.Parent()
		idx := -1
		for i, q := range fn.Params {
			if q == x {
				idx = i
			}
		}
		if idx < 0 || fn.Pkg == nil {
			return false
		}
		sites, ok := 0, true
		var scan func(g *ssa.Function)
		scan = func(g *ssa.Function) {
			forEachInstr(g, func(in ssa.Instruction) {
				if call, isCall := in.(ssa.CallInstruction); isCall && call.Common().StaticCallee() == fn && idx < len(call.Common().Args) {
					sites++
					if !isSignFnValue(call.Common().Args[idx], d+1) {
						ok = false
					}
				}
			})
			for _, an := range g.AnonFuncs {
				scan(an)
			}
		}
		for _, m := range fn.Pkg.Members {
			if g, isFn := m.(*ssa.Function); isFn && len(g.Blocks) > 0 {
				scan(g)
			}
		}
		return sites > 0 && ok
	case *ssa.FreeVar:
		fn := x.Parent()
		found := false
		if p := fn.Parent(); p != nil {
			forEachInstr(p, func(in ssa.Instruction) {
				if mc, ok := in.(*ssa.MakeClosure); ok && mc.Fn == fn {
					for j, fv := range fn.FreeVars {
						if fv == x && j < len(mc.Bindings) && isSignFnValue(mc.Bindings[j], d+1) {
							found = true
						}
					}
				}
			})
		}
		return found
	}
	return false
}

func checkAPKSigning(c *Ctx, r *Report, pa *provAnalysis) {
	pk := c.PackagerByFormat("apk")
	if pk == nil {
		r.Unresolved("packager apk", "not registered")
		return
	}
	fn := pk.Package
	// calls in Package that take a buffer (io.Writer from a local bytes.Buffer) and return a digest
	type seg struct {
		call *ssa.Call
		buf  ssa.Value
	}
	var segs []seg
	var combine []*ssa.Call
	forEachInstr(fn, func(in ssa.Instruction) {
		call, ok := in.(*ssa.Call)
		if !ok || call.Call.StaticCallee() == nil || !c.isModuleFunc(call.Call.StaticCallee()) {
			return
		}
		var buf ssa.Value
		for _, a := range call.Call.Args {
			v := a
			if mi, ok := v.(*ssa.MakeInterface); ok {
				v = mi.X
			}
			if al, ok := v.(*ssa.Alloc); ok && typeIsInfallibleSink(al.Type()) {
				buf = al
			}
		}
		if buf != nil && len(call.Call.Args) >= 1 {
			if _, isSlice := call.Call.Args[len(call.Call.Args)-1].(*ssa.Slice); isSlice && call.Call.Signature().Variadic() {
				combine = append(combine, call)
				return
			}
			segs = append(segs, seg{call, buf})
		} else if call.Call.Signature().Variadic() {
			combine = append(combine, call)
		}
	})
	// identify control / data / signature segment writers by what they are handed
	var ctl, data, sig *seg
	for i := range segs {
		s := &segs[i]
		takesDigest := false
		for _, a := range s.call.Call.Args {
			if a.Type().String() == "[]byte" {
				takesDigest = true
			}
		}
		returnsDigest := s.call.Type().String() != "error" && strings.Contains(s.call.Type().String(), "[]byte")
		switch {
		case returnsDigest && !takesDigest:
			data = s
		case returnsDigest && takesDigest:
			ctl = s
		case !returnsDigest && takesDigest:
			sig = s
		}
	}
	if ctl == nil || data == nil || sig == nil {
		r.Unresolved("apk segments", "could not identify the data, control and signature segment writers in Package")
		return
	}
	// digest handed to the signature writer is the control writer's result
	var ctlDigest ssa.Value
	for _, ref := range *ctl.call.Referrers() {
		if ex, ok := ref.(*ssa.Extract); ok && ex.Index == 0 {
			ctlDigest = ex
		}
	}
	handed := false
	for _, a := range sig.call.Call.Args {
		if a == ctlDigest && ctlDigest != nil {
			handed = true
		}
	}
	r.Check(handed, "F12-apk", "apk: digest signed is the one computed while writing the control segment", c.instrPos(sig.call), "the signature writer must be handed the digest returned by the call that wrote the control buffer")
	// datahash: control writer is handed the data writer's digest
	var dataDigest ssa.Value
	for _, ref := range *data.call.Referrers() {
		if ex, ok := ref.(*ssa.Extract); ok && ex.Index == 0 {
			dataDigest = ex
		}
	}
	dh := false
	for _, a := range ctl.call.Call.Args {
		if a == dataDigest && dataDigest != nil {
			dh = true
		}
	}
	r.Check(dh, "F12-apk", "apk: datahash is the digest of the data segment written", c.instrPos(ctl.call), "the control writer must be handed the digest returned by the call that wrote the data buffer")
	// concatenation order
	n := 0
	for _, cb := range combine {
		// the list handed over: a literal, or a slice built by appends - every
		// sequence it can hold is one of the two legal ones
		seqs := sliceSequences(cb.Call.Args[len(cb.Call.Args)-1], 0)
		n++
		ok := len(seqs) > 0
		for _, elems := range seqs {
			var bufs []ssa.Value
			for _, e := range elems {
				if mi, isMI := e.(*ssa.MakeInterface); isMI {
					e = mi.X
				}
				bufs = append(bufs, e)
			}
			var want []ssa.Value
			switch len(bufs) {
			case 2:
				want = []ssa.Value{ctl.buf, data.buf}
			case 3:
				want = []ssa.Value{sig.buf, ctl.buf, data.buf}
			}
			if want == nil {
				ok = false
			}
			for i := range want {
				if ok && bufs[i] != want[i] {
					ok = false
				}
			}
		}
		r.Check(ok, "F12-apk", fmt.Sprintf("apk: segment order of concatenation#%d", n), c.instrPos(cb), "segments must be concatenated [signature,] control, data using the buffers those segments were written into")
	}
	r.Floor("F12-apk", n, 1)
	// the signer receives the digest parameter unchanged
	for _, f := range sortedFuncs(c, c.Reach(fn)) {
		forEachInstr(f, func(in ssa.Instruction) {
			call, ok := in.(*ssa.Call)
			if !ok || !isSignPrimitive(c, call) || c.funcPkgPath(f) != pk.PkgPath {
				return
			}
			var arg ssa.Value
			for _, a := range call.Call.Args {
				v := a
				if mi, ok := v.(*ssa.MakeInterface); ok {
					v = mi.X
				}
				if nr, ok := v.(*ssa.Call); ok && calleeIs(nr, "bytes", "", "NewReader") {
					v = nr.Call.Args[0]
				}
				if v.Type().String() == "[]byte" {
					arg = v
				}
			}
			got := resolveUp(c, pa, arg)
			r.Check(got == ctlDigest, "F12-apk", "apk: signer input in "+c.funcKey(f), c.instrPos(call), "the signer (key file or callback) must receive the control digest itself")
		})
	}
	// signature member name
	okName := false
	for _, f := range sortedFuncs(c, c.Reach(fn)) {
		forEachInstr(f, func(in ssa.Instruction) {
			st, ok := in.(*ssa.Store)
			if !ok {
				return
			}
			fa, ok := st.Addr.(*ssa.FieldAddr)
			if !ok || fieldName(fa.X.Type(), fa.Field) != "Name" || !isNamed(fa.X.Type(), "archive/tar", "Header") {
				return
			}
			p := pa.Of(st.Val)
			if (p.has("const:.SIGN.RSA.%s") || p.has("const:.SIGN.RSA.")) && (p.has("Info.Overridables.APK.Signature.KeyName") && p.has("const:.rsa.pub")) {
				okName = true
				// ... and from nothing that rewrites it: apk looks the public key
				// up under exactly this name
				var rew []string
				for _, a := range p.list() {
					if strings.HasPrefix(a, "call:") && a != "call:fmt.Sprintf" && a != "call:net/mail.ParseAddress" {
						rew = append(rew, a)
					}
				}
				r.Check(len(rew) == 0, "F12-apk-name-verbatim", "apk: the key name in the signature member is the configured name (or the maintainer's address) as written", c.instrPos(st),
					fmt.Sprintf("the member name passes through %v: apk verifies with /etc/apk/keys/<name>, so a rewritten name points at a key that is not there (derives from {%s})", rew, p.String()))
			}
		})
	}
	r.Check(okName, "F12-apk", "apk: signature member is .SIGN.RSA.<key name>.rsa.pub", c.pos(fn.Pos()), "the member name must be built from the configured key name (default: maintainer address) with the .rsa.pub suffix")
	// the suffix test and the suffix appended are the same constant
	for _, f := range sortedFuncs(c, c.Reach(fn)) {
		appended := ""
		forEachInstr(f, func(in ssa.Instruction) {
			if bo, ok := in.(*ssa.BinOp); ok && bo.Op == token.ADD && strings.HasSuffix(constOrEmpty(bo.Y), ".pub") {
				appended = constOrEmpty(bo.Y)
			}
		})
		if appended == "" {
			continue
		}
		okSuffix := appended == ".rsa.pub"
		tests := 0
		forEachInstr(f, func(in ssa.Instruction) {
			if call, ok := in.(*ssa.Call); ok && calleeIs(call, "strings", "", "HasSuffix") {
				if s := constOrEmpty(call.Call.Args[1]); strings.Contains(s, "pub") {
					tests++
					if s != appended {
						okSuffix = false
					}
				}
			}
		})
		r.Check(okSuffix && tests > 0, "F12-apk", "apk: .rsa.pub is appended unless the key name already ends in exactly .rsa.pub", c.pos(f.Pos()),
			fmt.Sprintf("suffix appended %q; the test that decides whether to append it must look for the same suffix (%d test(s) found)", appended, tests))
	}
}

// checkKeyRead: every exported signing function of internal/sign that takes a
// key file reads that file on every path to a successful return — the key
// used is the content of the configured file at signing time (no caching).
func checkKeyRead(c *Ctx, r *Report) {
	n := 0
	for _, fn := range c.ModFuncs {
		if c.funcPkgPath(fn) != signPath || fn.Parent() != nil {
			continue
		}
		o, ok := fn.Object().(*types.Func)
		if !ok || !o.Exported() || !strings.Contains(fn.Name(), "Sign") {
			continue
		}
		hasKey := false
		for _, p := range fn.Params {
			if strings.Contains(strings.ToLower(p.Name()), "keyfile") {
				hasKey = true
			}
		}
		if !hasKey {
			continue
		}
		targets := []*ssa.Function{fn}
		// a constructor that returns the signer closure: the closure is what signs
		for _, b := range fn.Blocks {
			if ret, ok := b.Instrs[len(b.Instrs)-1].(*ssa.Return); ok && len(ret.Results) == 1 {
				if mc, ok := ret.Results[0].(*ssa.MakeClosure); ok {
					targets = []*ssa.Function{mc.Fn.(*ssa.Function)}
				}
			}
		}
		for _, t := range targets {
			n++
			ev := newEvaluator(c)
			fr := ev.Explore(t, make([]AV, len(t.Params)))
			ok := fr.MustReach(func(in ssa.Instruction, _ *Frame) bool {
				call, isC := in.(*ssa.Call)
				return isC && calleeIs(call, "os", "", "ReadFile")
			})
			r.Check(ok, "K-key-read", "key file read on every signing call: "+c.funcKey(t), c.pos(t.Pos()),
				"every path to a successful return must read the configured key file; a path that signs without reading it (a cached or stale key) produces a signature that need not match the configured key")
		}
	}
	r.Floor("K-key-read", n, 2)
}

// variadicOrdered returns the elements of a variadic slice in index order.
func variadicOrdered(v ssa.Value) []ssa.Value {
	sl, ok := v.(*ssa.Slice)
	if !ok {
		return nil
	}
	al, ok := sl.X.(*ssa.Alloc)
	if !ok {
		return nil
	}
	elems := map[int64]ssa.Value{}
	for _, ref := range *al.Referrers() {
		ia, ok := ref.(*ssa.IndexAddr)
		if !ok {
			continue
		}
		k, ok := ia.Index.(*ssa.Const)
		if !ok {
			continue
		}
		for _, r2 := range *ia.Referrers() {
			if st, ok := r2.(*ssa.Store); ok {
				elems[k.Int64()] = st.Val
			}
		}
	}
	var out []ssa.Value
	for i := int64(0); i < int64(len(elems)); i++ {
		out = append(out, elems[i])
	}
	return out
}

func checkRPMSigning(c *Ctx, r *Report, pa *provAnalysis) {
	pk := c.PackagerByFormat("rpm")
	if pk == nil {
		r.Unresolved("packager rpm", "not registered")
		return
	}
	n := 0
	var own []*ssa.Function
	for _, g := range sortedFuncs(c, c.Reach(pk.Package)) {
		if c.funcPkgPath(g) == pk.PkgPath {
			own = append(own, g)
		}
	}
	isSigField := func(v ssa.Value) string {
		for _, a := range pa.Of(v).fields() {
			if strings.HasSuffix(a, "RPM.Signature.PackageSignature.KeyFile") || strings.HasSuffix(a, "RPM.Signature.PackageSignature.SignFn") {
				return a
			}
		}
		x := v
		for k := 0; k < 3; k++ {
			ld, ok := x.(*ssa.UnOp)
			if !ok {
				break
			}
			if pp, _ := addrPath(ld.X); strings.HasSuffix(pp, "RPM.Signature.PackageSignature.KeyFile") || strings.HasSuffix(pp, "RPM.Signature.PackageSignature.SignFn") {
				return pp
			}
			if w := cellValue(ld); w != nil {
				x = w
			} else {
				break
			}
		}
		return ""
	}
	forEachInstrIn(own, func(in ssa.Instruction) {
		call, ok := in.(*ssa.Call)
		if !ok || !calleeIs(call, rpmpackPath, "RPM", "SetPGPSigner") {
			return
		}
		n++
		// guarded by KeyFile != "" or SignFn != nil: the call hangs under the
		// configured edge of such a test (either polarity)
		guard := ""
		for d := call.Block(); d != nil && guard == ""; d = d.Idom() {
			for _, p := range d.Preds {
				ifi, ok := p.Instrs[len(p.Instrs)-1].(*ssa.If)
				if !ok || len(d.Preds) != 1 {
					continue
				}
				bo, ok := ifi.Cond.(*ssa.BinOp)
				if !ok {
					continue
				}
				if !(bo.Op == token.NEQ && p.Succs[0] == d || bo.Op == token.EQL && p.Succs[1] == d) {
					continue
				}
				zero := false
				if k, ok := bo.Y.(*ssa.Const); ok && (k.IsNil() || constOrEmpty(k) == "" && k.Value != nil) {
					zero = true
				}
				if !zero {
					continue
				}
				if g := isSigField(bo.X); g != "" {
					guard = g
				}
			}
		}
		var helperClosures []*ssa.Function
		if guard == "" {
			// the signer is chosen by a helper and installed when the helper
			// returned one: every non-nil return of the helper sits behind a
			// test of key_file / SignFn, and the install behind "!= nil"
			if hc, isCall := call.Call.Args[1].(*ssa.Call); isCall {
				h := hc.Call.StaticCallee()
				installedIfSet := false
				for d := call.Block(); d != nil; d = d.Idom() {
					if len(d.Preds) != 1 {
						continue
					}
					p := d.Preds[0]
					ifi, isIf := p.Instrs[len(p.Instrs)-1].(*ssa.If)
					if !isIf {
						continue
					}
					bo, isBo := ifi.Cond.(*ssa.BinOp)
					if !isBo || bo.X != ssa.Value(hc) {
						continue
					}
					if k, isK := bo.Y.(*ssa.Const); isK && k.IsNil() && (bo.Op == token.NEQ && p.Succs[0] == d || bo.Op == token.EQL && p.Succs[1] == d) {
						installedIfSet = true
					}
				}
				if h != nil && len(h.Blocks) > 0 && c.isModuleFunc(h) && installedIfSet {
					nonNil, guardedRets := 0, 0
					precedence := true
					for _, b := range h.Blocks {
						ret, isRet := b.Instrs[len(b.Instrs)-1].(*ssa.Return)
						if !isRet || len(ret.Results) != 1 {
							continue
						}
						if k, isK := ret.Results[0].(*ssa.Const); isK && k.IsNil() {
							continue
						}
						nonNil++
						// the sig-field tests on the way to this return: which
						// field is known to be set, which to be unset
						set, unset := map[string]bool{}, map[string]bool{}
						for d := b; d != nil; d = d.Idom() {
							if len(d.Preds) != 1 {
								continue
							}
							p := d.Preds[0]
							ifi, isIf := p.Instrs[len(p.Instrs)-1].(*ssa.If)
							if !isIf {
								continue
							}
							bo, isBo := ifi.Cond.(*ssa.BinOp)
							if !isBo || (bo.Op != token.NEQ && bo.Op != token.EQL) {
								continue
							}
							k, isK := bo.Y.(*ssa.Const)
							if !isK || !(k.IsNil() || constOrEmpty(k) == "" && k.Value != nil) {
								continue
							}
							f := isSigField(bo.X)
							if f == "" {
								continue
							}
							name := "KeyFile"
							if strings.HasSuffix(f, "SignFn") {
								name = "SignFn"
							}
							configuredEdge := bo.Op == token.NEQ && p.Succs[0] == d && p.Succs[1] != d || bo.Op == token.EQL && p.Succs[1] == d && p.Succs[0] != d
							if configuredEdge {
								set[name] = true
							} else {
								unset[name] = true
							}
						}
						if len(set) > 0 {
							guardedRets++
						}
						// the callback has the last word when both are configured
						// (it is installed last in the two-install form): a key-file
						// signer is returned only where the callback is known unset
						if set["KeyFile"] && !set["SignFn"] && !unset["SignFn"] {
							precedence = false
						}
					}
					if nonNil > 0 && guardedRets == nonNil && !precedence {
						r.Fail("F12-rpm", "rpm: the signing callback takes precedence over the key file in "+h.Name(), c.instrPos(call),
							"the helper returns the key-file signer on a path where the callback has not been found unset: with both configured the key file signs, while the two-install form lets the callback (installed last) sign")
					}
					if nonNil > 0 && guardedRets == nonNil {
						guard = "in " + h.Name()
						n += nonNil - 1
						helperClosures = closuresReturned(c, h, 0)
					}
				}
			}
		}
		r.Check(guard != "", "F12-rpm", fmt.Sprintf("rpm: signer#%d installed only when configured", n), c.instrPos(call), "SetPGPSigner must sit behind a test of rpm.signature.key_file / SignFn (guard found: "+guard+")")
		// adapter passes data through
		arg := call.Call.Args[1]
		var adapters []*ssa.Function
		if mc, ok := arg.(*ssa.MakeClosure); ok {
			adapters = append(adapters, mc.Fn.(*ssa.Function))
		}
		adapters = append(adapters, helperClosures...)
		for _, f := range adapters {
			okPass := false
			forEachInstr(f, func(i2 ssa.Instruction) {
				c2, ok := i2.(*ssa.Call)
				if !ok || !isSignPrimitive(c, c2) {
					return
				}
				for _, a := range c2.Call.Args {
					v := a
					if mi, ok := v.(*ssa.MakeInterface); ok {
						v = mi.X
					}
					if nr, ok := v.(*ssa.Call); ok && calleeIs(nr, "bytes", "", "NewReader") && len(f.Params) > 0 && nr.Call.Args[0] == ssa.Value(f.Params[0]) {
						okPass = true
					}
				}
			})
			r.Check(okPass, "F12-rpm", "rpm: callback adapter hands rpmpack's bytes through unchanged", c.instrPos(call), "the callback must receive a reader over exactly the data rpmpack asks to have signed")
		}
	})
	r.Floor("F12-rpm", n, 2)
	// both installs: key file and callback
	_ = pa
}

// ---- E4 ----

func checkTypedFailures(c *Ctx, r *Report, pa *provAnalysis) {
	esf := c.NamedType("", "ErrSigningFailure")
	if esf == nil {
		r.Unresolved("nfpm.ErrSigningFailure", "type not found")
		return
	}
	// Unwrap
	ms := types.NewMethodSet(types.NewPointer(esf))
	sel := ms.Lookup(esf.Obj().Pkg(), "Unwrap")
	okUnwrap := false
	if sel != nil {
		if sig, ok := sel.Type().(*types.Signature); ok && sig.Params().Len() == 0 && sig.Results().Len() == 1 && types.Identical(sig.Results().At(0).Type(), errorType) {
			if fn := c.Prog.MethodValue(sel); fn != nil && fn.Blocks != nil {
				// returns the Err field
				forEachInstr(fn, func(in ssa.Instruction) {
					if ret, ok := in.(*ssa.Return); ok {
						if ld, ok := ret.Results[0].(*ssa.UnOp); ok {
							if fa, ok := ld.X.(*ssa.FieldAddr); ok && fieldName(fa.X.Type(), fa.Field) == "Err" {
								okUnwrap = true
							}
						}
					}
				})
			}
		}
	}
	r.Check(okUnwrap, "E4-unwrap", "(*nfpm.ErrSigningFailure).Unwrap", c.pos(esf.Obj().Pos()), "the signing-failure type must have an `Unwrap() error` method returning the wrapped error, otherwise errors.Is/As cannot reach the signer's own error")

	// boundary functions
	var boundaries []*ssa.Function
	seen := map[*ssa.Function]bool{}
	add := func(f *ssa.Function) {
		if f != nil && !seen[f] && f.Blocks != nil && errResultIndex(f.Signature) >= 0 {
			seen[f] = true
			boundaries = append(boundaries, f)
		}
	}
	reachesSign := func(f *ssa.Function) bool {
		found := false
		for g := range c.Reach(f) {
			forEachInstr(g, func(in ssa.Instruction) {
				if call, ok := in.(ssa.CallInstruction); ok && isSignPrimitive(c, call) {
					found = true
				}
			})
		}
		return found
	}
	for _, pk := range c.Packagers {
		forEachInstr(pk.Package, func(in ssa.Instruction) {
			call, ok := in.(*ssa.Call)
			if !ok {
				return
			}
			if sc := call.Call.StaticCallee(); sc != nil && c.isModuleFunc(sc) && c.funcPkgPath(sc) == pk.PkgPath && reachesSign(sc) && sc != pk.Package {
				// only functions dedicated to signing: every path to a sign primitive
				if !writesPayload(c, sc) {
					add(sc)
				}
			}
		})
		// closures / function values handed to rpmpack as signer, anywhere
		// on the packager's own call graph (signer setup may be a helper)
		var own []*ssa.Function
		for _, g := range sortedFuncs(c, c.Reach(pk.Package)) {
			if c.funcPkgPath(g) == pk.PkgPath {
				own = append(own, g)
			}
		}
		forEachInstrIn(own, func(in ssa.Instruction) {
			call, ok := in.(*ssa.Call)
			if !ok {
				return
			}
			if calleeIs(call, rpmpackPath, "RPM", "SetPGPSigner") {
				switch a := call.Call.Args[1].(type) {
				case *ssa.MakeClosure:
					add(a.Fn.(*ssa.Function))
				case *ssa.Call:
					if sc := a.Call.StaticCallee(); sc != nil {
						for _, f := range closuresReturned(c, sc, 0) {
							add(f)
						}
					}
				}
			}
		})
	}
	sort.Slice(boundaries, func(i, j int) bool { return boundaries[i].Pos() < boundaries[j].Pos() })
	for _, f := range boundaries {
		ok, why := returnsTyped(c, f, map[*ssa.Function]bool{}, 0)
		r.Check(ok, "E4-typed", "signing boundary "+c.funcKey(f), c.pos(f.Pos()), why)
	}
	r.Floor("E4-typed", len(boundaries), 3)
	// E4-wrap: on the signing paths an error that is formatted into a new one
	// stays in the chain (%w): "%v" keeps only its text, and errors.Is/As no
	// longer reach the signer's own error
	scopeW := map[*ssa.Function]bool{}
	for _, f := range boundaries {
		for g := range c.Reach(f) {
			if c.isModuleFunc(g) {
				scopeW[g] = true
			}
		}
	}
	for _, fn := range c.ModFuncs {
		if c.funcPkgPath(fn) == modPath+"/internal/sign" {
			scopeW[fn] = true
		}
	}
	nw := 0
	for _, fn := range sortedFuncs(c, scopeW) {
		perFn := 0
		forEachInstr(fn, func(in ssa.Instruction) {
			call, ok := in.(*ssa.Call)
			if !ok || !calleeIs(call, "fmt", "", "Errorf") || len(call.Call.Args) < 2 {
				return
			}
			format := constOrEmpty(call.Call.Args[0])
			errArgs := 0
			for _, e := range variadicElems(call.Call.Args[1]) {
				v := e
				if mi, ok := v.(*ssa.MakeInterface); ok {
					v = mi.X
				}
				if ci, ok := v.(*ssa.ChangeInterface); ok {
					v = ci.X
				}
				if types.Identical(v.Type(), errorType) {
					errArgs++
				}
			}
			if errArgs == 0 {
				return
			}
			nw++
			perFn++
			wraps := strings.Count(format, "%w")
			r.Check(wraps >= errArgs, "E4-wrap", fmt.Sprintf("%s: fmt.Errorf#%d keeps its error argument(s) in the chain", c.funcKey(fn), perFn), c.instrPos(call),
				fmt.Sprintf("format %q has %d %%w verb(s) for %d error argument(s): an error formatted with another verb is flattened to text and cannot be inspected by the caller", format, wraps, errArgs))
		})
	}
	r.Count("errorf_with_error_args_on_signing_paths", nw)
	checkSignerReaderOnce(c, r, scopeW)
	checkPGPConfigFields(c, r)
	checkSignerIsTheKeyRead(c, r)
	checkArmorDecision(c, r)
	checkFailureBuiltFresh(c, r)
	// the signature-member write failure in deb.Package is typed as well
	if pk := c.PackagerByFormat("deb"); pk != nil {
		for _, m := range arMembers(c, pk.Package) {
			if bo, ok := m.name.(*ssa.BinOp); ok && constOrEmpty(bo.X) == "_gpg" {
				typed := false
				if fail := nilTestFailEdge(m.call); fail != nil {
					if ret, ok := fail.Instrs[len(fail.Instrs)-1].(*ssa.Return); ok {
						res := retResults(ret)
						if mi, ok := res[len(res)-1].(*ssa.MakeInterface); ok && isPtrToNamed(mi.X.Type(), modPath, "ErrSigningFailure") {
							typed = true
						}
					}
				}
				r.Check(typed, "E4-typed", "deb: failure to store the signature member", c.instrPos(m.call), "a failure while adding the _gpg member must be reported as *nfpm.ErrSigningFailure")
			}
		}
	}
}

// writesPayload: the function also writes archive members of the package
// proper (so it is not a dedicated signing function).
func writesPayload(c *Ctx, f *ssa.Function) bool {
	found := false
	forEachInstr(f, func(in ssa.Instruction) {
		if call, ok := in.(*ssa.Call); ok && (calleeIs(call, "github.com/blakesmith/ar", "Writer", "WriteGlobalHeader") || calleeIs(call, "io", "", "Copy") && false) {
			found = true
		}
	})
	return found
}

// returnsTyped: every return of f carries a nil error, a *ErrSigningFailure,
// or the result of a module callee for which the same holds.
func returnsTyped(c *Ctx, f *ssa.Function, inprog map[*ssa.Function]bool, depth int) (bool, string) {
	if inprog[f] || depth > 6 {
		return true, ""
	}
	inprog[f] = true
	defer delete(inprog, f)
	idx := errResultIndex(f.Signature)
	for _, b := range f.Blocks {
		ret, ok := b.Instrs[len(b.Instrs)-1].(*ssa.Return)
		if !ok {
			continue
		}
		res := retResults(ret)
		// every value that can reach the return (phi edges flattened)
		var vals []ssa.Value
		seenV := map[ssa.Value]bool{}
		var flat func(v ssa.Value)
		flat = func(v ssa.Value) {
			if seenV[v] {
				return
			}
			seenV[v] = true
			if phi, ok := v.(*ssa.Phi); ok {
				for _, e := range phi.Edges {
					flat(e)
				}
				return
			}
			vals = append(vals, v)
		}
		flat(res[idx])
		for _, v := range vals {
			if k, ok := v.(*ssa.Const); ok && k.IsNil() {
				continue
			}
			if mi, ok := v.(*ssa.MakeInterface); ok && isPtrToNamed(mi.X.Type(), modPath, "ErrSigningFailure") {
				continue
			}
			var call *ssa.Call
			switch x := v.(type) {
			case *ssa.Extract:
				call, _ = x.Tuple.(*ssa.Call)
			case *ssa.Call:
				call = x
			}
			if call != nil {
				if sc := call.Call.StaticCallee(); sc != nil && sc.Blocks != nil && c.isModuleFunc(sc) {
					if ok, why := returnsTyped(c, sc, inprog, depth+1); ok {
						continue
					} else {
						return false, why
					}
				}
			}
			return false, fmt.Sprintf("the return at %s in %s can carry an error that is not a *nfpm.ErrSigningFailure: callers cannot identify it as a signing failure with errors.As", c.instrPos(ret), c.funcKey(f))
		}
	}
	return true, "every return carries nil or a *nfpm.ErrSigningFailure"
}

func forEachInstrIn(fns []*ssa.Function, f func(ssa.Instruction)) {
	for _, fn := range fns {
		forEachInstr(fn, f)
	}
}

// checkSignerReaderOnce (F12-once): a signing callback consumes the reader it
// is handed; the same reader value handed to a callback a second time (a
// retry) yields the empty rest - the callback would sign nothing, and the
// result would be stored as the package's signature.
func checkSignerReaderOnce(c *Ctx, r *Report, scope map[*ssa.Function]bool) {
	n := 0
	for _, fn := range sortedFuncs(c, scope) {
		// dynamic calls of a func(io.Reader) (..., error) value, by reader argument
		byReader := map[ssa.Value][]*ssa.Call{}
		forEachInstr(fn, func(in ssa.Instruction) {
			call, ok := in.(*ssa.Call)
			if !ok || call.Call.IsInvoke() || call.Call.StaticCallee() != nil {
				return
			}
			if _, isB := call.Call.Value.(*ssa.Builtin); isB {
				return
			}
			sig := call.Call.Signature()
			if sig.Params().Len() != 1 || sig.Params().At(0).Type().String() != "io.Reader" {
				return
			}
			byReader[call.Call.Args[0]] = append(byReader[call.Call.Args[0]], call)
		})
		for rd, calls := range byReader {
			n++
			var again *ssa.Call
			for _, a := range calls {
				for _, b := range calls {
					if a != b && (a.Block() == b.Block() && instrIndex(a) < instrIndex(b) || a.Block() != b.Block() && blockReaches(a.Block(), b.Block())) {
						again = b
					}
				}
			}
			construct := fmt.Sprintf("%s: reader %s is handed to a signing callback once", c.funcKey(fn), shorten(valueExpr(c, rd, 0), 40))
			if again != nil {
				r.Fail("F12-once", construct, c.instrPos(again), "the same reader is handed to the callback again after an earlier call has consumed it: the second call signs what is left (nothing), and that signature is stored")
			} else {
				r.Pass("F12-once", construct, c.instrPos(calls[0]), "one call per reader value on every path")
			}
		}
	}
	r.Floor("F12-once", n, 2)
}

// checkPGPConfigFields: the OpenPGP configuration handed to the library sets
// the signing key id and the hash - nothing else. In particular no Time: the
// library evaluates key validity at that instant, so a configured time before
// the key's creation makes a valid key unusable.
func checkPGPConfigFields(c *Ctx, r *Report) {
	allowed := map[string]bool{"SigningKeyId": true, "DefaultHash": true}
	n := 0
	for _, fn := range c.ModFuncs {
		if c.funcPkgPath(fn) != modPath+"/internal/sign" {
			continue
		}
		k := 0
		forEachInstr(fn, func(in ssa.Instruction) {
			al, ok := in.(*ssa.Alloc)
			if !ok || !isNamed(derefType(al.Type()), "github.com/ProtonMail/go-crypto/openpgp/packet", "Config") {
				return
			}
			n++
			k++
			var extra []string
			for _, ref := range *al.Referrers() {
				if fa, ok := ref.(*ssa.FieldAddr); ok {
					if name := fieldName(fa.X.Type(), fa.Field); !allowed[name] {
						extra = append(extra, name)
					}
				}
			}
			r.Check(len(extra) == 0, "K-pgp-config", fmt.Sprintf("%s: OpenPGP config#%d sets key id and hash only", c.funcKey(fn), k), c.instrPos(al),
				fmt.Sprintf("fields set besides SigningKeyId/DefaultHash: %v; the library's defaults (current time for key validity, its own randomness) are what makes a configured key produce a verifying signature", uniq(extra)))
		})
	}
	// a configuration obtained from a helper must not be amended afterwards
	for _, fn := range c.ModFuncs {
		if c.funcPkgPath(fn) != modPath+"/internal/sign" {
			continue
		}
		forEachInstr(fn, func(in ssa.Instruction) {
			fa, ok := in.(*ssa.FieldAddr)
			if !ok || !isNamed(derefType(fa.X.Type()), "github.com/ProtonMail/go-crypto/openpgp/packet", "Config") {
				return
			}
			if _, isAl := fa.X.(*ssa.Alloc); isAl {
				return
			}
			if name := fieldName(fa.X.Type(), fa.Field); !allowed[name] {
				r.Fail("K-pgp-config", fmt.Sprintf("%s: OpenPGP config field %s", c.funcKey(fn), name), c.instrPos(fa),
					"field set besides SigningKeyId/DefaultHash on a configuration handed to the library")
			}
		})
	}
	r.Floor("K-pgp-config", n, 1)
}

// sliceSequences: every sequence of elements the slice value can hold - a
// literal list, an empty make, appends onto such a value, joined at phis.
// nil when the value is built in a way that is not modelled.
func sliceSequences(v ssa.Value, depth int) [][]ssa.Value {
	if depth > 8 {
		return nil
	}
	switch x := v.(type) {
	case *ssa.Const:
		if x.IsNil() {
			return [][]ssa.Value{{}}
		}
		return nil
	case *ssa.MakeSlice:
		if k, ok := x.Len.(*ssa.Const); ok && k.Value != nil && k.Int64() == 0 {
			return [][]ssa.Value{{}}
		}
		return nil
	case *ssa.Slice:
		// make([]T, 0, constant) is an array allocation sliced to length 0
		if k, ok := x.High.(*ssa.Const); ok && x.Low == nil && k.Value != nil && k.Int64() == 0 {
			if al, isAl := x.X.(*ssa.Alloc); isAl && al.Comment == "makeslice" {
				return [][]ssa.Value{{}}
			}
		}
		if x.Low != nil || x.High != nil {
			return nil
		}
		elems := variadicOrdered(x)
		if len(elems) == 0 {
			return nil
		}
		return [][]ssa.Value{elems}
	case *ssa.Phi:
		var out [][]ssa.Value
		for _, e := range x.Edges {
			s := sliceSequences(e, depth+1)
			if s == nil {
				return nil
			}
			out = append(out, s...)
		}
		return out
	case *ssa.Call:
		b, ok := x.Call.Value.(*ssa.Builtin)
		if !ok || b.Name() != "append" || len(x.Call.Args) != 2 {
			return nil
		}
		base := sliceSequences(x.Call.Args[0], depth+1)
		if base == nil {
			return nil
		}
		add := variadicOrdered(x.Call.Args[1])
		var out [][]ssa.Value
		for _, s := range base {
			out = append(out, append(append([]ssa.Value{}, s...), add...))
		}
		return out
	}
	return nil
}

// checkSignerIsTheKeyRead (K-signer-entity): the key that signs is the one the
// key reader selected - the entity it returned, or that entity's primary
// private key read from the field. A key picked in the signing function itself
// (the first subkey that can sign, ...) bypasses the reader's checks of what
// the key may be used for.
func checkSignerIsTheKeyRead(c *Ctx, r *Report) {
	n := 0
	for _, fn := range c.ModFuncs {
		if c.funcPkgPath(fn) != modPath+"/internal/sign" {
			continue
		}
		forEachInstr(fn, func(in ssa.Instruction) {
			call, ok := in.(*ssa.Call)
			if !ok {
				return
			}
			o := calleeObj(call)
			if o == nil || o.Pkg() == nil || !strings.Contains(o.Pkg().Path(), "openpgp") {
				return
			}
			idx := -1
			switch o.Name() {
			case "Encode": // clearsign.Encode(w, privateKey, config)
				idx = 1
			case "ArmoredDetachSign", "DetachSign", "DetachSignText", "ArmoredDetachSignText": // (w, signer, message, config)
				idx = 1
			default:
				return
			}
			if idx >= len(call.Call.Args) {
				return
			}
			n++
			arg := stripConv(call.Call.Args[idx])
			ok2 := false
			fromReader := func(v ssa.Value) bool {
				ex, isEx := v.(*ssa.Extract)
				if !isEx {
					return false
				}
				kc, isCall := ex.Tuple.(*ssa.Call)
				return isCall && kc.Call.StaticCallee() != nil && c.isModuleFunc(kc.Call.StaticCallee())
			}
			switch x := arg.(type) {
			case *ssa.Extract:
				ok2 = fromReader(x)
			case *ssa.UnOp:
				if fa, isFA := x.X.(*ssa.FieldAddr); isFA && x.Op == token.MUL && fieldName(fa.X.Type(), fa.Field) == "PrivateKey" {
					ok2 = fromReader(fa.X)
				}
			}
			r.Check(ok2, "K-signer-entity", fmt.Sprintf("%s: the key handed to %s is the one the key reader returned", c.funcKey(fn), o.Name()), c.instrPos(call),
				"the signer is "+shorten(valueExpr(c, arg, 0), 80)+", not the entity returned by the module's key reader (or its primary key): a key chosen here has not passed the reader's usage checks (an encryption subkey that can sign algorithmically yields a signature no verifier accepts)")
		})
	}
	r.Floor("K-signer-entity", n, 2)
}

// checkFailureBuiltFresh (E4-fresh): the typed failure a signing path returns
// wraps the error that occurred - it is built there. A failure taken out of
// the chain with errors.As and returned in place of the error drops every
// wrapper above it, the signer's own error type included.
func checkFailureBuiltFresh(c *Ctx, r *Report) {
	n := 0
	for _, fn := range c.ModFuncs {
		k := 0
		forEachInstr(fn, func(in ssa.Instruction) {
			call, ok := in.(*ssa.Call)
			if !ok || !calleeIs(call, "errors", "", "As") || len(call.Call.Args) < 2 {
				return
			}
			tgt := stripIface(call.Call.Args[1])
			al, isAl := tgt.(*ssa.Alloc)
			if !isAl || !isPtrToNamed(derefType(al.Type()), modPath, "ErrSigningFailure") {
				return
			}
			n++
			// a load of the target that reaches a return
			reaches := false
			var follow func(v ssa.Value, d int)
			follow = func(v ssa.Value, d int) {
				if d > 4 || v.Referrers() == nil {
					return
				}
				for _, ref := range *v.Referrers() {
					switch x := ref.(type) {
					case *ssa.Return:
						reaches = true
					case *ssa.MakeInterface:
						follow(x, d+1)
					case *ssa.Phi:
						follow(x, d+1)
					case *ssa.ChangeInterface:
						follow(x, d+1)
					}
				}
			}
			for _, ref := range *al.Referrers() {
				if ld, isLd := ref.(*ssa.UnOp); isLd && ld.Op == token.MUL {
					follow(ld, 0)
				}
			}
			k++
			r.Check(!reaches, "E4-fresh", fmt.Sprintf("%s: failure found with errors.As#%d is not returned in place of the error", c.funcKey(fn), k), c.instrPos(call),
				"the *ErrSigningFailure extracted from the chain is returned instead of the error it was found in: every wrapper above it - the signing callback's own error type - is no longer in the chain errors.Is / errors.As see")
		})
	}
	r.Count("errors_as_on_signing_failure", n)
	if n == 0 {
		r.Pass("E4-fresh", "no signing failure is extracted from an error chain in the module", "-", "errors.As with a *ErrSigningFailure target: none")
	}
}

// checkArmorDecision (K-armor-whole): "key kinds (armored/binary ...)": an
// armored key file may carry text in front of the armor (a comment line, a
// blank line from a secret store); the armor decoder skips it. Whatever decides
// that a file goes to the armored parser therefore looks at more than its
// beginning: a prefix test of the content in that decision sends such files to
// the binary parser, which refuses them.
func checkArmorDecision(c *Ctx, r *Report) {
	pa := newProv(c)
	n := 0
	for _, fn := range c.ModFuncs {
		if c.funcPkgPath(fn) != modPath+"/internal/sign" {
			continue
		}
		forEachInstr(fn, func(in ssa.Instruction) {
			call, ok := in.(*ssa.Call)
			if !ok {
				return
			}
			o := calleeObj(call)
			if o == nil || o.Name() != "ReadArmoredKeyRing" {
				return
			}
			n++
			prefix := ""
			for b := call.Block(); b != nil; b = b.Idom() {
				if len(b.Preds) != 1 {
					continue
				}
				ifi, isIf := b.Preds[0].Instrs[len(b.Preds[0].Instrs)-1].(*ssa.If)
				if !isIf {
					continue
				}
				for _, a := range pa.Of(ifi.Cond).list() {
					if a == "call:bytes.HasPrefix" || a == "call:strings.HasPrefix" || a == "call:bytes.Index" || a == "call:strings.Index" {
						prefix = a
					}
				}
			}
			r.Check(prefix == "", "K-armor-whole", fmt.Sprintf("%s: the armored key parser#%d is chosen by a test of the whole content", c.funcKey(fn), n), c.instrPos(call),
				"the decision that a key file is armored passes through "+strings.TrimPrefix(prefix, "call:")+": an armored key with anything in front of the armor header (which the decoder would skip) is handed to the binary parser and signing is refused")
		})
	}
	r.Floor("K-armor-whole", n, 1)
}

// closuresReturned: the closures a module function can return - directly, or
// as the result of a module function of the same package it returns the
// result of (a signer chosen by one helper and built by another).
func closuresReturned(c *Ctx, fn *ssa.Function, depth int) []*ssa.Function {
	var out []*ssa.Function
	if fn == nil || depth > 2 || len(fn.Blocks) == 0 || !c.isModuleFunc(fn) {
		return out
	}
	for _, b := range fn.Blocks {
		ret, ok := b.Instrs[len(b.Instrs)-1].(*ssa.Return)
		if !ok || len(ret.Results) == 0 {
			continue
		}
		switch x := ret.Results[0].(type) {
		case *ssa.MakeClosure:
			out = append(out, x.Fn.(*ssa.Function))
		case *ssa.Call:
			if sc := x.Call.StaticCallee(); sc != nil && c.funcPkgPath(sc) == c.funcPkgPath(fn) {
				out = append(out, closuresReturned(c, sc, depth+1)...)
			}
		}
	}
	return out
}
