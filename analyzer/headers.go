package main

import (
	"fmt"
	"go/token"
	"go/types"
	"sort"
	"strings"

	"golang.org/x/tools/go/ssa"
)

// Archive header objects (tar.Header / rpmpack.RPMFile) created on a
// packaging path, with flow-sensitive reaching stores per field at the points
// where the header is used (written, added, returned or handed on).

type hdrDef struct {
	Store *ssa.Store // nil for the synthetic initial definition
	Synth string     // description of a synthetic definition (FileInfoHeader model / zero value)
}

type hdrObj struct {
	ctx          *Ctx
	Fn           *ssa.Function
	Root         ssa.Value // *ssa.Alloc or *ssa.Extract (result of tar.FileInfoHeader)
	Kind         string    // "tar" | "rpm"
	FromFileInfo bool
	Create       ssa.Instruction
	Uses         []ssa.Instruction
	// a header obtained from a module factory (a function returning a header
	// it created): Inner is the object inside the factory, Root the call's
	// result; fields the caller does not set keep the factory's definitions
	Inner *hdrObj
	pctx  *provCtx
	// calls in Fn that hand the header to a module function which completes it
	// (stores fields through that parameter and passes it on to nobody): the
	// stores count as made at the call
	finishers []*ssa.Call
	viaCall   map[*ssa.Store]*ssa.Call
	vctx      map[*ssa.Call]*provCtx
}

// finisherParam: the parameter of the call's callee the header is bound to, if
// the callee only completes the header.
func (h *hdrObj) finisherParam(c *Ctx, call *ssa.Call) *ssa.Parameter {
	g := call.Call.StaticCallee()
	if g == nil || len(g.Blocks) == 0 || c == nil || !c.isModuleFunc(g) {
		return nil
	}
	for i, a := range call.Call.Args {
		if a != h.Root || i >= len(g.Params) {
			continue
		}
		p := g.Params[i]
		if p.Referrers() == nil {
			return nil
		}
		stores := false
		for _, ref := range *p.Referrers() {
			switch x := ref.(type) {
			case *ssa.FieldAddr:
				for _, r2 := range *x.Referrers() {
					if st, ok := r2.(*ssa.Store); ok && st.Addr == ssa.Value(x) {
						stores = true
					}
				}
			case *ssa.DebugRef:
			default:
				return nil // handed on, returned, stored: not a mere finisher
			}
		}
		if stores {
			return p
		}
	}
	return nil
}

// helperStores: stores to root.<field> made by the finishers.
func (h *hdrObj) helperStores(field string) []*ssa.Store {
	var out []*ssa.Store
	for _, call := range h.finishers {
		p := h.finisherParam(h.ctx, call)
		if p == nil {
			continue
		}
		for _, ref := range *p.Referrers() {
			fa, ok := ref.(*ssa.FieldAddr)
			if !ok || fieldName(fa.X.Type(), fa.Field) != field {
				continue
			}
			for _, r2 := range *fa.Referrers() {
				if st, ok := r2.(*ssa.Store); ok && st.Addr == ssa.Value(fa) {
					if h.viaCall == nil {
						h.viaCall = map[*ssa.Store]*ssa.Call{}
					}
					h.viaCall[st] = call
					out = append(out, st)
				}
			}
		}
	}
	return out
}

// provOf: the provenance of what a definition stores; for a definition inside
// the factory, in the context of the call that created this header (the
// factory's parameters stand for this call's arguments, not for the union over
// all callers).
func (h *hdrObj) provOf(pa *provAnalysis, st *ssa.Store) provSet {
	if call := h.viaCall[st]; call != nil {
		if h.vctx == nil {
			h.vctx = map[*ssa.Call]*provCtx{}
		}
		if h.vctx[call] == nil {
			h.vctx[call] = &provCtx{call: call.Common(), fn: call.Call.StaticCallee(), depth: 1}
		}
		return pa.of(st.Val, h.vctx[call])
	}
	if h.Inner != nil && st.Parent() == h.Inner.Fn {
		if call, ok := h.Create.(*ssa.Call); ok {
			if h.pctx == nil {
				h.pctx = &provCtx{call: call.Common(), fn: h.Inner.Fn, depth: 1}
			}
			return pa.of(st.Val, h.pctx)
		}
	}
	return pa.Of(h.valueOf(st))
}

// factoryCalls: call instructions recognised as header creations through a
// factory (filled by headerObjects; used for stable numbering in key).
var factoryCalls = map[ssa.Instruction]bool{}

func (h *hdrObj) key(c *Ctx) string {
	n := 0
	k := 0
	forEachInstr(h.Fn, func(in ssa.Instruction) {
		if isHeaderCreate(in) || factoryCalls[in] {
			n++
			if in == h.Create {
				k = n
			}
		}
	})
	return fmt.Sprintf("header#%d in %s", k, c.funcKey(h.Fn))
}

func isHeaderCreate(in ssa.Instruction) bool {
	switch x := in.(type) {
	case *ssa.Alloc:
		t := derefType(x.Type())
		return isNamed(t, "archive/tar", "Header") || isNamed(t, rpmpackPath, "RPMFile")
	case *ssa.Call:
		return calleeIs(x, "archive/tar", "", "FileInfoHeader")
	}
	return false
}

// headerObjects lists header objects created in the given functions.
func headerObjects(c *Ctx, fns []*ssa.Function) []*hdrObj {
	direct := directHeaderObjects(c, fns)
	// factories: a function that returns the one header it created
	factory := map[*ssa.Function]*hdrObj{}
	ambiguous := map[*ssa.Function]bool{}
	for _, h := range direct {
		returned := false
		for _, u := range h.Uses {
			if _, ok := u.(*ssa.Return); ok {
				returned = true
			}
		}
		if !returned {
			continue
		}
		if factory[h.Fn] != nil {
			ambiguous[h.Fn] = true
		}
		factory[h.Fn] = h
	}
	for fn := range ambiguous {
		delete(factory, fn)
	}
	var outer []*hdrObj
	sites := map[*hdrObj]int{}
	storing := map[*hdrObj]int{}
	type plainSite struct {
		fn    *ssa.Function
		call  *ssa.Call
		root  ssa.Value
		inner *hdrObj
	}
	var plain []plainSite
	for _, fn := range fns {
		forEachInstr(fn, func(in ssa.Instruction) {
			call, ok := in.(*ssa.Call)
			if !ok {
				return
			}
			sc := call.Call.StaticCallee()
			inner := factory[sc]
			if sc == nil || inner == nil {
				return
			}
			var root ssa.Value = call
			if _, isTuple := call.Type().(*types.Tuple); isTuple {
				root = nil
				for _, ref := range *call.Referrers() {
					if ex, ok := ref.(*ssa.Extract); ok && ex.Index == 0 {
						root = ex
					}
				}
			}
			if root == nil || root.Referrers() == nil {
				return
			}
			sites[inner]++
			stores := false
			for _, ref := range *root.Referrers() {
				if fa, ok := ref.(*ssa.FieldAddr); ok {
					for _, r2 := range *fa.Referrers() {
						if st, ok := r2.(*ssa.Store); ok && st.Addr == ssa.Value(fa) {
							stores = true
						}
					}
				}
			}
			if !stores {
				plain = append(plain, plainSite{fn, call, root, inner})
				return
			}
			storing[inner]++
			factoryCalls[call] = true
			h := &hdrObj{Fn: fn, Root: root, Kind: inner.Kind, FromFileInfo: inner.FromFileInfo, Create: call, Inner: inner}
			h.findUses(c)
			outer = append(outer, h)
		})
	}
	// a base constructor some callers complete and others hand on as it is:
	// every call site is a header of its own (the inner object alone has no
	// kind - it is a file at one site, a directory at another)
	for _, ps := range plain {
		if storing[ps.inner] == 0 {
			continue
		}
		storing[ps.inner]++
		factoryCalls[ps.call] = true
		h := &hdrObj{Fn: ps.fn, Root: ps.root, Kind: ps.inner.Kind, FromFileInfo: ps.inner.FromFileInfo, Create: ps.call, Inner: ps.inner}
		h.findUses(c)
		outer = append(outer, h)
	}
	var out []*hdrObj
	for _, h := range direct {
		// a factory whose every caller completes the header is checked at
		// the call sites, not at its return
		if sites[h] > 0 && storing[h] == sites[h] {
			continue
		}
		out = append(out, h)
	}
	return append(out, outer...)
}

func directHeaderObjects(c *Ctx, fns []*ssa.Function) []*hdrObj {
	var out []*hdrObj
	for _, fn := range fns {
		forEachInstr(fn, func(in ssa.Instruction) {
			if !isHeaderCreate(in) {
				return
			}
			h := &hdrObj{Fn: fn, Create: in}
			switch x := in.(type) {
			case *ssa.Alloc:
				h.Root = x
				if isNamed(derefType(x.Type()), rpmpackPath, "RPMFile") {
					h.Kind = "rpm"
				} else {
					h.Kind = "tar"
				}
			case *ssa.Call:
				h.Kind = "tar"
				h.FromFileInfo = true
				for _, ref := range *x.Referrers() {
					if ex, ok := ref.(*ssa.Extract); ok && ex.Index == 0 {
						h.Root = ex
					}
				}
			}
			if h.Root == nil {
				return
			}
			h.findUses(c)
			out = append(out, h)
		})
	}
	return out
}

// valueOf: the value a definition stores, with a factory's parameter replaced
// by the argument of the call that created this header.
func (h *hdrObj) valueOf(st *ssa.Store) ssa.Value {
	if call := h.viaCall[st]; call != nil {
		if prm, ok := st.Val.(*ssa.Parameter); ok {
			for i, p := range call.Call.StaticCallee().Params {
				if p == prm && i < len(call.Call.Args) {
					return call.Call.Args[i]
				}
			}
		}
		return st.Val
	}
	if h.Inner == nil || st.Parent() != h.Inner.Fn {
		return st.Val
	}
	if prm, ok := st.Val.(*ssa.Parameter); ok {
		if call, ok := h.Create.(*ssa.Call); ok {
			for i, p := range h.Inner.Fn.Params {
				if p == prm && i < len(call.Call.Args) {
					return call.Call.Args[i]
				}
			}
		}
	}
	return st.Val
}

func (h *hdrObj) innerReturns() []ssa.Instruction {
	var out []ssa.Instruction
	if h.Inner != nil {
		for _, u := range h.Inner.Uses {
			if _, ok := u.(*ssa.Return); ok {
				out = append(out, u)
			}
		}
	}
	return out
}

// aliases of the header root inside its function (phi, loads of a cell it was
// stored into are not needed: headers are used directly).
func (h *hdrObj) findUses(c *Ctx) {
	h.ctx = c
	refs := h.Root.Referrers()
	if refs == nil {
		return
	}
	for _, ref := range *refs {
		switch x := ref.(type) {
		case *ssa.Call:
			// passed to WriteHeader or to a module function
			if h.finisherParam(c, x) != nil {
				h.finishers = append(h.finishers, x)
				continue
			}
			for _, a := range x.Call.Args {
				if a == h.Root {
					h.Uses = append(h.Uses, x)
				}
			}
		case *ssa.Return:
			h.Uses = append(h.Uses, x)
		case *ssa.UnOp:
			// *file handed to AddFile
			if x.Op == token.MUL && x.Referrers() != nil {
				for _, r2 := range *x.Referrers() {
					if call, ok := r2.(*ssa.Call); ok {
						h.Uses = append(h.Uses, call)
					}
					if st, ok := r2.(*ssa.Store); ok {
						_ = st
					}
				}
			}
		case *ssa.Store:
			// stored into a result cell (defer spill) or a local variable: the
			// return / later load is the use; approximate by the store itself
			if x.Val == h.Root {
				h.Uses = append(h.Uses, x)
			}
		case *ssa.Phi:
			// joined with other headers (rpm: file = asRPMFile(...) | ...)
			h.Uses = append(h.Uses, x)
		}
	}
}

// fieldStores returns the stores to root.<field>.
func (h *hdrObj) fieldStores(field string) []*ssa.Store {
	var out []*ssa.Store
	if h.Inner != nil {
		out = append(out, h.Inner.fieldStores(field)...)
	}
	out = append(out, h.helperStores(field)...)
	refs := h.Root.Referrers()
	if refs == nil {
		return out
	}
	for _, ref := range *refs {
		fa, ok := ref.(*ssa.FieldAddr)
		if !ok || fieldName(fa.X.Type(), fa.Field) != field {
			continue
		}
		for _, r2 := range *fa.Referrers() {
			if st, ok := r2.(*ssa.Store); ok && st.Addr == ssa.Value(fa) {
				out = append(out, st)
			}
		}
	}
	return out
}

func (h *hdrObj) localFieldStores(field string) []*ssa.Store {
	inner := h.Inner
	h.Inner = nil
	out := h.fieldStores(field)
	h.Inner = inner
	return out
}

// reaching computes which definitions of root.<field> can reach `at`.
// The synthetic initial definition (zero value, or the FileInfoHeader model)
// is included unless every path to `at` passes an explicit store.
func (h *hdrObj) reaching(field string, at ssa.Instruction) (defs []*ssa.Store, initial bool) {
	defs, initial = h.reachingLocal(field, at)
	if initial && h.Inner != nil {
		initial = false
		for _, u := range h.innerReturns() {
			d2, i2 := h.Inner.reaching(field, u)
			defs = append(defs, d2...)
			if i2 {
				initial = true
			}
		}
	}
	return defs, initial
}

func (h *hdrObj) reachingLocal(field string, at ssa.Instruction) (defs []*ssa.Store, initial bool) {
	stores := h.localFieldStores(field)
	byBlock := map[*ssa.BasicBlock][]*ssa.Store{}
	for _, st := range stores {
		byBlock[st.Block()] = append(byBlock[st.Block()], st)
	}
	for _, ss := range byBlock {
		sort.Slice(ss, func(i, j int) bool { return instrIndex(ss[i]) < instrIndex(ss[j]) })
	}
	type state struct {
		defs map[*ssa.Store]bool
		init bool
		seen bool
	}
	in := map[*ssa.BasicBlock]*state{}
	out := map[*ssa.BasicBlock]*state{}
	fn := h.Fn
	createBlock := h.Create.Block()
	for _, b := range fn.Blocks {
		in[b] = &state{defs: map[*ssa.Store]bool{}}
		out[b] = &state{defs: map[*ssa.Store]bool{}}
	}
	transfer := func(b *ssa.BasicBlock, s *state, upto ssa.Instruction) *state {
		res := &state{defs: map[*ssa.Store]bool{}, init: s.init, seen: s.seen}
		for k := range s.defs {
			res.defs[k] = true
		}
		for _, in := range b.Instrs {
			if in == upto {
				break
			}
			if in == h.Create {
				res = &state{defs: map[*ssa.Store]bool{}, init: true, seen: true}
			}
			if st, ok := in.(*ssa.Store); ok {
				for _, s2 := range byBlock[b] {
					if s2 == st {
						res = &state{defs: map[*ssa.Store]bool{st: true}, init: false, seen: true}
					}
				}
			}
			if call, ok := in.(*ssa.Call); ok {
				// a finisher: its stores to the field happen here; they replace
				// what came before when one of them lies on every path through
				// the finisher
				var hs []*ssa.Store
				must := false
				for _, st := range stores {
					if h.viaCall[st] == call {
						hs = append(hs, st)
						if storeOnEveryPath(st) {
							must = true
						}
					}
				}
				if len(hs) > 0 {
					if must {
						res = &state{defs: map[*ssa.Store]bool{}, init: false, seen: true}
					}
					for _, st := range hs {
						res.defs[st] = true
					}
				}
			}
		}
		return res
	}
	_ = createBlock
	for changed := true; changed; {
		changed = false
		for _, b := range fn.Blocks {
			ns := &state{defs: map[*ssa.Store]bool{}}
			for _, p := range b.Preds {
				o := out[p]
				if !o.seen {
					continue
				}
				ns.seen = true
				if o.init {
					ns.init = true
				}
				for k := range o.defs {
					ns.defs[k] = true
				}
			}
			in[b] = ns
			no := transfer(b, ns, nil)
			if no.seen != out[b].seen || no.init != out[b].init || len(no.defs) != len(out[b].defs) {
				changed = true
			} else {
				for k := range no.defs {
					if !out[b].defs[k] {
						changed = true
					}
				}
			}
			out[b] = no
		}
	}
	s := transfer(at.Block(), in[at.Block()], at)
	for k := range s.defs {
		defs = append(defs, k)
	}
	sort.Slice(defs, func(i, j int) bool { return defs[i].Pos() < defs[j].Pos() })
	return defs, s.init
}

// typeflags reachable at a use: constant values of Typeflag stores.
func (h *hdrObj) classAt(at ssa.Instruction) map[string]bool {
	out := map[string]bool{}
	if h.Kind == "rpm" {
		defs, _ := h.reaching("Mode", at)
		cls := "FILE"
		for _, st := range defs {
			s := ""
			var walk func(v ssa.Value, d int)
			walk = func(v ssa.Value, d int) {
				if d > 4 {
					return
				}
				switch x := v.(type) {
				case *ssa.Const:
					if x.Value != nil {
						s += fmt.Sprintf(" %d", x.Int64())
					}
				case *ssa.BinOp:
					walk(x.X, d+1)
					walk(x.Y, d+1)
				case *ssa.Convert:
					walk(x.X, d+1)
				}
			}
			walk(h.valueOf(st), 0)
			if strings.Contains(s, " 16384") {
				cls = "DIR"
			}
			if strings.Contains(s, " 40960") {
				cls = "LINK"
			}
		}
		out[cls] = true
		return out
	}
	if h.FromFileInfo {
		out["FILE"] = true
		return out
	}
	defs, init := h.reaching("Typeflag", at)
	if init {
		out["FILE"] = true // zero Typeflag is a regular file
	}
	for _, st := range defs {
		k, ok := h.valueOf(st).(*ssa.Const)
		if !ok || k.Value == nil {
			out["?"] = true
			continue
		}
		switch k.Int64() {
		case '5':
			out["DIR"] = true
		case '2':
			out["LINK"] = true
		case '0', 0:
			out["FILE"] = true
		default:
			out[fmt.Sprintf("SPECIAL(%c)", rune(k.Int64()))] = true
		}
	}
	return out
}

// hdrPair is one combination of definitions of two fields that can hold
// together at a program point (nil = the initial definition).
type hdrPair struct{ A, B *ssa.Store }

// reachingPairs is the product form of reaching: which combinations of
// definitions of root.<fa> and root.<fb> can reach `at` on one path.
func (h *hdrObj) reachingPairs(fa, fb string, at ssa.Instruction) []hdrPair {
	local := h.reachingPairsLocal(fa, fb, at)
	if h.Inner == nil {
		return local
	}
	var inner []hdrPair
	for _, u := range h.innerReturns() {
		inner = append(inner, h.Inner.reachingPairs(fa, fb, u)...)
	}
	seen := map[hdrPair]bool{}
	var out []hdrPair
	for _, p := range local {
		if p.A != nil && p.B != nil {
			if !seen[p] {
				seen[p] = true
				out = append(out, p)
			}
			continue
		}
		for _, q := range inner {
			n := p
			if n.A == nil {
				n.A = q.A
			}
			if n.B == nil {
				n.B = q.B
			}
			if !seen[n] {
				seen[n] = true
				out = append(out, n)
			}
		}
	}
	return out
}

func (h *hdrObj) reachingPairsLocal(fa, fb string, at ssa.Instruction) []hdrPair {
	isA := map[*ssa.Store]bool{}
	isB := map[*ssa.Store]bool{}
	for _, st := range h.localFieldStores(fa) {
		isA[st] = true
	}
	for _, st := range h.localFieldStores(fb) {
		isB[st] = true
	}
	type state map[hdrPair]bool
	transfer := func(b *ssa.BasicBlock, s state, upto ssa.Instruction) state {
		res := state{}
		for k := range s {
			res[k] = true
		}
		for _, in := range b.Instrs {
			if in == upto {
				break
			}
			if in == h.Create {
				res = state{hdrPair{}: true}
			}
			if st, ok := in.(*ssa.Store); ok && (isA[st] || isB[st]) {
				n := state{}
				for k := range res {
					if isA[st] {
						k.A = st
					} else {
						k.B = st
					}
					n[k] = true
				}
				res = n
			}
		}
		return res
	}
	in := map[*ssa.BasicBlock]state{}
	out := map[*ssa.BasicBlock]state{}
	for _, b := range h.Fn.Blocks {
		in[b], out[b] = state{}, state{}
	}
	for changed := true; changed; {
		changed = false
		for _, b := range h.Fn.Blocks {
			ns := state{}
			for _, p := range b.Preds {
				for k := range out[p] {
					ns[k] = true
				}
			}
			in[b] = ns
			no := transfer(b, ns, nil)
			if len(no) != len(out[b]) {
				changed = true
			} else {
				for k := range no {
					if !out[b][k] {
						changed = true
					}
				}
			}
			out[b] = no
		}
	}
	var res []hdrPair
	for k := range transfer(at.Block(), in[at.Block()], at) {
		res = append(res, k)
	}
	sort.Slice(res, func(i, j int) bool {
		pi, pj := token.NoPos, token.NoPos
		if res[i].A != nil {
			pi = res[i].A.Pos()
		}
		if res[j].A != nil {
			pj = res[j].A.Pos()
		}
		if pi != pj {
			return pi < pj
		}
		qi, qj := token.NoPos, token.NoPos
		if res[i].B != nil {
			qi = res[i].B.Pos()
		}
		if res[j].B != nil {
			qj = res[j].B.Pos()
		}
		return qi < qj
	})
	return res
}

// typeflagClass names the member class of a constant Typeflag definition
// (nil = zero value = regular file).
func (h *hdrObj) typeflagClass(st *ssa.Store) string {
	if st == nil {
		return "FILE"
	}
	k, ok := h.valueOf(st).(*ssa.Const)
	if !ok || k.Value == nil {
		return "?"
	}
	switch k.Int64() {
	case '5':
		return "DIR"
	case '2', '1':
		return "LINK"
	case '0', 0:
		return "FILE"
	}
	return fmt.Sprintf("SPECIAL(%c)", rune(k.Int64()))
}

// storeOnEveryPath: the store's block dominates every return of its function.
func storeOnEveryPath(st *ssa.Store) bool {
	fn := st.Parent()
	for _, b := range fn.Blocks {
		if _, ok := b.Instrs[len(b.Instrs)-1].(*ssa.Return); ok {
			if b != st.Block() && !st.Block().Dominates(b) {
				return false
			}
		}
	}
	return true
}
