package main

import (
	"fmt"
	"go/token"
	"sort"
	"strings"

	"golang.org/x/tools/go/ssa"
)

// Archive header objects (tar.Header / rpmpack.RPMFile) created on a
// packaging path, with flow-sensitive reaching stores per field at the points
// where the header is used (written, added, returned or handed on).

type hdrDef struct {
	Store *ssa.Store // nil for the synthetic initial definition
	Synth string     // description of a synthetic definition (FileInfoHeader model / zero value)
}

type hdrObj struct {
	Fn           *ssa.Function
	Root         ssa.Value // *ssa.Alloc or *ssa.Extract (result of tar.FileInfoHeader)
	Kind         string    // "tar" | "rpm"
	FromFileInfo bool
	Create       ssa.Instruction
	Uses         []ssa.Instruction
}

func (h *hdrObj) key(c *Ctx) string {
	n := 0
	k := 0
	forEachInstr(h.Fn, func(in ssa.Instruction) {
		if isHeaderCreate(in) {
			n++
			if in == h.Create {
				k = n
			}
		}
	})
	return fmt.Sprintf("header#%d in %s", k, c.funcKey(h.Fn))
}

func isHeaderCreate(in ssa.Instruction) bool {
	switch x := in.(type) {
	case *ssa.Alloc:
		t := derefType(x.Type())
		return isNamed(t, "archive/tar", "Header") || isNamed(t, rpmpackPath, "RPMFile")
	case *ssa.Call:
		return calleeIs(x, "archive/tar", "", "FileInfoHeader")
	}
	return false
}

// headerObjects lists header objects created in the given functions.
func headerObjects(c *Ctx, fns []*ssa.Function) []*hdrObj {
	var out []*hdrObj
	for _, fn := range fns {
		forEachInstr(fn, func(in ssa.Instruction) {
			if !isHeaderCreate(in) {
				return
			}
			h := &hdrObj{Fn: fn, Create: in}
			switch x := in.(type) {
			case *ssa.Alloc:
				h.Root = x
				if isNamed(derefType(x.Type()), rpmpackPath, "RPMFile") {
					h.Kind = "rpm"
				} else {
					h.Kind = "tar"
				}
			case *ssa.Call:
				h.Kind = "tar"
				h.FromFileInfo = true
				for _, ref := range *x.Referrers() {
					if ex, ok := ref.(*ssa.Extract); ok && ex.Index == 0 {
						h.Root = ex
					}
				}
			}
			if h.Root == nil {
				return
			}
			h.findUses(c)
			out = append(out, h)
		})
	}
	return out
}

// aliases of the header root inside its function (phi, loads of a cell it was
// stored into are not needed: headers are used directly).
func (h *hdrObj) findUses(c *Ctx) {
	refs := h.Root.Referrers()
	if refs == nil {
		return
	}
	for _, ref := range *refs {
		switch x := ref.(type) {
		case *ssa.Call:
			// passed to WriteHeader or to a module function
			for _, a := range x.Call.Args {
				if a == h.Root {
					h.Uses = append(h.Uses, x)
				}
			}
		case *ssa.Return:
			h.Uses = append(h.Uses, x)
		case *ssa.UnOp:
			// *file handed to AddFile
			if x.Op == token.MUL && x.Referrers() != nil {
				for _, r2 := range *x.Referrers() {
					if call, ok := r2.(*ssa.Call); ok {
						h.Uses = append(h.Uses, call)
					}
					if st, ok := r2.(*ssa.Store); ok {
						_ = st
					}
				}
			}
		case *ssa.Store:
			// stored into a result cell (defer spill) or a local variable: the
			// return / later load is the use; approximate by the store itself
			if x.Val == h.Root {
				h.Uses = append(h.Uses, x)
			}
		case *ssa.Phi:
			// joined with other headers (rpm: file = asRPMFile(...) | ...)
			h.Uses = append(h.Uses, x)
		}
	}
}

// fieldStores returns the stores to root.<field>.
func (h *hdrObj) fieldStores(field string) []*ssa.Store {
	var out []*ssa.Store
	refs := h.Root.Referrers()
	if refs == nil {
		return nil
	}
	for _, ref := range *refs {
		fa, ok := ref.(*ssa.FieldAddr)
		if !ok || fieldName(fa.X.Type(), fa.Field) != field {
			continue
		}
		for _, r2 := range *fa.Referrers() {
			if st, ok := r2.(*ssa.Store); ok && st.Addr == ssa.Value(fa) {
				out = append(out, st)
			}
		}
	}
	return out
}

// reaching computes which definitions of root.<field> can reach `at`.
// The synthetic initial definition (zero value, or the FileInfoHeader model)
// is included unless every path to `at` passes an explicit store.
func (h *hdrObj) reaching(field string, at ssa.Instruction) (defs []*ssa.Store, initial bool) {
	stores := h.fieldStores(field)
	byBlock := map[*ssa.BasicBlock][]*ssa.Store{}
	for _, st := range stores {
		byBlock[st.Block()] = append(byBlock[st.Block()], st)
	}
	for _, ss := range byBlock {
		sort.Slice(ss, func(i, j int) bool { return instrIndex(ss[i]) < instrIndex(ss[j]) })
	}
	type state struct {
		defs map[*ssa.Store]bool
		init bool
		seen bool
	}
	in := map[*ssa.BasicBlock]*state{}
	out := map[*ssa.BasicBlock]*state{}
	fn := h.Fn
	createBlock := h.Create.Block()
	for _, b := range fn.Blocks {
		in[b] = &state{defs: map[*ssa.Store]bool{}}
		out[b] = &state{defs: map[*ssa.Store]bool{}}
	}
	transfer := func(b *ssa.BasicBlock, s *state, upto ssa.Instruction) *state {
		res := &state{defs: map[*ssa.Store]bool{}, init: s.init, seen: s.seen}
		for k := range s.defs {
			res.defs[k] = true
		}
		for _, in := range b.Instrs {
			if in == upto {
				break
			}
			if in == h.Create {
				res = &state{defs: map[*ssa.Store]bool{}, init: true, seen: true}
			}
			if st, ok := in.(*ssa.Store); ok {
				for _, s2 := range byBlock[b] {
					if s2 == st {
						res = &state{defs: map[*ssa.Store]bool{st: true}, init: false, seen: true}
					}
				}
			}
		}
		return res
	}
	_ = createBlock
	for changed := true; changed; {
		changed = false
		for _, b := range fn.Blocks {
			ns := &state{defs: map[*ssa.Store]bool{}}
			for _, p := range b.Preds {
				o := out[p]
				if !o.seen {
					continue
				}
				ns.seen = true
				if o.init {
					ns.init = true
				}
				for k := range o.defs {
					ns.defs[k] = true
				}
			}
			in[b] = ns
			no := transfer(b, ns, nil)
			if no.seen != out[b].seen || no.init != out[b].init || len(no.defs) != len(out[b].defs) {
				changed = true
			} else {
				for k := range no.defs {
					if !out[b].defs[k] {
						changed = true
					}
				}
			}
			out[b] = no
		}
	}
	s := transfer(at.Block(), in[at.Block()], at)
	for k := range s.defs {
		defs = append(defs, k)
	}
	sort.Slice(defs, func(i, j int) bool { return defs[i].Pos() < defs[j].Pos() })
	return defs, s.init
}

// typeflags reachable at a use: constant values of Typeflag stores.
func (h *hdrObj) classAt(at ssa.Instruction) map[string]bool {
	out := map[string]bool{}
	if h.Kind == "rpm" {
		defs, _ := h.reaching("Mode", at)
		cls := "FILE"
		for _, st := range defs {
			s := ""
			var walk func(v ssa.Value, d int)
			walk = func(v ssa.Value, d int) {
				if d > 4 {
					return
				}
				switch x := v.(type) {
				case *ssa.Const:
					if x.Value != nil {
						s += fmt.Sprintf(" %d", x.Int64())
					}
				case *ssa.BinOp:
					walk(x.X, d+1)
					walk(x.Y, d+1)
				case *ssa.Convert:
					walk(x.X, d+1)
				}
			}
			walk(st.Val, 0)
			if strings.Contains(s, " 16384") {
				cls = "DIR"
			}
			if strings.Contains(s, " 40960") {
				cls = "LINK"
			}
		}
		out[cls] = true
		return out
	}
	if h.FromFileInfo {
		out["FILE"] = true
		return out
	}
	defs, init := h.reaching("Typeflag", at)
	if init {
		out["FILE"] = true // zero Typeflag is a regular file
	}
	for _, st := range defs {
		k, ok := st.Val.(*ssa.Const)
		if !ok || k.Value == nil {
			out["?"] = true
			continue
		}
		switch k.Int64() {
		case '5':
			out["DIR"] = true
		case '2':
			out["LINK"] = true
		case '0', 0:
			out["FILE"] = true
		default:
			out[fmt.Sprintf("SPECIAL(%c)", rune(k.Int64()))] = true
		}
	}
	return out
}

// hdrPair is one combination of definitions of two fields that can hold
// together at a program point (nil = the initial definition).
type hdrPair struct{ A, B *ssa.Store }

// reachingPairs is the product form of reaching: which combinations of
// definitions of root.<fa> and root.<fb> can reach `at` on one path.
func (h *hdrObj) reachingPairs(fa, fb string, at ssa.Instruction) []hdrPair {
	isA := map[*ssa.Store]bool{}
	isB := map[*ssa.Store]bool{}
	for _, st := range h.fieldStores(fa) {
		isA[st] = true
	}
	for _, st := range h.fieldStores(fb) {
		isB[st] = true
	}
	type state map[hdrPair]bool
	transfer := func(b *ssa.BasicBlock, s state, upto ssa.Instruction) state {
		res := state{}
		for k := range s {
			res[k] = true
		}
		for _, in := range b.Instrs {
			if in == upto {
				break
			}
			if in == h.Create {
				res = state{hdrPair{}: true}
			}
			if st, ok := in.(*ssa.Store); ok && (isA[st] || isB[st]) {
				n := state{}
				for k := range res {
					if isA[st] {
						k.A = st
					} else {
						k.B = st
					}
					n[k] = true
				}
				res = n
			}
		}
		return res
	}
	in := map[*ssa.BasicBlock]state{}
	out := map[*ssa.BasicBlock]state{}
	for _, b := range h.Fn.Blocks {
		in[b], out[b] = state{}, state{}
	}
	for changed := true; changed; {
		changed = false
		for _, b := range h.Fn.Blocks {
			ns := state{}
			for _, p := range b.Preds {
				for k := range out[p] {
					ns[k] = true
				}
			}
			in[b] = ns
			no := transfer(b, ns, nil)
			if len(no) != len(out[b]) {
				changed = true
			} else {
				for k := range no {
					if !out[b][k] {
						changed = true
					}
				}
			}
			out[b] = no
		}
	}
	var res []hdrPair
	for k := range transfer(at.Block(), in[at.Block()], at) {
		res = append(res, k)
	}
	sort.Slice(res, func(i, j int) bool {
		pi, pj := token.NoPos, token.NoPos
		if res[i].A != nil {
			pi = res[i].A.Pos()
		}
		if res[j].A != nil {
			pj = res[j].A.Pos()
		}
		if pi != pj {
			return pi < pj
		}
		qi, qj := token.NoPos, token.NoPos
		if res[i].B != nil {
			qi = res[i].B.Pos()
		}
		if res[j].B != nil {
			qj = res[j].B.Pos()
		}
		return qi < qj
	})
	return res
}

// typeflagClass names the member class of a constant Typeflag definition
// (nil = zero value = regular file).
func typeflagClass(st *ssa.Store) string {
	if st == nil {
		return "FILE"
	}
	k, ok := st.Val.(*ssa.Const)
	if !ok || k.Value == nil {
		return "?"
	}
	switch k.Int64() {
	case '5':
		return "DIR"
	case '2', '1':
		return "LINK"
	case '0', 0:
		return "FILE"
	}
	return fmt.Sprintf("SPECIAL(%c)", rune(k.Int64()))
}
