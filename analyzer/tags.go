package main

import (
	"go/types"
	"reflect"
	"strings"
)

// Struct-tag walk (DESIGN P8): every field reachable from nfpm.Config with its
// yaml / json / jsonschema tags, inline expansion and Go path.

type cfgField struct {
	GoPath   string // SSA-style path below Config, e.g. Info.Overridables.RPM.Packager
	YAMLPath string // dotted yaml key path, e.g. rpm.packager ("[]" marks list elements, "*" map values)
	JSONPath string
	Name     string
	Type     types.Type
	Owner    *types.Named // struct type declaring the field
	YAML     tagInfo
	JSON     tagInfo
	Schema   map[string][]string // jsonschema tag: key -> values (enum repeated)
	Exported bool
	Pos      int
	Var      *types.Var
}

type tagInfo struct {
	Name      string
	Inline    bool
	OmitEmpty bool
	Skip      bool
	Present   bool
}

func parseTag(tag reflect.StructTag, key, fieldName string) tagInfo {
	v, ok := tag.Lookup(key)
	ti := tagInfo{Present: ok}
	if !ok {
		ti.Name = fieldName
		if key == "yaml" {
			ti.Name = strings.ToLower(fieldName)
		}
		return ti
	}
	parts := strings.Split(v, ",")
	if parts[0] == "-" && len(parts) == 1 {
		ti.Skip = true
		return ti
	}
	ti.Name = parts[0]
	for _, p := range parts[1:] {
		switch p {
		case "inline":
			ti.Inline = true
		case "omitempty":
			ti.OmitEmpty = true
		}
	}
	if ti.Name == "" && !ti.Inline {
		ti.Name = fieldName
		if key == "yaml" {
			ti.Name = strings.ToLower(fieldName)
		}
	}
	return ti
}

func parseSchemaTag(tag reflect.StructTag) map[string][]string {
	out := map[string][]string{}
	v, ok := tag.Lookup("jsonschema")
	if !ok {
		return out
	}
	// comma separated k=v; values may themselves not contain commas except in
	// free text titles (which the library also splits) — mirror the library:
	// split on ',' and treat items without '=' as continuation of the previous
	// value's text
	var lastKey string
	for _, item := range strings.Split(v, ",") {
		kv := strings.SplitN(item, "=", 2)
		if len(kv) == 2 {
			lastKey = kv[0]
			out[kv[0]] = append(out[kv[0]], kv[1])
		} else if lastKey != "" {
			_ = lastKey
		}
	}
	return out
}

// walkConfig lists all fields reachable from nfpm.Config (depth-first, in
// declaration order, inline fields expanded in place).
func walkConfig(c *Ctx) []cfgField {
	cfg := c.NamedType("", "Config")
	if cfg == nil {
		return nil
	}
	var out []cfgField
	var walk func(t types.Type, goPath, yamlPath, jsonPath string, depth int)
	walk = func(t types.Type, goPath, yamlPath, jsonPath string, depth int) {
		if depth > 12 {
			return
		}
		named, _ := t.(*types.Named)
		st, ok := t.Underlying().(*types.Struct)
		if !ok {
			return
		}
		for i := 0; i < st.NumFields(); i++ {
			f := st.Field(i)
			tag := reflect.StructTag(st.Tag(i))
			y := parseTag(tag, "yaml", f.Name())
			j := parseTag(tag, "json", f.Name())
			gp := f.Name()
			if goPath != "" {
				gp = goPath + "." + f.Name()
			}
			cf := cfgField{GoPath: gp, Name: f.Name(), Type: f.Type(), Owner: named, YAML: y, JSON: j, Schema: parseSchemaTag(tag), Exported: f.Exported(), Var: f}
			inlineY := y.Inline || (f.Embedded() && !y.Present)
			join := func(base, name string) string {
				if base == "" {
					return name
				}
				return base + "." + name
			}
			if inlineY {
				cf.YAMLPath, cf.JSONPath = yamlPath, jsonPath
				out = append(out, cf)
				walk(f.Type(), gp, yamlPath, jsonPath, depth+1)
				continue
			}
			cf.YAMLPath = join(yamlPath, y.Name)
			cf.JSONPath = join(jsonPath, j.Name)
			out = append(out, cf)
			if y.Skip || !f.Exported() {
				continue
			}
			ft := f.Type()
			yp, jp := cf.YAMLPath, cf.JSONPath
			for {
				switch u := ft.Underlying().(type) {
				case *types.Pointer:
					ft = u.Elem()
					continue
				case *types.Slice:
					ft = u.Elem()
					yp += "[]"
					jp += "[]"
					continue
				case *types.Map:
					ft = u.Elem()
					yp += ".*"
					jp += ".*"
					continue
				}
				break
			}
			if _, isStruct := ft.Underlying().(*types.Struct); isStruct {
				if n, isNamed := ft.(*types.Named); isNamed && n.Obj().Pkg() != nil && strings.HasPrefix(n.Obj().Pkg().Path(), modPath) {
					walk(ft, gp, yp, jp, depth+1)
				}
			}
		}
	}
	walk(cfg, "", "", "", 0)
	return out
}
