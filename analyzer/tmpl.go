package main

import (
	"go/token"
	"go/types"
	"regexp"
	"sort"
	"strings"
	"text/template/parse"

	"golang.org/x/tools/go/ssa"
)

// Template parsing (DESIGN P7): the string constants that reach
// (*text/template.Template).Parse are parsed with text/template/parse (never
// executed) and flattened into rows: label -> fields printed under it, with
// the fields of the enclosing if/with/range guards.

type tmplRow struct {
	Label   string
	Printed []string // field chains printed (".Info.Name" -> "Info.Name")
	Guards  []string // field chains tested by enclosing if/with/range
	Funcs   []string // functions applied in the printing action
	GFuncs  []string // functions applied in the enclosing if/with/range pipelines
	Literal string   // literal text between the label and the action on the same line
	Cond    bool     // inside an if/with/range
}

type tmplInfo struct {
	Fn    *ssa.Function
	Text  string
	Rows  []tmplRow
	Label []string // all labels in order
}

// templateConstants finds string constants passed to Template.Parse in the
// given functions.
func templateConstants(c *Ctx, reach map[*ssa.Function]bool) []tmplInfo {
	var out []tmplInfo
	for _, fn := range sortedFuncs(c, reach) {
		forEachInstr(fn, func(in ssa.Instruction) {
			call, ok := in.(*ssa.Call)
			if !ok || !calleeIs(call, "text/template", "Template", "Parse") {
				return
			}
			k, ok := call.Call.Args[1].(*ssa.Const)
			if !ok || k.Value == nil {
				return
			}
			ti := tmplInfo{Fn: fn, Text: constString(k)}
			ti.parse()
			out = append(out, ti)
		})
	}
	return out
}

var labelRe = regexp.MustCompile(`(?m)(?:^|\n)[ \t]*([A-Za-z][A-Za-z0-9_-]*)[ \t]*(:|=)[ \t]*([^\n]*)$`)

func (ti *tmplInfo) parse() {
	tree := parse.New("t")
	tree.Mode = parse.SkipFuncCheck
	t, err := tree.Parse(ti.Text, "", "", map[string]*parse.Tree{})
	if err != nil || t.Root == nil {
		return
	}
	label := ""
	literal := ""
	var gfuncs []string
	var walk func(n parse.Node, guards []string, vars map[string][]string, dot []string, cond bool)
	fieldsOf := func(n parse.Node, vars map[string][]string, dot []string) (fields []string, funcs []string) {
		var rec func(n parse.Node)
		rec = func(n parse.Node) {
			switch x := n.(type) {
			case *parse.PipeNode:
				for _, cmd := range x.Cmds {
					rec(cmd)
				}
			case *parse.CommandNode:
				for _, a := range x.Args {
					rec(a)
				}
			case *parse.FieldNode:
				fields = append(fields, strings.Join(x.Ident, "."))
			case *parse.ChainNode:
				rec(x.Node)
			case *parse.VariableNode:
				if v, ok := vars[x.Ident[0]]; ok {
					if len(x.Ident) > 1 {
						for _, base := range v {
							fields = append(fields, base+"[]."+strings.Join(x.Ident[1:], "."))
						}
					} else {
						fields = append(fields, v...)
					}
				}
			case *parse.DotNode:
				fields = append(fields, dot...)
			case *parse.IdentifierNode:
				funcs = append(funcs, x.Ident)
			}
		}
		rec(n)
		return
	}
	walk = func(n parse.Node, guards []string, vars map[string][]string, dot []string, cond bool) {
		switch x := n.(type) {
		case *parse.ListNode:
			if x == nil {
				return
			}
			for _, ch := range x.Nodes {
				walk(ch, guards, vars, dot, cond)
			}
		case *parse.TextNode:
			txt := string(x.Text)
			ms := labelRe.FindAllStringSubmatch(txt, -1)
			if len(ms) > 0 {
				m := ms[len(ms)-1]
				label = m[1]
				literal = m[3]
				ti.Label = append(ti.Label, label)
			} else if strings.Contains(txt, "\n") {
				// a new line without a label: continuation text only
				idx := strings.LastIndex(txt, "\n")
				rest := strings.TrimSpace(txt[idx+1:])
				if rest == "" && strings.TrimSpace(txt) == "" {
					// blank
				} else {
					literal = strings.TrimSpace(txt[idx+1:])
				}
			} else {
				literal += txt
			}
		case *parse.ActionNode:
			f, fn := fieldsOf(x.Pipe, vars, dot)
			if len(x.Pipe.Decl) > 0 {
				for _, d := range x.Pipe.Decl {
					vars[d.Ident[0]] = f
				}
				return
			}
			ti.Rows = append(ti.Rows, tmplRow{Label: label, Printed: f, Guards: append([]string{}, guards...), Funcs: fn, GFuncs: append([]string{}, gfuncs...), Literal: literal, Cond: cond})
			literal = ""
		case *parse.IfNode:
			f, gf := fieldsOf(x.Pipe, vars, dot)
			nrows, nlabels := len(ti.Rows), len(ti.Label)
			saved := gfuncs
			gfuncs = append(append([]string{}, gfuncs...), gf...)
			walk(x.List, append(append([]string{}, guards...), f...), vars, dot, true)
			gfuncs = saved
			if len(ti.Rows) == nrows && len(ti.Label) > nlabels {
				// a label emitted as plain text behind a guard ("Essential: yes")
				ti.Rows = append(ti.Rows, tmplRow{Label: label, Guards: append(append([]string{}, guards...), f...), Literal: literal, Cond: true})
			}
			if x.ElseList != nil {
				walk(x.ElseList, guards, vars, dot, true)
			}
		case *parse.WithNode:
			f, gf := fieldsOf(x.Pipe, vars, dot)
			saved := gfuncs
			gfuncs = append(append([]string{}, gfuncs...), gf...)
			walk(x.List, append(append([]string{}, guards...), f...), vars, f, true)
			gfuncs = saved
			if x.ElseList != nil {
				walk(x.ElseList, guards, vars, dot, true)
			}
		case *parse.RangeNode:
			f, gf := fieldsOf(x.Pipe, vars, dot)
			saved := gfuncs
			gfuncs = append(append([]string{}, gfuncs...), gf...)
			nv := map[string][]string{}
			for k, v := range vars {
				nv[k] = v
			}
			for _, d := range x.Pipe.Decl {
				nv[d.Ident[0]] = f
			}
			walk(x.List, append(append([]string{}, guards...), f...), nv, f, true)
			gfuncs = saved
		}
	}
	walk(t.Root, nil, map[string][]string{}, nil, false)
}

// canonField resolves a template field chain rooted at the template data
// (controlData{Info *nfpm.Info, ...}) to the canonical SSA-style path below
// Info ("Info.Overridables.Deb.Predepends"), inserting embedded field names.
func canonField(c *Ctx, chain string) string {
	parts := strings.Split(chain, ".")
	if len(parts) == 0 || parts[0] != "Info" {
		return chain
	}
	info := c.NamedType("", "Info")
	if info == nil {
		return chain
	}
	var t types.Type = info
	out := []string{"Info"}
	for _, p := range parts[1:] {
		suffix := ""
		if strings.HasSuffix(p, "[]") {
			p = strings.TrimSuffix(p, "[]")
			suffix = "[]"
		}
		for {
			if ptr, ok := t.Underlying().(*types.Pointer); ok {
				t = ptr.Elem()
				continue
			}
			if sl, ok := t.Underlying().(*types.Slice); ok {
				t = sl.Elem()
				continue
			}
			break
		}
		obj, index, _ := types.LookupFieldOrMethod(t, true, nil, p)
		v, ok := obj.(*types.Var)
		if !ok {
			out = append(out, p+suffix)
			continue
		}
		// names along the index path (embedded fields included)
		cur := t
		for _, i := range index {
			st, ok := derefType(cur).Underlying().(*types.Struct)
			if !ok {
				break
			}
			out = append(out, st.Field(i).Name())
			cur = st.Field(i).Type()
		}
		if suffix != "" {
			out[len(out)-1] += suffix
		}
		t = v.Type()
	}
	return strings.Join(out, ".")
}

func canonFields(c *Ctx, chains []string) []string {
	set := map[string]bool{}
	for _, ch := range chains {
		set[canonField(c, ch)] = true
	}
	var out []string
	for k := range set {
		out = append(out, k)
	}
	sort.Strings(out)
	return out
}

// infoFieldsOfRowFuncs: a row that hands the whole Info to a function of the
// template's FuncMap (`{{ version .Info }}`) is fed from the Info fields that
// function reads - in itself or in the module functions it calls with that
// Info. ok is false when the row is not of that shape or a function cannot be
// resolved to module code.
func infoFieldsOfRowFuncs(c *Ctx, ti tmplInfo, row tmplRow) (fields []string, fns []*ssa.Function, ok bool) {
	pf := canonFields(c, row.Printed)
	if len(pf) != 1 || pf[0] != "Info" || len(row.Funcs) == 0 {
		return nil, nil, false
	}
	set := map[string]bool{}
	for _, name := range row.Funcs {
		fs := templateFuncs(c, ti.Fn, name)
		if len(fs) == 0 {
			return nil, nil, false
		}
		for _, f := range fs {
			if len(f.Blocks) == 0 || !c.isModuleFunc(f) {
				return nil, nil, false
			}
			fns = append(fns, f)
			for g := range c.Reach(f) {
				if !c.isModuleFunc(g) {
					continue
				}
				forEachInstr(g, func(in ssa.Instruction) {
					ld, isLd := in.(*ssa.UnOp)
					if !isLd || ld.Op != token.MUL {
						return
					}
					pth, root := addrPath(ld.X)
					if root == nil || pth == "" || !isPtrToNamed(root.Type(), modPath, "Info") {
						return
					}
					set[canonField(c, "Info."+pth)] = true
				})
			}
		}
	}
	for k := range set {
		fields = append(fields, k)
	}
	sort.Strings(fields)
	return fields, fns, len(fields) > 0
}
