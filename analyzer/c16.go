package main

import (
	"fmt"
	"go/token"
	"go/types"
	"os"
	"path/filepath"
	"regexp"
	"sort"
	"strings"

	"golang.org/x/tools/go/ssa"
)

func init() { register("C16", checkC16) }

const yamlPath = "gopkg.in/yaml.v3"

// documentedExpandable parses the commented reference YAML of
// www/docs/configuration.md and returns the key paths whose comment says that
// environment variables are expanded in the field.
func documentedKeys(repo string, marker string) ([]string, error) {
	b, err := os.ReadFile(filepath.Join(repo, "www/docs/configuration.md"))
	if err != nil {
		return nil, err
	}
	lines := strings.Split(string(b), "\n")
	in := false
	type lvl struct {
		indent int
		key    string
	}
	var stack []lvl
	var out []string
	pending := false
	keyRe := regexp.MustCompile(`^(\s*)(- )?([A-Za-z0-9_|.-]+):(\s|$)`)
	for _, ln := range lines {
		if strings.HasPrefix(ln, "```yaml") && !in {
			in = true
			continue
		}
		if strings.HasPrefix(ln, "```") && in {
			break
		}
		if !in {
			continue
		}
		trim := strings.TrimSpace(ln)
		if trim == "" {
			pending = false
			continue
		}
		if strings.HasPrefix(trim, "#") {
			if strings.Contains(trim, marker) {
				pending = true
			}
			continue
		}
		m := keyRe.FindStringSubmatch(ln)
		if m == nil {
			continue
		}
		indent := len(m[1])
		if m[2] != "" {
			// key of a list item: not a schema key path of its own here
			pending = false
			continue
		}
		for len(stack) > 0 && stack[len(stack)-1].indent >= indent {
			stack = stack[:len(stack)-1]
		}
		stack = append(stack, lvl{indent, m[3]})
		if pending {
			var parts []string
			for _, s := range stack {
				parts = append(parts, s.key)
			}
			out = append(out, strings.Join(parts, "."))
			pending = false
		}
	}
	sort.Strings(out)
	return out, nil
}

// floor list (C.7): the keys documented as expandable on the pinned tree
var expandableFloor = []string{
	"arch", "platform", "version", "release", "maintainer", "description", "vendor", "homepage",
	"replaces", "provides", "depends", "recommends", "suggests", "conflicts",
	"rpm.packager", "rpm.signature.key_file", "rpm.signature.key_id",
	"deb.signature.key_file", "deb.signature.key_id", "deb.fields", "apk.signature.key_file",
}

func checkC16(c *Ctx, r *Report) {
	r.Rules = []string{"O7 decoder typestate (KnownFields(true) dominates the only Decode)", "O7 single parse path", "O7 no custom unmarshaler / free-form field", "F15 documented-expandable keys are expanded with the caller's mapping", "F15 scalar expansion is os.Expand only; lists via the trim-and-drop helper", "F15 every os.Expand uses the caller's mapping", "contents expanded only on the expand:true edge", "passphrase precedence", "F15-contents the value written back is TrimSpace(Expand(same field)) only", "F15-self every expansion store writes a field back from itself", "F15-overrides (tightened) the expansion visits every block of the overrides map", "O7-no-custom-unmarshal also for named non-struct field types", "O7-error-unfiltered the strict decoder's error is reported as it is", "F15-contents (extended) whether an entry is expanded depends on its expand flag alone", "F15-passphrase (extended) no state carried between the rows of a table-driven selection"}
	r.Explanation = "Typestate and coverage rules over go/ssa, go/types and the repository's reference documentation. (O7) The only decode of a value containing nfpm.Config in non-test module code runs on a yaml.v3 decoder on which KnownFields(true) — constant true — is called on a dominating path; Parse, ParseFile and ParseFileWithEnvMapping all route through it; no module type reachable from Config declares UnmarshalYAML/UnmarshalText or has an interface/yaml.Node field, and the only maps are the documented ones. (F15) The key paths that www/docs/configuration.md documents as expanding environment variables are read from the commented reference YAML, mapped to Go fields through the yaml struct tags, and each must be assigned in the expansion function from os.Expand applied to the same field with the configuration's mapping function: scalars through os.Expand alone (so a value without '$' is unchanged), lists through the helper whose loop trims and drops empty items; every os.Expand in the module takes the mapping field (or expands a constant variable name); content source/destination stores are live only when the entry's expand flag is true (abstract evaluation); each format's passphrase is first the general variable and then, guarded by non-emptiness, the format-specific one."
	r.Explanation += " The value stored into a content entry's source/destination is strings.TrimSpace(os.Expand(<same field>)) (directly or through a module helper that is exactly that chain) - no further rewriting step."
	r.Explanation += " (F15-self) in the expansion family a store whose value derives from configuration fields derives from the destination field. F15-overrides now requires the block to be the value of a range over the map or a lookup keyed by such a range's key. O7-no-custom-unmarshal also inspects the named types of fields, list elements and map values."
	r.Explanation += " (O7-error-unfiltered) the error of the strict Decode reaches its nil test and return without passing through a module function. F15-contents is also evaluated with expand=true and source (destination) empty: the other path is still expanded."
	r.Assumptions = []string{
		"yaml.v3 Decoder.KnownFields(true) rejects unknown keys at every nesting level of struct-typed targets",
		"os.Expand leaves a string without '$' unchanged",
	}
	checkO7(c, r)
	checkF15(c, r)
}

func checkO7(c *Ctx, r *Report) {
	cfgT := c.NamedType("", "Config")
	if cfgT == nil {
		r.Unresolved("nfpm.Config", "type not found")
		return
	}
	containsConfig := func(t types.Type) bool {
		seen := map[types.Type]bool{}
		var rec func(t types.Type, d int) bool
		rec = func(t types.Type, d int) bool {
			if d > 6 || seen[t] {
				return false
			}
			seen[t] = true
			if n, ok := t.(*types.Named); ok && n.Obj() == cfgT.Obj() {
				return true
			}
			switch u := t.Underlying().(type) {
			case *types.Pointer:
				return rec(u.Elem(), d+1)
			case *types.Slice:
				return rec(u.Elem(), d+1)
			case *types.Map:
				return rec(u.Elem(), d+1)
			case *types.Struct:
				for i := 0; i < u.NumFields(); i++ {
					if rec(u.Field(i).Type(), d+1) {
						return true
					}
				}
			}
			return false
		}
		return rec(t, 0)
	}
	decodes := 0
	var decodeFn *ssa.Function
	for _, fn := range c.ModFuncs {
		forEachInstr(fn, func(in ssa.Instruction) {
			call, ok := in.(*ssa.Call)
			if !ok {
				return
			}
			o := calleeObj(call)
			if o == nil || o.Pkg() == nil {
				return
			}
			pp := o.Pkg().Path()
			isYAML := pp == yamlPath || strings.HasPrefix(pp, "gopkg.in/yaml") || pp == "github.com/goccy/go-yaml" || pp == "sigs.k8s.io/yaml"
			isJSON := pp == "encoding/json"
			if !(isYAML || isJSON) || !(o.Name() == "Decode" || o.Name() == "Unmarshal" || o.Name() == "UnmarshalStrict") {
				return
			}
			// target argument: last argument
			args := call.Call.Args
			target := args[len(args)-1]
			if mi, ok := target.(*ssa.MakeInterface); ok {
				target = mi.X
			}
			if !containsConfig(target.Type()) {
				return
			}
			decodes++
			construct := fmt.Sprintf("decode of the configuration in %s", c.funcKey(fn))
			if !(isYAML && o.Name() == "Decode" && isNamed(o.Type().(*types.Signature).Recv().Type(), yamlPath, "Decoder")) {
				r.Fail("O7-strict", construct, c.instrPos(call), "the configuration is decoded through "+funcObjName(o)+", which does not reject unknown keys")
				return
			}
			decodeFn = fn
			dec := call.Call.Args[0]
			strict := false
			forEachInstr(fn, func(i2 ssa.Instruction) {
				kf, ok := i2.(*ssa.Call)
				if !ok || !calleeIs(kf, yamlPath, "Decoder", "KnownFields") || kf.Call.Args[0] != dec {
					return
				}
				if k, ok := kf.Call.Args[1].(*ssa.Const); ok && k.Value != nil && k.Value.ExactString() == "true" && instrDominates(kf, call) {
					strict = true
				}
			})
			// the decoder comes from a module factory that makes it strict on
			// every path before handing it back
			if dc, isCall := dec.(*ssa.Call); isCall && !strict {
				if sc := dc.Call.StaticCallee(); sc != nil && c.isModuleFunc(sc) && len(sc.Blocks) > 0 {
					all, n := true, 0
					for _, b := range sc.Blocks {
						ret, isRet := b.Instrs[len(b.Instrs)-1].(*ssa.Return)
						if !isRet || len(ret.Results) != 1 {
							continue
						}
						n++
						made := false
						forEachInstr(sc, func(i2 ssa.Instruction) {
							kf, ok := i2.(*ssa.Call)
							if !ok || !calleeIs(kf, yamlPath, "Decoder", "KnownFields") || kf.Call.Args[0] != ret.Results[0] {
								return
							}
							if k, ok := kf.Call.Args[1].(*ssa.Const); ok && k.Value != nil && k.Value.ExactString() == "true" && instrDominates(kf, ret) {
								made = true
							}
						})
						if !made {
							all = false
						}
					}
					strict = all && n > 0
				}
			}
			r.Check(strict, "O7-strict", construct, c.instrPos(call), "KnownFields(true) must be called on the same decoder on every path before Decode; otherwise unknown keys are silently ignored")
			// what the strict decoder reports is what the parser reports: its
			// error is tested and returned as it is (or wrapped), not handed
			// to a function that may decide some of the complaints away
			filtered := ""
			if call.Referrers() != nil {
				for _, ref := range *call.Referrers() {
					c2, isCall := ref.(*ssa.Call)
					if !isCall {
						continue
					}
					if o2 := calleeObj(c2); o2 != nil && (qualifiedName(o2) == "fmt.Errorf" || qualifiedName(o2) == "errors.Is" || qualifiedName(o2) == "errors.As") {
						continue
					}
					filtered = shorten(valueExpr(c, c2, 0), 60)
				}
			}
			// stored in the named result / a cell and then passed on
			if st := storedInCell(call); st != nil && st.Referrers() != nil {
				for _, ref := range *st.Referrers() {
					ld, isLd := ref.(*ssa.UnOp)
					if !isLd || ld.Referrers() == nil || !instrDominates(call, ld) {
						continue
					}
					for _, r2 := range *ld.Referrers() {
						if c2, isCall := r2.(*ssa.Call); isCall {
							if o2 := calleeObj(c2); o2 != nil && (qualifiedName(o2) == "fmt.Errorf" || qualifiedName(o2) == "errors.Is" || qualifiedName(o2) == "errors.As") {
								continue
							}
							if sc := c2.Call.StaticCallee(); sc != nil && c.isModuleFunc(sc) {
								filtered = shorten(valueExpr(c, c2, 0), 60)
							}
						}
					}
				}
			}
			r.Check(filtered == "", "O7-error-unfiltered", "the strict decoder's error is reported as it is ("+c.funcKey(fn)+")", c.instrPos(call),
				"the error of the strict Decode is handed to "+filtered+" before it is tested: complaints about unknown keys can be dropped there, at any nesting level")
		})
	}
	r.Floor("O7-strict", decodes, 1)
	if decodes > 1 {
		r.Fail("O7-single-path", "more than one decode of the configuration", "-", fmt.Sprintf("%d decode sites found; every one must be strict (reported individually)", decodes))
	}
	// parse entry points route through the strict decode
	for _, n := range []string{"Parse", "ParseWithEnvMapping", "ParseFile", "ParseFileWithEnvMapping"} {
		fn := c.Func("", n)
		if fn == nil {
			r.Unresolved("nfpm."+n, "parse entry point not found")
			continue
		}
		ok := decodeFn != nil && c.Reach(fn)[decodeFn]
		r.Check(ok, "O7-single-path", "nfpm."+n+" routes through the strict decode", c.pos(fn.Pos()), "every parse entry point must reach the function holding the strict decoder")
	}
	// no custom unmarshalers / free-form fields
	fields := walkConfig(c)
	r.Count("config_fields", len(fields))
	seenT := map[*types.Named]bool{}
	nmaps := 0
	for _, f := range fields {
		if f.Owner != nil && !seenT[f.Owner] {
			seenT[f.Owner] = true
			for _, recv := range []types.Type{f.Owner, types.NewPointer(f.Owner)} {
				ms := types.NewMethodSet(recv)
				for _, m := range []string{"UnmarshalYAML", "UnmarshalText", "UnmarshalJSON"} {
					if ms.Lookup(nil, m) != nil || ms.Lookup(f.Owner.Obj().Pkg(), m) != nil {
						r.Fail("O7-no-custom-unmarshal", f.Owner.Obj().Name()+"."+m, c.pos(f.Owner.Obj().Pos()), "a type of the configuration implements its own unmarshalling: strictness is no longer decided by the decoder")
					}
				}
			}
		}
		if !f.Exported || f.YAML.Skip {
			continue
		}
		// the field's own type (a named scalar or list type, or the named
		// element type of a list / map) must not unmarshal itself either:
		// which YAML shapes it takes would no longer follow from its Go type,
		// which is all the schema is generated from
		{
			var cands []types.Type
			ft := f.Type
			if p, ok := ft.Underlying().(*types.Pointer); ok {
				ft = p.Elem()
			}
			cands = append(cands, ft)
			switch u := ft.Underlying().(type) {
			case *types.Slice:
				cands = append(cands, u.Elem())
			case *types.Map:
				cands = append(cands, u.Elem())
			}
			for _, ct := range cands {
				if p, ok := ct.(*types.Pointer); ok {
					ct = p.Elem()
				}
				nt, ok := ct.(*types.Named)
				if !ok || nt.Obj().Pkg() == nil || !c.isModuleType(nt) || seenT[nt] {
					continue
				}
				if _, isStruct := nt.Underlying().(*types.Struct); isStruct {
					continue // struct types are covered as owners of their fields
				}
				seenT[nt] = true
				for _, recv := range []types.Type{nt, types.NewPointer(nt)} {
					ms := types.NewMethodSet(recv)
					for _, m := range []string{"UnmarshalYAML", "UnmarshalText", "UnmarshalJSON"} {
						if ms.Lookup(nt.Obj().Pkg(), m) != nil {
							r.Fail("O7-no-custom-unmarshal", nt.Obj().Name()+"."+m+" (type of "+f.GoPath+")", c.pos(nt.Obj().Pos()), "the type of a configuration field implements its own unmarshalling: the YAML shapes the parser accepts for it are no longer those of its Go type, from which the schema is generated")
						}
					}
				}
			}
		}
		t := f.Type
		if p, ok := t.Underlying().(*types.Pointer); ok {
			t = p.Elem()
		}
		switch u := t.Underlying().(type) {
		case *types.Interface:
			r.Fail("O7-no-freeform", "field "+f.GoPath, c.pos(f.Var.Pos()), "interface-typed field accepts arbitrary keys below it")
		case *types.Map:
			nmaps++
			allowed := map[string]bool{"overrides": true, "deb.fields": true, "ipk.fields": true, "overrides.*.deb.fields": true, "overrides.*.ipk.fields": true}
			r.Check(allowed[f.YAMLPath], "O7-no-freeform", "map field "+f.YAMLPath, c.pos(f.Var.Pos()), "only the documented free-form maps (deb.fields, ipk.fields) and the overrides table may be maps; element type "+u.Elem().String())
		}
		if isNamed(t, yamlPath, "Node") {
			r.Fail("O7-no-freeform", "field "+f.GoPath, c.pos(f.Var.Pos()), "yaml.Node field accepts arbitrary keys below it")
		}
	}
	r.Pass("O7-no-custom-unmarshal", fmt.Sprintf("%d struct types reachable from Config", len(seenT)), "-", "none declares UnmarshalYAML/UnmarshalText/UnmarshalJSON")
	r.Floor("O7-no-freeform", nmaps, 3)
}

func checkF15(c *Ctx, r *Report) {
	r.Rules = append(r.Rules, "F15-once no field is expanded twice on one path", "first-D8-order expansion precedes the defaults (rule of C14)")
	docKeys, err := documentedKeys(c.RepoDir, "This will expand any env var")
	if err != nil {
		r.Unresolved("www/docs/configuration.md", err.Error())
		return
	}
	keys := map[string]bool{}
	for _, k := range docKeys {
		keys[k] = true
	}
	for _, k := range expandableFloor {
		if !keys[k] {
			r.Note("key %q was documented as expandable on the pinned tree and is no longer marked so in configuration.md; it is still required", k)
		}
		keys[k] = true
	}
	r.Count("documented_expandable_keys", len(docKeys))
	fields := walkConfig(c)
	byYAML := map[string]cfgField{}
	for _, f := range fields {
		if f.YAML.Inline || !f.Exported {
			continue
		}
		if _, dup := byYAML[f.YAMLPath]; !dup {
			byYAML[f.YAMLPath] = f
		}
	}
	// the expansion function(s): methods of *Config calling os.Expand
	cfgPtr := types.NewPointer(c.NamedType("", "Config"))
	var expFns []*ssa.Function
	expandCalls := 0
	for _, fn := range c.ModFuncs {
		forEachInstr(fn, func(in ssa.Instruction) {
			call, ok := in.(*ssa.Call)
			if !ok || !calleeIs(call, "os", "", "Expand") {
				return
			}
			expandCalls++
			perFn := 0
			forEachInstr(fn, func(i2 ssa.Instruction) {
				if c2, ok := i2.(*ssa.Call); ok && calleeIs(c2, "os", "", "Expand") {
					perFn++
					if c2 == call {
						// mapping argument
						m := call.Call.Args[1]
						okMap := false
						if ld, ok := m.(*ssa.UnOp); ok && ld.Op == token.MUL {
							if p, root := addrPath(ld.X); root != nil && p == "envMappingFunc" && types.Identical(root.Type(), cfgPtr) {
								okMap = true
							}
						}
						r.Check(okMap, "F15-mapping", fmt.Sprintf("os.Expand#%d in %s", perFn, c.funcKey(fn)), c.instrPos(call),
							"every os.Expand must take the configuration's caller-supplied mapping function (never os.Getenv or another mapping)")
					}
				}
			})
		})
		uses := false
		forEachInstr(fn, func(in ssa.Instruction) {
			if call, ok := in.(*ssa.Call); ok && calleeIs(call, "os", "", "Expand") {
				uses = true
			}
		})
		if uses && fn.Signature.Recv() != nil && types.Identical(fn.Signature.Recv().Type(), cfgPtr) {
			expFns = append(expFns, fn)
		}
	}
	// ... and the methods of *Config that reach one of them (helpers that
	// only delegate)
	for grew := true; grew; {
		grew = false
		in := map[*ssa.Function]bool{}
		for _, f := range expFns {
			in[f] = true
		}
		for _, fn := range c.ModFuncs {
			if in[fn] || fn.Signature.Recv() == nil || !types.Identical(fn.Signature.Recv().Type(), cfgPtr) {
				continue
			}
			calls := false
			forEachInstr(fn, func(i2 ssa.Instruction) {
				if call, ok := i2.(ssa.CallInstruction); ok {
					if sc := call.Common().StaticCallee(); sc != nil && in[sc] {
						calls = true
					}
				}
			})
			// only the expansion family: named like it or called from it
			if calls && calledFromAny(fn, in) {
				expFns = append(expFns, fn)
				grew = true
			}
		}
	}
	r.Floor("F15-mapping", expandCalls, 10)
	checkDefaultMapping(c, r)
	if len(expFns) == 0 {
		r.Unresolved("expansion function", "no method of *Config calls os.Expand")
		return
	}
	pa := newProv(c)
	// stores to configuration fields inside the expansion functions
	type storeInfo struct {
		st   *ssa.Store
		fn   *ssa.Function
		prov provSet
	}
	stores := map[string][]storeInfo{}
	for _, fn := range expFns {
		forEachInstr(fn, func(in ssa.Instruction) {
			switch x := in.(type) {
			case *ssa.Store:
				p, root := addrPath(x.Addr)
				if root == nil {
					return
				}
				if !types.Identical(root.Type(), cfgPtr) {
					// a helper working on a part of the configuration handed to
					// it by pointer: the path continues the call sites' argument
					prm, isPrm := root.(*ssa.Parameter)
					if !isPrm {
						return
					}
					idx := -1
					for i, q := range fn.Params {
						if q == prm {
							idx = i
						}
					}
					for _, cs := range pa.callSites(fn) {
						if idx < 0 || idx >= len(cs.Common().Args) {
							continue
						}
						pre, r2 := addrPath(cs.Common().Args[idx])
						if r2 == nil || pre == "" || !types.Identical(r2.Type(), cfgPtr) {
							continue
						}
						stores[pre+"."+p] = append(stores[pre+"."+p], storeInfo{x, fn, relProv(pa.Of(x.Val), rootTypeName(root.Type()), "Info."+strings.TrimPrefix(pre, "Info."))})
					}
					return
				}
				stores[p] = append(stores[p], storeInfo{x, fn, pa.Of(x.Val)})
			case *ssa.MapUpdate:
				// c.Deb.Fields[k] = os.Expand(v, ...)
				if ld, ok := x.Map.(*ssa.UnOp); ok && ld.Op == token.MUL {
					if p, root := addrPath(ld.X); root != nil && types.Identical(root.Type(), cfgPtr) {
						stores[p] = append(stores[p], storeInfo{nil, fn, pa.Of(x.Value)})
					}
				}
				// the same in a helper that is handed the map
				if prm, ok := x.Map.(*ssa.Parameter); ok {
					idx := -1
					for i, q := range fn.Params {
						if q == prm {
							idx = i
						}
					}
					for _, cs := range pa.callSites(fn) {
						if idx < 0 || idx >= len(cs.Common().Args) {
							continue
						}
						if ld, ok := cs.Common().Args[idx].(*ssa.UnOp); ok && ld.Op == token.MUL {
							if p, root := addrPath(ld.X); root != nil && types.Identical(root.Type(), cfgPtr) {
								stores[p] = append(stores[p], storeInfo{nil, fn, pa.of(x.Value, &provCtx{call: cs.Common(), fn: fn, depth: 1})})
							}
						}
					}
				}
			}
		})
	}
	var ks []string
	for k := range keys {
		ks = append(ks, k)
	}
	sort.Strings(ks)
	for _, k := range ks {
		f, ok := byYAML[k]
		construct := "expandable key " + k
		if !ok {
			r.Fail("F15-coverage", construct, "www/docs/configuration.md", "documented key does not correspond to a configuration field (yaml tag walk)")
			continue
		}
		gp := f.GoPath
		// embedded struct fields appear in SSA paths with the embedded field's name
		sts := stores[gp]
		if len(sts) == 0 {
			r.Fail("F15-coverage", construct, c.pos(f.Var.Pos()), "documented as expanding environment variables, but the expansion function never assigns field "+gp+": ${VAR} in this key would be taken literally")
			continue
		}
		atom := "Info." + strings.TrimPrefix(gp, "Info.")
		okAny := false
		why := ""
		for _, s := range sts {
			var calls []string
			for _, a := range s.prov.list() {
				if strings.HasPrefix(a, "call:") {
					calls = append(calls, strings.TrimPrefix(a, "call:"))
				}
			}
			fromSelf := s.prov.has(atom)
			expanded := false
			for _, cl := range calls {
				if cl == "os.Expand" {
					expanded = true
				}
			}
			isList := false
			switch f.Type.Underlying().(type) {
			case *types.Slice:
				isList = true
			}
			extra := []string{}
			for _, cl := range calls {
				switch cl {
				case "os.Expand":
				case "github.com/AlekSi/pointer.ToString", "github.com/AlekSi/pointer.GetString":
				case "strings.TrimSpace", "slices.Delete", "slices.DeleteFunc", "builtin.len":
					if !isList {
						extra = append(extra, cl)
					}
				default:
					extra = append(extra, cl)
				}
			}
			if isList {
				// in-place element expansion: the value is the helper's result
				// on the same list
				for _, fn := range expFns {
					if fn.Signature.Params().Len() == 1 && fn.Signature.Params().At(0).Type().String() == "[]string" && s.prov.has("via:"+c.funcKey(fn)) {
						expanded = true
					}
				}
			}
			if fromSelf && expanded && len(extra) == 0 {
				okAny = true
				why = "assigned from os.Expand of the same field with the caller's mapping"
				if isList {
					why = "assigned from the trim-and-drop helper applied to the same list (items expanded with the caller's mapping)"
				}
			} else if why == "" {
				why = fmt.Sprintf("assignment to %s derives from {%s}; expected os.Expand of the same field only (extra transformations: %v)", gp, s.prov.String(), extra)
			}
		}
		r.Check(okAny, "F15-coverage", construct, c.pos(f.Var.Pos()), why)
	}
	r.Floor("F15-coverage", len(ks), 21)

	// every expansion writes a field back from itself: a store whose value is
	// the expansion of a *different* configuration field (a copy-paste slip
	// between sibling relation lists) replaces one setting by another
	{
		nSelf := 0
		for _, fn := range expFns {
			k := 0
			forEachInstr(fn, func(in ssa.Instruction) {
				st, ok := in.(*ssa.Store)
				if !ok {
					return
				}
				pth, root := addrPath(st.Addr)
				if root == nil || pth == "" {
					return
				}
				rt := rootTypeName(root.Type())
				if rt != "Info" && rt != "Overridables" {
					return
				}
				dst := rt + "." + strings.TrimPrefix(pth, "Info.")
				var srcs []string
				for _, a := range pa.Of(st.Val).list() {
					if (strings.HasPrefix(a, "Info.") || strings.HasPrefix(a, "Overridables.")) && !strings.HasSuffix(a, ".envMappingFunc") {
						srcs = append(srcs, a)
					}
				}
				if len(srcs) == 0 {
					return // fed from the environment alone (passphrases)
				}
				nSelf++
				k++
				self := false
				norm := func(a string) string {
					return strings.TrimPrefix(strings.TrimPrefix(strings.TrimPrefix(a, "Info."), "Info."), "Overridables.")
				}
				for _, a := range srcs {
					if norm(a) == norm(dst) {
						self = true
					}
				}
				r.Check(self, "F15-self", fmt.Sprintf("expansion store#%d in %s writes %s back from itself", k, c.funcKey(fn), norm(dst)), c.instrPos(st),
					fmt.Sprintf("the value stored into %s derives from %v, not from the field itself: one setting would be replaced by the expansion of another", norm(dst), srcs))
			})
		}
		r.Floor("F15-self", nSelf, 12)
	}
	// every field is expanded once: a second pass over an already expanded
	// value resolves what the first pass produced ("$$X" becomes "$X" and then
	// the value of X; a value that itself contains "$" is expanded again)
	{
		ev := expansionStoreEvents(c)
		var paths []string
		for p := range ev {
			paths = append(paths, p)
		}
		sort.Strings(paths)
		for _, p := range paths {
			twice := ""
			pos := c.instrPos(ev[p][0])
			for i := 0; i < len(ev[p]) && twice == ""; i++ {
				for j := i + 1; j < len(ev[p]); j++ {
					a, b := ev[p][i], ev[p][j]
					if a == b {
						continue
					}
					if a.Parent() != b.Parent() || a.Block() == b.Block() || a.Block().Dominates(b.Block()) || b.Block().Dominates(a.Block()) {
						twice = c.instrPos(a) + " and " + c.instrPos(b)
						pos = c.instrPos(b)
						break
					}
				}
			}
			r.Check(twice == "", "F15-once", "expanded once: "+p, pos,
				"the field is written by the expansion at "+twice+" on one path: the second pass expands the result of the first (an escaped \"$$\" or a value containing \"$\" is resolved twice)")
		}
		r.Floor("F15-once", len(paths), 20)
	}
	// a reference behaves like its value only if it is expanded before the
	// defaults (and the semver split in them) look at the field (rule of C14)
	if wd := c.Func("", "WithDefaults"); wd != nil {
		tmpO := newReport("tmp")
		checkParseOrder(c, tmpO, wd)
		nO := 0
		for _, o := range tmpO.Obls {
			if o.Rule == "D8-order" {
				o.Rule = "first-D8-order"
				r.Obls = append(r.Obls, o)
				nO++
			}
		}
		r.Floor("first-D8-order", nO, 1)
	}
	// the list helper: trims and drops empties
	checkListHelper(c, r, expFns)
	// overrides: relation lists and contents of every override block
	for _, name := range []string{"Replaces", "Provides", "Depends", "Recommends", "Suggests", "Conflicts", "Contents"} {
		found := false
		for _, fn := range expFns {
			forEachInstr(fn, func(in ssa.Instruction) {
				st, ok := in.(*ssa.Store)
				if !ok {
					return
				}
				fa, ok := st.Addr.(*ssa.FieldAddr)
				if !ok || fieldName(fa.X.Type(), fa.Field) != name || !isPtrToNamed(fa.X.Type(), modPath, "Overridables") {
					return
				}
				if _, isLookup := fa.X.(*ssa.Lookup); !isLookup {
					if ex, isEx := fa.X.(*ssa.Extract); !isEx || ex == nil {
						// c.Overrides[or] is a Lookup
					}
				}
				if call, ok := st.Val.(*ssa.Call); ok && call.Call.StaticCallee() != nil {
					// the block written must be one of the override blocks: the
					// map element itself, or a helper's parameter that some call
					// site binds to the map element
					switch base := fa.X.(type) {
					case *ssa.Parameter:
						idx := -1
						for i, q := range fn.Params {
							if q == base {
								idx = i
							}
						}
						for _, cs := range pa.callSites(fn) {
							if idx >= 0 && idx < len(cs.Common().Args) {
								if everyOverrideElem(cs.Common().Args[idx]) {
									found = true
								}
							}
						}
					default:
						if everyOverrideElem(fa.X) {
							found = true
						}
					}
				}
			})
		}
		r.Check(found, "F15-overrides", "override blocks: "+strings.ToLower(name), "-", "the same expansion helper must be applied to this list in every override block")
	}

	// contents: stores only on the expand:true edge
	var contentsFn *ssa.Function
	for _, fn := range expFns {
		forEachInstr(fn, func(in ssa.Instruction) {
			if st, ok := in.(*ssa.Store); ok {
				if fa, ok := st.Addr.(*ssa.FieldAddr); ok && isContentPtr(fa.X.Type()) {
					contentsFn = fn
				}
			}
		})
	}
	if contentsFn == nil {
		r.Unresolved("contents expansion", "no store to a content entry in the expansion functions")
	} else {
		// the decision to expand an entry depends on its expand flag alone:
		// with the flag set and either path empty the other one is still
		// expanded (directories and ghosts have no source)
		for _, empty := range []string{"Source", "Destination"} {
			ev := newEvaluator(c)
			obj := newAObj("content")
			obj.Fields["Expand"] = cBool(true)
			obj.Fields[empty] = cStr("")
			ev.Defaults[c.contentPtrKey()] = obj
			fr := ev.Explore(contentsFn, make([]AV, len(contentsFn.Params)))
			other := "Destination"
			if empty == "Destination" {
				other = "Source"
			}
			stored := false
			for _, li := range fr.LiveInstrs() {
				if st, ok := li.In.(*ssa.Store); ok {
					if fa, ok := st.Addr.(*ssa.FieldAddr); ok && isContentPtr(fa.X.Type()) && fieldName(fa.X.Type(), fa.Field) == other {
						stored = true
					}
				}
			}
			r.Check(stored, "F15-contents", fmt.Sprintf("content expansion[expand=true, %s empty] still expands %s", strings.ToLower(empty), strings.ToLower(other)), c.pos(contentsFn.Pos()),
				"with the entry's "+strings.ToLower(empty)+" empty the expansion of its "+strings.ToLower(other)+" is not reachable: whether an entry that opted in is expanded would depend on more than its expand flag")
		}
		for _, flag := range []bool{false, true} {
			ev := newEvaluator(c)
			obj := newAObj("content")
			obj.Fields["Expand"] = cBool(flag)
			ev.Defaults[c.contentPtrKey()] = obj
			fr := ev.Explore(contentsFn, make([]AV, len(contentsFn.Params)))
			stored := map[string]bool{}
			for _, li := range fr.LiveInstrs() {
				if st, ok := li.In.(*ssa.Store); ok {
					if fa, ok := st.Addr.(*ssa.FieldAddr); ok && isContentPtr(fa.X.Type()) {
						stored[fieldName(fa.X.Type(), fa.Field)] = true
					}
				}
			}
			want := ""
			if flag {
				want = "Destination,Source"
			}
			r.Check(joinSorted(stored) == want, "F15-contents", fmt.Sprintf("content expansion[expand=%v]", flag), c.pos(contentsFn.Pos()),
				fmt.Sprintf("fields of a content entry rewritten: {%s}, expected {%s}", joinSorted(stored), want))
		}
	}

	// the value written back is the (trimmed) expansion of the same field and
	// nothing else: a further rewriting step (path cleaning, case folding)
	// also changes values that contain no reference
	if contentsFn != nil {
		k := 0
		forEachInstr(contentsFn, func(in ssa.Instruction) {
			st, ok := in.(*ssa.Store)
			if !ok {
				return
			}
			fa, ok := st.Addr.(*ssa.FieldAddr)
			if !ok || !isContentPtr(fa.X.Type()) {
				return
			}
			field := fieldName(fa.X.Type(), fa.Field)
			k++
			v := st.Val
			var extra []string
			expanded, self := false, false
			for d := 0; d < 8; d++ {
				call, isCall := v.(*ssa.Call)
				if !isCall {
					break
				}
				switch {
				case calleeIs(call, "strings", "", "TrimSpace"):
				case calleeIs(call, "os", "", "Expand"):
					expanded = true
				case expandChainHelper(c, call.Call.StaticCallee()) >= 0:
					// a module helper that returns the (trimmed) expansion of one of its parameters
					expanded = true
					sc := call.Call.StaticCallee()
					idx := expandChainHelper(c, sc)
					if sc.Signature.Recv() != nil {
						// Args include the receiver, as do Params
					}
					v = call.Call.Args[idx]
					continue
				default:
					name := "a dynamic call"
					if o := calleeObj(call); o != nil {
						name = qualifiedName(o)
					}
					extra = append(extra, name)
				}
				if len(call.Call.Args) == 0 {
					break
				}
				v = call.Call.Args[0]
			}
			if ld, isLd := v.(*ssa.UnOp); isLd && ld.Op == token.MUL {
				if fa2, isFA := ld.X.(*ssa.FieldAddr); isFA && isContentPtr(fa2.X.Type()) && fieldName(fa2.X.Type(), fa2.Field) == field {
					self = true
				}
			}
			r.Check(expanded && self && len(extra) == 0, "F15-contents", fmt.Sprintf("content expansion: value written to %s#%d", field, k), c.instrPos(st),
				fmt.Sprintf("expected strings.TrimSpace(os.Expand(<the same field>, mapping)); expanded=%v same-field=%v extra transformations=%v: a value without any reference must come out as written", expanded, self, extra))
		})
	}

	// passphrases
	for _, fm := range []struct{ field, env string }{
		{"Info.Overridables.Deb.Signature.PackageSignature.KeyPassphrase", "$NFPM_DEB_PASSPHRASE"},
		{"Info.Overridables.RPM.Signature.PackageSignature.KeyPassphrase", "$NFPM_RPM_PASSPHRASE"},
		{"Info.Overridables.APK.Signature.PackageSignature.KeyPassphrase", "$NFPM_APK_PASSPHRASE"},
	} {
		// decided by evaluating the expansion function under a modelled
		// environment: general variable = "G", the format's own variable
		// empty or "S"; the value the field ends up with must be "G" / "S"
		var top *ssa.Function
		for _, si := range stores[fm.field] {
			if si.st != nil {
				top = si.fn
				for top.Parent() != nil {
					top = top.Parent()
				}
			}
		}
		// table-driven form: for _, t := range []struct{variable string; target *string}{...} { *t.target = ... }
		var tblElem *ssa.IndexAddr
		tblTarget, tblVarField, tblVar := "", "", ""
		if top == nil {
			for _, fn := range expFns {
				forEachInstr(fn, func(in ssa.Instruction) {
					st, isSt := in.(*ssa.Store)
					if !isSt || tblElem != nil {
						return
					}
					ia, tf, okE := loopElemField(st.Addr)
					if !okE {
						return
					}
					var arr *ssa.Alloc
					switch x := ia.X.(type) {
					case *ssa.Slice:
						arr, _ = x.X.(*ssa.Alloc)
					case *ssa.Alloc:
						arr = x
					}
					if arr == nil {
						return
					}
					for _, row := range tableRows(arr, ia) {
						ptr := row[tf]
						if ptr == nil {
							continue
						}
						if p, root := addrPath(ptr); root != nil && p == fm.field && types.Identical(root.Type(), cfgPtr) {
							for f, v := range row {
								if k, isK := v.(*ssa.Const); isK && f != tf && constOrEmpty(k) != "" {
									tblElem, tblTarget, tblVarField, tblVar = ia, tf, f, constOrEmpty(k)
									top = fn
									for top.Parent() != nil {
										top = top.Parent()
									}
								}
							}
						}
					}
				})
			}
		}
		ok := top != nil
		why := "the expansion function never assigns this field"
		carried := ""
		if tblElem != nil {
			// each row is decided on its own: the value written for a row
			// does not come from a variable that earlier rows have updated
			forEachInstr(tblElem.Parent(), func(in ssa.Instruction) {
				st, isSt := in.(*ssa.Store)
				if !isSt {
					return
				}
				if ia, f, okE := loopElemField(st.Addr); !okE || ia != tblElem || f != tblTarget {
					return
				}
				seen := map[ssa.Value]bool{}
				var walk func(v ssa.Value, d int)
				walk = func(v ssa.Value, d int) {
					phi, isPhi := v.(*ssa.Phi)
					if !isPhi || seen[v] || d > 6 {
						return
					}
					seen[v] = true
					for i, e := range phi.Edges {
						pred := phi.Block().Preds[i]
						if phi.Block().Dominates(pred) && e != ssa.Value(phi) {
							if _, isK := e.(*ssa.Const); !isK {
								carried = fmt.Sprintf("the value stored at %s comes from a variable that an earlier iteration of the loop has set (%s)", c.instrPos(st), shorten(valueExpr(c, phi, 0), 80))
							}
						}
						walk(e, d+1)
					}
				}
				walk(st.Val, 0)
			})
		}
		if ok && carried != "" {
			ok = false
			why = carried + ": a format-specific passphrase found for one format becomes the fallback of the formats after it"
		} else if ok {
			var parts []string
			for _, cell := range []struct{ spec, want string }{{"", "G"}, {"S", "S"}} {
				ev := newEvaluator(c)
				ev.MaxDepth = 3
				ev.Expand = map[string]AV{"$NFPM_PASSPHRASE": cStr("G"), fm.env: cStr(cell.spec)}
				if tblElem != nil {
					// this row of the table: its variable is the constant the row holds
					ev.Bind = map[ssa.Value]AV{}
					forEachInstr(tblElem.Parent(), func(in ssa.Instruction) {
						if v, isV := in.(ssa.Value); isV {
							if ia, f, okE := loopElemField(v); okE && ia == tblElem && f == tblVarField {
								ev.Bind[v] = cStr(tblVar)
							}
						}
					})
				}
				fr := ev.Explore(top, make([]AV, len(top.Params)))
				type liveStore struct {
					st  *ssa.Store
					val AV
				}
				var live []liveStore
				for _, li := range fr.LiveInstrs() {
					st, isSt := li.In.(*ssa.Store)
					if !isSt {
						continue
					}
					if p, root := addrPath(st.Addr); root != nil && p == fm.field && types.Identical(root.Type(), cfgPtr) {
						live = append(live, liveStore{st, li.F.Eval(st.Val)})
					} else if tblElem != nil {
						if ia, f, okE := loopElemField(st.Addr); okE && ia == tblElem && f == tblTarget {
							live = append(live, liveStore{st, li.F.Eval(st.Val)})
						}
					}
				}
				// final stores: not followed (dominated-after) by another live store
				got := map[string]bool{}
				for _, a := range live {
					overwritten := false
					for _, b := range live {
						if a.st != b.st && a.st.Parent() == b.st.Parent() && instrDominates(a.st, b.st) {
							overwritten = true
						}
					}
					if overwritten {
						continue
					}
					if sv, isStr := avStr(a.val); isStr {
						got[sv] = true
					} else {
						got["?"] = true
					}
				}
				if len(got) != 1 || !got[cell.want] {
					ok = false
				}
				parts = append(parts, fmt.Sprintf("with %s=%q and $NFPM_PASSPHRASE=\"G\" the field ends up as {%s}, expected %q", fm.env, cell.spec, joinSorted(got), cell.want))
			}
			why = strings.Join(parts, "; ")
		}
		r.Check(ok, "F15-passphrase", "passphrase precedence for "+fm.env, "-", why)
	}
}

// nilOrEmptyTestEdge: successor taken when v != "".
func nilOrEmptyTestEdge(v ssa.Value) *ssa.BasicBlock {
	if v.Referrers() == nil {
		return nil
	}
	for _, ref := range *v.Referrers() {
		bo, ok := ref.(*ssa.BinOp)
		if !ok || (bo.Op != token.NEQ && bo.Op != token.EQL) {
			continue
		}
		other := bo.Y
		if bo.Y == v {
			other = bo.X
		}
		k, ok := other.(*ssa.Const)
		if !ok || k.Value == nil || constString(k) != "" {
			continue
		}
		for _, r2 := range *bo.Referrers() {
			if ifi, ok := r2.(*ssa.If); ok {
				if bo.Op == token.NEQ {
					return ifi.Block().Succs[0]
				}
				return ifi.Block().Succs[1]
			}
		}
	}
	return nil
}

// checkListHelper: the helper applied to lists trims the expanded item and
// deletes items that are empty afterwards.
func checkListHelper(c *Ctx, r *Report, expFns []*ssa.Function) {
	for _, fn := range expFns {
		if fn.Signature.Params().Len() != 1 || fn.Signature.Results().Len() != 1 {
			continue
		}
		if fn.Signature.Params().At(0).Type().String() != "[]string" {
			continue
		}
		trims, deletes, expands := false, false, false
		forEachInstr(fn, func(in ssa.Instruction) {
			call, ok := in.(*ssa.Call)
			if !ok {
				return
			}
			switch {
			case calleeIs(call, "strings", "", "TrimSpace"):
				trims = true
			case calleeIs(call, "os", "", "Expand"):
				expands = true
			case calleeIs(call, "slices", "", "Delete"), calleeIs(call, "slices", "", "DeleteFunc"):
				deletes = true
			}
			if b, ok := call.Call.Value.(*ssa.Builtin); ok && b.Name() == "append" {
				deletes = true // filter-by-append idiom
			}
		})
		// the deletion must be guarded by emptiness of the item (in the
		// helper itself or in the predicate closure it passes)
		guarded := false
		scan := append([]*ssa.Function{fn}, fn.AnonFuncs...)
		for _, sf := range scan {
			forEachInstr(sf, func(in ssa.Instruction) {
				bo, ok := in.(*ssa.BinOp)
				if !ok || (bo.Op != token.EQL && bo.Op != token.NEQ) {
					return
				}
				if k, ok := bo.Y.(*ssa.Const); ok && k.Value != nil && isConstString(bo.Y) && constString(k) == "" {
					guarded = true
				}
			})
		}
		forEachInstr(fn, func(in ssa.Instruction) {
			bo, ok := in.(*ssa.BinOp)
			if !ok || (bo.Op != token.EQL && bo.Op != token.NEQ) {
				return
			}
			if k, ok := bo.Y.(*ssa.Const); ok && k.Value != nil && constString(k) == "" {
				guarded = true
			}
		})
		r.Check(trims && deletes && expands && guarded, "F15-list-helper", c.funcKey(fn), c.pos(fn.Pos()),
			fmt.Sprintf("list helper must expand (%v), whitespace-trim (%v) and drop items that are empty afterwards (%v, guarded by an emptiness test %v)", expands, trims, deletes, guarded))
		// every item is trimmed: the store of the trimmed value back into the
		// list is executed on every iteration of the loop that reads the item
		every := false
		forEachInstr(fn, func(in ssa.Instruction) {
			st, ok := in.(*ssa.Store)
			if !ok {
				return
			}
			ia, ok := st.Addr.(*ssa.IndexAddr)
			if !ok || ia.X != ssa.Value(fn.Params[len(fn.Params)-1]) {
				return
			}
			call, ok := st.Val.(*ssa.Call)
			if !ok || !calleeIs(call, "strings", "", "TrimSpace") {
				return
			}
			// the loop body starts at the block that loads the element
			var body *ssa.BasicBlock
			for _, b := range fn.Blocks {
				for _, i2 := range b.Instrs {
					if ia2, ok := i2.(*ssa.IndexAddr); ok && ia2.X == ia.X && b.Dominates(st.Block()) {
						if body == nil || body.Dominates(b) == false && b.Dominates(body) {
							body = b
						}
						if body == nil {
							body = b
						}
					}
				}
			}
			if body == nil || body.Idom() == nil {
				return
			}
			header := body.Idom()
			seen := map[*ssa.BasicBlock]bool{}
			var bypass func(b *ssa.BasicBlock) bool
			bypass = func(b *ssa.BasicBlock) bool {
				if b == st.Block() {
					return false
				}
				if b == header {
					return true
				}
				if seen[b] {
					return false
				}
				seen[b] = true
				for _, s := range b.Succs {
					if bypass(s) {
						return true
					}
				}
				return false
			}
			if !bypass(body) {
				every = true
			}
		})
		if !every {
			every = filterByAppendTrims(fn)
		}
		r.Check(every, "F15-list-helper", c.funcKey(fn)+": every item trimmed", c.pos(fn.Pos()),
			"the whitespace-trimmed, expanded value must be stored back for every item of the list (no item may skip the trim, whether or not it contains a reference)")
		return
	}
	r.Unresolved("list expansion helper", "no method of *Config with signature func([]string) []string calls os.Expand")
}

// relProv re-roots atoms "<T>.<path>" of a helper that works on a part of the
// configuration at "<prefix>.<path>".
func relProv(p provSet, typeName, prefix string) provSet {
	out := provSet{}
	for a := range p {
		if typeName != "" && strings.HasPrefix(a, typeName+".") {
			out[prefix+"."+strings.TrimPrefix(a, typeName+".")] = true
		} else {
			out[a] = true
		}
	}
	return out
}

// calledFromAny: fn has a static call site inside one of the given functions.
func calledFromAny(fn *ssa.Function, set map[*ssa.Function]bool) bool {
	found := false
	for g := range set {
		forEachInstr(g, func(in ssa.Instruction) {
			if call, ok := in.(ssa.CallInstruction); ok && call.Common().StaticCallee() == fn {
				found = true
			}
		})
	}
	return found
}

// isOverrideElem: v is an element of the override map - c.Overrides[k], or the
// value variable of `for _, o := range c.Overrides`.
func isOverrideElem(v ssa.Value) bool {
	switch x := v.(type) {
	case *ssa.Lookup:
		return true
	case *ssa.Extract:
		if lk, isLk := x.Tuple.(*ssa.Lookup); isLk && lk.CommaOk && x.Index == 0 {
			return true // v, ok := c.Overrides[k]
		}
		nx, ok := x.Tuple.(*ssa.Next)
		if !ok || nx.IsString || x.Index != 2 {
			return false
		}
		rg, ok := nx.Iter.(*ssa.Range)
		if !ok {
			return false
		}
		_, isMap := rg.X.Type().Underlying().(*types.Map)
		return isMap
	}
	return false
}

// everyOverrideElem: v ranges over *all* blocks of the override map - the value
// variable of a range over the map, or a lookup keyed by the key variable of
// such a range. A lookup keyed by anything else (the elements of a fixed list
// of formats) visits only the blocks that list names.
func everyOverrideElem(v ssa.Value) bool {
	keyOfMapRange := func(k ssa.Value) bool {
		ex, ok := k.(*ssa.Extract)
		if !ok || ex.Index != 1 {
			return false
		}
		nx, ok := ex.Tuple.(*ssa.Next)
		if !ok || nx.IsString {
			return false
		}
		rg, ok := nx.Iter.(*ssa.Range)
		if !ok {
			return false
		}
		_, isMap := rg.X.Type().Underlying().(*types.Map)
		return isMap
	}
	switch x := v.(type) {
	case *ssa.Lookup:
		return keyOfMapRange(x.Index)
	case *ssa.Extract:
		if lk, isLk := x.Tuple.(*ssa.Lookup); isLk {
			return keyOfMapRange(lk.Index)
		}
		return isOverrideElem(v)
	}
	return false
}

// expansionFamily: the methods of *Config that call os.Expand, and the
// methods that delegate to them from inside the family.
func expansionFamily(c *Ctx) []*ssa.Function {
	cfgPtr := types.NewPointer(c.NamedType("", "Config"))
	var expFns []*ssa.Function
	for _, fn := range c.ModFuncs {
		uses := false
		forEachInstr(fn, func(in ssa.Instruction) {
			if call, ok := in.(*ssa.Call); ok && calleeIs(call, "os", "", "Expand") {
				uses = true
			}
		})
		if uses && fn.Signature.Recv() != nil && types.Identical(fn.Signature.Recv().Type(), cfgPtr) {
			expFns = append(expFns, fn)
		}
	}
	for grew := true; grew; {
		grew = false
		in := map[*ssa.Function]bool{}
		for _, f := range expFns {
			in[f] = true
		}
		for _, fn := range c.ModFuncs {
			if in[fn] || fn.Signature.Recv() == nil || !types.Identical(fn.Signature.Recv().Type(), cfgPtr) {
				continue
			}
			calls := false
			forEachInstr(fn, func(i2 ssa.Instruction) {
				if call, ok := i2.(ssa.CallInstruction); ok {
					if sc := call.Common().StaticCallee(); sc != nil && in[sc] {
						calls = true
					}
				}
			})
			if calls && calledFromAny(fn, in) {
				expFns = append(expFns, fn)
				grew = true
			}
		}
	}
	return expFns
}

// expansionStorePaths: Go field paths (below Config, e.g.
// "Info.Overridables.Scripts.PreInstall") the expansion family assigns.
func expansionStorePaths(c *Ctx) map[string]ssa.Instruction {
	cfgPtr := types.NewPointer(c.NamedType("", "Config"))
	pa := newProv(c)
	out := map[string]ssa.Instruction{}
	for _, fn := range expansionFamily(c) {
		forEachInstr(fn, func(in ssa.Instruction) {
			st, ok := in.(*ssa.Store)
			if !ok {
				return
			}
			p, root := addrPath(st.Addr)
			if root == nil || p == "" {
				return
			}
			if types.Identical(root.Type(), cfgPtr) {
				out[p] = st
				return
			}
			prm, isPrm := root.(*ssa.Parameter)
			if !isPrm {
				return
			}
			idx := -1
			for i, q := range fn.Params {
				if q == prm {
					idx = i
				}
			}
			for _, cs := range pa.callSites(fn) {
				if idx < 0 || idx >= len(cs.Common().Args) {
					continue
				}
				if pre, r2 := addrPath(cs.Common().Args[idx]); r2 != nil && pre != "" && types.Identical(r2.Type(), cfgPtr) {
					out[pre+"."+p] = st
				}
			}
		})
	}
	return out
}

// expansionStoreEvents: for every field path the expansion family assigns, the
// places (a store in a function working on the configuration itself, or the
// call handing part of the configuration to a helper that stores) where that
// happens.
func expansionStoreEvents(c *Ctx) map[string][]ssa.Instruction {
	cfgPtr := types.NewPointer(c.NamedType("", "Config"))
	pa := newProv(c)
	out := map[string][]ssa.Instruction{}
	for _, fn := range expansionFamily(c) {
		forEachInstr(fn, func(in ssa.Instruction) {
			st, ok := in.(*ssa.Store)
			if !ok {
				return
			}
			p, root := addrPath(st.Addr)
			if root == nil || p == "" {
				return
			}
			derived := false
			for _, a := range pa.Of(st.Val).list() {
				if (strings.HasPrefix(a, "Info.") || strings.HasPrefix(a, "Overridables.") || strings.HasPrefix(a, "Content.")) && !strings.HasSuffix(a, ".envMappingFunc") {
					derived = true
				}
			}
			if !derived {
				return
			}
			if types.Identical(root.Type(), cfgPtr) {
				out[p] = append(out[p], st)
				return
			}
			prm, isPrm := root.(*ssa.Parameter)
			if !isPrm {
				return
			}
			idx := -1
			for i, q := range fn.Params {
				if q == prm {
					idx = i
				}
			}
			for _, cs := range pa.callSites(fn) {
				if idx < 0 || idx >= len(cs.Common().Args) {
					continue
				}
				if pre, r2 := addrPath(cs.Common().Args[idx]); r2 != nil && pre != "" && types.Identical(r2.Type(), cfgPtr) {
					out[pre+"."+p] = append(out[pre+"."+p], cs)
				}
			}
		})
	}
	return out
}

// filterByAppendTrims: the single-pass form of the list helper -
//
//	kept := items[:0]; for _, it := range items { if v := TrimSpace(Expand(it)); v != "" { kept = append(kept, v) } }; return kept
//
// every value that reaches the result is the trimmed expansion of an element,
// and the only test deciding whether it is kept is the emptiness of that very
// value.
func filterByAppendTrims(fn *ssa.Function) bool {
	ok := false
	prm := fn.Params[len(fn.Params)-1]
	forEachInstr(fn, func(in ssa.Instruction) {
		app, isCall := in.(*ssa.Call)
		if !isCall {
			return
		}
		b, isB := app.Call.Value.(*ssa.Builtin)
		if !isB || b.Name() != "append" {
			return
		}
		vals := variadicElems(app.Call.Args[1])
		if len(vals) != 1 {
			return
		}
		trim, isTrim := vals[0].(*ssa.Call)
		if !isTrim || !calleeIs(trim, "strings", "", "TrimSpace") {
			return
		}
		exp, isExp := trim.Call.Args[0].(*ssa.Call)
		if !isExp || !calleeIs(exp, "os", "", "Expand") {
			return
		}
		// the expanded value is an element of the parameter
		ld, isLd := exp.Call.Args[0].(*ssa.UnOp)
		if !isLd {
			return
		}
		ia, isIA := ld.X.(*ssa.IndexAddr)
		if !isIA || ia.X != ssa.Value(prm) {
			return
		}
		// kept behind `trimmed != ""` and nothing else inside the loop body
		id := app.Block().Idom()
		if id == nil || len(app.Block().Preds) != 1 {
			return
		}
		ifi, isIf := id.Instrs[len(id.Instrs)-1].(*ssa.If)
		if !isIf {
			return
		}
		cmp, isCmp := ifi.Cond.(*ssa.BinOp)
		if !isCmp || cmp.X != ssa.Value(trim) || !isConstString(cmp.Y) || constOrEmpty(cmp.Y.(*ssa.Const)) != "" {
			return
		}
		if !(cmp.Op == token.NEQ && id.Succs[0] == app.Block() || cmp.Op == token.EQL && id.Succs[1] == app.Block()) {
			return
		}
		// the test sits in the block that loads the element (no earlier test
		// can skip the item)
		if id != ia.Block() {
			return
		}
		ok = true
	})
	return ok
}

// checkDefaultMapping (F15-default-mapping): the parse entry points that take
// no mapping resolve references against the process environment - on every
// path, also for the standard-input spelling "-": every live call they make
// to a mapping-taking parser hands it os.Getenv (a nil mapping is the
// identity there, references would stay as written).
func checkDefaultMapping(c *Ctx, r *Report) {
	n := 0
	for _, name := range []string{"Parse", "ParseFile"} {
		fn := c.Func("", name)
		if fn == nil {
			continue
		}
		cells := [][]AV{make([]AV, len(fn.Params))}
		if name == "ParseFile" && len(fn.Params) == 1 {
			cells = [][]AV{{cStr("-")}, {cStr("nfpm.yaml")}}
		}
		for _, args := range cells {
			n++
			ev := newEvaluator(c)
			ev.MaxDepth = 3
			fr := ev.Explore(fn, args)
			okM, seen := true, false
			where := ""
			for _, li := range fr.LiveInstrs() {
				call, ok := li.In.(*ssa.Call)
				if !ok {
					continue
				}
				sc := call.Call.StaticCallee()
				if sc == nil || sc.Name() != "ParseWithEnvMapping" || !c.isModuleFunc(sc) {
					continue
				}
				seen = true
				fv, isF := li.F.Eval(call.Call.Args[len(call.Call.Args)-1]).(avFunc)
				if !isF || fv.fn == nil || fv.fn.Name() != "Getenv" {
					okM = false
					where = c.instrPos(call)
				}
			}
			arg := "any"
			if s, ok := avStr(args[0]); ok {
				arg = s
			}
			r.Check(seen && okM, "F15-default-mapping", fmt.Sprintf("%s(%q) resolves references against the process environment", name, arg), c.pos(fn.Pos()),
				"on this path the parser is reached with a mapping other than os.Getenv ("+where+"): a nil mapping is replaced by the identity there, so references would be left as written")
		}
	}
	r.Floor("F15-default-mapping", n, 2)
}

// expandChainHelper: fn returns, on every return, strings.TrimSpace / os.Expand
// applied (in any nesting, at least one Expand) to one and the same parameter;
// the index of that parameter, or -1.
func expandChainHelper(c *Ctx, fn *ssa.Function) int {
	if fn == nil || len(fn.Blocks) == 0 || !c.isModuleFunc(fn) || fn.Signature.Results().Len() != 1 {
		return -1
	}
	idx := -1
	for _, b := range fn.Blocks {
		ret, ok := b.Instrs[len(b.Instrs)-1].(*ssa.Return)
		if !ok {
			continue
		}
		v := ret.Results[0]
		expanded := false
		for d := 0; d < 6; d++ {
			call, isCall := v.(*ssa.Call)
			if !isCall {
				break
			}
			switch {
			case calleeIs(call, "strings", "", "TrimSpace"):
			case calleeIs(call, "os", "", "Expand"):
				expanded = true
			default:
				return -1
			}
			v = call.Call.Args[0]
		}
		prm, isPrm := v.(*ssa.Parameter)
		if !isPrm || !expanded {
			return -1
		}
		for i, q := range fn.Params {
			if q == prm {
				if idx >= 0 && idx != i {
					return -1
				}
				idx = i
			}
		}
	}
	return idx
}

// storedInCell: the cell (named result, captured variable) the call's error
// result is stored into, if any.
func storedInCell(call *ssa.Call) ssa.Value {
	if call.Referrers() == nil {
		return nil
	}
	for _, ref := range *call.Referrers() {
		if st, ok := ref.(*ssa.Store); ok && st.Val == ssa.Value(call) {
			return st.Addr
		}
	}
	return nil
}
