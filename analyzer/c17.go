package main

import (
	"bytes"
	"encoding/json"
	"fmt"
	"go/token"
	"go/types"
	"os"
	"path/filepath"
	"reflect"
	"sort"
	"strings"

	"golang.org/x/tools/go/ssa"
)

func init() { register("C17", checkC17) }

// ---- ordered JSON ----------------------------------------------------------

type jnode struct {
	kind string // object | array | string | number | bool | null
	keys []string
	obj  map[string]*jnode
	arr  []*jnode
	str  string
	raw  string
}

func parseOrdered(b []byte) (*jnode, error) {
	dec := json.NewDecoder(bytes.NewReader(b))
	dec.UseNumber()
	return parseValue(dec)
}

func parseValue(dec *json.Decoder) (*jnode, error) {
	tok, err := dec.Token()
	if err != nil {
		return nil, err
	}
	switch t := tok.(type) {
	case json.Delim:
		switch t {
		case '{':
			n := &jnode{kind: "object", obj: map[string]*jnode{}}
			for dec.More() {
				kt, err := dec.Token()
				if err != nil {
					return nil, err
				}
				k := kt.(string)
				v, err := parseValue(dec)
				if err != nil {
					return nil, err
				}
				n.keys = append(n.keys, k)
				n.obj[k] = v
			}
			_, err := dec.Token()
			return n, err
		case '[':
			n := &jnode{kind: "array"}
			for dec.More() {
				v, err := parseValue(dec)
				if err != nil {
					return nil, err
				}
				n.arr = append(n.arr, v)
			}
			_, err := dec.Token()
			return n, err
		}
	case string:
		return &jnode{kind: "string", str: t, raw: t}, nil
	case json.Number:
		return &jnode{kind: "number", raw: t.String()}, nil
	case bool:
		return &jnode{kind: "bool", raw: fmt.Sprint(t)}, nil
	case nil:
		return &jnode{kind: "null", raw: "null"}, nil
	}
	return nil, fmt.Errorf("unexpected token %v", tok)
}

func (n *jnode) get(k string) *jnode {
	if n == nil || n.obj == nil {
		return nil
	}
	return n.obj[k]
}

func (n *jnode) text() string {
	if n == nil {
		return ""
	}
	switch n.kind {
	case "string":
		return n.str
	case "array":
		var s []string
		for _, e := range n.arr {
			s = append(s, e.text())
		}
		return "[" + strings.Join(s, ",") + "]"
	case "object":
		var s []string
		for _, k := range n.keys {
			s = append(s, k+":"+n.obj[k].text())
		}
		return "{" + strings.Join(s, ",") + "}"
	}
	return n.raw
}

// ---- reflection model (DESIGN A9) -----------------------------------------

type modelProp struct {
	Name string
	Sig  string // normalised comparable signature
	Enum []string
	Var  *types.Var
}

type modelDef struct {
	Name     string
	Kind     string // object | array
	Props    []modelProp
	Required []string
	ItemsRef string
}

func typeSig(t types.Type, defs map[string]types.Type) string {
	if p, ok := t.Underlying().(*types.Pointer); ok {
		if _, isNamed := t.(*types.Named); !isNamed {
			t = p.Elem()
		}
	}
	if n, ok := t.(*types.Named); ok {
		if n.Obj().Pkg() != nil && n.Obj().Pkg().Path() == "time" && n.Obj().Name() == "Time" {
			return "type=string format=date-time"
		}
		switch n.Underlying().(type) {
		case *types.Struct:
			defs[n.Obj().Name()] = n
			return "$ref=#/$defs/" + n.Obj().Name()
		case *types.Slice:
			if n.Obj().Pkg() != nil && strings.HasPrefix(n.Obj().Pkg().Path(), modPath) {
				defs[n.Obj().Name()] = n
				return "$ref=#/$defs/" + n.Obj().Name()
			}
		}
	}
	switch u := t.Underlying().(type) {
	case *types.Basic:
		switch {
		case u.Info()&types.IsString != 0:
			return "type=string"
		case u.Info()&types.IsBoolean != 0:
			return "type=boolean"
		case u.Info()&types.IsInteger != 0:
			return "type=integer"
		case u.Info()&types.IsFloat != 0:
			return "type=number"
		}
	case *types.Slice:
		return "type=array items(" + typeSig(u.Elem(), defs) + ")"
	case *types.Map:
		return "type=object additionalProperties(" + typeSig(u.Elem(), defs) + ")"
	case *types.Struct:
		return "type=object"
	}
	return "type=?" + t.String()
}

func buildModel(c *Ctx) (map[string]*modelDef, []string) {
	cfg := c.NamedType("", "Config")
	defs := map[string]types.Type{"Config": cfg}
	out := map[string]*modelDef{}
	var order []string
	work := []string{"Config"}
	done := map[string]bool{}
	for len(work) > 0 {
		name := work[0]
		work = work[1:]
		if done[name] {
			continue
		}
		done[name] = true
		order = append(order, name)
		t := defs[name]
		md := &modelDef{Name: name}
		out[name] = md
		switch u := t.Underlying().(type) {
		case *types.Slice:
			md.Kind = "array"
			before := len(defs)
			sig := typeSig(u.Elem(), defs)
			md.ItemsRef = sig
			_ = before
		case *types.Struct:
			md.Kind = "object"
			var addFields func(st *types.Struct)
			addFields = func(st *types.Struct) {
				for i := 0; i < st.NumFields(); i++ {
					f := st.Field(i)
					if !f.Exported() {
						continue
					}
					tag := reflectTag(st.Tag(i))
					j := parseTag(tag, "json", f.Name())
					if j.Skip {
						continue
					}
					if j.Inline || (f.Embedded() && j.Name == "") || (f.Embedded() && !j.Present) {
						if es, ok := f.Type().Underlying().(*types.Struct); ok {
							addFields(es)
							continue
						}
					}
					sch := parseSchemaTag(tag)
					sig := typeSig(f.Type(), defs)
					mp := modelProp{Name: j.Name, Var: f}
					parts := []string{sig}
					if v := sch["title"]; len(v) > 0 {
						parts = append(parts, "title="+v[0])
					}
					if strings.HasPrefix(sig, "type=string") && !strings.Contains(sig, "format") {
						if v := sch["enum"]; len(v) > 0 {
							mp.Enum = v
							parts = append(parts, "enum=["+strings.Join(v, ",")+"]")
						}
					}
					if v := sch["default"]; len(v) > 0 && !strings.HasPrefix(sig, "$ref") {
						parts = append(parts, "default="+v[0])
					}
					mp.Sig = strings.Join(parts, " ")
					md.Props = append(md.Props, mp)
					if !j.OmitEmpty {
						md.Required = append(md.Required, j.Name)
					}
				}
			}
			addFields(u)
		}
		var names []string
		for n := range defs {
			if !done[n] {
				names = append(names, n)
			}
		}
		sort.Strings(names)
		work = append(work, names...)
	}
	return out, order
}

// publishedSig renders the same comparable signature from the schema file.
func publishedSig(p *jnode) string {
	var parts []string
	base := func(n *jnode) string {
		if r := n.get("$ref"); r != nil {
			return "$ref=" + r.str
		}
		s := "type=" + n.get("type").text()
		if f := n.get("format"); f != nil {
			s += " format=" + f.str
		}
		return s
	}
	var sig func(n *jnode) string
	sig = func(n *jnode) string {
		s := base(n)
		if it := n.get("items"); it != nil {
			s += " items(" + sig(it) + ")"
		}
		if ap := n.get("additionalProperties"); ap != nil && ap.kind == "object" {
			s += " additionalProperties(" + sig(ap) + ")"
		}
		return s
	}
	parts = append(parts, sig(p))
	if t := p.get("title"); t != nil {
		parts = append(parts, "title="+t.str)
	}
	if e := p.get("enum"); e != nil {
		var vs []string
		for _, x := range e.arr {
			vs = append(vs, x.text())
		}
		parts = append(parts, "enum=["+strings.Join(vs, ",")+"]")
	}
	if d := p.get("default"); d != nil {
		parts = append(parts, "default="+d.text())
	}
	return strings.Join(parts, " ")
}

func checkC17(c *Ctx, r *Report) {
	r.Rules = []string{"S1 yaml/json key agreement", "S2 published schema equals the statically reflected structure", "S3 enums cover the values the code accepts", "S3 tag default is a member of its own enum", "schema command reflects nfpm.Config", "S4-required only keys whose absence the code rejects are required", "output-truncates command output files are replaced, not overwritten in place", "S3-whole an enum-constrained setting is compared as a whole"}
	r.Explanation = "Struct-tag walk over go/types compared with the repository's published schema and with constants extracted from go/ssa. (S1) every exported field reachable from nfpm.Config has the same yaml and json key, inline status and skip status, so the key paths the strict parser accepts are exactly those the schema (reflected from json tags) allows. (S2) the structure that `nfpm jsonschema` reflects — definitions for every named struct and named slice type, ordered property lists with inline expansion, required = fields without omitempty, additionalProperties:false, type/$ref/format, title, enum and default from the jsonschema tag — is computed statically and compared with www/docs/static/schema.json; any added, removed, renamed or re-typed field, or changed enum, makes the published file stale. (S3) for every field whose tag declares an enum, the string constants the module compares that field against (switch cases, validation chains), stores into it as a default, and — for content entries — the user-settable types the planner accepts, must all be members of the enum (the empty string excepted); the tag's default must be in its enum."
	r.Explanation += " (S4-required) a key whose json tag lacks omitempty is required by the generated schema; only name, arch, version and a content's dst - whose absence the code rejects - may be. (output-truncates) the commands write their output files with os.WriteFile/os.Create or an os.OpenFile carrying O_TRUNC."
	r.Explanation += " (S3-whole) every comparison of an enum-constrained field with a constant reads the field itself (through conversions, phis and parameters bound to it), not a value cut or trimmed out of it."
	r.Assumptions = []string{
		"invopop/jsonschema v0.13.0 reflects exactly the modelled keywords from the struct tags (model stated in DESIGN appendix A9; examples/description are not compared)",
		"documents are not validated against the schema; byte identity with the command's output is decided on the modelled keywords only",
	}
	fields := walkConfig(c)
	r.Count("config_fields", len(fields))
	// ---- S1 ----
	n := 0
	for _, f := range fields {
		if !f.Exported {
			continue
		}
		n++
		ok := f.YAML.Skip == f.JSON.Skip && f.YAML.Inline == f.JSON.Inline && (f.YAML.Skip || f.YAML.Inline || f.YAML.Name == f.JSON.Name) && f.YAML.OmitEmpty == f.JSON.OmitEmpty
		owner := "?"
		if f.Owner != nil {
			owner = f.Owner.Obj().Name()
		}
		construct := owner + "." + f.Name
		r.Check(ok, "S1", construct, c.pos(f.Var.Pos()),
			fmt.Sprintf("yaml tag {name=%q inline=%v skip=%v omitempty=%v} vs json tag {name=%q inline=%v skip=%v omitempty=%v}: the parser's key and the schema's key must agree", f.YAML.Name, f.YAML.Inline, f.YAML.Skip, f.YAML.OmitEmpty, f.JSON.Name, f.JSON.Inline, f.JSON.Skip, f.JSON.OmitEmpty))
	}
	r.Floor("S1", n, 150)

	// ---- S2 ----
	model, order := buildModel(c)
	r.Count("model_definitions", len(order))
	pb, err := os.ReadFile(filepath.Join(c.RepoDir, "www/docs/static/schema.json"))
	if err != nil {
		r.Unresolved("www/docs/static/schema.json", err.Error())
	} else if pub, err := parseOrdered(pb); err != nil {
		r.Fail("S2", "schema.json", "www/docs/static/schema.json", "not valid JSON: "+err.Error())
	} else {
		defs := pub.get("$defs")
		r.Check(pub.get("$ref") != nil && pub.get("$ref").str == "#/$defs/Config", "S2", "schema root", "www/docs/static/schema.json", "root must reference #/$defs/Config")
		var pubNames []string
		if defs != nil {
			pubNames = append(pubNames, defs.keys...)
		}
		sort.Strings(pubNames)
		var modNames []string
		for _, nme := range order {
			modNames = append(modNames, nme)
		}
		sort.Strings(modNames)
		r.Check(strings.Join(pubNames, ",") == strings.Join(modNames, ","), "S2", "definition set", "www/docs/static/schema.json",
			fmt.Sprintf("published definitions {%s}; reflected from the code {%s}", strings.Join(pubNames, ","), strings.Join(modNames, ",")))
		for _, nme := range modNames {
			md := model[nme]
			pd := defs.get(nme)
			if pd == nil {
				continue
			}
			if md.Kind == "array" {
				got := ""
				if it := pd.get("items"); it != nil {
					got = publishedSig(it)
				}
				r.Check(got == md.ItemsRef && pd.get("type").text() == "array", "S2", "def "+nme+" (array)", "www/docs/static/schema.json", fmt.Sprintf("published items %q, code %q", got, md.ItemsRef))
				continue
			}
			props := pd.get("properties")
			var pkeys []string
			if props != nil {
				pkeys = props.keys
			}
			var mkeys []string
			for _, p := range md.Props {
				mkeys = append(mkeys, p.Name)
			}
			r.Check(strings.Join(pkeys, ",") == strings.Join(mkeys, ","), "S2", "def "+nme+": property list", "www/docs/static/schema.json",
				fmt.Sprintf("published [%s]; code [%s] (ordered, inline fields expanded)", strings.Join(pkeys, ","), strings.Join(mkeys, ",")))
			ap := pd.get("additionalProperties")
			r.Check(ap != nil && ap.raw == "false", "S2", "def "+nme+": additionalProperties", "www/docs/static/schema.json", "object definitions must forbid additional properties (as the strict parser does)")
			var preq []string
			if rq := pd.get("required"); rq != nil {
				for _, x := range rq.arr {
					preq = append(preq, x.str)
				}
			}
			r.Check(strings.Join(preq, ",") == strings.Join(md.Required, ","), "S2", "def "+nme+": required", "www/docs/static/schema.json",
				fmt.Sprintf("published [%s]; code (fields without omitempty) [%s]", strings.Join(preq, ","), strings.Join(md.Required, ",")))
			for _, p := range md.Props {
				pp := props.get(p.Name)
				if pp == nil {
					continue
				}
				got := publishedSig(pp)
				r.Check(got == p.Sig, "S2", "def "+nme+"."+p.Name, c.pos(p.Var.Pos()),
					fmt.Sprintf("published {%s}; reflected from the struct tag {%s}: the published schema is stale or the tag changed without regenerating it", got, p.Sig))
			}
		}
	}

	// ---- the parser side of "schema key paths <=> parser key paths": the
	// decode is strict at every level (shared with C16-O7)
	checkO7(c, r)

	// ---- S3 ----
	checkEnums(c, r, fields)

	// ---- S4 requiredness ----
	// the YAML decoder requires no key; the generator marks every field whose
	// json tag lacks omitempty as required. The only keys the schema may
	// require are those whose absence the code itself rejects.
	{
		seen := map[string]bool{}
		nreq := 0
		for _, f := range fields {
			if !f.Exported || f.JSON.Skip || f.JSON.Inline || f.Owner == nil || f.JSON.OmitEmpty {
				continue
			}
			if f.Schema != nil {
				if _, opt := f.Schema["-"]; opt {
					continue
				}
			}
			key := f.Owner.Obj().Name() + "." + f.JSON.Name
			if seen[key] {
				continue
			}
			seen[key] = true
			nreq++
			r.Check(specRequiredKeys[key], "S4-required", "required key "+key, c.pos(f.Var.Pos()),
				"the json tag has no omitempty, so the published schema requires this key, but the parser and the packagers accept a configuration without it: such a configuration builds and yet fails validation against the schema")
		}
		for key := range specRequiredKeys {
			r.Check(seen[key], "S4-required", "required key "+key, "-", "a configuration without this key is rejected by validation in code; the schema must require it (json tag without omitempty)")
		}
		r.Count("required_keys", nreq)
	}

	checkSchemaKeywords(c, r, fields)

	// ---- schema command ----
	checkSchemaOutputFile(c, r)
	okCmd := false
	for _, fn := range c.ModFuncs {
		forEachInstr(fn, func(in ssa.Instruction) {
			call, ok := in.(*ssa.Call)
			if !ok || !calleeIs(call, "github.com/invopop/jsonschema", "", "Reflect") {
				return
			}
			a := call.Call.Args[0]
			if mi, ok := a.(*ssa.MakeInterface); ok {
				a = mi.X
			}
			if isPtrToNamed(a.Type(), modPath, "Config") {
				okCmd = true
			}
		})
	}
	r.Check(okCmd, "schema-command", "jsonschema command reflects nfpm.Config", "-", "the command must reflect the very type the parser decodes into")
}

func reflectTag(s string) reflect.StructTag { return reflect.StructTag(s) }

// accepted values per enumerated field
func checkEnums(c *Ctx, r *Report, fields []cfgField) {
	pa := newProv(c)
	type enumField struct {
		f    cfgField
		atom string
		enum map[string]bool
	}
	var efs []*enumField
	for _, f := range fields {
		if len(f.Schema["enum"]) == 0 {
			continue
		}
		if _, isMap := f.Type.Underlying().(*types.Map); isMap {
			continue // the library ignores enum on object-typed properties
		}
		ef := &enumField{f: f, enum: map[string]bool{}}
		for _, v := range f.Schema["enum"] {
			ef.enum[v] = true
		}
		switch {
		case f.Owner != nil && f.Owner.Obj().Name() == "Content":
			ef.atom = "Content." + f.Name
		default:
			ef.atom = "Info." + strings.TrimPrefix(f.GoPath, "Info.")
		}
		// the same struct can be reached under overrides: only keep the base path
		if strings.HasPrefix(f.GoPath, "Overrides.") {
			continue
		}
		dup := false
		for _, e := range efs {
			if e.atom == ef.atom {
				dup = true
			}
		}
		if !dup {
			efs = append(efs, ef)
		}
	}
	r.Count("enumerated_fields", len(efs))
	accepted := map[string]map[string]ssa.Instruction{}
	add := func(atom, v string, at ssa.Instruction) {
		if accepted[atom] == nil {
			accepted[atom] = map[string]ssa.Instruction{}
		}
		if _, ok := accepted[atom][v]; !ok {
			accepted[atom][v] = at
		}
	}
	prep := c.Func("files", "PrepareForPackager")
	derivedCmp := map[string]ssa.Instruction{}
	for _, fn := range c.ModFuncs {
		forEachInstr(fn, func(in ssa.Instruction) {
			switch x := in.(type) {
			case *ssa.BinOp:
				if x.Op != token.EQL && x.Op != token.NEQ {
					return
				}
				var k *ssa.Const
				var v ssa.Value
				if kk, ok := x.Y.(*ssa.Const); ok {
					k, v = kk, x.X
				} else if kk, ok := x.X.(*ssa.Const); ok {
					k, v = kk, x.Y
				}
				if k == nil || k.Value == nil || k.Value.Kind().String() != "String" {
					return
				}
				for _, a := range pa.Of(v).fields() {
					if a == "Content.Type" && fn != prep {
						continue // only the planner decides which types a user may set
					}
					add(a, constString(k), in)
					if !plainFieldValue(pa, v, fn, 0) {
						if _, seen := derivedCmp[a]; !seen {
							derivedCmp[a] = in
						}
					}
				}
			case *ssa.Store:
				k, ok := x.Val.(*ssa.Const)
				if !ok || k.Value == nil || k.Value.Kind().String() != "String" {
					return
				}
				p, root := addrPath(x.Addr)
				if root == nil || rootTypeName(root.Type()) != "Info" {
					return
				}
				add("Info."+strings.TrimPrefix(p, "Info."), constString(k), in)
			}
		})
	}
	if c.Tier == "thorough" {
		// rpmpack's compressor switch
		if p := c.AllPkgs[rpmpackPath]; p != nil {
			if sp := c.Prog.Package(p.Types); sp != nil {
				if fn := sp.Func("setupCompressor"); fn != nil && fn.Blocks != nil {
					forEachInstr(fn, func(in ssa.Instruction) {
						if bo, ok := in.(*ssa.BinOp); ok && bo.Op == token.EQL {
							if k, ok := bo.Y.(*ssa.Const); ok && k.Value != nil && k.Value.Kind().String() == "String" {
								add("Info.Overridables.RPM.Compression", constString(k), in)
							}
						}
					})
				}
			}
		}
	}
	internalTypes := map[string]bool{typeImplicitDir: true, typeDebChangelog: true}
	for _, ef := range efs {
		vals := accepted[ef.atom]
		var names []string
		for v := range vals {
			names = append(names, v)
		}
		sort.Strings(names)
		if len(names) == 0 {
			r.Note("enumerated field %s: no constant comparison found in module code", ef.atom)
		}
		for _, v := range names {
			if v == "" {
				continue
			}
			if ef.atom == "Content.Type" && internalTypes[v] {
				continue
			}
			construct := fmt.Sprintf("enum of %s accepts %q", ef.f.YAMLPath, v)
			r.Check(ef.enum[v], "S3-enum", construct, c.instrPos(vals[v]),
				fmt.Sprintf("the code accepts the value %q for %s (compared/assigned at %s) but the schema's enum is %v: a configuration the packagers can build is rejected by the published schema", v, ef.f.YAMLPath, c.instrPos(vals[v]), ef.f.Schema["enum"]))
		}
		// the constrained value is compared as a whole: a comparison of
		// something cut out of it (the part before a ':', a trimmed suffix)
		// means the code accepts spellings the enum cannot list
		if at, bad := derivedCmp[ef.atom]; bad && ef.atom != "Info.Overridables.RPM.Compression" {
			r.Fail("S3-whole", "enum of "+ef.f.YAMLPath+" is decided on the whole value", c.instrPos(at),
				"the code compares a value derived from "+ef.f.YAMLPath+" (split, cut or trimmed) with its accepted names: the setting then takes forms such as name:level that the schema's enum "+fmt.Sprint(ef.f.Schema["enum"])+" rejects")
		} else if ef.atom != "Info.Overridables.RPM.Compression" {
			r.Pass("S3-whole", "enum of "+ef.f.YAMLPath+" is decided on the whole value", c.pos(ef.f.Var.Pos()), "every comparison reads the field itself")
		}
		if d := ef.f.Schema["default"]; len(d) > 0 {
			construct := fmt.Sprintf("default of %s is in its enum", ef.f.YAMLPath)
			r.Check(ef.enum[d[0]], "S3-default", construct, c.pos(ef.f.Var.Pos()), fmt.Sprintf("default %q, enum %v", d[0], ef.f.Schema["enum"]))
		}
	}
	r.Floor("S3-enum", len(efs), 6)
}

// keys whose absence nfpm.Validate / the planner reject (ErrFieldEmpty for
// name, arch, version; a content entry without destination)
var specRequiredKeys = map[string]bool{"Info.name": true, "Info.arch": true, "Info.version": true, "Content.dst": true}

// checkSchemaOutputFile: "the published schema is the file the command
// writes": the command replaces the output file. os.WriteFile and os.Create
// truncate; an os.OpenFile for writing must say so (O_TRUNC), otherwise the
// tail of a longer previous file survives.
func checkSchemaOutputFile(c *Ctx, r *Report) {
	n := 0
	for _, fn := range c.ModFuncs {
		if !strings.HasPrefix(c.funcPkgPath(fn), modPath+"/internal/cmd") && c.funcPkgPath(fn) != modPath+"/cmd/nfpm" {
			continue
		}
		perFn := 0
		forEachInstr(fn, func(in ssa.Instruction) {
			call, ok := in.(*ssa.Call)
			if !ok {
				return
			}
			o := calleeObj(call)
			if o == nil {
				return
			}
			switch qualifiedName(o) {
			case "os.WriteFile", "os.Create":
				n++
				perFn++
				r.Pass("output-truncates", fmt.Sprintf("%s: %s#%d replaces the file", c.funcKey(fn), qualifiedName(o), perFn), c.instrPos(call), "truncating by definition")
			case "os.OpenFile":
				if openFileReadOnly(call) {
					return
				}
				n++
				perFn++
				okT := false
				if k, ok := call.Call.Args[1].(*ssa.Const); ok && k.Value != nil {
					// O_TRUNC 0x200, O_APPEND 0x400, O_EXCL 0x80 (linux)
					okT = k.Int64()&(0x200|0x400|0x80) != 0
				}
				r.Check(okT, "output-truncates", fmt.Sprintf("%s: os.OpenFile#%d replaces the file", c.funcKey(fn), perFn), c.instrPos(call),
					"the file is opened for writing without O_TRUNC (or O_EXCL/O_APPEND): writing a shorter document over an existing file leaves the old tail in place")
			}
		})
	}
	r.Floor("output-truncates", n, 2)
}

// the keywords the static model of the generator covers; anything else in the
// published schema constrains documents in a way this check cannot relate to
// the parser (pattern, propertyNames, minLength ...)
var modelledSchemaKeywords = map[string]bool{"$schema": true, "$id": true, "$ref": true, "$defs": true, "properties": true, "additionalProperties": true,
	"type": true, "items": true, "title": true, "description": true, "examples": true, "enum": true, "default": true, "required": true, "format": true}

// checkSchemaKeywords: (S2-keywords) the published schema uses modelled
// keywords only, and no type of the configuration customises its schema in
// code (JSONSchema / JSONSchemaExtend / JSONSchemaAlias methods), which the
// reflection model cannot follow; jsonschema tags carry no keyword outside the
// modelled ones either. (S3-expand) a field constrained by an enum is not
// rewritten by the environment expansion: its reference spelling (${VAR}) can
// never be a member of the enum.
func checkSchemaKeywords(c *Ctx, r *Report, fields []cfgField) {
	raw, err := os.ReadFile(filepath.Join(c.RepoDir, "www", "docs", "static", "schema.json"))
	if err != nil {
		r.Unresolved("published schema", err.Error())
		return
	}
	var doc any
	if err := json.Unmarshal(raw, &doc); err != nil {
		r.Unresolved("published schema", err.Error())
		return
	}
	unknown := map[string]bool{}
	nkw := 0
	var walk func(x any, names bool)
	walk = func(x any, names bool) {
		switch v := x.(type) {
		case map[string]any:
			for k, ch := range v {
				if !names {
					nkw++
					if !modelledSchemaKeywords[k] {
						unknown[k] = true
					}
				}
				walk(ch, !names && (k == "properties" || k == "$defs"))
			}
		case []any:
			for _, ch := range v {
				walk(ch, false)
			}
		}
	}
	walk(doc, false)
	r.Check(len(unknown) == 0, "S2-keywords", "published schema uses modelled keywords only", "www/docs/static/schema.json",
		fmt.Sprintf("keywords outside the model: {%s}: they restrict documents beyond what the struct tags and the parser are compared on (%d keyword occurrences read)", joinSorted(unknown), nkw))
	// tags
	tagKw := map[string]bool{"title": true, "description": true, "example": true, "enum": true, "default": true, "type": true, "format": true, "required": true, "-": true, "oneof_type": true}
	for _, f := range fields {
		for k := range f.Schema {
			if !tagKw[strings.TrimSpace(k)] {
				r.Fail("S2-keywords", "jsonschema tag keyword "+k+" on "+f.GoPath, c.pos(f.Var.Pos()), "the tag adds a constraint the model does not cover; the parser applies no such constraint, so a configuration that builds can be rejected by the schema")
			}
		}
	}
	// custom schema methods
	ncustom := 0
	for _, fn := range c.ModFuncs {
		if fn.Signature.Recv() == nil {
			continue
		}
		switch fn.Name() {
		case "JSONSchema", "JSONSchemaExtend", "JSONSchemaAlias", "JSONSchemaProperty":
			ncustom++
			r.Fail("S2-keywords", "custom schema method "+c.funcKey(fn), c.pos(fn.Pos()), "a type of the configuration builds part of its schema in code: the published schema can no longer be related to the struct tags statically")
		}
	}
	if ncustom == 0 {
		r.Pass("S2-keywords", "no configuration type customises its schema in code", "-", "no JSONSchema* methods in the module")
	}
	// enum fields are not expanded
	stores := expansionStorePaths(c)
	nenum := 0
	for _, f := range fields {
		if len(f.Schema["enum"]) == 0 {
			continue
		}
		if _, isMap := f.Type.Underlying().(*types.Map); isMap {
			continue // the generator ignores enum on maps
		}
		nenum++
		gp := "Info." + strings.TrimPrefix(f.GoPath, "Info.")
		st, expanded := stores[f.GoPath]
		if !expanded {
			st, expanded = stores[gp]
		}
		if expanded {
			r.Fail("S3-expand", "enumerated key "+f.YAMLPath+" is taken as written", c.instrPos(st), "the environment expansion rewrites a field whose schema is an enum: the document spells the value as a reference (${VAR}), which builds but is not a member of the enum")
		} else {
			r.Pass("S3-expand", "enumerated key "+f.YAMLPath+" is taken as written", c.pos(f.Var.Pos()), "not assigned by the environment expansion")
		}
	}
	r.Floor("S3-expand", nenum, 5)
}

// plainFieldValue: v is the configuration field as it stands - a load of it,
// through conversions and phis, or a parameter every call site binds to such
// a load.
func plainFieldValue(pa *provAnalysis, v ssa.Value, fn *ssa.Function, depth int) bool {
	v = stripConv(v)
	switch x := v.(type) {
	case *ssa.Const:
		return true // a default spelled in the code
	case *ssa.UnOp:
		if x.Op != token.MUL {
			return false
		}
		_, isFA := x.X.(*ssa.FieldAddr)
		if isFA {
			return true
		}
		// a local cell holding the value
		if al, isAl := x.X.(*ssa.Alloc); isAl {
			if st := singleAssignment(al); st != nil {
				return plainFieldValue(pa, st.Val, fn, depth+1)
			}
		}
		return false
	case *ssa.Phi:
		if depth > 4 {
			return false
		}
		for _, e := range x.Edges {
			if _, isK := e.(*ssa.Const); isK {
				continue
			}
			if !plainFieldValue(pa, e, fn, depth+1) {
				return false
			}
		}
		return true
	case *ssa.Parameter:
		if depth > 3 || fn == nil {
			return false
		}
		idx := -1
		for i, q := range fn.Params {
			if q == x {
				idx = i
			}
		}
		sites := pa.callSites(fn)
		if idx < 0 || len(sites) == 0 {
			return false
		}
		for _, cs := range sites {
			if idx >= len(cs.Common().Args) || !plainFieldValue(pa, cs.Common().Args[idx], cs.Parent(), depth+1) {
				return false
			}
		}
		return true
	case *ssa.FreeVar:
		return true // a captured variable: not followed, assumed to hold the field
	case *ssa.Call:
		// a module helper that hands the field (or a constant fallback, or
		// one of its parameters) back unchanged
		sc := x.Call.StaticCallee()
		if sc == nil || len(sc.Blocks) == 0 || depth > 3 {
			return false
		}
		if _, isMod := pa.c.SSAPkgs[pkgPathOf(sc)]; !isMod {
			return false
		}
		n := 0
		for _, b := range sc.Blocks {
			ret, ok := b.Instrs[len(b.Instrs)-1].(*ssa.Return)
			if !ok || len(ret.Results) != 1 {
				continue
			}
			n++
			res := retResults(ret)[0]
			if _, isK := res.(*ssa.Const); isK {
				continue
			}
			if !plainFieldValue(pa, res, sc, depth+1) {
				return false
			}
		}
		return n > 0
	}
	return false
}

func pkgPathOf(fn *ssa.Function) string {
	if fn.Pkg != nil {
		return fn.Pkg.Pkg.Path()
	}
	if p := fn.Parent(); p != nil {
		return pkgPathOf(p)
	}
	return ""
}
