package main

import (
	"fmt"
	"go/token"
	"go/types"
	"sort"
	"strings"

	"golang.org/x/tools/go/ssa"
)

func init() { register("C06", checkC06) }

var errorType = types.Universe.Lookup("error").Type()

// errResultIndex: index of the error result of a call's signature, or -1.
func errResultIndex(sig *types.Signature) int {
	res := sig.Results()
	if res.Len() == 0 {
		return -1
	}
	if types.Identical(res.At(res.Len()-1).Type(), errorType) {
		return res.Len() - 1
	}
	return -1
}

// errValueOf returns the SSA value carrying the error result of call, or nil
// when the error is discarded (no use at all).
func errValueOf(call ssa.CallInstruction) (val ssa.Value, hasErr bool) {
	sig := call.Common().Signature()
	idx := errResultIndex(sig)
	if idx < 0 {
		return nil, false
	}
	cv, ok := call.(*ssa.Call)
	if !ok {
		return nil, true // defer / go: discarded
	}
	if sig.Results().Len() == 1 {
		if effectivelyUnused(cv) {
			return nil, true
		}
		return cv, true
	}
	for _, ref := range *cv.Referrers() {
		if ex, ok := ref.(*ssa.Extract); ok && ex.Index == idx {
			if effectivelyUnused(ex) {
				return nil, true
			}
			return ex, true
		}
	}
	return nil, true
}

// effectivelyUnused: the value has no use, or only comparisons whose result is
// itself unused (an `if err != nil { continue }` whose branches coincide is
// compiled to a dead comparison).
func effectivelyUnused(v ssa.Value) bool {
	refs := v.Referrers()
	if refs == nil || len(*refs) == 0 {
		return true
	}
	for _, ref := range *refs {
		bo, ok := ref.(*ssa.BinOp)
		if !ok {
			return false
		}
		if bo.Referrers() != nil && len(*bo.Referrers()) > 0 {
			return false
		}
	}
	return true
}

// c06Scope: packaging call graph of all packagers + CLI + signing + parsing.
func c06Scope(c *Ctx) map[*ssa.Function]bool {
	var roots []*ssa.Function
	for _, p := range c.Packagers {
		roots = append(roots, p.Package, p.FileName)
	}
	if f := c.Func("internal/cmd", "doPackage"); f != nil {
		roots = append(roots, f)
	}
	for _, fn := range c.ModFuncs {
		if c.funcPkgPath(fn) == modPath+"/internal/sign" && fn.Parent() == nil {
			// verification helpers are exported for tests only
			if strings.Contains(fn.Name(), "Verify") || fn.Name() == "PGPReadMessage" || fn.Name() == "rsaVerify" {
				continue
			}
			roots = append(roots, fn)
		}
	}
	for _, n := range []string{"Parse", "ParseWithEnvMapping", "ParseFile", "ParseFileWithEnvMapping", "PrepareForPackager", "Validate", "WithDefaults"} {
		if f := c.Func("", n); f != nil {
			roots = append(roots, f)
		}
	}
	return c.Reach(roots...)
}

var probeCallees = map[string]string{
	"os.Stat":     "probe: failure is an answer",
	"os.Lstat":    "probe: failure is an answer",
	"os.Readlink": "probe: failure is an answer",
	"github.com/Masterminds/semver/v3.NewVersion": "by specification (C14) an unparsable version is used verbatim",
	"net/mail.ParseAddress":                       "",
}

func isWriteSideMethod(name string) bool {
	switch name {
	case "Write", "WriteString", "WriteByte", "WriteRune", "WriteHeader", "WriteGlobalHeader", "Flush", "Close", "WriteTo", "ReadFrom":
		return true
	}
	return false
}

// writeSink returns the writer operand of a write-side call, or nil.
func writeSink(call ssa.CallInstruction) ssa.Value {
	cc := call.Common()
	o := calleeObj(call)
	if o == nil {
		return nil
	}
	q := qualifiedName(o)
	switch q {
	case "fmt.Fprint", "fmt.Fprintf", "fmt.Fprintln", "io.WriteString", "io.Copy", "io.CopyN", "io.CopyBuffer":
		return cc.Args[0]
	}
	sig := o.Type().(*types.Signature)
	if sig.Recv() == nil {
		return nil
	}
	if o.Name() == "Execute" && isNamed(sig.Recv().Type(), "text/template", "Template") {
		if cc.IsInvoke() {
			return cc.Args[0]
		}
		return cc.Args[1]
	}
	if o.Name() == "WriteTo" {
		// x.WriteTo(w): sink is the argument
		if cc.IsInvoke() {
			return cc.Args[0]
		}
		if len(cc.Args) > 1 {
			return cc.Args[1]
		}
	}
	if isWriteSideMethod(o.Name()) {
		if cc.IsInvoke() {
			return cc.Value
		}
		return cc.Args[0]
	}
	return nil
}

// onlyFailingReturnsFrom: every path from the instruction to a return ends in
// a return whose error is provably non-nil (a failure is already being
// reported; the discarded call is cleanup).
func onlyFailingReturnsFrom(in ssa.Instruction) bool {
	fn := in.Parent()
	if errResultIndex(fn.Signature) < 0 {
		return false
	}
	seen := map[*ssa.BasicBlock]bool{}
	found := false
	var dfs func(b *ssa.BasicBlock) bool
	dfs = func(b *ssa.BasicBlock) bool {
		if seen[b] {
			return true
		}
		seen[b] = true
		if ret, ok := b.Instrs[len(b.Instrs)-1].(*ssa.Return); ok {
			found = true
			return errorIsNonNilAt(ret)
		}
		if _, ok := b.Instrs[len(b.Instrs)-1].(*ssa.Panic); ok {
			return true
		}
		for _, s := range b.Succs {
			if !dfs(s) {
				return false
			}
		}
		return true
	}
	return dfs(in.Block()) && found
}

// semanticWriter: archive writers validate what is written (header fields,
// declared size vs bytes written); their errors are meaningful even over an
// in-memory buffer.
func semanticWriter(v ssa.Value) bool {
	if mi, ok := v.(*ssa.MakeInterface); ok {
		v = mi.X
	}
	return isPtrToNamed(v.Type(), "archive/tar", "Writer") || isPtrToNamed(v.Type(), "github.com/blakesmith/ar", "Writer")
}

// copySourceInMemory: for io.Copy-like calls the error also reports failures
// of the source; it is ignorable only when the source is in memory too.
func copySourceInMemory(call ssa.CallInstruction) bool {
	o := calleeObj(call)
	if o == nil {
		return true
	}
	switch qualifiedName(o) {
	case "io.Copy", "io.CopyN", "io.CopyBuffer":
		return readerInMemory(call.Common().Args[1], 0)
	}
	if o.Name() == "ReadFrom" {
		args := call.Common().Args
		return readerInMemory(args[len(args)-1], 0)
	}
	return true
}

func readerInMemory(v ssa.Value, depth int) bool {
	if v == nil || depth > 8 {
		return false
	}
	switch types.TypeString(derefType(v.Type()), nil) {
	case "bytes.Reader", "bytes.Buffer", "strings.Reader":
		return true
	}
	switch x := v.(type) {
	case *ssa.MakeInterface:
		return readerInMemory(x.X, depth+1)
	case *ssa.ChangeInterface:
		return readerInMemory(x.X, depth+1)
	case *ssa.Call:
		if o := calleeObj(x); o != nil {
			switch qualifiedName(o) {
			case "io.TeeReader", "io.LimitReader", "bufio.NewReader":
				return readerInMemory(x.Call.Args[0], depth+1)
			case "bytes.NewReader", "bytes.NewBuffer", "bytes.NewBufferString", "strings.NewReader":
				return true
			}
		}
	case *ssa.Phi:
		for _, e := range x.Edges {
			if !readerInMemory(e, depth+1) {
				return false
			}
		}
		return true
	}
	return false
}

// readerSideClose: Close on a file opened read-only.
func readerSideClose(call ssa.CallInstruction) bool {
	o := calleeObj(call)
	if o == nil || o.Name() != "Close" {
		return false
	}
	cc := call.Common()
	var recv ssa.Value
	if cc.IsInvoke() {
		recv = cc.Value
	} else if len(cc.Args) > 0 {
		recv = cc.Args[0]
	}
	return openedReadOnly(recv, 0)
}

func openedReadOnly(v ssa.Value, depth int) bool {
	if v == nil || depth > 8 {
		return false
	}
	switch x := v.(type) {
	case *ssa.Extract:
		return openedReadOnly(x.Tuple, depth+1)
	case *ssa.MakeInterface:
		return openedReadOnly(x.X, depth+1)
	case *ssa.Phi:
		for _, e := range x.Edges {
			if k, ok := e.(*ssa.Const); ok && k.IsNil() {
				continue
			}
			if !openedReadOnly(e, depth+1) {
				return false
			}
		}
		return true
	case *ssa.UnOp:
		// load of a local cell (named result `file`)
		if al, ok := x.X.(*ssa.Alloc); ok {
			n := 0
			for _, ref := range *al.Referrers() {
				if st, ok := ref.(*ssa.Store); ok && st.Addr == al {
					if k, isC := st.Val.(*ssa.Const); isC && k.IsNil() {
						continue
					}
					n++
					if !openedReadOnly(st.Val, depth+1) {
						return false
					}
				}
			}
			return n > 0
		}
	case *ssa.Call:
		if o := calleeObj(x); o != nil {
			switch qualifiedName(o) {
			case "os.Open":
				return true
			case "os.OpenFile":
				return openFileReadOnly(x)
			}
		}
	}
	return false
}

// closer constructors for E2: name -> method that completes the stream
var closerCtors = map[string]string{
	"archive/tar.NewWriter":                                    "Close",
	"compress/gzip.NewWriter":                                  "Close",
	"compress/gzip.NewWriterLevel":                             "Close",
	"github.com/klauspost/pgzip.NewWriter":                     "Close",
	"github.com/klauspost/pgzip.NewWriterLevel":                "Close",
	"github.com/klauspost/compress/zstd.NewWriter":             "Close",
	"github.com/ulikunitz/xz.NewWriter":                        "Close",
	"github.com/ulikunitz/xz/lzma.NewWriter":                   "Close",
	"bufio.NewWriter":                                          "Flush",
	"bufio.NewWriterSize":                                      "Flush",
	"github.com/ProtonMail/go-crypto/openpgp/clearsign.Encode": "Close",
	"os.Create":     "Close",
	"os.CreateTemp": "Close",
}

// aliasesOf computes the forward alias set of a created closer value inside fn
// (and, for captured cells, inside its closures).
func aliasesOf(v ssa.Value) map[ssa.Value]bool {
	set := map[ssa.Value]bool{}
	var add func(x ssa.Value)
	add = func(x ssa.Value) {
		if x == nil || set[x] {
			return
		}
		set[x] = true
		refs := x.Referrers()
		if refs == nil {
			return
		}
		for _, ref := range *refs {
			switch r := ref.(type) {
			case *ssa.Extract:
				if r.Tuple == x && r.Index == 0 {
					add(r)
				}
			case *ssa.MakeInterface:
				add(r)
			case *ssa.ChangeInterface:
				add(r)
			case *ssa.ChangeType:
				add(r)
			case *ssa.Phi:
				add(r)
			case *ssa.Store:
				if r.Val == x {
					// stored into a local cell: loads of the cell alias it
					if al, ok := r.Addr.(*ssa.Alloc); ok {
						for _, r2 := range *al.Referrers() {
							if ld, ok := r2.(*ssa.UnOp); ok && ld.Op == token.MUL {
								add(ld)
							}
							if mc, ok := r2.(*ssa.MakeClosure); ok {
								// captured by reference: loads of the free var in the closure
								fn := mc.Fn.(*ssa.Function)
								for i, b := range mc.Bindings {
									if b == ssa.Value(al) && i < len(fn.FreeVars) {
										fv := fn.FreeVars[i]
										for _, r3 := range *fv.Referrers() {
											if ld, ok := r3.(*ssa.UnOp); ok && ld.Op == token.MUL {
												add(ld)
											}
										}
									}
								}
							}
						}
					}
				}
			case *ssa.MakeClosure:
				// captured by value
				fn := r.Fn.(*ssa.Function)
				for i, b := range r.Bindings {
					if b == x && i < len(fn.FreeVars) {
						add(fn.FreeVars[i])
					}
				}
			}
		}
	}
	add(v)
	return set
}

func callReceiver(call ssa.CallInstruction) ssa.Value {
	cc := call.Common()
	if cc.IsInvoke() {
		return cc.Value
	}
	if cc.Signature().Recv() != nil && len(cc.Args) > 0 {
		return cc.Args[0]
	}
	return nil
}

// errorIsNonNilAt: the error operand of ret is provably non-nil.
func errorIsNonNilAt(ret *ssa.Return) bool {
	if len(ret.Results) == 0 {
		return false
	}
	res := retResults(ret)
	v := res[len(res)-1]
	if !types.Identical(v.Type(), errorType) {
		return false
	}
	return valueNonNilAt(v, ret.Block(), 0)
}

// nilTestFailEdge: if v is tested `v != nil` / `v == nil`, the successor block
// taken when v is non-nil.
func nilTestFailEdge(v ssa.Value) *ssa.BasicBlock {
	for _, ref := range *v.Referrers() {
		bo, ok := ref.(*ssa.BinOp)
		if !ok || (bo.Op != token.NEQ && bo.Op != token.EQL) {
			continue
		}
		other := bo.Y
		if bo.Y == v {
			other = bo.X
		}
		if k, ok := other.(*ssa.Const); !ok || !k.IsNil() {
			continue
		}
		for _, r2 := range *bo.Referrers() {
			if ifi, ok := r2.(*ssa.If); ok {
				if bo.Op == token.NEQ {
					return ifi.Block().Succs[0]
				}
				return ifi.Block().Succs[1]
			}
		}
	}
	return nil
}

func valueNonNilAt(v ssa.Value, at *ssa.BasicBlock, depth int) bool {
	if depth > 6 {
		return false
	}
	switch x := v.(type) {
	case *ssa.Const:
		return false
	case *ssa.MakeInterface:
		return true // a concrete value boxed into error (e.g. &ErrSigningFailure{})
	case *ssa.Call:
		if o := calleeObj(x); o != nil {
			switch qualifiedName(o) {
			case "fmt.Errorf", "errors.New", "errors.Join":
				return true
			}
		}
	case *ssa.UnOp:
		if g, ok := x.X.(*ssa.Global); ok && x.Op == token.MUL {
			_ = g
			return true // package-level sentinel error
		}
		// load of a result cell (named result in a function with defers):
		// another load of the same cell was tested `!= nil` on an edge that
		// dominates this point, with no store to the cell inside that region
		if al, ok := x.X.(*ssa.Alloc); ok && x.Op == token.MUL {
			for _, ref := range *al.Referrers() {
				ld, ok := ref.(*ssa.UnOp)
				if !ok || ld.Op != token.MUL || ld.Referrers() == nil {
					continue
				}
				if succ := nilTestFailEdge(ld); succ != nil && len(succ.Preds) == 1 && (succ.Dominates(at) || succ == at) {
					stored := false
					for _, r2 := range *al.Referrers() {
						if st, ok := r2.(*ssa.Store); ok && st.Addr == ssa.Value(al) && (succ.Dominates(st.Block()) || succ == st.Block()) {
							if st.Block() == at {
								// a store in the returning block before the load counts
								if instrIndex(st) < instrIndex(x) {
									stored = true
								}
							} else {
								stored = true
							}
						}
					}
					if !stored {
						return true
					}
				}
			}
		}
	case *ssa.Phi:
		all := true
		for _, e := range x.Edges {
			if !valueNonNilAt(e, at, depth+1) {
				all = false
				break
			}
		}
		if all {
			return true
		}
	}
	// dominated by the true edge of `v != nil` (or false edge of `v == nil`)
	if refs := v.Referrers(); refs != nil {
		for _, ref := range *refs {
			bo, ok := ref.(*ssa.BinOp)
			if !ok || (bo.Op != token.NEQ && bo.Op != token.EQL) {
				continue
			}
			other := bo.Y
			if bo.Y == v {
				other = bo.X
			}
			if k, ok := other.(*ssa.Const); !ok || !k.IsNil() {
				continue
			}
			for _, r2 := range *bo.Referrers() {
				ifi, ok := r2.(*ssa.If)
				if !ok {
					continue
				}
				succ := ifi.Block().Succs[0]
				if bo.Op == token.EQL {
					succ = ifi.Block().Succs[1]
				}
				if len(succ.Preds) == 1 && succ.Dominates(at) {
					return true
				}
			}
		}
	}
	return false
}

func checkC06(c *Ctx, r *Report) {
	r.Rules = []string{"E1 no dropped error", "E1' no swallowed error", "E2 checked close of closers over a fallible sink", "D9 invalid settings end in an error", "E3 CLI failure edge removes the target and exits non-zero", "E2m closers over in-memory sinks completed before use", "E5 file references reach their reader as configured", "E1-dep dependency container writers (thorough)", "D9 required architecture (deb, rpm, apk) evaluated with literal tables modelled", "E1'-cell an error kept in a memory cell is not overwritten by a later call's result on a path the failure takes", "E6-changelog-stat the changelog file is checked with os.Stat before the lenient parser reads it", "E7-short-write direct writes to the external destination use the byte count", "valid-F13-width / valid-F14-name-fixpoint invalid settings are rejected, not reinterpreted (imported from C14, C15)", "E8-scanner-err a line scanner over a file or stream has its error consulted", "E1-built an error value that is built is used (returned, stored, passed on)", "fixture (positive examples for E1'-defer, E1-built, E8-scanner-err)", "E1'-defer a deferred closure stores into the function's error result only where that result is still nil (or from a value built on it)", "read-K-key-read the configured key file is read on every signing call (rule of C10)"}
	r.Explanation = "Error-discipline analysis over go/ssa on the packaging call graph of all five packagers, the CLI, the signing helpers and the parser: (E1) every call whose callee returns an error has that result used, unless it falls under an enumerated idiom (reader-side Close, write into an in-memory buffer or hash decided by an interprocedural sink-root analysis, diagnostics, deferred cleanup Close discharged by E2, a named exception); (E1') from the failure edge of an `err != nil` test no path reaches a return with a nil error; (E2) every closer created over a fallible (caller-supplied) sink is closed/flushed, non-deferred and with its error used, before every return that may report success — or by a deferred closure that stores the Close error into the named result; (D9) the invalid cell of every finite setting evaluates to an error-only return set; (E3) the CLI's packaging-failure edge passes through os.Remove(target) and returns the error, and the root command exits with a non-zero constant. All paths and call sites of the code are covered, which is what 'every write index k' quantifies over; no fault is injected or executed."
	r.Explanation += " (E2m) closers layered over an in-memory buffer are completed (non-deferred Close/Flush, also as the exit of a loop over a literal list of closers, also when the closer comes from a module factory) before every success-capable return and every read of the buffer. E1' also covers the error parameter of a tree-walk callback. (E5) a configuration field that names a file the packagers read may be assigned by the parser's environment expansion only if it is documented as expandable."
	r.Explanation += " (D9-arch) nfpm.PrepareForPackager is evaluated for deb, rpm and apk with neither the general nor the format's own architecture set and every other setting unknown: every live return carries an error (lookups in map literals built in the function are modelled)."
	r.Explanation += " (E1'-cell) for every store of a call's error into a named-result or captured variable that is then nil-tested, no other fresh-error store to that cell is reachable from both the failing and the succeeding edge. (E6-changelog-stat) every call of the changelog parser is dominated by os.Stat of the same path."
	r.Explanation += " (E7-short-write) every invoke of Write on an io.Writer whose sink root is external has its count result used."
	r.Assumptions = []string{
		"third-party writers (archive/tar, compress/gzip, pgzip, zstd, xz, rpmpack, blakesmith/ar in quick tier) surface sink errors through the Write/Close error they return",
		"writes into bytes.Buffer, strings.Builder and hash.Hash never fail",
		"behaviour under real I/O faults is not executed",
	}
	scope := c06Scope(c)
	sa := newSinkAnalysis(c)
	r.Count("functions_in_scope", len(scope))

	discards := 0
	calls := 0
	type closerInst struct {
		fn     *ssa.Function
		create *ssa.Call
		method string
		name   string
		sink   ssa.Value // set for closers obtained from a module factory
	}
	var closers []closerInst

	for _, fn := range sortedFuncs(c, scope) {
		fk := c.funcKey(fn)
		perCallee := map[string]int{}
		forEachInstr(fn, func(in ssa.Instruction) {
			call, ok := in.(ssa.CallInstruction)
			if !ok {
				return
			}
			// closer constructors
			if cv, ok := call.(*ssa.Call); ok {
				if o := calleeObj(call); o != nil {
					if m, ok := closerCtors[qualifiedName(o)]; ok {
						closers = append(closers, closerInst{fn, cv, m, qualifiedName(o), nil})
					}
				}
			}
			_, hasErr := errValueOf(call)
			if !hasErr {
				return
			}
			calls++
			val, _ := errValueOf(call)
			cname := calleeName(call)
			perCallee[cname]++
			construct := fmt.Sprintf("%s -> %s#%d", fk, cname, perCallee[cname])
			if val != nil {
				// E1': swallowed?
				if o := calleeObj(call); o != nil {
					if _, probe := probeCallees[qualifiedName(o)]; probe {
						return
					}
					if o.Pkg() != nil && o.Pkg().Path() == "strconv" {
						return // parse of a setting with a documented default; D9 covers rpm epoch
					}
				}
				if ok, why := notOverwritten(c, fn, call, val); !ok {
					r.Fail("E1'", construct, c.instrPos(in), why)
					return
				}
				if ok, why := notSwallowed(c, fn, val); !ok {
					if fk == "rpm.asRPMFile" && strings.Contains(cname, "os.ReadFile") {
						r.Pass("E1'", construct, c.instrPos(in), "enumerated exception: a ghost entry has no payload, its source is not required to exist")
						return
					}
					r.Fail("E1'", construct, c.instrPos(in), why)
				} else {
					r.Pass("E1'", construct, c.instrPos(in), "every path from the failure edge returns a non-nil error")
				}
				return
			}
			// discarded
			discards++
			_, isDefer := in.(*ssa.Defer)
			o := calleeObj(call)
			switch {
			case readerSideClose(call):
				r.Pass("E1", construct, c.instrPos(in), "idiom: Close of a file opened read-only")
				return
			case o != nil && (o.Name() == "Close" || o.Name() == "Flush") && receiverIsTrackedCloser(call):
				if isDefer {
					r.Pass("E1", construct, c.instrPos(in), "idiom: deferred cleanup Close; completion of the stream is decided by E2")
					return
				}
				if s := writeSink(call); s != nil && sa.root(s) == sinkInfallible && !semanticWriter(s) {
					r.Pass("E1", construct, c.instrPos(in), "idiom: closer layered over an in-memory buffer (sink root "+sa.root(s).String()+"); ordering is decided by C04-O4")
					return
				}
			}
			if s := writeSink(call); s != nil {
				if sa.root(s) == sinkInfallible && !semanticWriter(s) && copySourceInMemory(call) {
					r.Pass("E1", construct, c.instrPos(in), "idiom: write into an in-memory buffer/hash (sink root infallible)")
					return
				}
			}
			if o != nil {
				q := qualifiedName(o)
				pp := c.funcPkgPath(fn)
				if pp == modPath+"/deprecation" || q == "fmt.Println" || q == "fmt.Printf" || q == "fmt.Print" {
					r.Pass("E1", construct, c.instrPos(in), "idiom: diagnostic output")
					return
				}
				if q == "os.Remove" && fk == "internal/cmd.doPackage" {
					r.Pass("E1", construct, c.instrPos(in), "named exception: best-effort removal of the partial target on the failure edge (required by E3)")
					return
				}
				if o.Name() == "Parse" && isNamed(o.Type().(*types.Signature).Recv().Type(), "text/template", "Template") && allArgsConst(call) {
					r.Pass("E1", construct, c.instrPos(in), "idiom: parse of a constant template")
					return
				}
			}
			if o != nil && (o.Name() == "Close" || o.Name() == "Flush" || qualifiedName(o) == "os.Remove") && onlyFailingReturnsFrom(in) {
				r.Pass("E1", construct, c.instrPos(in), "idiom: cleanup on a path that can only end in a non-nil error return")
				return
			}
			r.Fail("E1", construct, c.instrPos(in), "the error result of this call is discarded: a failure here would go unreported")
		})
	}
	// E1' for errors delivered as an argument: the callback of a tree walk
	// receives the walker's own failure (a missing root, an unreadable
	// directory) as a parameter; returning nil for it hides the failure
	nwalk := 0
	for _, fn := range sortedFuncs(c, scope) {
		forEachInstr(fn, func(in ssa.Instruction) {
			call, ok := in.(*ssa.Call)
			if !ok || !(calleeIs(call, "path/filepath", "", "WalkDir") || calleeIs(call, "path/filepath", "", "Walk") || calleeIs(call, "io/fs", "", "WalkDir")) {
				return
			}
			var cb *ssa.Function
			for _, a := range call.Call.Args {
				if ct, ok := a.(*ssa.ChangeType); ok {
					a = ct.X
				}
				switch x := a.(type) {
				case *ssa.MakeClosure:
					cb, _ = x.Fn.(*ssa.Function)
				case *ssa.Function:
					cb = x
				}
			}
			if cb == nil || cb.Blocks == nil {
				return
			}
			for _, prm := range cb.Params {
				if !types.Identical(prm.Type(), errorType) {
					continue
				}
				nwalk++
				construct := fmt.Sprintf("%s: walk callback's error argument", c.funcKey(cb))
				if ok, why := notSwallowed(c, cb, prm); !ok {
					r.Fail("E1'", construct, c.instrPos(call), why)
				} else {
					r.Pass("E1'", construct, c.instrPos(call), "every path from the failure edge returns a non-nil error")
				}
			}
		})
	}
	r.Count("walk_callbacks", nwalk)
	r.Count("error_returning_calls", calls)
	r.Count("discard_sites", discards)
	r.Floor("E1", discards, 8)

	// ---- E2 ----
	// factories: a module function that returns the closer it created hands
	// the obligation to its callers; a call of it is a closer construction
	// there (sink = the argument that the factory layers the closer over).
	closerFactories = map[*ssa.Function]string{}
	for round := 0; round < 3; round++ {
		var next []closerInst
		grew := false
		for _, ci := range closers {
			if idx, ok := returnedCloser(ci.fn, ci.create); ok && c.isModuleFunc(ci.fn) {
				if _, seen := closerFactories[ci.fn]; !seen {
					grew = true
				}
				closerFactories[ci.fn] = ci.method
				sinkParam := -1
				var under ssa.Value = ci.sink
				if under == nil && len(ci.create.Call.Args) > 0 && !strings.HasPrefix(ci.name, "os.") {
					under = ci.create.Call.Args[0]
				}
				for i, prm := range ci.fn.Params {
					if under != nil && (under == ssa.Value(prm) || stripIface(under) == ssa.Value(prm)) {
						sinkParam = i
					}
				}
				_ = idx
				factorySink[ci.fn] = sinkParam
				continue
			}
			next = append(next, ci)
		}
		closers = next
		if !grew {
			break
		}
		for _, fn := range sortedFuncs(c, scope) {
			forEachInstr(fn, func(in ssa.Instruction) {
				cv, ok := in.(*ssa.Call)
				if !ok {
					return
				}
				sc := cv.Call.StaticCallee()
				if sc == nil {
					return
				}
				m, isF := closerFactories[sc]
				if !isF {
					return
				}
				for _, ex := range closers {
					if ex.create == cv {
						return
					}
				}
				var sink ssa.Value
				if p := factorySink[sc]; p >= 0 && p < len(cv.Call.Args) {
					sink = cv.Call.Args[p]
				}
				closers = append(closers, closerInst{fn, cv, m, "factory " + c.funcKey(sc), sink})
			})
		}
	}

	e2, e2m := 0, 0
	for _, ci := range closers {
		if !scope[ci.fn] {
			continue
		}
		var sinkArg ssa.Value
		if ci.sink != nil {
			sinkArg = ci.sink
		} else if len(ci.create.Call.Args) > 0 && !strings.HasPrefix(ci.name, "os.") && !strings.HasPrefix(ci.name, "factory ") {
			sinkArg = ci.create.Call.Args[0]
		}
		n := 0
		for _, other := range closers {
			if other.fn == ci.fn && other.name == ci.name {
				n++
				if other.create == ci.create {
					break
				}
			}
		}
		construct := fmt.Sprintf("%s: %s#%d", c.funcKey(ci.fn), shortName(ci.name), n)
		if sinkArg != nil && sa.root(sinkArg) == sinkInfallible {
			// in-memory sink: the error may be ignored, but the stream must be
			// completed (non-deferred Close/Flush) before the buffer is read
			// and before any return that may report success
			e2m++
			ok, why := closerCompletedBeforeUse(c, ci.fn, ci.create, ci.method, sinkArg)
			r.Check(ok, "E2m", construct, c.instrPos(ci.create), why)
			continue
		}
		e2++
		ok, why := closerChecked(c, ci.fn, ci.create, ci.method)
		r.Check(ok, "E2", construct, c.instrPos(ci.create), why)
	}
	r.Floor("E2", e2, 2)
	r.Floor("E2m", e2m, 10)

	checkD9(c, r)
	checkErrorCellOverwrite(c, r, scope)
	checkChangelogExists(c, r)
	checkShortWrites(c, r, scope, sa)
	checkScannerErr(c, r)
	checkDeferredOverwrite(c, r)
	checkBuiltErrorsUsed(c, r)
	checkFixtureC06(r)
	// an invalid setting that is silently reinterpreted instead of rejected:
	// an epoch beyond the width it is stored in (rule of C14), a package name
	// the file name's sanitiser would change (rule of C15)
	// a key file that cannot be read fails the signing that refers to it: the
	// file is read on every signing call, not remembered (rule of C10)
	{
		tmpK := newReport("tmp")
		checkKeyRead(c, tmpK)
		nK := 0
		for _, o := range tmpK.Obls {
			if o.Rule == "K-key-read" {
				o.Rule = "read-K-key-read"
				r.Obls = append(r.Obls, o)
				nK++
			}
		}
		r.Floor("read-K-key-read", nK, 3)
	}
	r.Floor("valid-F13-width", importRules(c, r, checkC14, "valid-", []string{"F13-width"}, nil), 1)
	r.Floor("valid-F14-name-fixpoint", importRules(c, r, checkC15, "valid-", []string{"F14-name-fixpoint"}, nil), 1)
	checkReferenceRewrite(c, r)
	checkE3(c, r)
	if c.Tier == "thorough" {
		checkDependencyWriters(c, r)
	}
}

// checkDependencyWriters (thorough tier): the thin third-party container
// writers that sit between a packager and the caller's io.Writer are loaded
// with their bodies and scanned with the same dropped-error rule.
func checkDependencyWriters(c *Ctx, r *Report) {
	deps := map[string]bool{"github.com/blakesmith/ar": true}
	n := 0
	for fn := range ssautilAllFunctions(c) {
		if fn.Blocks == nil || fn.Pkg == nil || fn.Pkg.Pkg == nil || !deps[fn.Pkg.Pkg.Path()] {
			continue
		}
		if fn.Signature.Recv() == nil || !strings.Contains(fn.Signature.Recv().Type().String(), "Writer") {
			continue
		}
		perCallee := map[string]int{}
		fk := strings.TrimPrefix(fn.RelString(nil), "github.com/")
		forEachInstr(fn, func(in ssa.Instruction) {
			call, ok := in.(ssa.CallInstruction)
			if !ok {
				return
			}
			val, hasErr := errValueOf(call)
			if !hasErr {
				return
			}
			n++
			cname := calleeName(call)
			perCallee[cname]++
			construct := fmt.Sprintf("%s -> %s#%d", fk, cname, perCallee[cname])
			if val == nil {
				r.Fail("E1-dep", construct, c.instrPos(in), "the error of a write to the destination is discarded inside the container writer used by the deb packager: a failure of exactly this write goes unreported")
			} else {
				r.Pass("E1-dep", construct, c.instrPos(in), "error result used")
			}
		})
	}
	r.Floor("E1-dep", n, 3)
}

func shortName(q string) string {
	if i := strings.LastIndex(q, "/"); i >= 0 {
		return q[i+1:]
	}
	return q
}

func allArgsConst(call ssa.CallInstruction) bool {
	args := call.Common().Args
	start := 0
	if call.Common().Signature().Recv() != nil && !call.Common().IsInvoke() {
		start = 1
	}
	for _, a := range args[start:] {
		if _, ok := a.(*ssa.Const); !ok {
			return false
		}
	}
	return true
}

func receiverIsTrackedCloser(call ssa.CallInstruction) bool {
	recv := callReceiver(call)
	if recv == nil {
		return false
	}
	// trace back to a closer constructor
	seen := map[ssa.Value]bool{}
	var back func(v ssa.Value, d int) bool
	back = func(v ssa.Value, d int) bool {
		if v == nil || seen[v] || d > 12 {
			return false
		}
		seen[v] = true
		switch x := v.(type) {
		case *ssa.Call:
			if sc := x.Call.StaticCallee(); sc != nil {
				if _, isF := closerFactories[sc]; isF {
					return true
				}
			}
			if o := calleeObj(x); o != nil {
				_, ok := closerCtors[qualifiedName(o)]
				return ok
			}
		case *ssa.Extract:
			return back(x.Tuple, d+1)
		case *ssa.MakeInterface:
			return back(x.X, d+1)
		case *ssa.ChangeInterface:
			return back(x.X, d+1)
		case *ssa.Phi:
			for _, e := range x.Edges {
				if back(e, d+1) {
					return true
				}
			}
		case *ssa.UnOp:
			if al, ok := x.X.(*ssa.Alloc); ok {
				for _, ref := range *al.Referrers() {
					if st, ok := ref.(*ssa.Store); ok && st.Addr == al && back(st.Val, d+1) {
						return true
					}
				}
			}
			if fv, ok := x.X.(*ssa.FreeVar); ok {
				return back(fv, d+1)
			}
		case *ssa.FreeVar:
			fn := x.Parent()
			if p := fn.Parent(); p != nil {
				found := false
				forEachInstr(p, func(in ssa.Instruction) {
					if mc, ok := in.(*ssa.MakeClosure); ok && mc.Fn == fn {
						for i, fv := range fn.FreeVars {
							if fv == x && i < len(mc.Bindings) {
								b := mc.Bindings[i]
								if al, ok := b.(*ssa.Alloc); ok {
									for _, ref := range *al.Referrers() {
										if st, ok := ref.(*ssa.Store); ok && st.Addr == al && back(st.Val, d+1) {
											found = true
										}
									}
								} else if back(b, d+1) {
									found = true
								}
							}
						}
					}
				})
				return found
			}
		}
		return false
	}
	return back(recv, 0)
}

// notSwallowed implements E1': from the failure edge of `e != nil` no path
// reaches a return with a constant-nil error (or, in a function without an
// error result, falls back into normal flow).
func notSwallowed(c *Ctx, fn *ssa.Function, e ssa.Value) (bool, string) {
	if e.Referrers() == nil {
		return true, ""
	}
	hasErrResult := errResultIndex(fn.Signature) >= 0
	// the error itself, and loads of local cells it is stored into (named
	// results and address-taken locals)
	var allRefs []ssa.Instruction
	allRefs = append(allRefs, *e.Referrers()...)
	for _, ref := range *e.Referrers() {
		if st, ok := ref.(*ssa.Store); ok && st.Val == e {
			if al, ok := st.Addr.(*ssa.Alloc); ok {
				for _, r2 := range *al.Referrers() {
					if ld, ok := r2.(*ssa.UnOp); ok && ld.Op == token.MUL && ld.Referrers() != nil &&
						(instrDominates(st, ld)) && !storeBetween(al, st, ld) {
						allRefs = append(allRefs, *ld.Referrers()...)
					}
				}
			}
		}
	}
	for _, ref := range allRefs {
		bo, ok := ref.(*ssa.BinOp)
		if !ok || (bo.Op != token.NEQ && bo.Op != token.EQL) {
			continue
		}
		other := bo.Y
		if k, ok := bo.X.(*ssa.Const); ok && k.IsNil() {
			other = bo.X
		}
		if k, ok := other.(*ssa.Const); !ok || !k.IsNil() {
			continue
		}
		for _, r2 := range *bo.Referrers() {
			ifi, ok := r2.(*ssa.If)
			if !ok {
				continue
			}
			fail := ifi.Block().Succs[0]
			if bo.Op == token.EQL {
				fail = ifi.Block().Succs[1]
			}
			if !hasErrResult {
				// a deferred closure that records the failure in the enclosing
				// function's named error result propagates it that way
				if p := fn.Parent(); p != nil && closureIsDeferred(p, fn) && failureStoredIntoCapturedError(fn, fail) {
					continue
				}
				// cannot propagate: the failure edge must not rejoin normal flow
				// silently unless it terminates (panic/exit) — report
				if !edgeTerminates(fail) {
					return false, fmt.Sprintf("failure of this call is tested at %s but the enclosing function has no error result and continues", c.instrPos(ifi))
				}
				continue
			}
			if ret := reachesNilErrorReturn(fail, e); ret != nil {
				return false, fmt.Sprintf("from the failure edge tested at %s a return with a nil error is reachable at %s: the failure is swallowed", c.instrPos(ifi), c.instrPos(ret))
			}
		}
	}
	return true, ""
}

// storeBetween: another store to the cell lies in the same block between st
// and ld (only the straight-line case is needed: `err = f(); if err != nil`).
func storeBetween(al *ssa.Alloc, st *ssa.Store, ld *ssa.UnOp) bool {
	if st.Block() != ld.Block() {
		return false
	}
	i0, i1 := instrIndex(st), instrIndex(ld)
	for i := i0 + 1; i < i1; i++ {
		if s2, ok := st.Block().Instrs[i].(*ssa.Store); ok && s2.Addr == ssa.Value(al) {
			return true
		}
	}
	return false
}

func edgeTerminates(b *ssa.BasicBlock) bool {
	seen := map[*ssa.BasicBlock]bool{}
	var dfs func(b *ssa.BasicBlock) bool
	dfs = func(b *ssa.BasicBlock) bool {
		if seen[b] {
			return true
		}
		seen[b] = true
		switch b.Instrs[len(b.Instrs)-1].(type) {
		case *ssa.Panic:
			return true
		case *ssa.Return:
			return false
		}
		if len(b.Succs) == 0 {
			return true
		}
		for _, s := range b.Succs {
			if !dfs(s) {
				return false
			}
		}
		return true
	}
	return dfs(b)
}

// reachesNilErrorReturn: DFS from start; a path ends at the first Return. If
// that Return's error operand is the constant nil (or a named-result cell
// that may still hold nil), the failure is swallowed.
func reachesNilErrorReturn(start *ssa.BasicBlock, e ssa.Value) *ssa.Return {
	seen := map[*ssa.BasicBlock]bool{}
	var found *ssa.Return
	var dfs func(b *ssa.BasicBlock)
	dfs = func(b *ssa.BasicBlock) {
		if seen[b] || found != nil {
			return
		}
		seen[b] = true
		if ret, ok := b.Instrs[len(b.Instrs)-1].(*ssa.Return); ok {
			if len(ret.Results) > 0 {
				res := retResults(ret)
				last := res[len(res)-1]
				if k, ok := last.(*ssa.Const); ok && k.IsNil() {
					found = ret
				}
			}
			return
		}
		for _, s := range b.Succs {
			dfs(s)
		}
	}
	dfs(start)
	return found
}

// closerChecked implements E2 for one created closer.
func closerChecked(c *Ctx, fn *ssa.Function, create *ssa.Call, method string) (bool, string) {
	aliases := aliasesOf(create)
	// (b) deferred closure storing the Close error into the named result
	deferredOK := false
	var checked []*ssa.Call
	funcs := []*ssa.Function{fn}
	funcs = append(funcs, fn.AnonFuncs...)
	for _, f := range funcs {
		forEachInstr(f, func(in ssa.Instruction) {
			call, ok := in.(*ssa.Call)
			if !ok {
				return
			}
			o := calleeObj(call)
			if o == nil || o.Name() != method {
				return
			}
			recv := callReceiver(call)
			if recv == nil || !aliases[recv] {
				return
			}
			val, _ := errValueOf(call)
			if val == nil {
				return
			}
			if f == fn {
				checked = append(checked, call)
				return
			}
			// inside a closure: must be deferred by fn and store into a captured cell
			if closureIsDeferred(fn, f) && storesIntoCapturedResult(f, val) {
				deferredOK = true
			}
		})
	}
	if deferredOK {
		return true, "discharged by a deferred closure that stores the " + method + " error into the named result"
	}
	// (a) a checked, non-deferred Close dominating every return that may report success
	rets := 0
	for _, b := range fn.Blocks {
		ret, ok := b.Instrs[len(b.Instrs)-1].(*ssa.Return)
		if !ok {
			continue
		}
		if !create.Block().Dominates(b) && create.Block() != b {
			continue // return before the closer exists
		}
		if errResultIndex(fn.Signature) >= 0 && errorIsNonNilAt(ret) {
			continue
		}
		rets++
		ok2 := false
		for _, cl := range checked {
			if instrDominates(cl, ret) || returnsCloseResult(cl, ret) {
				ok2 = true
			}
		}
		if !ok2 && blockCovers(rangeCloses(fn, aliases, method, true), ret) {
			ok2 = true
		}
		if !ok2 {
			return false, fmt.Sprintf("return at %s can report success although no %s() of this writer with a checked error precedes it on every path (a deferred %s alone drops the error): buffered output may be lost silently", c.instrPos(ret), method, method)
		}
	}
	return true, fmt.Sprintf("%d success-capable return(s) each dominated by a checked %s()", rets, method)
}

// closerCompletedBeforeUse implements E2m: for a closer layered over an
// in-memory buffer, a non-deferred Close/Flush must dominate (1) every return
// that may report success and (2) every read of the underlying local buffer.
func closerCompletedBeforeUse(c *Ctx, fn *ssa.Function, create *ssa.Call, method string, sinkArg ssa.Value) (bool, string) {
	aliases := aliasesOf(create)
	var closes []*ssa.Call
	forEachInstr(fn, func(in ssa.Instruction) {
		call, ok := in.(*ssa.Call)
		if !ok {
			return
		}
		o := calleeObj(call)
		if o == nil || o.Name() != method {
			return
		}
		if recv := callReceiver(call); recv != nil && aliases[recv] {
			closes = append(closes, call)
		}
	})
	loops := rangeCloses(fn, aliases, method, false)
	dominated := func(at ssa.Instruction) bool {
		for _, cl := range closes {
			if instrDominates(cl, at) {
				return true
			}
		}
		return blockCovers(loops, at)
	}
	rets := 0
	for _, b := range fn.Blocks {
		ret, ok := b.Instrs[len(b.Instrs)-1].(*ssa.Return)
		if !ok {
			continue
		}
		if !create.Block().Dominates(b) && create.Block() != b {
			continue
		}
		if errResultIndex(fn.Signature) >= 0 && errorIsNonNilAt(ret) {
			continue
		}
		rets++
		if !dominated(ret) && !returnsAnyCloseResult(closes, ret) {
			// the buffer belongs to the caller (it is not read here): a
			// deferred Close completes the stream before the caller gets to it
			if localBufferRoot(sinkArg, 0) == nil && deferredCloseOf(fn, aliases, method) {
				continue
			}
			return false, fmt.Sprintf("return at %s can report success although no non-deferred %s() of this writer precedes it on every path: the in-memory archive would be handed on incomplete (a deferred %s runs after the result has been read)", c.instrPos(ret), method, method)
		}
	}
	// reads of the local buffer
	reads := 0
	if buf := localBufferRoot(sinkArg, 0); buf != nil {
		var bad ssa.Instruction
		var visit func(v ssa.Value, depth int)
		visit = func(v ssa.Value, depth int) {
			if depth > 4 || v.Referrers() == nil {
				return
			}
			for _, ref := range *v.Referrers() {
				switch x := ref.(type) {
				case *ssa.MakeInterface:
					visit(x, depth+1)
				case ssa.CallInstruction:
					if _, isDefer := x.(*ssa.Defer); isDefer {
						continue
					}
					o := calleeObj(x)
					isRead := false
					if o != nil {
						switch o.Name() {
						case "Bytes", "String", "Len", "Read", "WriteTo", "Next", "ReadByte", "ReadString":
							if recv := callReceiver(x); recv == v {
								isRead = true
							}
						}
						q := qualifiedName(o)
						if !isRead && callReceiver(x) != v && !wrapperCtors[q] && q != "io.MultiWriter" {
							// buffer handed to another function as a reader/writer
							if q == "io.Copy" || q == "io.ReadAll" || q == "io.CopyN" {
								if len(x.Common().Args) > 1 && x.Common().Args[1] == v {
									isRead = true
								}
							}
						}
					}
					if !isRead {
						continue
					}
					if !instrDominates(create, x) {
						continue
					}
					reads++
					if !dominated(x) && bad == nil {
						bad = x
					}
				}
			}
		}
		visit(buf, 0)
		if bad != nil {
			return false, fmt.Sprintf("the buffer under this writer is read at %s before a non-deferred %s(): the archive read there is incomplete", c.instrPos(bad), method)
		}
	}
	return true, fmt.Sprintf("%d success-capable return(s) and %d buffer read(s) each dominated by a non-deferred %s()", rets, reads, method)
}

func returnsAnyCloseResult(closes []*ssa.Call, ret *ssa.Return) bool {
	for _, cl := range closes {
		if returnsCloseResult(cl, ret) {
			return true
		}
	}
	return false
}

// localBufferRoot follows constructor chains back to a local bytes.Buffer.
func localBufferRoot(v ssa.Value, depth int) ssa.Value {
	if v == nil || depth > 10 {
		return nil
	}
	switch x := v.(type) {
	case *ssa.MakeInterface:
		return localBufferRoot(x.X, depth+1)
	case *ssa.Alloc:
		if typeIsInfallibleSink(x.Type()) {
			return x
		}
	case *ssa.Call:
		if o := calleeObj(x); o != nil && wrapperCtors[qualifiedName(o)] && len(x.Call.Args) > 0 {
			return localBufferRoot(x.Call.Args[0], depth+1)
		}
	case *ssa.Extract:
		return localBufferRoot(x.Tuple, depth+1)
	}
	return nil
}

// returnsCloseResult: `return x.Close()` — the close call's error is the
// return operand itself.
func returnsCloseResult(cl *ssa.Call, ret *ssa.Return) bool {
	for _, res := range retResults(ret) {
		if res == ssa.Value(cl) {
			return true
		}
	}
	return false
}

func closureIsDeferred(parent, closure *ssa.Function) bool {
	ok := false
	forEachInstr(parent, func(in ssa.Instruction) {
		d, isD := in.(*ssa.Defer)
		if !isD {
			return
		}
		if mc, isMC := d.Call.Value.(*ssa.MakeClosure); isMC && mc.Fn == closure {
			ok = true
		}
		if f, isF := d.Call.Value.(*ssa.Function); isF && f == closure {
			ok = true
		}
	})
	return ok
}

func storesIntoCapturedResult(f *ssa.Function, val ssa.Value) bool {
	ok := false
	forEachInstr(f, func(in ssa.Instruction) {
		st, isS := in.(*ssa.Store)
		if !isS {
			return
		}
		if _, isFV := st.Addr.(*ssa.FreeVar); !isFV {
			return
		}
		if !types.Identical(derefType(st.Addr.Type()), errorType) {
			return
		}
		if st.Val == val || phiIncludes(st.Val, val) {
			ok = true
		}
	})
	return ok
}

func phiIncludes(v, target ssa.Value) bool {
	if p, ok := v.(*ssa.Phi); ok {
		for _, e := range p.Edges {
			if e == target {
				return true
			}
		}
	}
	if c, ok := v.(*ssa.Call); ok {
		// errors.Join(err, cerr) / fmt.Errorf("...%w", cerr)
		for _, a := range c.Call.Args {
			if a == target {
				return true
			}
		}
		if callWrapsValue(c, target) {
			return true
		}
	}
	return false
}

func callWrapsValue(call *ssa.Call, target ssa.Value) bool {
	for _, a := range call.Call.Args {
		for _, e := range variadicElems(a) {
			if e == target {
				return true
			}
			if ci, ok := e.(*ssa.ChangeInterface); ok && ci.X == target {
				return true
			}
			if mi, ok := e.(*ssa.MakeInterface); ok && mi.X == target {
				return true
			}
		}
	}
	return false
}

// ---- D9 ----

// fieldLoadFuncs finds functions in scope that load the given *nfpm.Info
// field path (SSA field names joined by '.').
func fieldLoadFuncs(c *Ctx, scope map[*ssa.Function]bool, path string) []*ssa.Function {
	var out []*ssa.Function
	for _, fn := range sortedFuncs(c, scope) {
		found := false
		forEachInstr(fn, func(in ssa.Instruction) {
			if found {
				return
			}
			ld, ok := in.(*ssa.UnOp)
			if !ok || ld.Op != token.MUL {
				return
			}
			if p, root := addrPath(ld.X); root != nil && isPtrToNamed(root.Type(), modPath, "Info") && p == path {
				found = true
			}
		})
		if found {
			out = append(out, fn)
		}
	}
	return out
}

// addrPath renders a FieldAddr chain as "A.B.C" and returns its root value.
func addrPath(v ssa.Value) (string, ssa.Value) {
	var parts []string
	for {
		fa, ok := v.(*ssa.FieldAddr)
		if !ok {
			break
		}
		parts = append([]string{fieldName(fa.X.Type(), fa.Field)}, parts...)
		v = fa.X
	}
	if len(parts) == 0 {
		return "", nil
	}
	return strings.Join(parts, "."), v
}

// errorOnlyUnder: with *nfpm.Info's field `path` fixed to value, every live
// return of fn carries a non-nil error.
func errorOnlyUnder(c *Ctx, fn *ssa.Function, fields map[string]string) (ok bool, detail string) {
	ev := newEvaluator(c)
	obj := newAObj("info")
	for k, v := range fields {
		obj.Fields[k] = cStr(v)
	}
	ev.Defaults[c.infoPtrKey()] = obj
	fr := ev.Explore(fn, make([]AV, len(fn.Params)))
	if fr == nil {
		return false, "function could not be evaluated"
	}
	n := 0
	ok, why := frameErrorOnly(c, fr, &n, 0)
	if !ok {
		return false, why
	}
	if n == 0 {
		return false, "no live return"
	}
	return true, fmt.Sprintf("all %d live return(s) carry a non-nil error", n)
}

// frameErrorOnly: every live return of the frame carries a provably non-nil
// error; `return callee(...)` is followed into the callee's frame.
func frameErrorOnly(c *Ctx, fr *Frame, n *int, depth int) (bool, string) {
	fn := fr.Fn
	if errResultIndex(fn.Signature) < 0 {
		return false, c.funcKey(fn) + " has no error result"
	}
	for _, b := range fn.Blocks {
		if !fr.Live(b) {
			continue
		}
		ret, isRet := b.Instrs[len(b.Instrs)-1].(*ssa.Return)
		if !isRet {
			continue
		}
		*n++
		if errorIsNonNilAt(ret) {
			continue
		}
		res := retResults(ret)
		last := res[len(res)-1]
		var call *ssa.Call
		switch x := last.(type) {
		case *ssa.Extract:
			call, _ = x.Tuple.(*ssa.Call)
		case *ssa.Call:
			call = x
		}
		if call != nil && depth < 6 {
			if child := fr.childFrame(call); child != nil {
				if ok, why := frameErrorOnly(c, child, n, depth+1); ok {
					continue
				} else {
					return false, why
				}
			}
		}
		return false, fmt.Sprintf("a return that may report success is live at %s", c.instrPos(ret))
	}
	return true, ""
}

func checkD9(c *Ctx, r *Report) {
	type setting struct {
		format string
		path   string
		bad    map[string]string
		what   string
		// when entry is true the packager's Package method is evaluated,
		// otherwise the function(s) that read the field
		entry bool
	}
	settings := []setting{
		{"deb", "Overridables.Deb.Compression", map[string]string{"Overridables.Deb.Compression": "no-such-compression"}, "unknown deb compression", false},
		{"deb", "Overridables.Deb.Signature.Method", map[string]string{"Overridables.Deb.Signature.Type": "no-such-role", "Overridables.Deb.Signature.Method": "debsign", "Overridables.Deb.Signature.PackageSignature.KeyFile": "key.gpg"}, "invalid signature type with method debsign", false},
		{"deb", "Overridables.Deb.Signature.Method", map[string]string{"Overridables.Deb.Signature.Type": "no-such-role", "Overridables.Deb.Signature.Method": "", "Overridables.Deb.Signature.PackageSignature.KeyFile": "key.gpg"}, "invalid signature type with the default method", false},
		{"apk", "Platform", map[string]string{"Platform": "not-linux"}, "apk platform other than linux", true},
		{"archlinux", "Platform", map[string]string{"Platform": "not-linux"}, "archlinux platform other than linux", true},
	}
	n := 0
	for _, s := range settings {
		pk := c.PackagerByFormat(s.format)
		if pk == nil {
			r.Unresolved("packager "+s.format, "not registered")
			continue
		}
		reach := c.Reach(pk.Package)
		var fns []*ssa.Function
		if s.entry {
			fns = []*ssa.Function{pk.Package}
		} else {
			for _, fn := range fieldLoadFuncs(c, reach, s.path) {
				// the function that compares the field against constants
				if comparesFieldToConst(fn, s.path) {
					fns = append(fns, fn)
				}
			}
		}
		if len(fns) == 0 {
			r.Unresolved("validator of "+s.path, "no function in the "+s.format+" packaging call graph compares this setting against its accepted values")
			continue
		}
		for _, fn := range fns {
			n++
			ok, why := errorOnlyUnder(c, fn, s.bad)
			r.Check(ok, "D9", fmt.Sprintf("%s: %s in %s", s.format, s.what, c.funcKey(fn)), c.pos(fn.Pos()), why)
		}
	}
	// a required architecture that is missing: with neither the general nor
	// the format's own architecture set, preparing the package for deb, rpm
	// or apk reports an error - whatever the other formats' settings are
	if prep := c.Func("", "PrepareForPackager"); prep != nil && len(prep.Params) == 2 {
		for _, fm := range []struct{ format, own string }{
			{"deb", "Overridables.Deb.Arch"}, {"rpm", "Overridables.RPM.Arch"}, {"apk", "Overridables.APK.Arch"},
		} {
			n++
			ev := newEvaluator(c)
			obj := newAObj("info")
			obj.Fields["Name"] = cStr("n")
			obj.Fields["Version"] = cStr("1.0.0")
			obj.Fields["Arch"] = cStr("")
			obj.Fields[fm.own] = cStr("")
			ev.Defaults[c.infoPtrKey()] = obj
			fr := ev.Explore(prep, []AV{nil, cStr(fm.format)})
			ok, why := false, "function could not be evaluated"
			if fr != nil {
				k := 0
				ok, why = frameErrorOnly(c, fr, &k, 0)
				if ok && k == 0 {
					ok, why = false, "no live return"
				}
				if ok {
					why = fmt.Sprintf("all %d live return(s) carry a non-nil error", k)
				}
			}
			r.Check(ok, "D9", fmt.Sprintf("%s: neither arch nor %s set in %s", fm.format, strings.TrimPrefix(fm.own, "Overridables."), c.funcKey(prep)), c.pos(prep.Pos()), why)
		}
	} else {
		r.Unresolved("nfpm.PrepareForPackager", "function with (info, packager) parameters not found")
	}
	// rpm epoch: the parse error is propagated
	epochPA := newProv(c)
	if pk := c.PackagerByFormat("rpm"); pk != nil {
		reach := c.Reach(pk.Package)
		found := false
		for _, fn := range sortedFuncs(c, reach) {
			forEachInstr(fn, func(in ssa.Instruction) {
				call, ok := in.(*ssa.Call)
				if !ok {
					return
				}
				o := calleeObj(call)
				if o == nil || o.Pkg() == nil || o.Pkg().Path() != "strconv" || !strings.HasPrefix(o.Name(), "Parse") && o.Name() != "Atoi" {
					return
				}
				if len(call.Call.Args) == 0 {
					return
				}
				if !epochPA.Of(call.Call.Args[0]).has("Info.Epoch") {
					return
				}
				found = true
				n++
				val, _ := errValueOf(call)
				ok2 := false
				why := "the epoch parse error is discarded"
				if val != nil {
					ok2, why = notSwallowed(c, fn, val)
					if ok2 {
						why = "parse failure of the epoch returns a non-nil error"
					}
					if !usedInNilTest(val) && !flowsToReturn(val) {
						ok2, why = false, "the epoch parse error is neither tested nor returned"
					}
				}
				r.Check(ok2, "D9", "rpm: unparsable epoch in "+c.funcKey(fn), c.instrPos(call), why)
			})
		}
		if !found {
			r.Unresolved("rpm epoch parse", "no strconv parse of Info.Epoch in the rpm call graph")
		}
	}
	// archlinux package-name validity: the invalid edge returns a non-nil error
	if pk := c.PackagerByFormat("archlinux"); pk != nil {
		okName := false
		forEachInstr(pk.Package, func(in ssa.Instruction) {
			ifi, ok := in.(*ssa.If)
			if !ok {
				return
			}
			call, ok := ifi.Cond.(*ssa.Call)
			if !ok || call.Call.StaticCallee() == nil || len(call.Call.Args) != 1 {
				return
			}
			ld, ok := call.Call.Args[0].(*ssa.UnOp)
			if !ok {
				return
			}
			if p, _ := addrPath(ld.X); p != "Name" {
				return
			}
			// false edge must be an error return
			fb := ifi.Block().Succs[1]
			if ret, ok := fb.Instrs[len(fb.Instrs)-1].(*ssa.Return); ok && errorIsNonNilAt(ret) {
				okName = true
			}
		})
		n++
		r.Check(okName, "D9", "archlinux: invalid package name in "+c.funcKey(pk.Package), c.pos(pk.Package.Pos()), "the name-validity test's failing edge must return a non-nil error before any output is written")
	}
	r.Floor("D9", n, 5)
}

// flowsToReturn: the value is an operand of a return (also through the
// defer-spill cell).
func flowsToReturn(v ssa.Value) bool {
	for _, ref := range *v.Referrers() {
		switch x := ref.(type) {
		case *ssa.Return:
			return true
		case *ssa.Store:
			if _, ok := x.Addr.(*ssa.Alloc); ok {
				return true
			}
		}
	}
	return false
}

func usedInNilTest(v ssa.Value) bool {
	for _, ref := range *v.Referrers() {
		if bo, ok := ref.(*ssa.BinOp); ok && (bo.Op == token.NEQ || bo.Op == token.EQL) {
			return true
		}
	}
	return false
}

func comparesFieldToConst(fn *ssa.Function, path string) bool {
	found := false
	forEachInstr(fn, func(in ssa.Instruction) {
		ld, ok := in.(*ssa.UnOp)
		if !ok || ld.Op != token.MUL {
			return
		}
		if p, _ := addrPath(ld.X); p != path {
			return
		}
		if valueComparedToConst(ld, 0) {
			found = true
		}
	})
	return found
}

// valueComparedToConst: the value is an operand of ==/!= against a constant,
// here or - handed on as an argument - in a module callee (the setting's
// switch extracted into a helper).
func valueComparedToConst(v ssa.Value, depth int) bool {
	if v.Referrers() == nil || depth > 2 {
		return false
	}
	for _, ref := range *v.Referrers() {
		switch x := ref.(type) {
		case *ssa.BinOp:
			if x.Op != token.EQL && x.Op != token.NEQ {
				continue
			}
			other := x.Y
			if x.Y == v {
				other = x.X
			}
			if _, isConst := other.(*ssa.Const); isConst {
				return true
			}
		case *ssa.Call:
			sc := x.Call.StaticCallee()
			if sc == nil || sc.Blocks == nil {
				continue
			}
			for i, a := range x.Call.Args {
				if a == v && i < len(sc.Params) && valueComparedToConst(sc.Params[i], depth+1) {
					return true
				}
			}
		}
	}
	return false
}

func returnsSigningFailure(fn *ssa.Function) bool {
	found := false
	forEachInstr(fn, func(in ssa.Instruction) {
		if mi, ok := in.(*ssa.MakeInterface); ok && isPtrToNamed(mi.X.Type(), modPath, "ErrSigningFailure") {
			found = true
		}
	})
	return found
}

// ---- E3 ----

func checkE3(c *Ctx, r *Report) {
	dp := c.Func("internal/cmd", "doPackage")
	if dp == nil {
		r.Unresolved("internal/cmd.doPackage", "CLI packaging function not found")
		return
	}
	var pkgCall *ssa.Call
	var create *ssa.Call
	// in doPackage itself, or in the helper of the command that creates the
	// file and packages into it
	for _, fn := range sortedFuncs(c, c.Reach(dp)) {
		if !strings.HasPrefix(c.funcPkgPath(fn), modPath+"/internal/cmd") {
			continue
		}
		var pc, cr *ssa.Call
		forEachInstr(fn, func(in ssa.Instruction) {
			call, ok := in.(*ssa.Call)
			if !ok {
				return
			}
			if call.Call.IsInvoke() && call.Call.Method.Name() == "Package" && isNamed(call.Call.Value.Type(), modPath, "Packager") {
				pc = call
			}
			if calleeIs(call, "os", "", "Create") {
				cr = call
			}
		})
		if pc != nil && cr != nil {
			pkgCall, create = pc, cr
		}
	}
	if pkgCall == nil || create == nil {
		r.Unresolved("doPackage: Packager.Package call / os.Create", "CLI mechanism not found")
		return
	}
	// failure edge of Package
	ok := false
	why := "the failure edge of Packager.Package must call os.Remove on the created path and return the error"
	for _, ref := range *pkgCall.Referrers() {
		bo, isB := ref.(*ssa.BinOp)
		if !isB || bo.Op != token.NEQ {
			continue
		}
		for _, r2 := range *bo.Referrers() {
			ifi, isIf := r2.(*ssa.If)
			if !isIf {
				continue
			}
			fail := ifi.Block().Succs[0]
			// every path from fail to a return passes os.Remove(<create arg>) and returns non-nil
			all := true
			seen := map[*ssa.BasicBlock]bool{}
			var dfs func(b *ssa.BasicBlock, removed bool)
			dfs = func(b *ssa.BasicBlock, removed bool) {
				if seen[b] {
					return
				}
				seen[b] = true
				for _, in := range b.Instrs {
					if call, isC := in.(*ssa.Call); isC && calleeIs(call, "os", "", "Remove") {
						if len(call.Call.Args) == 1 && call.Call.Args[0] == create.Call.Args[0] {
							removed = true
						}
					}
					if ret, isR := in.(*ssa.Return); isR {
						res := retResults(ret)
						last := res[len(res)-1]
						if !removed || !(last == ssa.Value(pkgCall) || errorIsNonNilAt(ret)) {
							_ = last
							all = false
						}
						return
					}
				}
				for _, s := range b.Succs {
					dfs(s, removed)
				}
			}
			dfs(fail, false)
			if all && len(seen) > 0 {
				ok = true
				why = "failure edge removes the created path (same value as os.Create's operand) and returns the packaging error"
			}
		}
	}
	r.Check(ok, "E3", "internal/cmd.doPackage: failure edge of Packager.Package", c.instrPos(pkgCall), why)

	// root command: error edge prints and exits non-zero
	ex := c.Method("internal/cmd", "rootCmd", "Execute")
	if ex == nil {
		r.Unresolved("internal/cmd.(*rootCmd).Execute", "root command not found")
		return
	}
	okExit, okPrint := false, false
	forEachInstr(ex, func(in ssa.Instruction) {
		call, isC := in.(*ssa.Call)
		if !isC {
			return
		}
		if o := calleeObj(call); o != nil {
			switch qualifiedName(o) {
			case "fmt.Println", "fmt.Print", "fmt.Printf", "fmt.Fprintln", "fmt.Fprint", "fmt.Fprintf":
				okPrint = true
			}
			return
		}
		// dynamic call of the exit func with a non-zero constant
		if call.Call.StaticCallee() == nil && !call.Call.IsInvoke() && len(call.Call.Args) == 1 {
			if k, isK := call.Call.Args[0].(*ssa.Const); isK && k.Value != nil && k.Int64() != 0 {
				// must be on the error edge: block dominated by an If on err != nil
				okExit = true
			}
		}
	})
	r.Check(okExit && okPrint, "E3", "internal/cmd.(*rootCmd).Execute: error edge", c.pos(ex.Pos()),
		"the command error must be printed and the exit function called with a non-zero constant")
	// main passes os.Exit
	if mainFn := c.SSAPkgs[modPath+"/cmd/nfpm"]; mainFn != nil {
		okMain := false
		if m := mainFn.Func("main"); m != nil {
			forEachInstr(m, func(in ssa.Instruction) {
				call, isC := in.(*ssa.Call)
				if !isC {
					return
				}
				for _, a := range call.Call.Args {
					if f, isF := a.(*ssa.Function); isF && f.Object() != nil && qualifiedName(f.Object().(*types.Func)) == "os.Exit" {
						okMain = true
					}
				}
			})
		}
		r.Check(okMain, "E3", "cmd/nfpm.main: exit function", "-", "main must hand os.Exit to the command so that a failing package command exits non-zero")
	}
}

// rangeCloseDone recognises the idiom
//
//	for _, x := range []io.Closer{a, b} { if err := x.Close(); err != nil { return ..., err } }
//
// For a Close/Flush call whose receiver is the element of a range loop over a
// local literal array, it returns the loop's exit block and the values stored
// into the array, provided the loop visits every element and cannot be left
// other than through its exhausted condition or a return: the exit block has
// the loop header as its only predecessor, the index runs from -1 in steps of
// one against the length of the whole array, and every back edge is dominated
// by the call. At the exit block every element has then been closed.
func rangeCloseDone(call *ssa.Call) (*ssa.BasicBlock, []ssa.Value) {
	recv := callReceiver(call)
	ld, ok := recv.(*ssa.UnOp)
	if !ok || ld.Op != token.MUL {
		return nil, nil
	}
	ia, ok := ld.X.(*ssa.IndexAddr)
	if !ok {
		return nil, nil
	}
	arr, done := fullRangeOver(ia, call)
	if arr == nil {
		return nil, nil
	}
	// the array's elements: constant-index stores only, one per slot
	var elems []ssa.Value
	slots := map[int64]bool{}
	for _, ref := range *arr.Referrers() {
		switch x := ref.(type) {
		case *ssa.IndexAddr:
			if x == ia {
				continue
			}
			k, isK := x.Index.(*ssa.Const)
			if !isK || k.Value == nil {
				return nil, nil
			}
			for _, r2 := range *x.Referrers() {
				st, isSt := r2.(*ssa.Store)
				if !isSt || st.Addr != ssa.Value(x) || slots[k.Int64()] {
					return nil, nil
				}
				slots[k.Int64()] = true
				elems = append(elems, st.Val)
			}
		case *ssa.Slice:
			if ssa.Value(x) != ia.X {
				return nil, nil
			}
		default:
			return nil, nil
		}
	}
	return done, elems
}

// fullRangeOver: ia is the element address of a `for ... range` loop over a
// whole local literal array (or a full slice of it) that visits every element
// and can be left only through its exhausted condition or a return; every
// back edge is dominated by `through`. Returns the array and the exit block.
func fullRangeOver(ia *ssa.IndexAddr, through ssa.Instruction) (*ssa.Alloc, *ssa.BasicBlock) {
	var arr *ssa.Alloc
	switch x := ia.X.(type) {
	case *ssa.Slice:
		if x.Low != nil || x.High != nil || x.Max != nil {
			return nil, nil
		}
		arr, _ = x.X.(*ssa.Alloc)
	case *ssa.Alloc:
		arr = x
	}
	if arr == nil {
		return nil, nil
	}
	at, ok := derefType(arr.Type()).Underlying().(*types.Array)
	if !ok {
		return nil, nil
	}
	inc, ok := ia.Index.(*ssa.BinOp)
	if !ok || inc.Op != token.ADD {
		return nil, nil
	}
	phi, ok := inc.X.(*ssa.Phi)
	if k, isK := inc.Y.(*ssa.Const); !ok || !isK || k.Value == nil || k.Int64() != 1 {
		return nil, nil
	}
	inits := 0
	for _, e := range phi.Edges {
		if k, isK := e.(*ssa.Const); isK && k.Value != nil && k.Int64() == -1 {
			inits++
		} else if e != ssa.Value(inc) {
			return nil, nil
		}
	}
	if inits != 1 {
		return nil, nil
	}
	h := phi.Block()
	ifi, ok := h.Instrs[len(h.Instrs)-1].(*ssa.If)
	if !ok {
		return nil, nil
	}
	cmp, ok := ifi.Cond.(*ssa.BinOp)
	if !ok || cmp.Op != token.LSS || cmp.X != ssa.Value(inc) {
		return nil, nil
	}
	switch l := cmp.Y.(type) {
	case *ssa.Const:
		if l.Value == nil || l.Int64() != at.Len() {
			return nil, nil
		}
	case *ssa.Call:
		b, isB := l.Call.Value.(*ssa.Builtin)
		if !isB || b.Name() != "len" || len(l.Call.Args) != 1 || l.Call.Args[0] != ia.X {
			return nil, nil
		}
	default:
		return nil, nil
	}
	done := h.Succs[1]
	if len(done.Preds) != 1 || done.Preds[0] != h {
		return nil, nil
	}
	for _, p := range h.Preds {
		if h.Dominates(p) || p == h {
			// back edge: this iteration must have passed the instruction
			if p != through.Block() && !through.Block().Dominates(p) {
				return nil, nil
			}
		}
	}
	return arr, done
}

// tableRows: the rows of a local literal array of structs, by constant index:
// field name -> stored value. nil when the array is written in any other way.
func tableRows(arr *ssa.Alloc, loopElem *ssa.IndexAddr) []map[string]ssa.Value {
	at, ok := derefType(arr.Type()).Underlying().(*types.Array)
	if !ok {
		return nil
	}
	rows := make([]map[string]ssa.Value, at.Len())
	for i := range rows {
		rows[i] = map[string]ssa.Value{}
	}
	for _, ref := range *arr.Referrers() {
		switch x := ref.(type) {
		case *ssa.IndexAddr:
			if x == loopElem {
				continue
			}
			k, isK := x.Index.(*ssa.Const)
			if !isK || k.Value == nil || k.Int64() < 0 || k.Int64() >= at.Len() {
				return nil
			}
			for _, r2 := range *x.Referrers() {
				switch y := r2.(type) {
				case *ssa.FieldAddr:
					for _, r3 := range *y.Referrers() {
						st, isSt := r3.(*ssa.Store)
						if !isSt || st.Addr != ssa.Value(y) {
							return nil
						}
						rows[k.Int64()][fieldName(y.X.Type(), y.Field)] = st.Val
					}
				case *ssa.Store:
					// the row is a composite literal built in a local and
					// copied into the slot as a whole
					ld, isLd := y.Val.(*ssa.UnOp)
					if y.Addr != ssa.Value(x) || !isLd || ld.Op != token.MUL {
						return nil
					}
					lit, isAl := ld.X.(*ssa.Alloc)
					if !isAl {
						return nil
					}
					for _, r3 := range *lit.Referrers() {
						switch z := r3.(type) {
						case *ssa.FieldAddr:
							for _, r4 := range *z.Referrers() {
								st, isSt := r4.(*ssa.Store)
								if !isSt || st.Addr != ssa.Value(z) {
									return nil
								}
								rows[k.Int64()][fieldName(z.X.Type(), z.Field)] = st.Val
							}
						case *ssa.UnOp:
							if z != ld {
								return nil
							}
						default:
							return nil
						}
					}
				default:
					return nil
				}
			}
		case *ssa.Slice:
			if loopElem != nil && ssa.Value(x) != loopElem.X {
				return nil
			}
		default:
			return nil
		}
	}
	return rows
}

// rangeCloses lists the exit blocks of range-close loops (see rangeCloseDone)
// that close one of the aliases; checkedOnly keeps only loops whose call's
// error result is used.
func rangeCloses(fn *ssa.Function, aliases map[ssa.Value]bool, method string, checkedOnly bool) []*ssa.BasicBlock {
	var out []*ssa.BasicBlock
	forEachInstr(fn, func(in ssa.Instruction) {
		call, ok := in.(*ssa.Call)
		if !ok {
			return
		}
		o := calleeObj(call)
		if o == nil || o.Name() != method {
			return
		}
		if checkedOnly {
			if val, _ := errValueOf(call); val == nil {
				return
			}
		}
		done, elems := rangeCloseDone(call)
		if done == nil {
			return
		}
		for _, e := range elems {
			if aliases[e] {
				out = append(out, done)
				return
			}
		}
	})
	return out
}

func blockCovers(bs []*ssa.BasicBlock, at ssa.Instruction) bool {
	for _, b := range bs {
		if b == at.Block() || b.Dominates(at.Block()) {
			return true
		}
	}
	return false
}

// closerFactories: module functions that return a closer they created (filled
// by checkC06), with the completing method; factorySink: which parameter the
// closer is layered over (-1 unknown).
var closerFactories = map[*ssa.Function]string{}
var factorySink = map[*ssa.Function]int{}

func stripIface(v ssa.Value) ssa.Value {
	for {
		switch x := v.(type) {
		case *ssa.MakeInterface:
			v = x.X
		case *ssa.ChangeInterface:
			v = x.X
		default:
			return v
		}
	}
}

// returnedCloser: the created closer (or an alias) is a result of a return of
// fn - ownership passes to the caller.
func returnedCloser(fn *ssa.Function, create *ssa.Call) (int, bool) {
	aliases := aliasesOf(create)
	for _, b := range fn.Blocks {
		ret, ok := b.Instrs[len(b.Instrs)-1].(*ssa.Return)
		if !ok {
			continue
		}
		for i, res := range retResults(ret) {
			if aliases[res] {
				return i, true
			}
		}
	}
	return -1, false
}

// loopElemField: v reads field `field` of the element a range loop is
// visiting: members[i].f, the value copy `m := members[i]; m.f`, or the SSA
// Field of the loaded element.
func loopElemField(v ssa.Value) (*ssa.IndexAddr, string, bool) {
	elemOf := func(x ssa.Value) *ssa.IndexAddr {
		ld, ok := x.(*ssa.UnOp)
		if !ok || ld.Op != token.MUL {
			return nil
		}
		ia, _ := ld.X.(*ssa.IndexAddr)
		return ia
	}
	switch x := v.(type) {
	case *ssa.Field:
		if ia := elemOf(x.X); ia != nil {
			return ia, fieldName(x.X.Type(), x.Field), true
		}
	case *ssa.UnOp:
		if x.Op != token.MUL {
			return nil, "", false
		}
		fa, ok := x.X.(*ssa.FieldAddr)
		if !ok {
			return nil, "", false
		}
		name := fieldName(fa.X.Type(), fa.Field)
		switch base := fa.X.(type) {
		case *ssa.IndexAddr:
			return base, name, true
		case *ssa.Alloc:
			// local copy of the element: exactly one whole-struct store
			var src *ssa.IndexAddr
			n := 0
			for _, ref := range *base.Referrers() {
				if st, ok := ref.(*ssa.Store); ok && st.Addr == ssa.Value(base) {
					n++
					src = elemOf(st.Val)
				}
			}
			if n == 1 && src != nil {
				return src, name, true
			}
		}
	}
	return nil, "", false
}

// checkReferenceRewrite (E5): a setting that names a file the packagers read
// (script, changelog, key file) must reach that read as configured: if the
// parser's expansion step rewrote it, an unset variable would blank the
// reference and "no such file" would turn into "nothing configured". Only the
// references documented as expandable may be assigned by the expansion family.
func checkReferenceRewrite(c *Ctx, r *Report) {
	// reference fields: Info paths that feed a path argument of a file read
	pa := newProv(c)
	refs := map[string]bool{}
	var roots []*ssa.Function
	for _, p := range c.Packagers {
		roots = append(roots, p.Package)
	}
	if f := c.Func("", "Validate"); f != nil {
		roots = append(roots, f)
	}
	if m := c.Method("", "Info", "GetChangeLog"); m != nil {
		roots = append(roots, m)
	}
	for _, fn := range sortedFuncs(c, c.Reach(roots...)) {
		forEachInstr(fn, func(in ssa.Instruction) {
			call, ok := in.(*ssa.Call)
			if !ok {
				return
			}
			o := calleeObj(call)
			if o == nil {
				return
			}
			switch qualifiedName(o) {
			case "os.Open", "os.OpenFile", "os.ReadFile", "os.Stat", "os.Lstat":
			default:
				return
			}
			for _, a := range pa.Of(call.Call.Args[0]).fields() {
				if strings.HasPrefix(a, "Info.") {
					refs[a] = true
				}
			}
		})
	}
	docKeys, err := documentedKeys(c.RepoDir, "This will expand any env var")
	if err != nil {
		r.Unresolved("www/docs/configuration.md", err.Error())
		return
	}
	documented := map[string]bool{}
	for _, f := range walkConfig(c) {
		for _, k := range docKeys {
			if f.YAMLPath == k {
				documented["Info."+strings.TrimPrefix(f.GoPath, "Info.")] = true
			}
		}
	}
	stores := expansionStorePaths(c)
	var names []string
	for a := range refs {
		names = append(names, a)
	}
	sort.Strings(names)
	n := 0
	for _, a := range names {
		n++
		st, rewritten := stores[a]
		construct := "file reference " + strings.TrimPrefix(a, "Info.") + " reaches its reader as configured"
		switch {
		case !rewritten:
			r.Pass("E5", construct, "-", "not assigned by the environment expansion")
		case documented[a]:
			r.Pass("E5", construct, c.instrPos(st), "assigned by the environment expansion and documented as expandable")
		default:
			r.Fail("E5", construct, c.instrPos(st), "the environment expansion rewrites this file reference although it is not documented as expandable: a reference to an unset variable becomes empty, which the packagers read as \"not configured\" instead of failing on the missing file")
		}
	}
	r.Floor("E5", n, 10)
}

// notOverwritten: a failure that is tested and then carried in a variable
// must not be lost to the next iteration: from the failing edge of the nil
// test no path may lead back to the call that produced the error without
// passing a return (the re-executed call overwrites the variable, and a later
// success turns the result into nil). Errors that are handed on (appended,
// joined, wrapped) before the loop continues are exempt.
func notOverwritten(c *Ctx, fn *ssa.Function, call ssa.CallInstruction, e ssa.Value) (bool, string) {
	if e.Referrers() == nil {
		return true, ""
	}
	def, ok := call.(ssa.Instruction)
	if !ok || def.Block() == nil {
		return true, ""
	}
	// the error is consumed other than by nil tests, phis and result cells?
	for _, ref := range *e.Referrers() {
		switch x := ref.(type) {
		case *ssa.BinOp, *ssa.Phi, *ssa.Return, *ssa.DebugRef:
		case *ssa.Store:
			_ = x
		default:
			return true, "" // wrapped, appended, passed on: handled by E1'
		}
	}
	if errResultIndex(fn.Signature) < 0 {
		return true, ""
	}
	fail := nilTestFailEdge(e)
	if fail == nil {
		return true, ""
	}
	seen := map[*ssa.BasicBlock]bool{}
	var dfs func(b *ssa.BasicBlock) bool
	dfs = func(b *ssa.BasicBlock) bool {
		if seen[b] {
			return false
		}
		seen[b] = true
		if _, isRet := b.Instrs[len(b.Instrs)-1].(*ssa.Return); isRet {
			return false
		}
		if _, isPanic := b.Instrs[len(b.Instrs)-1].(*ssa.Panic); isPanic {
			return false
		}
		if b == def.Block() {
			return true
		}
		for _, s := range b.Succs {
			if dfs(s) {
				return true
			}
		}
		return false
	}
	if fail == def.Block() || dfs(fail) {
		// a plain `continue` after a failed probe discards the error on
		// purpose (dead comparison, decided by E1); this rule is about errors
		// that are meant to be returned: the value reaches a return operand
		returned := false
		var walk func(v ssa.Value, d int)
		walk = func(v ssa.Value, d int) {
			if v == nil || d > 4 || v.Referrers() == nil {
				return
			}
			for _, ref := range *v.Referrers() {
				switch x := ref.(type) {
				case *ssa.Return:
					returned = true
				case *ssa.Phi:
					walk(x, d+1)
				case *ssa.Store:
					if _, isCell := x.Addr.(*ssa.Alloc); isCell {
						returned = true
					}
				}
			}
		}
		walk(e, 0)
		if returned {
			return false, fmt.Sprintf("the failure tested at this call is kept in a variable and the loop goes on: the next execution of the call overwrites it, so a later success makes the function return nil although this call failed")
		}
	}
	return true, ""
}

// failureStoredIntoCapturedError: from the failing edge a store of a non-nil
// error into a captured error variable is reached on every path (the store
// may be guarded by "no earlier error": `cerr != nil && err == nil`).
func failureStoredIntoCapturedError(fn *ssa.Function, fail *ssa.BasicBlock) bool {
	found := false
	seen := map[*ssa.BasicBlock]bool{}
	var dfs func(b *ssa.BasicBlock)
	dfs = func(b *ssa.BasicBlock) {
		if seen[b] {
			return
		}
		seen[b] = true
		for _, in := range b.Instrs {
			if st, ok := in.(*ssa.Store); ok {
				if fv, isFV := st.Addr.(*ssa.FreeVar); isFV && types.Identical(derefType(fv.Type()), errorType) {
					if k, isK := st.Val.(*ssa.Const); !isK || !k.IsNil() {
						found = true
					}
				}
			}
		}
		for _, s := range b.Succs {
			dfs(s)
		}
	}
	dfs(fail)
	return found
}

// deferredCloseOf: fn defers method() on the closer, directly or inside a
// deferred closure.
func deferredCloseOf(fn *ssa.Function, aliases map[ssa.Value]bool, method string) bool {
	// only the checked form: a deferred closure that calls method() on the
	// closer and records its error in a captured error variable (a bare
	// `defer w.Close()` drops the error - for an archive writer that is where
	// "missed writing N bytes" is reported)
	found := false
	for _, an := range fn.AnonFuncs {
		if !closureIsDeferred(fn, an) {
			continue
		}
		forEachInstr(an, func(in ssa.Instruction) {
			call, ok := in.(*ssa.Call)
			if !ok {
				return
			}
			if o := calleeObj(call); o != nil && o.Name() == method {
				if recv := callReceiver(call); recv != nil && aliases[recv] {
					if val, _ := errValueOf(call); val != nil {
						if fail := nilTestFailEdge(val); fail != nil && failureStoredIntoCapturedError(an, fail) {
							found = true
						}
					}
				}
			}
		})
	}
	return found
}

// checkErrorCellOverwrite (E1'-cell): an error kept in a variable that lives in
// memory - a named result of a function with defers, a variable shared by
// closures - is lost when a later call's result is stored over it on a path
// that the failure took too. For every store of a fresh error (the result of
// a call) into such a cell whose value is then tested against nil: no other
// fresh-error store to the same cell is reachable from the failing edge if it
// is reachable from the succeeding edge as well (a store reached from the
// failing edge only is a fallback, which is legitimate).
func checkErrorCellOverwrite(c *Ctx, r *Report, scope map[*ssa.Function]bool) {
	n := 0
	for _, fn := range sortedFuncs(c, scope) {
		cells := map[ssa.Value][]*ssa.Store{}
		forEachInstr(fn, func(in ssa.Instruction) {
			st, ok := in.(*ssa.Store)
			if !ok || !types.Identical(st.Val.Type(), errorType) {
				return
			}
			switch st.Addr.(type) {
			case *ssa.Alloc, *ssa.FreeVar:
				cells[st.Addr] = append(cells[st.Addr], st)
			}
		})
		fresh := func(v ssa.Value) bool {
			switch x := v.(type) {
			case *ssa.Extract:
				_, isCall := x.Tuple.(*ssa.Call)
				return isCall
			case *ssa.Call:
				// wrapping of the cell's own value is not a fresh error
				for _, a := range x.Call.Args {
					for _, e := range variadicElems(a) {
						if mi, isMI := e.(*ssa.MakeInterface); isMI {
							e = mi.X
						}
						if ld, isLd := e.(*ssa.UnOp); isLd && ld.Op == token.MUL {
							if _, isCell := cells[ld.X]; isCell {
								return false
							}
						}
					}
					if ld, isLd := a.(*ssa.UnOp); isLd && ld.Op == token.MUL {
						if _, isCell := cells[ld.X]; isCell {
							return false
						}
					}
				}
				return true
			}
			return false
		}
		var addrs []ssa.Value
		for a := range cells {
			addrs = append(addrs, a)
		}
		sort.Slice(addrs, func(i, j int) bool { return addrs[i].Pos() < addrs[j].Pos() })
		for _, cell := range addrs {
			stores := cells[cell]
			if len(stores) < 2 {
				continue
			}
			k := 0
			for _, s1 := range stores {
				if !fresh(s1.Val) {
					continue
				}
				// the nil test of the value just stored: a load of the cell
				// after s1 in its block (no store in between)
				var fail, pass *ssa.BasicBlock
				after := false
				for _, in := range s1.Block().Instrs {
					if in == ssa.Instruction(s1) {
						after = true
						continue
					}
					if !after {
						continue
					}
					if st, isSt := in.(*ssa.Store); isSt && st.Addr == cell {
						break
					}
					ld, isLd := in.(*ssa.UnOp)
					if !isLd || ld.Op != token.MUL || ld.X != cell {
						continue
					}
					if f := nilTestFailEdge(ld); f != nil {
						fail = f
						for _, ref := range *ld.Referrers() {
							if bo, isBO := ref.(*ssa.BinOp); isBO && bo.Referrers() != nil {
								for _, r2 := range *bo.Referrers() {
									if ifi, isIf := r2.(*ssa.If); isIf {
										for _, sc := range ifi.Block().Succs {
											if sc != f {
												pass = sc
											}
										}
									}
								}
							}
						}
					}
				}
				if fail == nil || pass == nil {
					continue
				}
				// only where the failure is taken up on its own branch - the
				// error is wrapped, logged or re-stored there - and yet the
				// branch does not leave: an error used merely as a condition
				// (`if _, err := os.Stat(p); err == nil && ...`) is a probe, not
				// a failure that is being reported
				handled := false
				if len(fail.Preds) == 1 {
					for _, in := range fail.Instrs {
						switch x := in.(type) {
						case *ssa.UnOp:
							if x.Op == token.MUL && x.X == cell {
								handled = true
							}
						case *ssa.Store:
							if x.Addr == cell {
								handled = true
							}
						}
					}
				}
				if !handled {
					continue
				}
				n++
				k++
				var lost *ssa.Store
				for _, s2 := range stores {
					if s2 == s1 || !fresh(s2.Val) {
						continue
					}
					fromFail := s2.Block() == fail || blockReaches(fail, s2.Block())
					fromPass := s2.Block() == pass || blockReaches(pass, s2.Block())
					// a path from the failing edge back through s1 itself (a
					// retry loop) does not count
					if fromFail && fromPass && !(blockReaches(s2.Block(), s1.Block()) && s1.Block() != s2.Block() && s2.Block().Dominates(s1.Block())) {
						lost = s2
					}
				}
				construct := fmt.Sprintf("%s: error kept in %s, store#%d", c.funcKey(fn), shorten(valueExpr(c, cell, 0), 30), k)
				if lost != nil {
					r.Fail("E1'-cell", construct, c.instrPos(s1), fmt.Sprintf("after this error has been found non-nil, control can still reach the store at %s, which replaces it by the result of a later call: the first failure is forgotten (and the operation may report success)", c.instrPos(lost)))
				} else {
					r.Pass("E1'-cell", construct, c.instrPos(s1), "no later fresh error is stored over it on a path the failure takes")
				}
			}
		}
	}
	r.Count("error_cells_with_tested_stores", n)
}

// checkChangelogExists (E6-changelog-stat): the changelog parser of the
// dependency treats a file it cannot read as an empty changelog, so nfpm
// checks for the file first. That check must see what the parser will open:
// os.Stat of the same path (following links - os.Lstat is satisfied by a
// dangling link), dominating the parse.
func checkChangelogExists(c *Ctx, r *Report) {
	n := 0
	for _, fn := range c.ModFuncs {
		forEachInstr(fn, func(in ssa.Instruction) {
			call, ok := in.(*ssa.Call)
			if !ok {
				return
			}
			o := calleeObj(call)
			if o == nil || o.Pkg() == nil || !strings.HasSuffix(o.Pkg().Path(), "goreleaser/chglog") || o.Name() != "Parse" || len(call.Call.Args) == 0 {
				return
			}
			n++
			arg := call.Call.Args[0]
			guard := ""
			forEachInstr(fn, func(i2 ssa.Instruction) {
				c2, ok := i2.(*ssa.Call)
				if !ok || len(c2.Call.Args) == 0 || !instrDominates(c2, call) {
					return
				}
				o2 := calleeObj(c2)
				if o2 == nil {
					return
				}
				switch qualifiedName(o2) {
				case "os.Stat", "os.Lstat":
					if c2.Call.Args[0] == arg || sameValue(c2.Call.Args[0], arg) {
						if qualifiedName(o2) == "os.Stat" || guard == "" {
							guard = qualifiedName(o2)
						}
					}
				default:
					// a module helper that is handed the path and stats it
					sc := c2.Call.StaticCallee()
					if sc == nil || !c.isModuleFunc(sc) || len(sc.Blocks) == 0 {
						return
					}
					for i, a := range c2.Call.Args {
						if !(a == arg || sameValue(a, arg)) || i >= len(sc.Params) {
							continue
						}
						forEachInstr(sc, func(i3 ssa.Instruction) {
							c3, ok := i3.(*ssa.Call)
							if !ok || len(c3.Call.Args) == 0 || c3.Call.Args[0] != ssa.Value(sc.Params[i]) {
								return
							}
							if o3 := calleeObj(c3); o3 != nil && (qualifiedName(o3) == "os.Stat" || qualifiedName(o3) == "os.Lstat") {
								if qualifiedName(o3) == "os.Stat" || guard == "" {
									guard = qualifiedName(o3)
								}
							}
						})
					}
				}
			})
			r.Check(guard == "os.Stat", "E6-changelog-stat", "changelog file checked with os.Stat before it is parsed in "+c.funcKey(fn), c.instrPos(call),
				fmt.Sprintf("existence check found: %q; the parser silently yields an empty changelog for a file it cannot read, so the check must follow links like the parser's open does (a dangling link passes os.Lstat)", guard))
		})
	}
	r.Floor("E6-changelog-stat", n, 1)
}

// checkShortWrites (E7-short-write): "for every write index k ... error and
// short-write variants". A direct Write on the caller's destination - an
// io.Writer whose root is external - hands back the number of bytes taken; a
// call that discards that number reports success for an output the
// destination has only partly accepted. (io.Copy and the archive writers check
// the count themselves.)
func checkShortWrites(c *Ctx, r *Report, scope map[*ssa.Function]bool, sa *sinkAnalysis) {
	n := 0
	for _, fn := range sortedFuncs(c, scope) {
		k := 0
		forEachInstr(fn, func(in ssa.Instruction) {
			call, ok := in.(*ssa.Call)
			if !ok || !call.Call.IsInvoke() || call.Call.Method.Name() != "Write" {
				return
			}
			if call.Call.Value.Type().String() != "io.Writer" && call.Call.Value.Type().String() != "io.WriteCloser" {
				return
			}
			if sa.root(call.Call.Value) == sinkInfallible {
				return
			}
			n++
			k++
			used := false
			if call.Referrers() != nil {
				for _, ref := range *call.Referrers() {
					if ex, isEx := ref.(*ssa.Extract); isEx && ex.Index == 0 && ex.Referrers() != nil {
						for _, r2 := range *ex.Referrers() {
							if _, isDbg := r2.(*ssa.DebugRef); !isDbg {
								used = true
							}
						}
					}
				}
			}
			r.Check(used, "E7-short-write", fmt.Sprintf("%s: direct write#%d to an external writer uses the byte count", c.funcKey(fn), k), c.instrPos(call),
				"the number of bytes the destination accepted is discarded: a short write (n < len, no error) leaves a truncated package while the call reports success")
		})
	}
	r.Count("direct_writes_to_external_writers", n)
}

// checkScannerErr (E8-scanner-err): bufio.Scanner ends its loop the same way
// at the end of the input, at a read error and at a line longer than its
// buffer; only Err tells them apart. A scanner over a file or stream whose Err
// is never consulted turns a failed read into a silently truncated member.
// Scanners over in-memory readers (strings, bytes) are out of scope: no read
// can fail there.
func checkScannerErr(c *Ctx, r *Report) {
	n := 0
	for _, fn := range c.ModFuncs {
		k := 0
		forEachInstr(fn, func(in ssa.Instruction) {
			call, ok := in.(*ssa.Call)
			if !ok || !calleeIs(call, "bufio", "", "NewScanner") || len(call.Call.Args) == 0 {
				return
			}
			src := stripIface(call.Call.Args[0])
			inMemory := isPtrToNamed(src.Type(), "strings", "Reader") || isPtrToNamed(src.Type(), "bytes", "Reader") || isPtrToNamed(src.Type(), "bytes", "Buffer")
			n++
			k++
			consulted := false
			var visit func(v ssa.Value, depth int)
			visit = func(v ssa.Value, depth int) {
				if v.Referrers() == nil || depth > 3 {
					return
				}
				for _, ref := range *v.Referrers() {
					switch x := ref.(type) {
					case ssa.CallInstruction:
						if o := calleeObj(x); o != nil && o.Name() == "Err" {
							consulted = true
						}
						// over memory no read can fail; what is left is the
						// line limit, which a call of Buffer lifts
						if o := calleeObj(x); o != nil && o.Name() == "Buffer" && inMemory {
							consulted = true
						}
					case *ssa.Phi:
						visit(x, depth+1)
					case *ssa.Store:
						// kept in a cell: loads of the cell
						if al, isAl := x.Addr.(*ssa.Alloc); isAl && x.Val == v {
							for _, r2 := range *al.Referrers() {
								if ld, isLd := r2.(*ssa.UnOp); isLd {
									visit(ld, depth+1)
								}
							}
						}
					}
				}
			}
			visit(call, 0)
			what := "over a stream has its error consulted"
			if inMemory {
				what = "over text in memory has its error consulted or its line limit lifted"
			}
			r.Check(consulted, "E8-scanner-err", fmt.Sprintf("%s: line scanner#%d %s", c.funcKey(fn), k, what), c.instrPos(call),
				"Err is never called on this scanner (and its buffer limit is the default 64 KiB): a read error or a longer line ends the loop like the end of the input, and what was read so far is used as if it were everything")
		})
	}
	r.Count("line_scanners", n)
	if n == 0 {
		r.Pass("E8-scanner-err", "no line scanner in the module", "-", "bufio.NewScanner is not used")
	}
}

// checkDeferredOverwrite (E1'-defer): a deferred closure that assigns the
// enclosing function's error result runs after the body has settled that
// result. It may only fill it in while it is still nil - `if cerr := f.Close();
// cerr != nil && err == nil { err = cerr }` - or build on it (errors.Join(err,
// cerr)); an unconditional `err = f.Close()` replaces the body's failure by
// the close's nil.
func checkDeferredOverwrite(c *Ctx, r *Report) {
	n := 0
	for _, fn := range c.ModFuncs {
		forEachInstr(fn, func(in ssa.Instruction) {
			d, ok := in.(*ssa.Defer)
			if !ok {
				return
			}
			mc, ok := d.Call.Value.(*ssa.MakeClosure)
			if !ok {
				return
			}
			cl, ok := mc.Fn.(*ssa.Function)
			if !ok {
				return
			}
			k := 0
			forEachInstr(cl, func(i2 ssa.Instruction) {
				st, ok := i2.(*ssa.Store)
				if !ok {
					return
				}
				fv, ok := st.Addr.(*ssa.FreeVar)
				if !ok || !isErrorType(derefType(fv.Type())) {
					return
				}
				// the captured cell is a named result of the enclosing function
				isResult := false
				for i, q := range cl.FreeVars {
					if q == fv && i < len(mc.Bindings) {
						if al, isAl := mc.Bindings[i].(*ssa.Alloc); isAl {
							res := fn.Signature.Results()
							for ri := 0; ri < res.Len(); ri++ {
								if res.At(ri).Name() != "" && res.At(ri).Name() == al.Comment && isErrorType(res.At(ri).Type()) {
									isResult = true
								}
							}
						}
					}
				}
				if !isResult {
					return
				}
				if kk, isK := st.Val.(*ssa.Const); isK && kk.IsNil() {
					return // recover-style reset, not an error lost to a call's result
				}
				n++
				k++
				// built on the old value
				builds := false
				var uses func(v ssa.Value, depth int)
				uses = func(v ssa.Value, depth int) {
					if depth > 4 || v == nil {
						return
					}
					if ld, isLd := v.(*ssa.UnOp); isLd && ld.Op == token.MUL && ld.X == ssa.Value(fv) {
						builds = true
						return
					}
					if ins, isIn := v.(ssa.Instruction); isIn {
						for _, op := range ins.Operands(nil) {
							if op != nil && *op != nil {
								uses(*op, depth+1)
							}
						}
					}
				}
				uses(st.Val, 0)
				// guarded by "result is nil"
				guarded := false
				for b := st.Block(); b != nil && !guarded; b = b.Idom() {
					for _, p := range b.Preds {
						ifi, isIf := p.Instrs[len(p.Instrs)-1].(*ssa.If)
						if !isIf {
							continue
						}
						bo, isBo := ifi.Cond.(*ssa.BinOp)
						if !isBo {
							continue
						}
						ld, isLd := bo.X.(*ssa.UnOp)
						kn, isK := bo.Y.(*ssa.Const)
						if !isLd || !isK || !kn.IsNil() || ld.X != ssa.Value(fv) {
							continue
						}
						if bo.Op == token.EQL && p.Succs[0] == b && len(b.Preds) == 1 || bo.Op == token.NEQ && p.Succs[1] == b && len(b.Preds) == 1 {
							guarded = true
						}
					}
				}
				r.Check(builds || guarded, "E1'-defer", fmt.Sprintf("%s: deferred store#%d into the error result keeps a failure already there", c.funcKey(fn), k), c.instrPos(st),
					"the deferred closure assigns the function's error result without testing that it is still nil and without building on it: the body's failure (a read or write error) is replaced by this call's result, usually nil")
			})
		})
	}
	r.Count("deferred_result_stores", n)
	if n == 0 {
		r.Pass("E1'-defer", "no deferred closure stores into an error result", "-", "nothing to overwrite")
	}
}

func isErrorType(t types.Type) bool {
	return types.Identical(t, types.Universe.Lookup("error").Type())
}

// checkBuiltErrorsUsed (E1-built): an error value the code goes to the trouble
// of building - a typed failure converted to error, fmt.Errorf, errors.New -
// has a use. One without any is an assignment to a variable nobody reads
// afterwards: typically a shadowed `err` inside a block while the function
// returns the outer one, which is still nil.
func checkBuiltErrorsUsed(c *Ctx, r *Report) {
	n := 0
	for _, fn := range c.ModFuncs {
		if fn.Synthetic != "" {
			continue // package initialisers: `var _ error = (*T)(nil)` assertions
		}
		k := 0
		forEachInstr(fn, func(in ssa.Instruction) {
			var v ssa.Value
			switch x := in.(type) {
			case *ssa.MakeInterface:
				v = x
			case *ssa.Call:
				if !calleeIs(x, "fmt", "", "Errorf") && !calleeIs(x, "errors", "", "New") && !calleeIs(x, "errors", "", "Join") {
					return
				}
				v = x
			default:
				return
			}
			if !isErrorType(v.Type()) {
				return
			}
			n++
			used := false
			if refs := v.Referrers(); refs != nil {
				for _, ref := range *refs {
					if _, isDbg := ref.(*ssa.DebugRef); !isDbg {
						used = true
					}
				}
			}
			if !used {
				k++
				r.Fail("E1-built", fmt.Sprintf("%s: error value built#%d has a use", c.funcKey(fn), k), c.instrPos(in),
					"an error is built here and then used by nothing - it is assigned to a variable no later statement reads (a shadowed err, or an assignment just before the function returns another variable): the failure it describes is not reported")
			}
		})
	}
	r.Count("error_values_built", n)
	r.Pass("E1-built", "error values built in the module have a use", "-", fmt.Sprintf("%d error values built (conversions to error, fmt.Errorf, errors.New); those without a use are listed separately", n))
	if n < 100 {
		r.Fail("instance-floor", "E1-built", "-", fmt.Sprintf("only %d error values built in the module (expected >= 100)", n))
	}
}

// checkFixtureC06: E1'-defer, E1-built and E8-scanner-err expect no violating
// instance on nfpm; each is run on the positive fixture on every run and must
// report its seeded example there.
func checkFixtureC06(r *Report) {
	fx, err := loadFixture(verifDir)
	if err != nil {
		r.Fail("fixture", "load", "-", "the positive fixture could not be loaded: "+err.Error())
		return
	}
	fr := newReport("fixture")
	checkDeferredOverwrite(fx, fr)
	checkBuiltErrorsUsed(fx, fr)
	checkScannerErr(fx, fr)
	found := map[string]bool{}
	for _, o := range fr.Obls {
		if !o.OK && o.Rule != "instance-floor" {
			found[o.Rule] = true
		}
	}
	for _, k := range []string{"E1'-defer", "E1-built", "E8-scanner-err"} {
		r.Check(found[k], "fixture", "positive example: "+k, "analyzer/fixture/fixture.go", "the scanner for this zero-count rule must match its seeded example on every run")
	}
}
