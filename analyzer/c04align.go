package main

import (
	"fmt"
	"go/token"
	"go/types"

	"golang.org/x/tools/go/ssa"
)

// O3-align: the apk segment writer pads every gzip member's tar stream to a
// 512-byte boundary by hand, from the byte counter of the layer under the
// buffered writer. The length of that padding is decided with a small
// abstract domain: every value derived from the counter is kept as the
// affine form A*q + k over the unknown block count q >= 0 of a counter
// c = 512*q + r, once per residue r in [0,512). The rule requires, for every
// residue, that the bytes written directly to the counting writer after the
// counter was read bring the stream to a multiple of 512 without adding a
// whole zero block (0 <= pad < 512): a whole zero block inside the
// concatenation is half an end-of-archive marker and stops a reader there.
// Wrap-around of the unsigned counter is not modelled.

type affine struct {
	A, K int64
	ok   bool
}

type alignEval struct {
	r     int64
	count map[*ssa.Call]bool
	depth int
}

func (e *alignEval) eval(v ssa.Value) affine {
	e.depth++
	defer func() { e.depth-- }()
	if e.depth > 40 {
		return affine{}
	}
	switch x := v.(type) {
	case *ssa.Const:
		if x.Value == nil {
			return affine{}
		}
		if b, ok := x.Type().Underlying().(*types.Basic); ok && b.Info()&types.IsInteger != 0 {
			if b.Info()&types.IsUnsigned != 0 {
				u := x.Uint64()
				return affine{0, int64(u), true} // two's complement: ^uint64(511) == -512
			}
			return affine{0, x.Int64(), true}
		}
	case *ssa.Call:
		if e.count[x] {
			return affine{512, e.r, true}
		}
	case *ssa.Convert:
		return e.eval(x.X)
	case *ssa.ChangeType:
		return e.eval(x.X)
	case *ssa.Phi:
		// only a phi all of whose live edges agree
		var res affine
		first := true
		for i, ed := range x.Edges {
			if !e.edgeLive(x.Block().Preds[i], x.Block()) {
				continue
			}
			a := e.eval(ed)
			if !a.ok {
				return affine{}
			}
			if first {
				res, first = a, false
			} else if res != a {
				return affine{}
			}
		}
		return res
	case *ssa.BinOp:
		a, b := e.eval(x.X), e.eval(x.Y)
		if !a.ok || !b.ok {
			return affine{}
		}
		switch x.Op {
		case token.ADD:
			return affine{a.A + b.A, a.K + b.K, true}
		case token.SUB:
			return affine{a.A - b.A, a.K - b.K, true}
		case token.MUL:
			if a.A == 0 {
				return affine{b.A * a.K, b.K * a.K, true}
			}
			if b.A == 0 {
				return affine{a.A * b.K, a.K * b.K, true}
			}
		case token.AND, token.AND_NOT:
			m := b
			val := a
			if x.Op == token.AND && a.A == 0 && b.A != 0 {
				m, val = a, b
			}
			if m.A != 0 {
				return affine{}
			}
			mask := m.K
			if x.Op == token.AND_NOT {
				mask = ^mask
			}
			// masks of the form ...111000 (clear the low bits) and 000...111
			// (keep the low bits), with the cleared/kept width dividing A
			low := ^mask
			if low >= 0 && low&(low+1) == 0 && val.A >= 0 && val.K >= 0 && val.A%(low+1) == 0 {
				return affine{val.A, val.K &^ low, true}
			}
			if mask >= 0 && mask&(mask+1) == 0 && val.A >= 0 && val.K >= 0 && val.A%(mask+1) == 0 {
				return affine{0, val.K & mask, true}
			}
		case token.REM:
			if b.A == 0 && b.K > 0 && a.A >= 0 && a.K >= 0 && a.A%b.K == 0 {
				return affine{0, a.K % b.K, true}
			}
		case token.QUO:
			if b.A == 0 && b.K > 0 && a.A >= 0 && a.K >= 0 && a.A%b.K == 0 {
				return affine{a.A / b.K, a.K / b.K, true}
			}
		case token.SHL:
			if b.A == 0 && b.K >= 0 && b.K < 32 {
				return affine{a.A << b.K, a.K << b.K, true}
			}
		case token.SHR:
			if b.A == 0 && b.K >= 0 && b.K < 32 && a.A >= 0 && a.K >= 0 && a.A%(1<<b.K) == 0 {
				return affine{a.A >> b.K, a.K >> b.K, true}
			}
		}
	}
	return affine{}
}

// cond evaluates a comparison: 1 true, 0 false, -1 not decided (or not
// derived from the counter).
func (e *alignEval) cond(v ssa.Value) int {
	bo, ok := v.(*ssa.BinOp)
	if !ok {
		return -1
	}
	a, b := e.eval(bo.X), e.eval(bo.Y)
	if !a.ok || !b.ok {
		return -1
	}
	d := affine{a.A - b.A, a.K - b.K, true} // a - b
	sign := 2                               // unknown
	switch {
	case d.A == 0:
		switch {
		case d.K < 0:
			sign = -1
		case d.K == 0:
			sign = 0
		default:
			sign = 1
		}
	case d.A > 0 && d.K > 0:
		sign = 1 // q >= 0
	case d.A < 0 && d.K < 0:
		sign = -1
	}
	if sign == 2 {
		return -1
	}
	res := false
	switch bo.Op {
	case token.EQL:
		res = sign == 0
	case token.NEQ:
		res = sign != 0
	case token.LSS:
		res = sign < 0
	case token.LEQ:
		res = sign <= 0
	case token.GTR:
		res = sign > 0
	case token.GEQ:
		res = sign >= 0
	default:
		return -1
	}
	if res {
		return 1
	}
	return 0
}

func (e *alignEval) edgeLive(from, to *ssa.BasicBlock) bool {
	ifi, ok := from.Instrs[len(from.Instrs)-1].(*ssa.If)
	if !ok {
		return true
	}
	switch e.cond(ifi.Cond) {
	case 1:
		return from.Succs[0] == to
	case 0:
		return from.Succs[1] == to
	}
	return true
}

// executes: every counter-derived branch condition that controls the block
// lets it run for this residue.
func (e *alignEval) executes(b *ssa.BasicBlock) bool {
	for d := b; d != nil; d = d.Idom() {
		id := d.Idom()
		if id == nil {
			break
		}
		ifi, ok := id.Instrs[len(id.Instrs)-1].(*ssa.If)
		if !ok {
			continue
		}
		// d hangs under exactly one branch of its immediate dominator
		t, f := id.Succs[0], id.Succs[1]
		underT := t == d && len(d.Preds) == 1
		underF := f == d && len(d.Preds) == 1
		switch e.cond(ifi.Cond) {
		case 1:
			if underF {
				return false
			}
		case 0:
			if underT {
				return false
			}
		}
	}
	return true
}

func checkApkAlign(c *Ctx, r *Report, wt *ssa.Function) {
	construct := "apk: hand-written padding brings every segment to a 512-byte boundary without a whole zero block"
	// the counting layer: a module type with Write and a niladic integer
	// accessor, created in the segment writer
	counts := map[*ssa.Call]bool{}
	var writes []*ssa.Call
	var counter types.Type
	forEachInstr(wt, func(in ssa.Instruction) {
		call, ok := in.(*ssa.Call)
		if !ok {
			return
		}
		sc := call.Call.StaticCallee()
		if sc == nil || sc.Signature.Recv() == nil || !c.isModuleFunc(sc) {
			return
		}
		res := sc.Signature.Results()
		if sc.Signature.Params().Len() == 0 && res.Len() == 1 {
			if b, ok := res.At(0).Type().Underlying().(*types.Basic); ok && b.Info()&types.IsInteger != 0 {
				counts[call] = true
				counter = sc.Signature.Recv().Type()
			}
		}
	})
	if counter == nil {
		r.Fail("O3-align", construct, c.pos(wt.Pos()), "the segment writer no longer reads a byte counter: the padding of cut segments cannot be derived")
		return
	}
	forEachInstr(wt, func(in ssa.Instruction) {
		call, ok := in.(*ssa.Call)
		if !ok {
			return
		}
		sc := call.Call.StaticCallee()
		if sc != nil && sc.Name() == "Write" && sc.Signature.Recv() != nil && types.Identical(sc.Signature.Recv().Type(), counter) {
			writes = append(writes, call)
		}
	})
	if len(writes) == 0 {
		r.Fail("O3-align", construct, c.pos(wt.Pos()), "no padding is written to the counting writer: a cut segment would end inside a 512-byte record")
		return
	}
	for res := int64(0); res < 512; res++ {
		e := &alignEval{r: res, count: counts}
		total := int64(0)
		for _, w := range writes {
			if !e.executes(w.Block()) {
				continue
			}
			n := affine{}
			switch b := w.Call.Args[1].(type) {
			case *ssa.MakeSlice:
				n = e.eval(b.Len)
			case *ssa.Slice:
				if b.High != nil {
					hi := e.eval(b.High)
					lo := affine{0, 0, true}
					if b.Low != nil {
						lo = e.eval(b.Low)
					}
					if hi.ok && lo.ok {
						n = affine{hi.A - lo.A, hi.K - lo.K, true}
					}
				}
			}
			if !n.ok || n.A != 0 {
				r.Fail("O3-align", construct, c.instrPos(w), fmt.Sprintf("the length written here is not decided as a function of the counter for a counter of the form 512*q+%d (expression %s)", res, valueExpr(c, w.Call.Args[1], 0)))
				return
			}
			if n.K < 0 {
				r.Fail("O3-align", construct, c.instrPos(w), fmt.Sprintf("for a counter of the form 512*q+%d the length is negative (%d)", res, n.K))
				return
			}
			total += n.K
		}
		if total >= 512 {
			r.Fail("O3-align", construct, c.instrPos(writes[0]), fmt.Sprintf("for a counter of the form 512*q+%d the padding is %d bytes: a whole zero block (half an end-of-archive marker) is inserted between the segments", res, total))
			return
		}
		if (res+total)%512 != 0 {
			r.Fail("O3-align", construct, c.instrPos(writes[0]), fmt.Sprintf("for a counter of the form 512*q+%d the padding is %d bytes: the segment does not end on a 512-byte boundary", res, total))
			return
		}
	}
	r.Pass("O3-align", construct, c.instrPos(writes[0]), fmt.Sprintf("%d padding write(s) evaluated for all 512 residues of the counter: 0 <= pad < 512 and (counter+pad) mod 512 == 0", len(writes)))
}
