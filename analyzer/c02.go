package main

import (
	"fmt"
	"go/token"
	"go/types"
	"os"
	"path/filepath"
	"regexp"
	"sort"
	"strings"

	"golang.org/x/tools/go/ssa"
)

func init() { register("C02", checkC02) }

// ---- oracle (DESIGN C.5): label/key -> configuration fields ----------------
// Paths are below *nfpm.Info in SSA spelling; "O." abbreviates
// "Info.Overridables." and "I." abbreviates "Info.".

func expandPaths(ps ...string) []string {
	var out []string
	for _, p := range ps {
		switch {
		case strings.HasPrefix(p, "O."):
			out = append(out, "Info.Overridables."+p[2:])
		case strings.HasPrefix(p, "I."):
			out = append(out, "Info."+p[2:])
		default:
			out = append(out, p)
		}
	}
	sort.Strings(out)
	return out
}

type labelSpec struct {
	fields   []string
	optional bool // must be emitted behind a guard on the same field(s)
}

func ls(optional bool, ps ...string) labelSpec { return labelSpec{expandPaths(ps...), optional} }

var specDebControl = map[string]labelSpec{
	"Package":        ls(false, "I.Name"),
	"Version":        ls(false, "I.Epoch", "I.Version", "I.Prerelease", "I.VersionMetadata", "I.Release"),
	"Section":        ls(false, "I.Section"),
	"Priority":       ls(false, "I.Priority"),
	"Architecture":   ls(false, "I.Platform", "I.Arch"),
	"License":        ls(true, "I.License"),
	"Maintainer":     ls(true, "I.Maintainer"),
	"Installed-Size": ls(false, "InstalledSize"),
	"Replaces":       ls(true, "O.Replaces"),
	"Provides":       ls(true, "O.Provides"),
	"Pre-Depends":    ls(true, "O.Deb.Predepends"),
	"Depends":        ls(true, "O.Depends"),
	"Recommends":     ls(true, "O.Recommends"),
	"Suggests":       ls(true, "O.Suggests"),
	"Conflicts":      ls(true, "O.Conflicts"),
	"Breaks":         ls(true, "O.Deb.Breaks"),
	"Homepage":       ls(true, "I.Homepage"),
	"Description":    ls(false, "I.Description"),
	"<custom>":       ls(true, "O.Deb.Fields"),
}

var specIPKControl = map[string]labelSpec{
	"Architecture":   ls(false, "I.Arch"),
	"Description":    ls(false, "I.Description"),
	"Maintainer":     ls(false, "I.Maintainer"),
	"Package":        ls(false, "I.Name"),
	"Priority":       ls(false, "I.Priority"),
	"Version":        ls(false, "I.Epoch", "I.Version", "I.Prerelease", "I.VersionMetadata", "I.Release"),
	"ABIVersion":     ls(true, "O.IPK.ABIVersion"),
	"Alternatives":   ls(true, "O.IPK.Alternatives"),
	"Auto-Installed": ls(true, "O.IPK.AutoInstalled"),
	"Conflicts":      ls(true, "O.Conflicts"),
	"Depends":        ls(true, "O.Depends"),
	"Essential":      ls(true, "O.IPK.Essential"),
	"Homepage":       ls(true, "I.Homepage"),
	"License":        ls(true, "I.License"),
	"Installed-Size": ls(true, "InstalledSize"),
	"Pre-Depends":    ls(true, "O.IPK.Predepends"),
	"Provides":       ls(true, "O.Provides"),
	"Recommends":     ls(true, "O.Recommends"),
	"Replaces":       ls(true, "O.Replaces"),
	"Section":        ls(true, "I.Section"),
	"Suggests":       ls(true, "O.Suggests"),
	"Tags":           ls(true, "O.IPK.Tags"),
	"Vendor":         ls(true, "I.Vendor"),
	"<custom>":       ls(true, "O.IPK.Fields"),
}

var specAPKControl = map[string]labelSpec{
	"pkgname":    ls(false, "I.Name"),
	"pkgver":     ls(false, "Info"),
	"arch":       ls(false, "I.Arch"),
	"size":       ls(false, "InstalledSize"),
	"pkgdesc":    ls(false, "I.Description"),
	"url":        ls(true, "I.Homepage"),
	"maintainer": ls(true, "I.Maintainer"),
	"replaces":   ls(true, "O.Replaces"),
	"provides":   ls(true, "O.Provides"),
	"depend":     ls(true, "O.Depends"),
	"license":    ls(true, "I.License"),
	"datahash":   ls(false, "Datahash"),
}

// rpmpack.RPMMetaData field -> configuration fields
var specRPMMeta = map[string][]string{
	"Name":        expandPaths("I.Name"),
	"Summary":     expandPaths("O.RPM.Summary", "I.Description"),
	"Description": expandPaths("I.Description"),
	"Version":     expandPaths("I.Version", "I.Prerelease", "I.VersionMetadata"),
	"Release":     expandPaths("I.Release"),
	"Epoch":       expandPaths("I.Epoch"),
	"Arch":        expandPaths("I.Arch"),
	"OS":          expandPaths("I.Platform"),
	"Licence":     expandPaths("I.License"),
	"URL":         expandPaths("I.Homepage"),
	"Vendor":      expandPaths("I.Vendor"),
	"Packager":    expandPaths("O.RPM.Packager", "I.Maintainer"),
	"Prefixes":    expandPaths("O.RPM.Prefixes"),
	"Group":       expandPaths("O.RPM.Group"),
	"Provides":    expandPaths("O.Provides"),
	"Recommends":  expandPaths("O.Recommends"),
	"Requires":    expandPaths("O.Depends"),
	"Obsoletes":   expandPaths("O.Replaces"),
	"Suggests":    expandPaths("O.Suggests"),
	"Conflicts":   expandPaths("O.Conflicts"),
	"Compressor":  expandPaths("O.RPM.Compression"),
	"BuildTime":   expandPaths("I.MTime"),
	"BuildHost":   expandPaths("O.RPM.BuildHost"),
}

// archlinux .PKGINFO key -> configuration fields
var specArchKV = map[string][]string{
	"pkgname":   expandPaths("I.Name"),
	"pkgbase":   expandPaths("O.ArchLinux.Pkgbase", "I.Name"),
	"pkgver":    expandPaths("I.Epoch", "I.Version", "I.Prerelease", "I.Release"),
	"pkgdesc":   expandPaths("I.Description"),
	"url":       expandPaths("I.Homepage"),
	"builddate": expandPaths("I.MTime"),
	"packager":  expandPaths("O.ArchLinux.Packager"),
	"arch":      expandPaths("I.Arch"),
	"license":   expandPaths("I.License"),
	"replaces":  expandPaths("O.Replaces"),
	"conflict":  expandPaths("O.Conflicts"),
	"provides":  expandPaths("O.Provides"),
	"depend":    expandPaths("O.Depends"),
	"backup":    {"Content.Destination"},
	"size":      {},
}

var specDebTriggers = map[string]string{
	"interest":         "Info.Overridables.Deb.Triggers.Interest",
	"interest-await":   "Info.Overridables.Deb.Triggers.InterestAwait",
	"interest-noawait": "Info.Overridables.Deb.Triggers.InterestNoAwait",
	"activate":         "Info.Overridables.Deb.Triggers.Activate",
	"activate-await":   "Info.Overridables.Deb.Triggers.ActivateAwait",
	"activate-noawait": "Info.Overridables.Deb.Triggers.ActivateNoAwait",
}

func infoAtoms(p provSet) []string {
	var out []string
	for _, a := range p.list() {
		if strings.HasPrefix(a, "Info.") || a == "Content.Destination" {
			if a == "Info.envMappingFunc" {
				continue
			}
			out = append(out, a)
		}
	}
	return out
}

func checkTemplate(c *Ctx, r *Report, format string, ti tmplInfo, spec map[string]labelSpec) {
	got := map[string]map[string]bool{}
	guards := map[string]map[string]bool{}
	unguarded := map[string]bool{}
	for _, row := range ti.Rows {
		label := row.Label
		pf := canonFields(c, row.Printed)
		gf := canonFields(c, row.Guards)
		// the line's value computed by a Go helper that is handed the whole
		// Info: the fields that helper reads
		if ff, _, whole := infoFieldsOfRowFuncs(c, ti, row); whole {
			// (unless the statement's table itself pairs the line with the
			// whole Info: apk's pkgver, whose composition F6 decides)
			if sp, inSpec := spec[row.Label]; !inSpec || !(len(sp.fields) == 1 && sp.fields[0] == "Info") {
				pf = ff
			}
		}
		isCustom := false
		for _, f := range append(append([]string{}, pf...), gf...) {
			if strings.HasSuffix(f, ".Fields") {
				isCustom = true
			}
		}
		if isCustom {
			label = "<custom>"
		}
		if got[label] == nil {
			got[label] = map[string]bool{}
			guards[label] = map[string]bool{}
		}
		for _, f := range pf {
			// element fields of a list collapse to the list
			if i := strings.Index(f, "[]"); i >= 0 {
				f = f[:i]
			}
			got[label][f] = true
		}
		for _, f := range gf {
			guards[label][f] = true
		}
		if !row.Cond {
			unguarded[label] = true
		}
		if len(pf) == 0 {
			// guard-only label ("Essential: yes"): the guard is the wiring
			for _, f := range gf {
				got[label][f] = true
			}
		}
	}
	var labels []string
	for l := range spec {
		labels = append(labels, l)
	}
	for l := range got {
		if _, ok := spec[l]; !ok {
			labels = append(labels, l)
		}
	}
	sort.Strings(labels)
	pos := c.pos(ti.Fn.Pos())
	for _, l := range labels {
		sp, inSpec := spec[l]
		g, have := got[l]
		construct := fmt.Sprintf("%s control: %s", format, l)
		switch {
		case inSpec && !have:
			r.Fail("F3", construct, pos, fmt.Sprintf("the %s metadata must carry %q fed from %v, but the template has no such line", format, l, sp.fields))
		case !inSpec:
			r.Fail("F3", construct, pos, fmt.Sprintf("line %q (fed from %s) is not in the statement's table for %s", l, joinSorted(g), format))
		default:
			ok := joinSorted(g) == strings.Join(sp.fields, ",")
			detail := fmt.Sprintf("fed from {%s}, expected {%s}", joinSorted(g), strings.Join(sp.fields, ","))
			if ok && sp.optional {
				// guarded by (at least) its own field, and never emitted unguarded
				gs := guards[l]
				for _, f := range sp.fields {
					if !gs[f] {
						ok = false
						detail += "; optional line not guarded by its own field " + f
					}
				}
				if unguarded[l] {
					ok = false
					detail += "; optional line is (also) emitted unconditionally"
				}
			}
			// no foreign field decides what the line says: every field tested
			// around it is one the line is fed from
			if ok {
				var foreign []string
				for f := range guards[l] {
					if !g[f] {
						foreign = append(foreign, f)
					}
				}
				sort.Strings(foreign)
				if len(foreign) > 0 {
					ok = false
					detail += fmt.Sprintf("; what the line states also depends on %v, which is not one of its own fields", foreign)
				}
			}
			r.Check(ok, "F3", construct, pos, detail)
		}
	}
}

func checkC02(c *Ctx, r *Report) {
	r.Rules = []string{"F3 template wiring (deb, ipk, apk)", "F4 rpm metadata wiring", "F5 archlinux key/value wiring", "F5b deb triggers / changelog extras", "D3 GOARCH tables vs documentation, override precedence", "F6 version slot depends on every configured component", "ipk reserved field names", "F5b-text rpm changelog text is the rendered notes (TrimSpace only)", "F3-funcs template helper functions write through none of their list arguments", "F6-parsed no branch on the value of a parsed epoch/release", "F3-text the description meets only white-space trimming and line-separator operations", "F4-verbatim rpm relation items reach the relation parser as configured", "arch-W3-idempotent architecture tables are chain-free (imported from C11)", "F5b-each each deb trigger list alone still yields a triggers file (by evaluation)", "wired-F15-self relation lists are expanded from themselves (imported from C16)", "F3 (extended) no field outside a line's own fields decides what the line states", "F5-verbatim single-field .PKGINFO keys state the field unrewritten", "F3-scalar-plain single-line scalar settings are printed without a template function", "F3-fields-range custom fields are ranged over without a function", "F4-list-asis rpm metadata lists and strings are the configured values (no library call between)", "F3-fields-asis packagers add to or replace the custom field maps nowhere (reserved names are removed only)", "kept-D8-packager-store packagers only default-fill version components (rule of C14)", "whole-E8-scanner-err the line scanners that render multi-line text cannot stop at a long line unnoticed (rule of C06)"}
	r.Explanation = "Wiring of control metadata decided from source. (F3) the deb, ipk and apk control templates — the string constants reaching Template.Parse — are parsed with text/template/parse (never executed) and flattened to label -> fields printed and fields guarding; each label must be fed from exactly the configuration field(s) the statement pairs it with (all relation kinds, identity fields, format extras), optional labels guarded by their own field. (F4) every field of the rpmpack.RPMMetaData literal and (F5) every key of the archlinux key/value writer must derive (field provenance over go/ssa) from exactly its configuration field(s). (F5b) deb trigger directives pair with the like-named trigger lists, the triggers member is written only when non-empty, changelog entries only behind a non-empty changelog setting. (D3) the five GOARCH tables are extracted from the package initialisers and every row of www/docs/goarch-to-pkg.md must hold in code; with a format-specific architecture configured the stored architecture is that value verbatim (abstract evaluation). (F6) with each version component in turn fixed non-empty, the string reaching the rpm Version field, the apk pkgver and the archlinux pkgver must depend on it on every live path. Rendering of concrete text (multi-line descriptions, escaping) is not decided."
	r.Explanation += " (F5b-text) between the rendered changelog notes and rpm's changelog-text tag only strings.TrimSpace may sit. (F3-funcs) functions registered in the control templates' FuncMaps write through none of their list arguments. (F6-parsed) no branch depends on the value of an epoch/release parsed as an integer."
	r.Explanation += " (F3-text) in every description helper of a control template, and wherever Info.Description is handed to a library function, only white-space trimming and split/join/replace at constant line separators occur - word-level rewriting changes the synopsis. (F4-verbatim) the string handed to rpmpack's relation parser is a load of a list element, through conversions and phis only. (arch-W3-idempotent) the architecture tables are applied by the file-name function and again by Package: a table with a chain a->b->c states c for a configured a."
	r.Explanation += " (F5b-each) the trigger renderer evaluated with exactly one of the six lists non-empty never returns the nil constant on all live returns. (wired-F15-self) imported from C16."
	r.Explanation += " F3 also requires that every field tested around a line is one of the fields the line is fed from."
	r.Assumptions = []string{
		"text/template renders an action with the value of the field chain it names; join/multiline/nonEmpty helpers are not analysed for arbitrary text",
		"rpmpack writes each RPMMetaData field under its like-named header tag",
	}
	// ---- F3 ----
	nT := 0
	for _, tc := range []struct {
		format string
		spec   map[string]labelSpec
		anchor string
	}{{"deb", specDebControl, "Package"}, {"ipk", specIPKControl, "Package"}, {"apk", specAPKControl, "pkgname"}} {
		pk := c.PackagerByFormat(tc.format)
		if pk == nil {
			r.Unresolved("packager "+tc.format, "not registered")
			continue
		}
		found := false
		for _, ti := range templateConstants(c, c.Reach(pk.Package)) {
			has := false
			for _, l := range ti.Label {
				if l == tc.anchor {
					has = true
				}
			}
			if !has {
				continue
			}
			found = true
			nT++
			checkTemplate(c, r, tc.format, ti, tc.spec)
			checkScalarRowsPlain(c, r, tc.format, ti)
			if tc.format == "ipk" {
				checkIPKReserved(c, r, ti)
			}
		}
		if !found {
			r.Unresolved(tc.format+" control template", "no template constant with a "+tc.anchor+" line reaches Template.Parse")
		}
	}
	r.Floor("F3", nT, 3)

	pa := newProv(c)
	// ---- F4 rpm ----
	if pk := c.PackagerByFormat("rpm"); pk != nil {
		n, nAsis := 0, 0
		for _, fn := range sortedFuncs(c, c.Reach(pk.Package)) {
			forEachInstr(fn, func(in ssa.Instruction) {
				al, ok := in.(*ssa.Alloc)
				if !ok || !isNamed(al.Type(), rpmpackPath, "RPMMetaData") {
					return
				}
				fields := map[string]provSet{}
				for _, ref := range *al.Referrers() {
					fa, ok := ref.(*ssa.FieldAddr)
					if !ok {
						continue
					}
					name := fieldName(fa.X.Type(), fa.Field)
					for _, r2 := range *fa.Referrers() {
						if st, ok := r2.(*ssa.Store); ok {
							if fields[name] == nil {
								fields[name] = provSet{}
							}
							fields[name].add(pa.Of(st.Val))
						}
					}
				}
				var names []string
				for k := range specRPMMeta {
					names = append(names, k)
				}
				for k := range fields {
					if _, ok := specRPMMeta[k]; !ok {
						names = append(names, k)
					}
				}
				sort.Strings(names)
				for _, name := range names {
					n++
					want, inSpec := specRPMMeta[name]
					p, have := fields[name]
					construct := "rpm metadata: " + name
					switch {
					case !have:
						r.Fail("F4", construct, c.instrPos(al), fmt.Sprintf("rpm metadata field %s is never set; it must carry %v", name, want))
					case !inSpec:
						r.Note("rpm metadata field %s set from {%s} (not in the statement's table)", name, strings.Join(infoAtoms(p), ","))
					default:
						got := infoAtoms(p)
						r.Check(strings.Join(got, ",") == strings.Join(want, ","), "F4", construct, c.instrPos(al),
							fmt.Sprintf("fed from {%s}, expected {%s}", strings.Join(got, ","), strings.Join(want, ",")))
						// fields that state one setting state it as configured: no
						// library call sits between the setting and the field
						switch name {
						case "Arch", "Compressor", "Description", "Group", "Licence", "Name", "OS", "Prefixes", "URL", "Vendor", "Packager",
							"Conflicts", "Obsoletes", "Provides", "Recommends", "Requires", "Suggests":
							var rew []string
							for _, a := range p.list() {
								if strings.HasPrefix(a, "call:") {
									rew = append(rew, a)
								}
							}
							nAsis++
							r.Check(len(rew) == 0, "F4-list-asis", construct+" is the configured value", c.instrPos(al),
								fmt.Sprintf("the value passes through %v: order, spelling or multiplicity of what was configured can change on the way into the header", rew))
						}
					}
				}
			})
		}
		r.Floor("F4", n, 23)
		r.Floor("F4-list-asis", nAsis, 15)
		checkRPMExtras(c, r, pk)
	}

	// ---- F5 archlinux ----
	if pk := c.PackagerByFormat("archlinux"); pk != nil {
		got := map[string]provSet{}
		at := map[string]ssa.Instruction{}
		for _, kv := range archKeyValues(c, pa, pk) {
			if _, isSpec := specArchKV[kv.key]; !isSpec {
				continue
			}
			if got[kv.key] == nil {
				got[kv.key] = provSet{}
			}
			got[kv.key].add(pa.Of(kv.val))
			at[kv.key] = kv.at
		}
		nVerb := 0
		var keys []string
		for k := range specArchKV {
			keys = append(keys, k)
		}
		sort.Strings(keys)
		for _, k := range keys {
			want := specArchKV[k]
			p, have := got[k]
			construct := "archlinux .PKGINFO: " + k
			if !have {
				r.Fail("F5", construct, c.pos(pk.Package.Pos()), fmt.Sprintf("key %q is never written; it must carry %v", k, want))
				continue
			}
			g := infoAtoms(p)
			if k == "size" {
				r.Pass("F5", construct, c.instrPos(at[k]), "computed from the payload (C03)")
				continue
			}
			r.Check(strings.Join(g, ",") == strings.Join(want, ","), "F5", construct, c.instrPos(at[k]),
				fmt.Sprintf("fed from {%s}, expected {%s}", strings.Join(g, ","), strings.Join(want, ",")))
			// single-field keys state the field as configured
			switch k {
			case "url", "license", "arch", "pkgname", "packager", "pkgbase":
				var rew []string
				for _, a := range p.list() {
					if strings.HasPrefix(a, "call:") {
						rew = append(rew, a)
					}
				}
				nVerb++
				r.Check(len(rew) == 0, "F5-verbatim", construct+" is the configured text", c.instrPos(at[k]),
					fmt.Sprintf("the value passes through %v: the key would state something other than what was configured", rew))
			}
		}
		r.Floor("F5-verbatim", nVerb, 4)
		r.Floor("F5", len(got), 13)
	}

	checkTemplateFuncs(c, r)
	checkParsedComponents(c, r, pa)
	checkListLoopsComplete(c, r)
	checkDebExtras(c, r, pa)
	checkArchTables(c, r)
	checkVersionMust(c, r)
	// the components the version strings are composed from: nothing embedded
	// in `version` is lost by the semver split (shared with C14-D8)
	if wd := c.Func("", "WithDefaults"); wd != nil {
		for _, fn := range sortedFuncs(c, c.Reach(wd)) {
			forEachInstr(fn, func(in ssa.Instruction) {
				if call, ok := in.(*ssa.Call); ok && calleeIs(call, semverPath, "", "NewVersion") {
					checkSplitIndependence(c, r, fn, call, "F6-split")
				}
			})
		}
	}
	checkDescriptionHelpers(c, r, pa)
	checkDescriptionText(c, r, pa)
	checkRelationsVerbatim(c, r)
	// the architecture tables are applied more than once on the way to the
	// metadata (file name, then package): a chain a -> b -> c in a table makes
	// the metadata state c for a configured a (shared with C11-W3)
	tmpW := newReport("tmp")
	checkPackagerStores(c, tmpW)
	nW := 0
	for _, o := range tmpW.Obls {
		if o.Rule == "W3-idempotent" && strings.Contains(o.Construct, "Info.Arch") {
			o.Rule = "arch-W3-idempotent"
			r.Obls = append(r.Obls, o)
			nW++
		}
	}
	r.Floor("arch-W3-idempotent", nW, 4)
	// a relation list reaches the packagers as the expansion of itself, not of
	// a sibling list (rule of C16)
	// no packager rewrites a version component in place (rule of C14): the
	// file name function doing so makes Package compose the version twice
	{
		tmpK := newReport("tmp")
		checkPackagerKeepsComponents(c, tmpK)
		nK := 0
		for _, o := range tmpK.Obls {
			if o.Rule == "D8-packager-store" {
				o.Rule = "kept-D8-packager-store"
				r.Obls = append(r.Obls, o)
				nK++
			}
		}
		r.Floor("kept-D8-packager-store", nK, 5)
	}
	checkCustomFieldsAsConfigured(c, r, pa)
	// the description is rendered line by line with a scanner: every line of
	// it arrives only if the scanner's limit cannot end the loop early (rule
	// of C06)
	{
		tmpS := newReport("tmp")
		checkScannerErr(c, tmpS)
		nS := 0
		for _, o := range tmpS.Obls {
			if o.Rule == "E8-scanner-err" && strings.Contains(o.Construct, "in memory") {
				o.Rule = "whole-E8-scanner-err"
				r.Obls = append(r.Obls, o)
				nS++
			}
		}
		r.Floor("whole-E8-scanner-err", nS, 1)
	}
	r.Floor("wired-F15-self", importRules(c, r, checkC16, "wired-", []string{"F15-self"}, nil), 12)
}

// descTextAllowed: library calls that may touch the description on its way
// into the metadata - they remove surrounding white space or work on the line
// separators, and leave the characters of a line as configured.
func descTextAllowed(call *ssa.Call) (bool, string) {
	o := calleeObj(call)
	if o == nil || o.Pkg() == nil {
		return true, ""
	}
	pkg := o.Pkg().Path()
	if pkg != "strings" && pkg != "bytes" && pkg != "regexp" && pkg != "unicode" && pkg != "golang.org/x/text/cases" {
		return true, ""
	}
	q := qualifiedName(o)
	switch o.Name() {
	case "TrimSpace", "Trim", "TrimRight", "TrimLeft", "TrimSuffix", "TrimPrefix", "HasPrefix", "HasSuffix", "Contains", "Index", "IndexByte", "Join", "NewReader", "NewBuffer", "NewBufferString", "NewScanner", "Count", "EqualFold":
		return true, ""
	case "Split", "SplitN", "SplitAfter", "SplitAfterN", "ReplaceAll", "Replace":
		// only on the line separator
		if len(call.Call.Args) >= 2 {
			sep := call.Call.Args[1]
			if cv, ok := sep.(*ssa.Convert); ok {
				sep = cv.X
			}
			if k, ok := sep.(*ssa.Const); ok && k.Value != nil && isConstString(k) {
				if t := constString(k); t == "\n" || t == "\r\n" || t == "\r" {
					return true, ""
				}
				return false, fmt.Sprintf("%s on %q", q, constString(k))
			}
		}
		return false, q + " on a separator that is not a constant line separator"
	}
	if _, isMethod := o.Type().(*types.Signature); isMethod && o.Type().(*types.Signature).Recv() != nil {
		// methods of strings.Builder / bytes.Buffer / strings.Reader: writes and reads
		rt := types.TypeString(derefType(o.Type().(*types.Signature).Recv().Type()), nil)
		if rt == "strings.Builder" || rt == "bytes.Buffer" || rt == "strings.Reader" || rt == "bytes.Reader" {
			return true, ""
		}
	}
	return false, q
}

// checkDescriptionText (F3-text): "a description whose first line is intact":
// on the way from Info.Description into the metadata the text only meets
// functions that trim surrounding white space or split/join/replace at line
// separators. Word-level rewriting (strings.Fields, Map, ToLower, a Replacer,
// a regular expression ...) changes characters inside a line.
func checkDescriptionText(c *Ctx, r *Report, pa *provAnalysis) {
	n := 0
	for _, pk := range c.Packagers {
		if pk.Format == "" {
			continue
		}
		reach := c.Reach(pk.Package)
		scope := map[*ssa.Function]string{}
		for _, ti := range templateConstants(c, reach) {
			for _, f := range templateFuncs(c, ti.Fn, "multiline") {
				scope[f] = "the template's description helper"
			}
		}
		// module functions handed the description itself
		for _, fn := range sortedFuncs(c, reach) {
			if c.funcPkgPath(fn) != pk.PkgPath {
				continue
			}
			forEachInstr(fn, func(in ssa.Instruction) {
				call, ok := in.(*ssa.Call)
				if !ok {
					return
				}
				direct := false
				for _, a := range call.Call.Args {
					if ld, ok := a.(*ssa.UnOp); ok && ld.Op == token.MUL {
						if pth, root := addrPath(ld.X); root != nil && pth == "Description" && isPtrToNamed(root.Type(), modPath, "Info") {
							direct = true
						}
					}
				}
				if !direct {
					return
				}
				if sc := call.Call.StaticCallee(); sc != nil && c.isModuleFunc(sc) && len(sc.Blocks) > 0 {
					if _, seen := scope[sc]; !seen {
						scope[sc] = "handed Info.Description in " + c.funcKey(fn)
					}
					return
				}
				n++
				ok2, what := descTextAllowed(call)
				r.Check(ok2, "F3-text", fmt.Sprintf("%s: Info.Description handed to %s in %s", pk.Format, shortName(qualifiedName(calleeObj(call))), c.funcKey(fn)), c.instrPos(call),
					"the description meets "+what+": only white-space trimming and operations on line separators keep every line as configured")
			})
		}
		var fns []*ssa.Function
		for f := range scope {
			fns = append(fns, f)
		}
		sort.Slice(fns, func(i, j int) bool { return fns[i].Pos() < fns[j].Pos() })
		for _, f := range fns {
			n++
			bad := ""
			var at ssa.Instruction
			forEachInstr(f, func(in ssa.Instruction) {
				call, ok := in.(*ssa.Call)
				if !ok || bad != "" {
					return
				}
				if ok2, what := descTextAllowed(call); !ok2 {
					bad, at = what, in
				}
			})
			pos := c.pos(f.Pos())
			if at != nil {
				pos = c.instrPos(at)
			}
			r.Check(bad == "", "F3-text", fmt.Sprintf("%s: description helper %s (%s)", pk.Format, c.funcKey(f), scope[f]), pos,
				"the helper applies "+bad+" to the text: only white-space trimming and operations on line separators keep the synopsis and every further line as configured")
		}
	}
	r.Floor("F3-text", n, 4)
}

// checkRelationsVerbatim (F4-verbatim): every string handed to rpmpack's
// relation parser is an element of a configured relation list as it stands -
// loads, conversions and phis only, no call in between.
func checkRelationsVerbatim(c *Ctx, r *Report) {
	pk := c.PackagerByFormat("rpm")
	if pk == nil {
		return
	}
	n := 0
	for _, fn := range sortedFuncs(c, c.Reach(pk.Package)) {
		if c.funcPkgPath(fn) != pk.PkgPath {
			continue
		}
		forEachInstr(fn, func(in ssa.Instruction) {
			call, ok := in.(*ssa.Call)
			if !ok || !calleeIs(call, rpmpackPath, "Relations", "Set") {
				return
			}
			n++
			arg := call.Call.Args[len(call.Call.Args)-1]
			bad := ""
			seen := map[ssa.Value]bool{}
			var walk func(v ssa.Value, d int)
			walk = func(v ssa.Value, d int) {
				if d > 8 || seen[v] || bad != "" {
					return
				}
				seen[v] = true
				switch x := v.(type) {
				case *ssa.UnOp:
					if x.Op == token.MUL {
						return // a load: element or field
					}
					bad = x.String()
				case *ssa.Extract:
					if _, isNext := x.Tuple.(*ssa.Next); isNext {
						return
					}
					bad = x.String()
				case *ssa.Phi:
					for _, e := range x.Edges {
						walk(e, d+1)
					}
				case *ssa.Convert:
					walk(x.X, d+1)
				case *ssa.ChangeType:
					walk(x.X, d+1)
				case *ssa.Parameter, *ssa.Const:
				case *ssa.Call:
					bad = "the result of " + shortName(valueExpr(c, x, 0))
					if o := calleeObj(x); o != nil && qualifiedName(o) != "" {
						bad = "the result of " + qualifiedName(o)
					}
				default:
					bad = v.String()
				}
			}
			walk(arg, 0)
			r.Check(bad == "", "F4-verbatim", fmt.Sprintf("rpm: relation item handed to the relation parser in %s", c.funcKey(fn)), c.instrPos(call),
				"the item parsed is "+bad+": a relation rewritten on the way (brackets, operators) is no longer the configured relation - rich dependencies and sonames contain parentheses")
		})
	}
	r.Floor("F4-verbatim", n, 1)
}

// checkDescriptionHelpers (F3-desc): in the deb/ipk description helper a
// line counts as blank (and is rendered as " .") when it is empty after
// whitespace trimming: every emptiness test on a line must be applied to a
// TrimSpace'd value.
func checkDescriptionHelpers(c *Ctx, r *Report, pa *provAnalysis) {
	n := 0
	for _, format := range []string{"deb", "ipk"} {
		pk := c.PackagerByFormat(format)
		if pk == nil {
			continue
		}
		for _, ti := range templateConstants(c, c.Reach(pk.Package)) {
			for _, f := range templateFuncs(c, ti.Fn, "multiline") {
				n++
				tests, bad := 0, 0
				forEachInstr(f, func(in ssa.Instruction) {
					bo, ok := in.(*ssa.BinOp)
					if !ok {
						return
					}
					var x ssa.Value
					if k, ok := bo.Y.(*ssa.Const); ok && k.Value != nil {
						switch bo.Op {
						case token.EQL, token.NEQ:
							if (isConstString(bo.Y) && constString(k) == "") || (k.Value.Kind().String() == "Int" && k.Int64() == 0) {
								x = bo.X
							}
						case token.GTR, token.LEQ: // len(l) > 0, len(l) <= 0
							if k.Value.Kind().String() == "Int" && k.Int64() == 0 {
								x = bo.X
							}
						case token.GEQ, token.LSS: // len(l) >= 1, len(l) < 1
							if k.Value.Kind().String() == "Int" && k.Int64() == 1 {
								x = bo.X
							}
						}
					}
					if x == nil {
						return
					}
					// the tested value: strip len() and conversions; it must be
					// the result of TrimSpace itself (a trim of the whole text
					// before it is split into lines does not count)
					v := x
					isLen := false
					for i := 0; i < 4; i++ {
						switch y := v.(type) {
						case *ssa.Call:
							if b, ok := y.Call.Value.(*ssa.Builtin); ok && b.Name() == "len" {
								v = y.Call.Args[0]
								isLen = true
								continue
							}
						case *ssa.Convert:
							v = y.X
							continue
						}
						break
					}
					if !isLen && !isConstString(bo.Y) {
						return
					}
					if _, isStr := v.Type().Underlying().(*types.Basic); !isStr {
						if _, isSlice := v.Type().Underlying().(*types.Slice); !isSlice {
							return
						}
					}
					tests++
					trimmed := false
					if call, ok := v.(*ssa.Call); ok && (calleeIs(call, "bytes", "", "TrimSpace") || calleeIs(call, "strings", "", "TrimSpace")) {
						trimmed = true
					}
					if !trimmed {
						bad++
					}
				})
				r.Check(tests > 0 && bad == 0, "F3-desc", format+": blank-line test in the description helper", c.pos(f.Pos()),
					fmt.Sprintf("%d emptiness test(s), %d of them on an untrimmed line: a whitespace-only line would be emitted as a bare continuation line, which ends the control stanza for other parsers", tests, bad))
			}
		}
	}
	r.Floor("F3-desc", n, 2)
}

// checkIPKReserved: every label the ipk template can emit is in the list of
// reserved names that are stripped from user-supplied custom fields.
func checkIPKReserved(c *Ctx, r *Report, ti tmplInfo) {
	pkg := c.Pkg("ipk")
	if pkg == nil {
		return
	}
	reserved := map[string]bool{}
	if init := pkg.Func("init"); init != nil {
		forEachInstr(init, func(in ssa.Instruction) {
			st, ok := in.(*ssa.Store)
			if !ok {
				return
			}
			if k, ok := st.Val.(*ssa.Const); ok && k.Value != nil && k.Value.Kind().String() == "String" {
				if _, isIdx := st.Addr.(*ssa.IndexAddr); isIdx {
					reserved[strings.ToLower(constString(k))] = true
				}
			}
		})
	}
	seen := map[string]bool{}
	for _, l := range ti.Label {
		if seen[l] {
			continue
		}
		seen[l] = true
		r.Check(reserved[strings.ToLower(l)], "F3-ipk-reserved", "ipk reserved name "+l, c.pos(ti.Fn.Pos()),
			"a line the template emits must be in the reserved-name list, otherwise a user-supplied custom field of that name would duplicate it")
	}
}

func checkRPMExtras(c *Ctx, r *Report, pk *Packager) {
	// changelog only behind Changelog != ""
	okGuard := false
	tags := map[int64]bool{}
	for _, fn := range sortedFuncs(c, c.Reach(pk.Package)) {
		forEachInstr(fn, func(in ssa.Instruction) {
			call, ok := in.(*ssa.Call)
			if !ok {
				return
			}
			if calleeIs(call, rpmpackPath, "RPM", "AddCustomTag") {
				if k, ok := call.Call.Args[1].(*ssa.Const); ok && k.Value != nil {
					tags[k.Int64()] = true
				}
			}
			sc := call.Call.StaticCallee()
			if sc == nil || !c.isModuleFunc(sc) {
				return
			}
			// a callee that adds the changelog tags, guarded by Changelog != ""
			adds := false
			forEachInstr(sc, func(i2 ssa.Instruction) {
				if c2, ok := i2.(*ssa.Call); ok && calleeIs(c2, rpmpackPath, "RPM", "AddCustomTag") {
					adds = true
				}
			})
			if !adds {
				return
			}
			ev := newEvaluator(c)
			info := newAObj("info")
			info.Fields["Changelog"] = cStr("")
			ev.Defaults[c.infoPtrKey()] = info
			fr := ev.Explore(fn, make([]AV, len(fn.Params)))
			if fr != nil && !fr.Live(call.Block()) {
				okGuard = true
			} else if fr != nil && fr.childFrame(call) != nil {
				// the guard sits in the callee: with the setting empty no tag
				// is added inside it
				added := false
				for _, li := range fr.LiveInstrs() {
					if c2, ok := li.In.(*ssa.Call); ok && li.In.Parent() == sc && calleeIs(c2, rpmpackPath, "RPM", "AddCustomTag") {
						added = true
					}
				}
				if !added {
					okGuard = true
				}
			}
		})
	}
	r.Check(okGuard, "F5b", "rpm changelog tags only when a changelog is configured", c.pos(pk.Package.Pos()), "with an empty changelog setting the changelog tags must not be added")
	checkRPMChangelogText(c, r, pk)
	r.Check(tags[1080] && tags[1081] && tags[1082], "F5b", "rpm changelog tag numbers", c.pos(pk.Package.Pos()), fmt.Sprintf("custom tags written: %v; CHANGELOGTIME/NAME/TEXT are 1080/1081/1082", tags))
}

func checkDebExtras(c *Ctx, r *Report, pa *provAnalysis) {
	pk := c.PackagerByFormat("deb")
	if pk == nil {
		return
	}
	reach := c.Reach(pk.Package)
	// trigger table: array of {Directive, TriggerNames}
	rows := map[string][]string{}
	var at ssa.Instruction
	for _, fn := range sortedFuncs(c, reach) {
		forEachInstr(fn, func(in ssa.Instruction) {
			al, ok := in.(*ssa.Alloc)
			if !ok || !arrayOfStruct(al) {
				return
			}
			// rows of a literal table: one constant string (the directive) and
			// one value fed from a trigger list, whatever the fields are called
			for _, row := range tableRows(al, nil) {
				dir := ""
				var names provSet
				for _, v := range row {
					if k, isK := v.(*ssa.Const); isK && constOrEmpty(k) != "" {
						dir = constOrEmpty(k)
						continue
					}
					p := pa.Of(v)
					for _, a := range infoAtoms(p) {
						if strings.Contains(a, "Deb.Triggers.") {
							names = p
						}
					}
				}
				if dir != "" && names != nil {
					rows[dir] = infoAtoms(names)
					at = in
				}
			}
		})
	}
	// the same pairing written as calls of one writer, one per directive:
	// writeDirective("interest", triggers.Interest) ...
	if len(rows) == 0 {
		for _, fn := range sortedFuncs(c, reach) {
			forEachInstr(fn, func(in ssa.Instruction) {
				call, ok := in.(*ssa.Call)
				if !ok || len(call.Call.Args) < 2 {
					return
				}
				if _, isB := call.Call.Value.(*ssa.Builtin); isB {
					return
				}
				if sc := call.Call.StaticCallee(); sc == nil || !c.isModuleFunc(sc) {
					return
				}
				dir := ""
				var names provSet
				nConst := 0
				for _, a := range call.Call.Args {
					if k, isK := a.(*ssa.Const); isK && constOrEmpty(k) != "" {
						dir = constOrEmpty(k)
						nConst++
						continue
					}
					p := pa.Of(a)
					for _, at := range infoAtoms(p) {
						if strings.Contains(at, "Deb.Triggers.") {
							names = p
						}
					}
				}
				if nConst == 1 && names != nil {
					rows[dir] = infoAtoms(names)
					at = in
				}
			})
		}
	}
	// each list alone: with exactly one trigger list configured the rendering
	// function still produces output (an early "nothing configured" return
	// that forgets a list drops that list's directives)
	if at != nil {
		fn := at.Parent()
		var paths []string
		for _, pth := range specDebTriggers {
			paths = append(paths, strings.TrimPrefix(pth, "Info."))
		}
		sort.Strings(paths)
		for _, only := range paths {
			ev := newEvaluator(c)
			info := newAObj("info")
			for _, pth := range paths {
				sl := &avSlice{id: pth}
				if pth == only {
					sl.elems = []AV{nil}
				}
				info.Fields[pth] = sl
			}
			ev.Defaults[c.infoPtrKey()] = info
			fr := ev.Explore(fn, make([]AV, len(fn.Params)))
			live, empty := 0, 0
			var at2 ssa.Instruction
			if fr != nil {
				for _, b := range fn.Blocks {
					ret, isRet := b.Instrs[len(b.Instrs)-1].(*ssa.Return)
					if !isRet || !fr.Live(b) || len(ret.Results) == 0 {
						continue
					}
					live++
					if k, isK := retResults(ret)[0].(*ssa.Const); isK && k.IsNil() {
						empty++
						at2 = ret
					}
				}
			}
			pos := c.pos(fn.Pos())
			if at2 != nil {
				pos = c.instrPos(at2)
			}
			r.Check(live > 0 && empty < live, "F5b-each", "deb triggers rendered with only "+strings.TrimPrefix(only, "Overridables.Deb.Triggers.")+" configured", pos,
				fmt.Sprintf("%d live return(s), %d of them return nothing: with this list as the only configured one the triggers file would be missing", live, empty))
		}
	}
	var dirs []string
	for d := range specDebTriggers {
		dirs = append(dirs, d)
	}
	for d := range rows {
		if _, ok := specDebTriggers[d]; !ok {
			dirs = append(dirs, d)
		}
	}
	sort.Strings(dirs)
	for _, d := range dirs {
		want, inSpec := specDebTriggers[d]
		got, have := rows[d]
		construct := "deb trigger directive " + d
		switch {
		case !inSpec:
			r.Fail("F5b", construct, c.instrPos(at), "directive not in deb-triggers(5) table of the statement")
		case !have:
			r.Fail("F5b", construct, c.pos(pk.Package.Pos()), "directive is never emitted; it must list "+want)
		default:
			r.Check(len(got) == 1 && got[0] == want, "F5b", construct, c.instrPos(at), fmt.Sprintf("lists %v, expected %s", got, want))
		}
	}
	// ./triggers member only when non-empty; changelog entry only when configured
	for _, fn := range sortedFuncs(c, reach) {
		forEachInstr(fn, func(in ssa.Instruction) {
			call, ok := in.(*ssa.Call)
			if !ok || !hasConstArg(call, "./triggers") {
				return
			}
			guarded := false
			for d := call.Block(); d != nil; d = d.Idom() {
				for _, p := range d.Preds {
					if ifi, ok := p.Instrs[len(p.Instrs)-1].(*ssa.If); ok && p.Succs[0] == d {
						if bo, ok := ifi.Cond.(*ssa.BinOp); ok && bo.Op == token.GTR {
							if k, ok := bo.Y.(*ssa.Const); ok && k.Value != nil && k.Int64() == 0 {
								guarded = true
							}
						}
					}
				}
			}
			r.Check(guarded, "F5b", "deb ./triggers member only when triggers are configured", c.instrPos(call), "the member must be written behind a non-emptiness test of the rendered trigger list")
		})
	}
	// changelog entry: appended only with a non-empty Changelog
	done := false
	for _, fn := range sortedFuncs(c, reach) {
		if done {
			break
		}
		var app *ssa.Call
		forEachInstr(fn, func(in ssa.Instruction) {
			call, ok := in.(*ssa.Call)
			if !ok {
				return
			}
			if b, ok := call.Call.Value.(*ssa.Builtin); ok && b.Name() == "append" && isContentContainer(call.Type()) {
				// appended element has type "debian changelog"
				if pa.Of(call.Call.Args[1]).has("const:" + typeDebChangelog) {
					app = call
				}
			}
		})
		if app == nil {
			continue
		}
		done = true
		ev := newEvaluator(c)
		info := newAObj("info")
		info.Fields["Changelog"] = cStr("")
		ev.Defaults[c.infoPtrKey()] = info
		fr := ev.Explore(fn, make([]AV, len(fn.Params)))
		r.Check(fr != nil && !fr.Live(app.Block()), "F5b", "deb changelog entry only when a changelog is configured", c.instrPos(app), "with an empty changelog setting no changelog entry may be added to the contents")
	}
	if !done {
		r.Unresolved("deb changelog entry", "no append of a 'debian changelog' entry found")
	}
}

// ---- D3 ----

var mdRowRe = regexp.MustCompile("^\\|\\s*`([^`]*)`\\s*\\|\\s*`([^`]*)`\\s*\\|")

func documentedArchTables(repo string) (map[string]map[string]string, error) {
	b, err := os.ReadFile(filepath.Join(repo, "www/docs/goarch-to-pkg.md"))
	if err != nil {
		return nil, err
	}
	out := map[string]map[string]string{}
	cur := ""
	for _, ln := range strings.Split(string(b), "\n") {
		if strings.HasPrefix(ln, "## ") {
			cur = strings.Trim(strings.TrimPrefix(ln, "## "), "` ")
			out[cur] = map[string]string{}
			continue
		}
		if m := mdRowRe.FindStringSubmatch(ln); m != nil && cur != "" {
			out[cur][m[1]] = m[2]
		}
	}
	return out, nil
}

// archTableOf: the table read by the function that stores Info.Arch for this packager.
func archTableOf(c *Ctx, pk *Packager, tables map[*ssa.Global]map[string]string) (*ssa.Global, *ssa.Function) {
	for _, fn := range sortedFuncs(c, c.Reach(pk.FileName)) {
		var g *ssa.Global
		storesArch := false
		forEachInstr(fn, func(in ssa.Instruction) {
			switch x := in.(type) {
			case *ssa.Store:
				if p, root := addrPath(x.Addr); root != nil && p == "Arch" && rootTypeName(root.Type()) == "Info" {
					storesArch = true
				}
			case *ssa.Lookup:
				if gg := rootGlobal(x.X); gg != nil {
					if _, ok := tables[gg]; ok {
						g = gg
					}
				}
			}
		})
		if storesArch && g != nil {
			return g, fn
		}
	}
	return nil, nil
}

func checkArchTables(c *Ctx, r *Report) {
	tables := archTables(c)
	docs, err := documentedArchTables(c.RepoDir)
	if err != nil {
		r.Unresolved("www/docs/goarch-to-pkg.md", err.Error())
		return
	}
	rows := 0
	for _, format := range specFormats {
		pk := c.PackagerByFormat(format)
		if pk == nil {
			continue
		}
		g, fn := archTableOf(c, pk, tables)
		if g == nil {
			r.Unresolved(format+" architecture table", "no function reachable from ConventionalFileName stores Info.Arch from a package-level constant table")
			continue
		}
		tbl := tables[g]
		doc := docs[format]
		var ks []string
		for k := range doc {
			ks = append(ks, k)
		}
		sort.Strings(ks)
		for _, k := range ks {
			rows++
			got, ok := tbl[k]
			if !ok {
				got = k // untranslated architectures pass through
			}
			r.Check(got == doc[k], "D3-doc", fmt.Sprintf("%s architecture %s", format, k), "www/docs/goarch-to-pkg.md",
				fmt.Sprintf("documented as %q, the code (table %s) yields %q", doc[k], globalName(g), got))
		}
		// undocumented rows: information only
		for k, v := range tbl {
			if _, ok := doc[k]; !ok && len(doc) > 0 {
				r.Note("%s: table row %s -> %s is not in the documented table", format, k, v)
			}
		}
		// override precedence: with <format>.arch set, Info.Arch := that field, table not consulted
		overrideField := ""
		forEachInstr(fn, func(in ssa.Instruction) {
			if st, ok := in.(*ssa.Store); ok {
				if p, _ := addrPath(st.Addr); p == "Arch" {
					if ld, ok := st.Val.(*ssa.UnOp); ok {
						if pp, root := addrPath(ld.X); root != nil && strings.HasSuffix(pp, ".Arch") {
							overrideField = pp
						}
					}
				}
			}
		})
		if overrideField == "" {
			r.Fail("D3-override", format+": format-specific architecture override", c.pos(fn.Pos()), "no assignment of Info.Arch from the format-specific arch field")
			continue
		}
		ev := newEvaluator(c)
		info := newAObj("info")
		info.Fields[overrideField] = cStr("custom-arch")
		info.Fields["Arch"] = cStr("amd64")
		ev.Defaults[c.infoPtrKey()] = info
		fr := ev.Explore(fn, make([]AV, len(fn.Params)))
		var stored []string
		for _, li := range fr.LiveInstrs() {
			if st, ok := li.In.(*ssa.Store); ok {
				if p, _ := addrPath(st.Addr); p == "Arch" {
					stored = append(stored, avKey(li.F.Eval(st.Val)))
				}
			}
		}
		wantKey := cStr("custom-arch").key()
		r.Check(len(stored) == 1 && stored[0] == wantKey, "D3-override", format+": format-specific architecture override", c.pos(fn.Pos()),
			fmt.Sprintf("with %s configured the stored architecture values are %v; expected exactly the configured value verbatim", overrideField, stored))
		// the documented override field belongs to this format
		wantField := map[string]string{"deb": "Overridables.Deb.Arch", "rpm": "Overridables.RPM.Arch", "apk": "Overridables.APK.Arch", "archlinux": "Overridables.ArchLinux.Arch", "ipk": "Overridables.IPK.Arch"}[format]
		r.Check(overrideField == wantField, "D3-override", format+": override comes from its own format block", c.pos(fn.Pos()), fmt.Sprintf("reads %s, expected %s", overrideField, wantField))
	}
	r.Floor("D3-doc", rows, 30)
}

// ---- F6 ----

// mustProv: atoms the value depends on along every live path of the frame.
func mustProv(c *Ctx, fr *Frame, v ssa.Value, bind map[*ssa.Parameter]provSet, depth int, seen map[ssa.Value]bool) provSet {
	if v == nil || depth > 12 || seen[v] {
		return provSet{}
	}
	seen[v] = true
	defer delete(seen, v)
	union := func(vals ...ssa.Value) provSet {
		out := provSet{}
		for _, x := range vals {
			out.add(mustProv(c, fr, x, bind, depth+1, seen))
		}
		return out
	}
	switch x := v.(type) {
	case *ssa.Const:
		return provSet{}
	case *ssa.Parameter:
		if p, ok := bind[x]; ok {
			return p
		}
		return provSet{}
	case *ssa.UnOp:
		if x.Op == token.MUL {
			if p, root := addrPath(x.X); root != nil && rootTypeName(root.Type()) == "Info" {
				return provSet{"Info." + p: true}
			}
			if al, ok := x.X.(*ssa.Alloc); ok {
				// local cell: intersection over the stores in live blocks
				var sets []provSet
				for _, ref := range *al.Referrers() {
					if st, ok := ref.(*ssa.Store); ok && st.Addr == ssa.Value(al) && fr.Live(st.Block()) {
						sets = append(sets, mustProv(c, fr, st.Val, bind, depth+1, seen))
					}
				}
				return intersect(sets)
			}
			return provSet{}
		}
		return union(x.X)
	case *ssa.BinOp:
		return union(x.X, x.Y)
	case *ssa.Phi:
		if out, ok := tableLoopMustProv(c, fr, x, bind, depth, seen); ok {
			return out
		}
		var sets []provSet
		blk := x.Block()
		for i, e := range x.Edges {
			if !fr.liveEdge[[2]int{blk.Preds[i].Index, blk.Index}] {
				continue
			}
			sets = append(sets, mustProv(c, fr, e, bind, depth+1, seen))
		}
		return intersect(sets)
	case *ssa.Convert:
		return union(x.X)
	case *ssa.ChangeType:
		return union(x.X)
	case *ssa.MakeInterface:
		return union(x.X)
	case *ssa.Slice:
		if al := allocOf(x.X); al != nil {
			out := provSet{}
			for _, ref := range *al.Referrers() {
				if ia, ok := ref.(*ssa.IndexAddr); ok {
					for _, r2 := range *ia.Referrers() {
						if st, ok := r2.(*ssa.Store); ok {
							out.add(mustProv(c, fr, st.Val, bind, depth+1, seen))
						}
					}
				}
			}
			return out
		}
		return union(x.X)
	case *ssa.Extract:
		return union(x.Tuple)
	case *ssa.Call:
		if _, isB := x.Call.Value.(*ssa.Builtin); isB {
			return union(x.Call.Args...)
		}
		// the text accumulated in a local strings.Builder / bytes.Buffer: what
		// was written to it in live blocks that dominate this read
		if o := calleeObj(x); o != nil && o.Name() == "String" && len(x.Call.Args) == 1 {
			if b := allocOf(x.Call.Args[0]); b != nil && (isNamed(derefType(b.Type()), "strings", "Builder") || isNamed(derefType(b.Type()), "bytes", "Buffer")) {
				out := provSet{}
				for _, ref := range *b.Referrers() {
					w, ok := ref.(*ssa.Call)
					if !ok || len(w.Call.Args) < 2 || w.Call.Args[0] != ssa.Value(b) {
						continue
					}
					if wo := calleeObj(w); wo == nil || !strings.HasPrefix(wo.Name(), "Write") {
						continue
					}
					if !fr.Live(w.Block()) || !(w.Block() == x.Block() && instrIndex(w) < instrIndex(x) || w.Block() != x.Block() && fr.liveMustPass(w.Block(), x.Block())) {
						continue
					}
					out.add(mustProv(c, fr, w.Call.Args[1], bind, depth+1, seen))
				}
				return out
			}
		}
		if child := fr.childFrame(x); child != nil {
			nb := map[*ssa.Parameter]provSet{}
			for i, p := range child.Fn.Params {
				if i < len(x.Call.Args) {
					nb[p] = mustProv(c, fr, x.Call.Args[i], bind, depth+1, seen)
				}
			}
			var sets []provSet
			for _, b := range child.Fn.Blocks {
				if !child.Live(b) {
					continue
				}
				if ret, ok := b.Instrs[len(b.Instrs)-1].(*ssa.Return); ok {
					res := retResults(ret)
					if len(res) > 0 {
						sets = append(sets, mustProv(c, child, res[0], nb, depth+1, map[ssa.Value]bool{}))
					}
				}
			}
			return intersect(sets)
		}
		return union(x.Call.Args...)
	}
	return provSet{}
}

func intersect(sets []provSet) provSet {
	if len(sets) == 0 {
		return provSet{}
	}
	out := provSet{}
	for k := range sets[0] {
		all := true
		for _, s := range sets[1:] {
			if !s[k] {
				all = false
			}
		}
		if all {
			out[k] = true
		}
	}
	return out
}

type versionSlot struct {
	format string
	what   string
	fn     *ssa.Function
	val    ssa.Value
	comps  []string
}

// versionSlots finds the values that carry the version string of rpm, apk and
// archlinux metadata (deb/ipk compose it in their templates: F3).
func versionSlots(c *Ctx) []versionSlot {
	var out []versionSlot
	if pk := c.PackagerByFormat("rpm"); pk != nil {
		for _, fn := range sortedFuncs(c, c.Reach(pk.Package)) {
			forEachInstr(fn, func(in ssa.Instruction) {
				st, ok := in.(*ssa.Store)
				if !ok {
					return
				}
				fa, ok := st.Addr.(*ssa.FieldAddr)
				if !ok || !isNamed(fa.X.Type(), rpmpackPath, "RPMMetaData") {
					return
				}
				switch fieldName(fa.X.Type(), fa.Field) {
				case "Version":
					out = append(out, versionSlot{"rpm", "metadata Version", fn, st.Val, []string{"Version", "Prerelease", "VersionMetadata"}})
				case "Release":
					out = append(out, versionSlot{"rpm", "metadata Release", fn, st.Val, []string{"Release"}})
				}
			})
		}
	}
	if pk := c.PackagerByFormat("archlinux"); pk != nil {
		for _, kv := range archKeyValues(c, newProv(c), pk) {
			if kv.key == "pkgver" {
				// release and epoch pass through fallible integer parses with a
				// default (noted in DESIGN, not claimed): may-provenance only (F5)
				out = append(out, versionSlot{"archlinux", ".PKGINFO pkgver", kv.fn, kv.val, []string{"Version", "Prerelease"}})
			}
		}
	}
	for _, format := range []string{"deb", "ipk"} {
		pk := c.PackagerByFormat(format)
		if pk == nil {
			continue
		}
		// a Version line composed by a Go helper the template hands the whole
		// Info: every return of the helper is a slot
		for _, ti := range templateConstants(c, c.Reach(pk.Package)) {
			for _, row := range ti.Rows {
				if row.Label != "Version" {
					continue
				}
				if _, hf, whole := infoFieldsOfRowFuncs(c, ti, row); whole {
					for _, f := range hf {
						if f == nil || f.Blocks == nil {
							continue
						}
						for _, b := range f.Blocks {
							if ret, ok := b.Instrs[len(b.Instrs)-1].(*ssa.Return); ok && len(ret.Results) == 1 {
								out = append(out, versionSlot{format, "control Version (helper)", f, ret.Results[0], []string{"Version", "Prerelease", "VersionMetadata", "Release", "Epoch"}})
							}
						}
					}
				}
			}
		}
	}
	if pk := c.PackagerByFormat("apk"); pk != nil {
		// the function registered under the template name "pkgver"
		for _, fn := range sortedFuncs(c, c.Reach(pk.Package)) {
			forEachInstr(fn, func(in ssa.Instruction) {
				mu, ok := in.(*ssa.MapUpdate)
				if !ok {
					return
				}
				k, ok := mu.Key.(*ssa.Const)
				if !ok || k.Value == nil || constString(k) != "pkgver" {
					return
				}
				v := mu.Value
				if mi, ok := v.(*ssa.MakeInterface); ok {
					v = mi.X
				}
				if f, ok := v.(*ssa.Function); ok && f.Blocks != nil {
					for _, b := range f.Blocks {
						if ret, ok := b.Instrs[len(b.Instrs)-1].(*ssa.Return); ok {
							out = append(out, versionSlot{"apk", ".PKGINFO pkgver", f, ret.Results[0], []string{"Version", "Prerelease", "Release", "VersionMetadata"}})
						}
					}
				}
			})
		}
	}
	return out
}

func checkVersionMust(c *Ctx, r *Report) {
	slots := versionSlots(c)
	n := 0
	for _, s := range slots {
		for _, comp := range s.comps {
			n++
			ev := newEvaluator(c)
			info := newAObj("info")
			val := "x1"
			if comp == "Epoch" || comp == "Release" {
				val = "7"
			}
			info.Fields[comp] = cStr(val)
			ev.Defaults[c.infoPtrKey()] = info
			fr := ev.Explore(s.fn, make([]AV, len(s.fn.Params)))
			must := mustProv(c, fr, s.val, map[*ssa.Parameter]provSet{}, 0, map[ssa.Value]bool{})
			construct := fmt.Sprintf("%s %s depends on %s", s.format, s.what, comp)
			r.Check(must["Info."+comp], "F6", construct, c.pos(s.fn.Pos()),
				fmt.Sprintf("with %s configured (non-empty) the version string must contain it on every path; on some live path it derives only from {%s}", strings.ToLower(comp), strings.Join(must.list(), ",")))
		}
	}
	r.Floor("F6", n, 8)
}

type kvRow struct {
	key string
	val ssa.Value
}

// tableKeyValueRows: key and val are read from the element a loop visits in a
// literal table (val possibly as an element of a list-valued field); returns
// one (constant key, stored value) pair per row, nil when the shape differs.
func tableKeyValueRows(pa *provAnalysis, key, val ssa.Value) []kvRow {
	ia, kfield, ok := loopElemField(key)
	if !ok {
		return nil
	}
	vfield := ""
	if ib, f, ok := loopElemField(val); ok && ib == ia {
		vfield = f
	} else if ld, ok := val.(*ssa.UnOp); ok && ld.Op == token.MUL {
		// an element of a list-valued field: for _, v := range row.values
		if inner, ok := ld.X.(*ssa.IndexAddr); ok {
			base := inner.X
			if sl, ok := base.(*ssa.Slice); ok {
				base = sl.X
			}
			if ib, f, ok := loopElemField(base); ok && ib == ia {
				vfield = f
			}
		}
	}
	if vfield == "" {
		return nil
	}
	var arr *ssa.Alloc
	table := ia.X
	if prm, isPrm := table.(*ssa.Parameter); isPrm && pa != nil {
		// the table is handed to the function that walks it: the literal at
		// its single call site
		fn := prm.Parent()
		sites := pa.callSites(fn)
		for i, q := range fn.Params {
			if q == prm && len(sites) == 1 && i < len(sites[0].Common().Args) {
				table = sites[0].Common().Args[i]
			}
		}
	}
	switch x := table.(type) {
	case *ssa.Slice:
		arr, _ = x.X.(*ssa.Alloc)
	case *ssa.Alloc:
		arr = x
	}
	if arr == nil {
		return nil
	}
	var out []kvRow
	loopElem := ia
	if table != ia.X {
		loopElem = nil // the literal lives at the call site, the loop in the callee
	}
	for _, row := range tableRows(arr, loopElem) {
		k, ok := row[kfield].(*ssa.Const)
		if !ok || row[vfield] == nil || constOrEmpty(k) == "" {
			return nil
		}
		out = append(out, kvRow{constOrEmpty(k), row[vfield]})
	}
	return out
}

// checkRPMChangelogText: the entry text stored under the changelog-text tag
// is the rendered notes with surrounding blanks removed and nothing else: no
// replacing, escaping or re-encoding call sits between the rendering buffer
// and the slice handed to rpmpack.
func checkRPMChangelogText(c *Ctx, r *Report, pk *Packager) {
	allowed := map[string]bool{"strings.TrimSpace": true}
	n := 0
	for _, fn := range sortedFuncs(c, c.Reach(pk.Package)) {
		forEachInstr(fn, func(in ssa.Instruction) {
			call, ok := in.(*ssa.Call)
			if !ok || !calleeIs(call, rpmpackPath, "RPM", "AddCustomTag") {
				return
			}
			k, ok := call.Call.Args[1].(*ssa.Const)
			if !ok || k.Value == nil || k.Int64() != 1082 {
				return
			}
			// EntryStringSlice(<slice>)
			var list ssa.Value
			if ec, ok := call.Call.Args[2].(*ssa.Call); ok && len(ec.Call.Args) == 1 {
				list = ec.Call.Args[0]
			}
			elems, okList := listElements(list, 0)
			if !okList || len(elems) == 0 {
				r.Fail("F5b-text", "rpm changelog text is the rendered notes", c.instrPos(call), "the list stored under tag 1082 is not a locally built slice (index stores or appends): not decided")
				return
			}
			for _, el := range elems {
				n++
				bad := textChainBad(c, el, allowed, 0)
				r.Check(bad == "", "F5b-text", fmt.Sprintf("rpm changelog text#%d is the rendered notes", n), c.instrPos(call),
					"between the rendered notes and the changelog-text tag only strings.TrimSpace is expected; found "+bad+": the stored text would differ from the configured changelog")
			}
		})
	}
	r.Floor("F5b-text", n, 1)
}

// checkTemplateFuncs: the helper functions the control templates call get the
// configuration's own lists as arguments; a helper that filters or rewrites
// such a list in place changes what the next rendering (another format, a
// second build) prints. Rule shared with C11 (W3-shared-slice).
func checkTemplateFuncs(c *Ctx, r *Report) {
	fm := funcMapFuncs(c)
	tmp := newReport("tmp")
	n := checkSharedSlicesIn(c, tmp, fm)
	bad := 0
	for _, o := range tmp.Obls {
		if !o.OK {
			o.Rule = "F3-funcs"
			r.Obls = append(r.Obls, o)
			bad++
		}
	}
	if bad == 0 {
		r.Pass("F3-funcs", fmt.Sprintf("%d template helper function(s) write through none of their list arguments", len(fm)), "-", fmt.Sprintf("%d element store(s)/append(s) examined", n))
	}
	if len(fm) < 3 {
		r.Fail("instance-floor", "F3-funcs", "-", fmt.Sprintf("only %d template helper functions found (expected >= 3)", len(fm)))
	}
}

// checkParsedComponents: a version component that a packager parses as an
// integer (epoch, release) is written as parsed; no branch may depend on its
// value - "epoch 0" or "release 0" is a configured value like any other, and
// a test such as `epoch > 0` silently drops it (and whatever is formatted
// together with it).
func checkParsedComponents(c *Ctx, r *Report, pa *provAnalysis) {
	n := 0
	for _, pk := range c.Packagers {
		if pk.Format == "" {
			continue
		}
		reach := c.Reach(pk.Package, pk.FileName)
		for _, fn := range sortedFuncs(c, reach) {
			if c.funcPkgPath(fn) != pk.PkgPath {
				continue
			}
			perFn := 0
			forEachInstr(fn, func(in ssa.Instruction) {
				call, ok := in.(*ssa.Call)
				if !ok {
					return
				}
				o := calleeObj(call)
				if o == nil || o.Pkg() == nil || o.Pkg().Path() != "strconv" || !(strings.HasPrefix(o.Name(), "Parse") || o.Name() == "Atoi") || len(call.Call.Args) == 0 {
					return
				}
				p := pa.Of(call.Call.Args[0])
				comp := ""
				for _, f := range []string{"Info.Epoch", "Info.Release"} {
					if p.has(f) {
						comp = f
					}
				}
				if comp == "" {
					return
				}
				n++
				perFn++
				// the numeric result and what is derived from it by conversion / phi
				var val ssa.Value
				for _, ref := range *call.Referrers() {
					if ex, ok := ref.(*ssa.Extract); ok && ex.Index == 0 {
						val = ex
					}
				}
				var cmp ssa.Instruction
				seen := map[ssa.Value]bool{}
				var walk func(v ssa.Value, d int)
				walk = func(v ssa.Value, d int) {
					if v == nil || seen[v] || d > 6 || v.Referrers() == nil {
						return
					}
					seen[v] = true
					for _, ref := range *v.Referrers() {
						switch x := ref.(type) {
						case *ssa.Convert:
							walk(x, d+1)
						case *ssa.ChangeType:
							walk(x, d+1)
						case *ssa.Phi:
							walk(x, d+1)
						case *ssa.BinOp:
							switch x.Op {
							case token.EQL, token.NEQ, token.LSS, token.LEQ, token.GTR, token.GEQ:
								if cmp == nil {
									cmp = x
								}
							}
						}
					}
				}
				walk(val, 0)
				construct := fmt.Sprintf("%s: parsed %s#%d in %s is used as parsed", pk.Format, strings.TrimPrefix(comp, "Info."), perFn, c.funcKey(fn))
				if cmp != nil {
					r.Fail("F6-parsed", construct, c.instrPos(call), fmt.Sprintf("the parsed value is compared at %s: a branch on the component's value can drop a configured component (and what is formatted with it) from the metadata", c.instrPos(cmp)))
				} else {
					r.Pass("F6-parsed", construct, c.instrPos(call), "no branch depends on the parsed value")
				}
			})
		}
	}
	r.Floor("F6-parsed", n, 3)
}

// listElements: the values put into a locally built slice - by index stores
// into a make([]T, n) or by append (also as a loop-carried variable).
func listElements(v ssa.Value, depth int) ([]ssa.Value, bool) {
	seen := map[ssa.Value]bool{}
	var out []ssa.Value
	ok := true
	var walk func(v ssa.Value, d int)
	walk = func(v ssa.Value, d int) {
		if v == nil || seen[v] || d > 12 {
			return
		}
		seen[v] = true
		switch x := v.(type) {
		case *ssa.MakeSlice:
			for _, ref := range *x.Referrers() {
				if ia, isIA := ref.(*ssa.IndexAddr); isIA {
					for _, r2 := range *ia.Referrers() {
						if st, isSt := r2.(*ssa.Store); isSt && st.Addr == ssa.Value(ia) {
							out = append(out, st.Val)
						}
					}
				}
			}
		case *ssa.Phi:
			for _, e := range x.Edges {
				walk(e, d+1)
			}
		case *ssa.Const:
		case *ssa.Call:
			b, isB := x.Call.Value.(*ssa.Builtin)
			if !isB || b.Name() != "append" {
				ok = false
				return
			}
			walk(x.Call.Args[0], d+1)
			out = append(out, variadicElems(x.Call.Args[1])...)
		case *ssa.Slice:
			walk(x.X, d+1)
		case *ssa.Alloc:
			// backing array of a literal
			for _, ref := range *x.Referrers() {
				if ia, isIA := ref.(*ssa.IndexAddr); isIA {
					for _, r2 := range *ia.Referrers() {
						if st, isSt := r2.(*ssa.Store); isSt && st.Addr == ssa.Value(ia) {
							out = append(out, st.Val)
						}
					}
				}
			}
		default:
			ok = false
		}
	}
	walk(v, depth)
	return out, ok
}

// textChainBad follows a string value back through the allowed unary string
// functions and through module helpers to the String() of its rendering
// buffer; it returns the first call that is neither ("" when clean).
func textChainBad(c *Ctx, v ssa.Value, allowed map[string]bool, depth int) string {
	for i := 0; i < 8; i++ {
		switch x := v.(type) {
		case *ssa.Extract:
			call, ok := x.Tuple.(*ssa.Call)
			if !ok {
				return "an unrecognised value"
			}
			sc := call.Call.StaticCallee()
			if sc == nil || sc.Blocks == nil || !c.isModuleFunc(sc) || depth > 3 {
				return calleeName(call)
			}
			for _, b := range sc.Blocks {
				ret, ok := b.Instrs[len(b.Instrs)-1].(*ssa.Return)
				if !ok {
					continue
				}
				res := retResults(ret)
				if x.Index >= len(res) {
					continue
				}
				if k, isK := res[x.Index].(*ssa.Const); isK {
					_ = k
					continue // the failure return's zero value
				}
				if bad := textChainBad(c, res[x.Index], allowed, depth+1); bad != "" {
					return bad
				}
			}
			return ""
		case *ssa.Call:
			o := calleeObj(x)
			if o == nil {
				return "a dynamic call"
			}
			if o.Name() == "String" && o.Type().(*types.Signature).Recv() != nil {
				return "" // the rendering buffer
			}
			if allowed[qualifiedName(o)] && len(x.Call.Args) > 0 {
				v = x.Call.Args[0]
				continue
			}
			if sc := x.Call.StaticCallee(); sc != nil && sc.Blocks != nil && c.isModuleFunc(sc) && depth <= 3 && sc.Signature.Results().Len() == 1 {
				for _, b := range sc.Blocks {
					if ret, ok := b.Instrs[len(b.Instrs)-1].(*ssa.Return); ok {
						if bad := textChainBad(c, retResults(ret)[0], allowed, depth+1); bad != "" {
							return bad
						}
					}
				}
				return ""
			}
			return funcObjName(o)
		default:
			return "an unrecognised value"
		}
	}
	return "a chain too long to decide"
}

// checkListLoopsComplete (F-complete): a loop that turns a configured list
// into metadata emits something for every element - "complete, in order,
// without extras". An iteration may end without emitting only behind an
// emptiness test of a string element (blank items are dropped everywhere);
// any other skip (a de-duplication map, a test of an element's numeric
// field) loses configured items. Applied to the rpm relation builder (the
// loop around (*rpmpack.Relations).Set) and to the list-taking helper
// functions of the control templates.
func checkListLoopsComplete(c *Ctx, r *Report) {
	n := 0
	check := func(fn *ssa.Function, emit func(ssa.Instruction) bool, what string) {
		// element loads of slice-typed parameters
		for _, prm := range fn.Params {
			if _, ok := prm.Type().Underlying().(*types.Slice); !ok {
				continue
			}
			var elem *ssa.IndexAddr
			forEachInstr(fn, func(in ssa.Instruction) {
				if ia, ok := in.(*ssa.IndexAddr); ok && ia.X == ssa.Value(prm) && elem == nil {
					if _, isConst := ia.Index.(*ssa.Const); !isConst {
						elem = ia
					}
				}
			})
			if elem == nil {
				continue
			}
			// the loop header: nearest dominator of the element load that the load can reach again
			var header *ssa.BasicBlock
			for d := elem.Block().Idom(); d != nil; d = d.Idom() {
				if blockReaches(elem.Block(), d) {
					header = d
					break
				}
			}
			if header == nil {
				continue
			}
			n++
			var emits []*ssa.BasicBlock
			forEachInstr(fn, func(in ssa.Instruction) {
				if emit(in) && (header.Dominates(in.Block())) {
					emits = append(emits, in.Block())
				}
			})
			var bad ssa.Instruction
			for _, p := range header.Preds {
				if !(header.Dominates(p) || p == header) {
					continue // loop entry
				}
				covered := false
				for _, e := range emits {
					if e == p || e.Dominates(p) {
						covered = true
					}
				}
				if covered {
					continue
				}
				// a skipping back edge: every test on the way from the element
				// load must be an emptiness test of a string
				for d := p; d != nil && d != header; d = d.Idom() {
					id := d.Idom()
					if id == nil {
						break
					}
					ifi, ok := id.Instrs[len(id.Instrs)-1].(*ssa.If)
					if !ok || !header.Dominates(id) || id == header {
						continue
					}
					if !isStringEmptinessTest(ifi.Cond) && bad == nil {
						bad = ifi
					}
				}
			}
			construct := fmt.Sprintf("%s: loop over %s emits every element", what, prm.Name())
			if bad != nil {
				r.Fail("F-complete", construct, c.instrPos(bad), "an iteration can end without emitting anything behind a test that is not an emptiness test of a string element: configured items would be missing from the metadata")
			} else {
				r.Pass("F-complete", construct, c.instrPos(elem), "every iteration emits, or skips only blank string items")
			}
		}
	}
	if pk := c.PackagerByFormat("rpm"); pk != nil {
		for _, fn := range sortedFuncs(c, c.Reach(pk.Package)) {
			isRel := false
			forEachInstr(fn, func(in ssa.Instruction) {
				if call, ok := in.(*ssa.Call); ok && calleeIs(call, rpmpackPath, "Relations", "Set") {
					isRel = true
				}
			})
			if isRel {
				check(fn, func(in ssa.Instruction) bool {
					call, ok := in.(*ssa.Call)
					return ok && calleeIs(call, rpmpackPath, "Relations", "Set")
				}, "rpm relations in "+c.funcKey(fn))
			}
		}
	}
	for fn := range funcMapFuncs(c) {
		check(fn, func(in ssa.Instruction) bool {
			call, ok := in.(*ssa.Call)
			if !ok {
				return false
			}
			if b, isB := call.Call.Value.(*ssa.Builtin); isB && b.Name() == "append" {
				return true
			}
			if o := calleeObj(call); o != nil {
				switch o.Name() {
				case "WriteString", "Write", "WriteByte", "WriteRune", "Fprintf", "Fprint", "Fprintln":
					return true
				}
			}
			return false
		}, "template helper "+c.funcKey(fn))
	}
	r.Floor("F-complete", n, 2)
}

func blockReaches(from, to *ssa.BasicBlock) bool {
	seen := map[*ssa.BasicBlock]bool{}
	stack := append([]*ssa.BasicBlock{}, from.Succs...)
	for len(stack) > 0 {
		b := stack[len(stack)-1]
		stack = stack[:len(stack)-1]
		if b == to {
			return true
		}
		if seen[b] {
			continue
		}
		seen[b] = true
		stack = append(stack, b.Succs...)
	}
	return false
}

// isStringEmptinessTest: `s == ""` / `s != ""` / `len(s) == 0` for a string s.
func isStringEmptinessTest(v ssa.Value) bool {
	bo, ok := v.(*ssa.BinOp)
	if !ok || (bo.Op != token.EQL && bo.Op != token.NEQ) {
		return false
	}
	for _, pair := range [][2]ssa.Value{{bo.X, bo.Y}, {bo.Y, bo.X}} {
		k, isK := pair[1].(*ssa.Const)
		if !isK || k.Value == nil {
			continue
		}
		if b, isB := pair[0].Type().Underlying().(*types.Basic); isB && b.Info()&types.IsString != 0 && constOrEmpty(k) == "" && k.Value.Kind().String() == "String" {
			return true
		}
		if call, isC := pair[0].(*ssa.Call); isC {
			if bi, isBi := call.Call.Value.(*ssa.Builtin); isBi && bi.Name() == "len" && k.Int64() == 0 {
				if b, isB := call.Call.Args[0].Type().Underlying().(*types.Basic); isB && b.Info()&types.IsString != 0 {
					return true
				}
			}
		}
	}
	return false
}

// tableLoopMustProv: a value carried around a loop over a literal table
// ({"~", info.Prerelease}, {"+", info.VersionMetadata}, ...): every row is
// visited, so what the value must depend on is what it depended on before the
// loop plus, for each row, what one iteration adds under that row's values
// (the iteration is re-evaluated with the loop element's fields bound to the
// row).
func tableLoopMustProv(c *Ctx, fr *Frame, x *ssa.Phi, bind map[*ssa.Parameter]provSet, depth int, seen map[ssa.Value]bool) (provSet, bool) {
	h := x.Block()
	var elem *ssa.IndexAddr
	var arr *ssa.Alloc
	forEachInstr(fr.Fn, func(in ssa.Instruction) {
		ia, ok := in.(*ssa.IndexAddr)
		if !ok || elem != nil {
			return
		}
		inc, ok := ia.Index.(*ssa.BinOp)
		if !ok {
			return
		}
		iphi, ok := inc.X.(*ssa.Phi)
		if !ok || iphi.Block() != h {
			return
		}
		if a, _ := fullRangeOver(ia, ia); a != nil {
			elem, arr = ia, a
		}
	})
	if elem == nil {
		return nil, false
	}
	rows := tableRows(arr, elem)
	if len(rows) == 0 {
		return nil, false
	}
	out := provSet{}
	var inner []ssa.Value
	for i, e := range x.Edges {
		p := h.Preds[i]
		if h.Dominates(p) {
			inner = append(inner, e)
		} else {
			out.add(mustProv(c, fr, e, bind, depth+1, seen))
		}
	}
	for _, row := range rows {
		ev := newEvaluator(c)
		ev.Defaults = fr.ev.Defaults
		ev.MaxDepth = fr.ev.MaxDepth
		ev.Bind = map[ssa.Value]AV{}
		forEachInstr(fr.Fn, func(in ssa.Instruction) {
			v, ok := in.(ssa.Value)
			if !ok {
				return
			}
			if ia, f, ok := loopElemField(v); ok && ia == elem && row[f] != nil {
				if av := fr.Eval(row[f]); av != nil {
					ev.Bind[v] = av
				}
			}
		})
		fr2 := ev.Explore(fr.Fn, fr.Params)
		if fr2 == nil {
			continue
		}
		// one iteration for this row: row fields read through the element
		// stand for the row's values
		rb := rowSubst{elem: elem, row: row}
		for _, e := range inner {
			out.add(mustProvRow(c, fr2, e, bind, depth+1, seen, rb))
		}
	}
	return out, true
}

type rowSubst struct {
	elem *ssa.IndexAddr
	row  map[string]ssa.Value
}

// mustProvRow is mustProv with reads of the loop element's fields replaced by
// the row's stored values.
func mustProvRow(c *Ctx, fr *Frame, v ssa.Value, bind map[*ssa.Parameter]provSet, depth int, seen map[ssa.Value]bool, rb rowSubst) provSet {
	if v == nil || depth > 14 || seen[v] {
		return provSet{}
	}
	if ia, f, ok := loopElemField(v); ok && ia == rb.elem && rb.row[f] != nil {
		return mustProv(c, fr, rb.row[f], bind, depth+1, map[ssa.Value]bool{})
	}
	switch x := v.(type) {
	case *ssa.BinOp:
		out := mustProvRow(c, fr, x.X, bind, depth+1, seen, rb)
		out.add(mustProvRow(c, fr, x.Y, bind, depth+1, seen, rb))
		return out
	case *ssa.Phi:
		seen[v] = true
		defer delete(seen, v)
		var sets []provSet
		blk := x.Block()
		for i, e := range x.Edges {
			if !fr.liveEdge[[2]int{blk.Preds[i].Index, blk.Index}] {
				continue
			}
			sets = append(sets, mustProvRow(c, fr, e, bind, depth+1, seen, rb))
		}
		return intersect(sets)
	case *ssa.Convert:
		return mustProvRow(c, fr, x.X, bind, depth+1, seen, rb)
	}
	return mustProv(c, fr, v, bind, depth, seen)
}

// checkCustomFieldsAsConfigured (F3-fields-asis): the custom control fields
// (deb.fields, ipk.fields) are printed key by key as configured. A packager
// removes reserved names from them; it never inserts into the map or replaces
// it - a rebuilt map (canonical spellings, merged duplicates) states keys
// nobody configured and drops values when two spellings meet.
func checkCustomFieldsAsConfigured(c *Ctx, r *Report, pa *provAnalysis) {
	n, deletes := 0, 0
	isFields := func(p provSet) bool {
		for _, a := range p.list() {
			if strings.HasSuffix(a, ".IPK.Fields") || strings.HasSuffix(a, ".Deb.Fields") {
				return true
			}
		}
		return false
	}
	for _, pk := range c.Packagers {
		if pk.Format != "deb" && pk.Format != "ipk" {
			continue
		}
		for _, fn := range sortedFuncs(c, c.Reach(pk.Package, pk.FileName)) {
			if c.funcPkgPath(fn) != pk.PkgPath {
				continue
			}
			n++
			k := 0
			forEachInstr(fn, func(in ssa.Instruction) {
				switch x := in.(type) {
				case *ssa.Store:
					p, root := addrPath(x.Addr)
					if root != nil && (strings.HasSuffix(p, "IPK.Fields") || strings.HasSuffix(p, "Deb.Fields")) && rootTypeName(root.Type()) == "Info" {
						// a rebuilt map is the configured one filtered: every key put
						// into it is a key of the configured map as it stands
						rew := ""
						forEachInstr(fn, func(i2 ssa.Instruction) {
							mu, isMU := i2.(*ssa.MapUpdate)
							if !isMU || mu.Map.Type().String() != "map[string]string" || !sameMapValue(mu.Map, x.Val) {
								return
							}
							kp := pa.Of(mu.Key)
							okKey := isFields(kp)
							for _, a := range kp.list() {
								if strings.HasPrefix(a, "call:") {
									okKey = false
								}
							}
							if !okKey {
								rew = shorten(valueExpr(c, mu.Key, 0), 60)
							}
						})
						k++
						r.Check(rew == "", "F3-fields-asis", fmt.Sprintf("%s: custom field map replaced#%d in %s keeps the configured keys", pk.Format, k, c.funcKey(fn)), c.instrPos(x),
							"the packager replaces the configured custom-field map by one keyed with "+rew+": the control file states keys nobody configured, and two configured keys that meet in one rebuilt key lose a value")
					}
				case *ssa.MapUpdate:
					if x.Map.Type().String() == "map[string]string" && isFields(pa.Of(x.Map)) {
						if _, fresh := x.Map.(*ssa.MakeMap); fresh {
							return
						}
						k++
						r.Fail("F3-fields-asis", fmt.Sprintf("%s: custom field map written#%d in %s", pk.Format, k, c.funcKey(fn)), c.instrPos(x),
							"the packager inserts into the configured custom-field map")
					}
				case *ssa.Call:
					if b, ok := x.Call.Value.(*ssa.Builtin); ok && b.Name() == "delete" && isFields(pa.Of(x.Call.Args[0])) {
						deletes++
					}
				}
			})
		}
	}
	r.Count("custom_field_deletes", deletes)
	r.Pass("F3-fields-asis", "deb, ipk: custom field maps scanned for inserts and replacements", "-", fmt.Sprintf("%d packager functions examined; %d delete(s) of reserved names", n, deletes))
	if n < 40 {
		r.Fail("instance-floor", "F3-fields-asis", "-", fmt.Sprintf("only %d packager functions examined", n))
	}
}

// sameMapValue: m is the map v stands for (v itself, or an edge of the phi v).
func sameMapValue(m, v ssa.Value) bool {
	if m == v {
		return true
	}
	if phi, ok := v.(*ssa.Phi); ok {
		for _, e := range phi.Edges {
			if e == m {
				return true
			}
		}
	}
	return false
}

// archKV is one key of the archlinux .PKGINFO table with the value written
// under it, whatever form the table takes: a map literal (constant-keyed map
// updates), calls of a (writer, key, value) helper with a constant key, or a
// literal table of {key, value} rows walked by a loop - in the function that
// builds it or in the helper it is handed to.
type archKV struct {
	key string
	val ssa.Value
	fn  *ssa.Function // the function the value is computed in
	at  ssa.Instruction
}

func archKeyValues(c *Ctx, pa *provAnalysis, pk *Packager) []archKV {
	var out []archKV
	ownerOf := func(v ssa.Value, dflt *ssa.Function) *ssa.Function {
		if in, ok := v.(ssa.Instruction); ok && in.Parent() != nil {
			return in.Parent()
		}
		if p, ok := v.(*ssa.Parameter); ok {
			return p.Parent()
		}
		return dflt
	}
	for _, fn := range sortedFuncs(c, c.Reach(pk.Package)) {
		forEachInstr(fn, func(in ssa.Instruction) {
			switch x := in.(type) {
			case *ssa.MapUpdate:
				k, ok := x.Key.(*ssa.Const)
				if !ok || k.Value == nil || x.Map.Type().String() != "map[string]string" {
					return
				}
				out = append(out, archKV{constString(k), x.Value, fn, in})
			case *ssa.Call:
				sc := x.Call.StaticCallee()
				if sc == nil || !c.isModuleFunc(sc) || len(x.Call.Args) != 3 {
					return
				}
				if _, isStr := x.Call.Args[1].Type().Underlying().(*types.Basic); !isStr {
					return
				}
				k, ok := x.Call.Args[1].(*ssa.Const)
				if !ok || k.Value == nil || k.Value.Kind().String() != "String" {
					for _, row := range tableKeyValueRows(pa, x.Call.Args[1], x.Call.Args[2]) {
						out = append(out, archKV{row.key, row.val, ownerOf(row.val, fn), in})
					}
					return
				}
				out = append(out, archKV{constString(k), x.Call.Args[2], fn, in})
			}
		})
	}
	return out
}

// checkScalarRowsPlain (F3-scalar-plain, F3-fields-range): the single-line
// scalar settings (maintainer, vendor, homepage, license, section, priority)
// are printed as configured - no template function rewrites them - and the
// custom fields are ranged over as configured - no function filters or
// rewrites the map on its way into the range.
func checkScalarRowsPlain(c *Ctx, r *Report, format string, ti tmplInfo) {
	scalar := map[string]bool{"Info.Maintainer": true, "Info.Vendor": true, "Info.Homepage": true, "Info.License": true,
		"Info.Overridables.Section": true, "Info.Section": true, "Info.Overridables.Priority": true, "Info.Priority": true}
	n := 0
	rangeBad := ""
	nRange := 0
	for _, row := range ti.Rows {
		fs := canonFields(c, row.Printed)
		if len(fs) == 1 && scalar[fs[0]] {
			n++
			r.Check(len(row.Funcs) == 0, "F3-scalar-plain", fmt.Sprintf("%s: row %q prints %s as configured", format, row.Label, strings.TrimPrefix(fs[0], "Info.")), c.pos(ti.Fn.Pos()),
				fmt.Sprintf("the row applies %v to the setting: whatever the function changes (non-ASCII text, case, blanks) is not what was configured", row.Funcs))
		}
		for _, g := range canonFields(c, row.Guards) {
			if strings.HasSuffix(g, ".Fields") {
				nRange++
				if len(row.GFuncs) > 0 {
					rangeBad = fmt.Sprintf("%v", row.GFuncs)
				}
			}
		}
	}
	if format == "deb" || format == "ipk" {
		r.Check(rangeBad == "" && nRange > 0, "F3-fields-range", format+": the custom fields are ranged over as configured", c.pos(ti.Fn.Pos()),
			fmt.Sprintf("%d row(s) inside the range over the custom fields; functions applied on the way into the range: %s - a filtered or rebuilt map drops or renames configured fields", nRange, rangeBad))
		r.Floor("F3-scalar-plain/"+format, n, 4)
	}
}
