package main

import (
	"fmt"
	"go/token"
	"go/types"
	"sort"
	"strings"

	"golang.org/x/tools/go/ssa"
)

func init() { register("C01", checkC01) }

// payloadMarkers: what a prepared entry of the cell's type can cause in the
// packager's payload writer.
func payloadMarkers(c *Ctx, pa *provAnalysis, fr *Frame) map[string]bool {
	out := map[string]bool{}
	for _, li := range fr.LiveInstrs() {
		switch x := li.In.(type) {
		case *ssa.Store:
			fa, ok := x.Addr.(*ssa.FieldAddr)
			if !ok {
				continue
			}
			switch {
			case isNamed(fa.X.Type(), "archive/tar", "Header") && fieldName(fa.X.Type(), fa.Field) == "Typeflag":
				// constant here, or a helper's parameter whose value the frame knows
				tf, known := int64(0), false
				if k, ok := x.Val.(*ssa.Const); ok && k.Value != nil {
					tf, known = k.Int64(), true
				} else if li.F != nil {
					tf, known = avInt(li.F.Eval(x.Val))
				}
				if known {
					switch tf {
					case '5':
						out["DIRFLAG"] = true
					case '2':
						out["LINKFLAG"] = true
					case '0':
						out["REGFLAG"] = true
					}
				}
			case isNamed(fa.X.Type(), rpmpackPath, "RPMFile") && fieldName(fa.X.Type(), fa.Field) == "Mode":
				p := pa.Of(x.Val)
				if p.has("const:16384") {
					out["DIRFLAG"] = true
				}
				if p.has("const:40960") {
					out["LINKFLAG"] = true
				}
			}
		case *ssa.Call:
			switch {
			case calleeIs(x, "archive/tar", "Writer", "WriteHeader"):
				out["WRITE"] = true
			case calleeIs(x, rpmpackPath, "RPM", "AddFile"):
				out["WRITE"] = true
			case calleeIs(x, "archive/tar", "", "FileInfoHeader"):
				out["REGFLAG"] = true
			}
			if o := calleeObj(x); o != nil {
				switch qualifiedName(o) {
				case "os.Open", "os.OpenFile", "os.ReadFile":
					if pa.Of(x.Call.Args[0]).has("Content.Source") {
						out["READSRC"] = true
					}
				}
			}
		}
	}
	return out
}

func checkC01(c *Ctx, r *Report) {
	r.Rules = []string{"D1 payload dispatch matrix (prepared type x packager)", "F1 header field provenance per entry class", "F1-body entry bodies read from the source and copied verbatim", "F1-only every payload member is written for a contents entry", "F2 default mode is stat &^ umask, explicit modes verbatim", "D2 directory / owner defaults", "parents for every entry (shared with C05)", "F1-link-verbatim symlink targets are plain reads of the entry's source", "plan-W1 plan entries and their file info are fresh copies (imported from C11)", "plan-G-*/O5-parents-clean path discipline of the planner (imported from C05)", "F2-perm a directory's mode taken from disk is reduced to its permission bits", "F2-stat default file info is taken with os.Stat (through links)", "fresh-T6-no-carried-state nothing on the packaging paths keeps results in package-level state (rule of C07)", "plan-K2c an occupant fails or is replaced (imported from C05)", "F2-symlink-nostat a symlink entry's source is not stat'ed", "plan-K6-sorted-search (imported from C05)", "F1-mode-tag an rpm regular file's mode gets no constant combined into it"}
	r.Explanation = "Structural necessary conditions of payload fidelity. (D1) each packager's payload writer — the function that loops over the prepared contents, branches on the entry type and writes archive headers named after destinations — is abstractly evaluated for every prepared entry type; the set of live mechanisms (directory header, link header, read of the entry's source, header written/added) is compared with the table transcribed from the statement: directories -> directory entry without reading a source (implied directories skipped in rpm only), symlinks -> link entry without reading a source, file and config types (and rpm's doc/licence/readme) -> source opened and an entry written, ghost -> header only, the deb changelog -> a generated member. (F1) for every tar header / rpm file record created for payload entries, the definitions that reach the write (flow-sensitive) must feed name from the destination, mode from the entry's mode (an explicit store over tar.FileInfoHeader's permission-only mode), owner from owner and group from group (not swapped), modification time from the entry's mtime, link target from the entry's source. (F1-body) every file opened or read under a path derived from a contents entry on the payload writer's call graph is named by the entry's source alone, and the bytes read reach an archive write, a copy into the archive or the rpm file body through conversions only (no slicing, limiting or rewriting step). (F1-only) every tar header write / rpm AddFile on the payload writer's call graph lies in the body of a loop that has loaded an element of the prepared contents, or in a function reached only from such loop bodies: the writer adds no member of its own. (F2) in the planner the mode taken from disk is stat-mode AND-NOT umask and is stored only when no mode is set. (D2) directory mode defaults to 0755 and owner/group to root. Equality of the bytes on disk at packaging time with what a later reader sees, glob results and concrete mode values are not decided."
	r.Explanation += " (F1-link-verbatim) the target of every symlink member is a plain read of the entry's source. Imported: the plan's entries and their file info are fresh copies (C11 W1), and the planner's path discipline (C05 G-base, G-prefix, G-cutset, G-rooted, O5-parents-clean)."
	r.Explanation += " (F2-perm) where the planner marks an entry a directory, the mode it takes from disk is <stat mode>.Perm() &^ umask. (F2-stat) the FileInfo whose mode/size/time become an entry's defaults comes from os.Stat, not os.Lstat. (fresh-T6) rule of C07 applied to payload selection: no package-level write on packaging paths (a memoised glob result would omit files added later)."
	r.Explanation += " (F2-symlink-nostat) the function that fills an entry's defaults from os.Stat(source), evaluated for a symlink entry, does not reach the stat (fields of a struct the function has just allocated are modelled)."
	r.Assumptions = []string{
		"io.Copy / tar.Writer.Write / rpmpack copy the bytes they are handed",
		"tar.FileInfoHeader(fi, link) sets ModTime from fi.ModTime(), Size from fi.Size() and Mode from fi.Mode().Perm() (hand model)",
	}
	cells := 0
	nbody := 0
	nonly := 0
	for _, pk := range c.Packagers {
		if pk.Format == "" {
			continue
		}
		w := payloadWriter(c, pk)
		if w == nil {
			r.Unresolved(pk.Format+" payload writer", "no function loops over the contents, branches on the entry type and writes headers named after destinations")
			continue
		}
		// type-rooted provenance without the per-field closure: F1 asks which
		// field of the entry feeds a header field, not what may have been
		// written into that field elsewhere
		pa := newProv(c)
		for _, typ := range preparedTypes {
			want := specPayload(pk.Format, typ)
			if want == "-" {
				continue
			}
			cells++
			ev := cellEvaluator(c, typ, nil)
			fr := ev.Explore(w, make([]AV, len(w.Params)))
			got := payloadMarkers(c, pa, fr)
			construct := fmt.Sprintf("%s payload[type=%q]", pk.Format, typ)
			ok := true
			need := func(m string, present bool, why string) {
				if got[m] != present {
					ok = false
					_ = why
				}
			}
			switch want {
			case "DIR":
				need("WRITE", true, "")
				need("DIRFLAG", true, "")
				need("READSRC", false, "")
			case "LINK":
				need("WRITE", true, "")
				need("LINKFLAG", true, "")
				need("READSRC", false, "")
			case "FILE":
				need("WRITE", true, "")
				need("READSRC", true, "")
			case "SKIP":
				need("WRITE", false, "")
				need("READSRC", false, "")
			case "HEADER-ONLY":
				need("WRITE", true, "")
			case "GENERATED":
				need("WRITE", true, "")
				need("READSRC", false, "")
			}
			r.Check(ok, "D1", construct, c.pos(w.Pos()), fmt.Sprintf("live mechanisms {%s}; the statement requires outcome %s for this entry type in %s", joinSorted(got), want, pk.Format))
		}
		checkPayloadHeaders(c, r, pk, w, pa)
		nbody += checkPayloadBodies(c, r, pk, w, pa)
		nonly += checkOnlyEntries(c, r, pk, w)
	}
	r.Floor("F1-body", nbody, 5)
	r.Floor("F1-only", nonly, 8)
	r.Count("dispatch_cells", cells)
	checkPlannerDefaults(c, r)
	// parents for every entry: the plan rules of C05
	tmp5 := newReport("tmp")
	checkC05(c, tmp5)
	n5 := 0
	for _, o := range tmp5.Obls {
		if o.Rule == "G-base" || o.Rule == "G-prefix" || o.Rule == "G-cutset" || o.Rule == "G-rooted" || o.Rule == "O5-parents-clean" || o.Rule == "O5-parents" || o.Rule == "K2" || o.Rule == "K2b" || o.Rule == "K2c" || o.Rule == "K6-sorted-search" || o.Rule == "K3" || (o.Rule == "D1+D5" && (strings.Contains(o.Construct, `tag=""`))) {
			o.Rule = "plan-" + o.Rule
			r.Obls = append(r.Obls, o)
			n5++
		}
	}
	r.Floor("plan rules", n5, 50)
	// defaults are filled into a copy: an entry of the plan never shares its
	// file info with the caller's entry (otherwise a default written for one
	// entry - the directory mode, say - shows up as another entry's explicit
	// value)
	// what a build ships is read at that build: nothing on the packaging paths
	// keeps results (glob matches, file lists, bodies) in package-level state
	// for the next one (rule of C07)
	checkNoCarriedState(c, r, "fresh-T6-no-carried-state")
	r.Floor("plan-W1", importRules(c, r, checkC11, "plan-", []string{"W1-entry-fresh", "W1-fileinfo-fresh"}, nil, "PrepareForPackager"), 2)
	r.Exhaustive = true
}

// checkPayloadHeaders: F1 for one packager.
func checkPayloadHeaders(c *Ctx, r *Report, pk *Packager, w *ssa.Function, pa *provAnalysis) {
	var fns []*ssa.Function
	for _, fn := range sortedFuncs(c, c.Reach(w)) {
		if c.funcPkgPath(fn) == pk.PkgPath {
			fns = append(fns, fn)
		}
	}
	n := 0
	for _, h := range headerObjects(c, fns) {
		if len(h.Uses) == 0 {
			continue
		}
		// payload headers only: the name derives from an entry's destination
		// members generated by the packager itself (constant mode: the deb
		// changelog) are not entries of the configuration's contents. A header
		// builder whose mode is a parameter is judged per call site.
		ctxs := []*provCtx{nil}
		perSite := false
		for _, st := range h.fieldStores("Mode") {
			if _, isPrm := stripConv(st.Val).(*ssa.Parameter); isPrm && st.Val.Parent() == h.Fn {
				perSite = true
			}
		}
		if sites := pa.callSites(h.Fn); perSite && len(sites) > 0 {
			ctxs = nil
			for _, cs := range sites {
				ctxs = append(ctxs, &provCtx{call: cs.Common(), fn: h.Fn, depth: 1})
			}
		}
		isPayload := false
		for _, ctx := range ctxs {
			named := false
			for _, st := range h.fieldStores("Name") {
				if pa.of(st.Val, ctx).has("Content.Destination") {
					named = true
				}
			}
			if !named {
				continue
			}
			allConst := len(h.fieldStores("Mode")) > 0
			for _, st := range h.fieldStores("Mode") {
				v := stripConv(st.Val)
				if prm, isPrm := v.(*ssa.Parameter); isPrm && ctx != nil {
					for i, q := range h.Fn.Params {
						if q == prm && i < len(ctx.call.Args) {
							v = stripConv(ctx.call.Args[i])
						}
					}
				}
				if _, isConst := v.(*ssa.Const); !isConst {
					allConst = false
				}
			}
			if allConst && h.Kind == "tar" {
				continue
			}
			isPayload = true
		}
		if !isPayload {
			continue
		}
		n++
		use := h.Uses[len(h.Uses)-1]
		classes := map[string]bool{}
		for _, u := range h.Uses {
			for k := range h.classAt(u) {
				classes[k] = true
			}
		}
		hk := pk.Format + ": " + h.key(c) + " [" + joinSorted(classes) + "]"
		fieldProv := func(field string) (provSet, bool) {
			out := provSet{}
			init := false
			for _, u := range h.Uses {
				defs, ini := h.reaching(field, u)
				if ini {
					init = true
				}
				for _, st := range defs {
					out.add(h.provOf(pa, st))
				}
			}
			return out, init
		}
		check := func(field, wantAtom string, notAtoms ...string) {
			p, init := fieldProv(field)
			ok := p.has(wantAtom)
			detail := fmt.Sprintf("%s is fed from {%s}", field, strings.Join(p.fields(), ","))
			if init && !h.FromFileInfo {
				detail += " (or left unset on some path)"
				ok = false
			}
			if init && h.FromFileInfo {
				switch field {
				case "ModTime":
					ok = true
					detail = "ModTime comes from tar.FileInfoHeader(entry) = the entry's mtime"
				case "Mode":
					ok = false
					detail = "Mode can remain the permission-only value of tar.FileInfoHeader (setuid/setgid/sticky lost)"
				default:
					ok = false
					detail += " (or left as tar.FileInfoHeader set it)"
				}
			}
			for _, na := range notAtoms {
				if p.has(na) {
					ok = false
					detail += "; must not derive from " + na
				}
			}
			r.Check(ok, "F1", hk+" "+field, c.instrPos(h.Create), detail+"; expected "+wantAtom)
		}
		nameField, ownerField, groupField, mtimeField := "Name", "Uname", "Gname", "ModTime"
		if h.Kind == "rpm" {
			ownerField, groupField, mtimeField = "Owner", "Group", "MTime"
		}
		_ = use
		check(nameField, "Content.Destination")
		if classes["FILE"] || classes["DIR"] {
			check("Mode", "FileInfo.Mode")
			// "explicit mode verbatim including setuid/setgid/sticky": no
			// definition of the mode narrows it to the permission bits
			okBits := true
			whyBits := "no mode definition drops the setuid/setgid/sticky bits"
			for _, u := range h.Uses {
				defs, _ := h.reaching("Mode", u)
				for _, st := range defs {
					if w := narrowsMode(c, h.valueOf(st), 0); w != "" {
						okBits = false
						whyBits = fmt.Sprintf("the mode stored at %s %s: an explicit mode such as 04755 would be written as 0755", c.instrPos(st), w)
					}
				}
			}
			r.Check(okBits, "F1-mode-bits", hk+" Mode keeps the special bits", c.instrPos(h.Create), whyBits)
			if classes["FILE"] && len(classes) == 1 && h.Kind == "rpm" {
				// rpmpack tells files, directories and links apart by the type
				// bits of the mode: a regular file's mode gets no constant
				// OR-ed in on the way (a mistyped S_ISUID is S_IFDIR)
				okTag := ""
				for _, u := range h.Uses {
					defs, _ := h.reaching("Mode", u)
					for _, st := range defs {
						if w := orsConstantIn(c, h.valueOf(st), 0); w != "" {
							okTag = fmt.Sprintf("the mode stored at %s %s", c.instrPos(st), w)
						}
					}
				}
				r.Check(okTag == "", "F1-mode-tag", hk+" Mode of a regular file carries no type bits of the packager's making", c.instrPos(h.Create),
					okTag+": rpmpack (and rpm) classify the entry by these bits, so a file can be recorded as a directory - size 4096, no digest - while its body is still shipped")
			}
			check(ownerField, "FileInfo.Owner", "FileInfo.Group")
			check(groupField, "FileInfo.Group", "FileInfo.Owner")
		}
		if classes["FILE"] {
			// dirs carry the package mtime in some formats; the statement asks for files
			p, init := fieldProv(mtimeField)
			ok := p.has("FileInfo.MTime") || (init && h.FromFileInfo)
			r.Check(ok, "F1", hk+" "+mtimeField, c.instrPos(h.Create), fmt.Sprintf("%s is fed from {%s}; expected the entry's mtime", mtimeField, strings.Join(p.fields(), ",")))
			// precedence: a regular file's own (declared or defaulted) mtime is
			// not overridden by the package-wide one
			if len(classes) == 1 {
				r.Check(!p.has("Info.MTime"), "F1-mtime", hk+" "+mtimeField+" precedence", c.instrPos(h.Create), "a regular file's header time must come from the entry's mtime alone; the package-wide mtime is only its default (applied by the planner), it must not take precedence in the packager")
			}
		}
		if classes["FILE"] && len(classes) > 1 {
			// one header builder for several kinds: the call that builds the
			// header of a regular file (from the function that opens the
			// source) must not be handed the package-wide mtime
			for _, cs := range pa.callSites(h.Fn) {
				caller := cs.Parent()
				opens := false
				forEachInstr(caller, func(in ssa.Instruction) {
					if call, ok := in.(*ssa.Call); ok {
						if o := calleeObj(call); o != nil {
							switch qualifiedName(o) {
							case "os.Open", "os.OpenFile", "os.ReadFile":
								opens = true
							}
						}
					}
				})
				if !opens {
					continue
				}
				bad := false
				for _, a := range cs.Common().Args {
					if pa.Of(a).has("Info.MTime") {
						bad = true
					}
				}
				r.Check(!bad, "F1-mtime", hk+" "+mtimeField+" precedence at the regular-file call site in "+c.funcKey(caller), c.instrPos(cs), "the header of a regular file must be built from the entry's own mtime; passing the package-wide mtime here lets it override a per-entry mtime")
			}
		}
		if classes["LINK"] {
			switch {
			case h.Kind == "rpm":
				check("Body", "Content.Source")
			case len(classes) > 1:
				// one header object serves several kinds of entry: the link
				// target must be set in the branch that marks it a symlink
				okL := false
				for _, st := range h.fieldStores("Linkname") {
					if !pa.Of(st.Val).has("Content.Source") {
						continue
					}
					for _, tf := range h.fieldStores("Typeflag") {
						if k, ok := tf.Val.(*ssa.Const); ok && k.Value != nil && k.Int64() == '2' && tf.Block() == st.Block() {
							okL = true
						}
					}
				}
				r.Check(okL, "F1", hk+" Linkname", c.instrPos(h.Create), "the branch that marks the entry a symlink must set the link target from the entry's source")
			default:
				check("Linkname", "Content.Source")
			}
		}
		if classes["LINK"] {
			// "every symlink with its literal target": the value written is the
			// entry's source itself - conversions only, no rewriting call
			field := "Linkname"
			if h.Kind == "rpm" {
				field = "Body"
			}
			okV := true
			why := "link target definitions are plain reads of the entry's source"
			seenDef := false
			for _, st := range h.fieldStores(field) {
				if !pa.Of(st.Val).has("Content.Source") {
					continue
				}
				if h.Kind == "rpm" && pa.Of(st.Val).has("call:os.ReadFile") {
					continue // the body of a regular file
				}
				seenDef = true
				if !plainFieldRead(h.valueOf(st), "Source") {
					okV = false
					why = fmt.Sprintf("the link target stored at %s is %s: the target must be the entry's source as declared (or as read from disk), not a rewritten form of it", c.instrPos(st), shorten(valueExpr(c, st.Val, 0), 100))
				}
			}
			if seenDef {
				r.Check(okV, "F1-link-verbatim", hk+" link target", c.instrPos(h.Create), why)
			}
		}
		if h.Kind == "rpm" && classes["FILE"] {
			p, _ := fieldProv("Body")
			r.Check(p.has("Content.Source") && p.has("call:os.ReadFile"), "F1", hk+" Body", c.instrPos(h.Create), "file bytes must be read from the entry's source")
		}
	}
	floor := map[string]int{"deb": 1, "rpm": 3, "apk": 3, "archlinux": 3, "ipk": 3}[pk.Format]
	if n < floor {
		r.Fail("instance-floor", "F1 "+pk.Format, "-", fmt.Sprintf("%d payload header objects found, expected at least %d", n, floor))
	}
}

// checkPlannerDefaults: F2 and D2 in package files.
func checkPlannerDefaults(c *Ctx, r *Report) {
	prep := c.Func("files", "PrepareForPackager")
	if prep == nil {
		return
	}
	pa := newProv(c)
	modeStores := 0
	for _, fn := range sortedFuncs(c, c.Reach(prep)) {
		if c.funcPkgPath(fn) != filesPath {
			continue
		}
		perFn := 0
		forEachInstr(fn, func(in ssa.Instruction) {
			st, ok := in.(*ssa.Store)
			if !ok {
				return
			}
			fa, ok := st.Addr.(*ssa.FieldAddr)
			if !ok || rootTypeName(fa.X.Type()) != "FileInfo" {
				return
			}
			field := fieldName(fa.X.Type(), fa.Field)
			switch field {
			case "Mode":
				modeStores++
				perFn++
				construct := fmt.Sprintf("mode store#%d in %s", perFn, c.funcKey(fn))
				switch v := st.Val.(type) {
				case *ssa.BinOp:
					// from disk: stat mode AND-NOT umask
					p := pa.Of(v.X)
					fromDisk := p.hasPrefix("call:(io/fs.FileInfo).Mode") || p.hasPrefix("call:(io/fs.DirEntry).Type") || p.hasPrefix("call:(os.FileInfo).Mode") || strings.Contains(p.String(), ".Mode") || strings.Contains(p.String(), ".Type")
					umask := isUmaskOperand(v.Y)
					r.Check(v.Op == token.AND_NOT && fromDisk && umask, "F2", construct, c.instrPos(st), fmt.Sprintf("mode taken from disk must be stat-mode &^ umask (operator %s, from disk=%v, umask operand=%v)", v.Op, fromDisk, umask))
					// "permission bits": what a stat reports also carries the file
					// type (and Go's own encoding of setuid/setgid/sticky) in the
					// high bits; the packagers other than deb write the stored
					// mode into the archive as it stands
					// (decided where the entry is known to be a directory: the same
					// block marks it TypeDir. For an entry of unknown kind deb reads
					// the type bits of the stored mode to recognise devices and
					// fifos, so they cannot be dropped there.)
					marksDir := false
					for _, i2 := range st.Block().Instrs {
						if s2, isSt := i2.(*ssa.Store); isSt {
							if fa2, isFA := s2.Addr.(*ssa.FieldAddr); isFA && isContentPtr(fa2.X.Type()) && fieldName(fa2.X.Type(), fa2.Field) == "Type" {
								if k, isK := s2.Val.(*ssa.Const); isK && isConstString(k) && constString(k) == typeDir {
									marksDir = true
								}
							}
						}
					}
					if p.hasPrefix("call:(io/fs.FileInfo).Mode") || p.hasPrefix("call:(os.FileInfo).Mode") {
						perm := false
						if cl, isCl := v.X.(*ssa.Call); isCl {
							if o := calleeObj(cl); o != nil && o.Name() == "Perm" {
								perm = true
							}
						}
						// ... and it is the mode of the file whose bytes are shipped:
						// the source is opened through links, so it is stat'ed
						// through links as well
						var mv ssa.Value = v.X
						if cl, isCl := mv.(*ssa.Call); isCl && perm && len(cl.Call.Args) > 0 {
							mv = cl.Call.Args[0]
						}
						if mc, isMC := mv.(*ssa.Call); isMC && mc.Call.IsInvoke() {
							if ex, isEx := mc.Call.Value.(*ssa.Extract); isEx {
								if sc, isSC := ex.Tuple.(*ssa.Call); isSC {
									if o := calleeObj(sc); o != nil && qualifiedName(o) == "os.Lstat" {
										r.Fail("F2-stat", construct+": stat follows links", c.instrPos(sc),
											"the default mode, size and time of an entry are taken with os.Lstat while its bytes are read through the link: an entry whose source is a symbolic link is shipped with the link's own mode (0777|symlink) and size")
									} else if o != nil && qualifiedName(o) == "os.Stat" {
										r.Pass("F2-stat", construct+": stat follows links", c.instrPos(sc), "os.Stat")
									}
								}
							}
						}
						if !marksDir {
							perm = true
						}
						r.Check(perm, "F2-perm", construct+": permission bits only", c.instrPos(st),
							"the mode read from disk is stored with its file-type bits ("+shorten(valueExpr(c, v.X, 0), 60)+"): a directory replicated from a tree gets mode 020000000755 in apk, ipk and archlinux archives and in .MTREE, while deb writes 0755; expected <stat mode>.Perm() &^ umask")
					}
				case *ssa.Const:
					// default for directories
					r.Check(v.Value != nil && v.Int64() == 0o755, "D2", construct, c.instrPos(st), fmt.Sprintf("constant mode %#o; directories default to 0755", v.Int64()))
				default:
					// copy of an explicit mode (tree's file_info.mode): verbatim
					p := pa.Of(st.Val)
					r.Check(p.has("FileInfo.Mode") && !p.hasPrefix("call:"), "F2", construct, c.instrPos(st), "an explicit mode must be taken over verbatim (derives from {"+p.String()+"})")
				}
				// every store from disk / default is guarded by "no mode set"
				if _, isConst := st.Val.(*ssa.Const); isConst || isBinOp(st.Val) {
					base := baseOfFileInfo(fa)
					_, isAlloc := base.(*ssa.Alloc)
					if isAlloc {
						// a fresh entry is exempt only if it cannot carry a declared
						// mode yet: the function reads that entry's mode nowhere
						forEachInstr(fn, func(i2 ssa.Instruction) {
							ld, ok := i2.(*ssa.UnOp)
							if !ok || ld.Op != token.MUL {
								return
							}
							if fa2, ok := ld.X.(*ssa.FieldAddr); ok && fa2 != fa && fieldName(fa2.X.Type(), fa2.Field) == "Mode" && baseOfFileInfo(fa2) == base {
								isAlloc = false
							}
						})
					}
					guarded := guardedByZeroMode(st) || isAlloc
					r.Check(guarded, "F2", construct+": only when no mode is set", c.instrPos(st), "a defaulted or disk-derived mode may only be stored when the entry has no explicit mode (explicit modes are never masked)")
				}
			case "Owner", "Group":
				if k, ok := st.Val.(*ssa.Const); ok && k.Value != nil {
					r.Check(constString(k) == "root", "D2", fmt.Sprintf("%s default in %s", strings.ToLower(field), c.funcKey(fn)), c.instrPos(st), fmt.Sprintf("default %q; owner and group default to root", constString(k)))
				}
			}
		})
	}
	r.Floor("F2", modeStores, 3)
	// the source of a symlink entry is the link's target on the installed
	// system; what that path names on the build host (a directory, a big file)
	// must not leak into the entry: evaluated for a symlink entry, the function
	// that fills an entry's defaults from os.Stat(source) does not stat
	nStat := 0
	for _, fn := range sortedFuncs(c, c.Reach(prep)) {
		if c.funcPkgPath(fn) != filesPath {
			continue
		}
		var stat *ssa.Call
		forEachInstr(fn, func(in ssa.Instruction) {
			call, ok := in.(*ssa.Call)
			if !ok || len(call.Call.Args) == 0 {
				return
			}
			if o := calleeObj(call); o != nil && (qualifiedName(o) == "os.Stat" || qualifiedName(o) == "os.Lstat") && pa.Of(call.Call.Args[0]).has("Content.Source") {
				stat = call
			}
		})
		if stat == nil {
			continue
		}
		nStat++
		// live in the function itself - or, when the test of the entry's kind
		// sits in the function that calls it, live from every such caller
		var liveFrom func(root *ssa.Function, depth int) bool
		liveFrom = func(root *ssa.Function, depth int) bool {
			ev := cellEvaluator(c, typeSymlink, nil)
			fr := ev.Explore(root, make([]AV, len(root.Params)))
			if fr == nil {
				return true
			}
			reached := false
			for _, li := range fr.LiveInstrs() {
				if li.In == ssa.Instruction(stat) {
					reached = true
				}
			}
			if !reached {
				return false
			}
			var callers []*ssa.Function
			for _, cs := range pa.callSites(root) {
				if p := cs.Parent(); p != nil && c.funcPkgPath(p) == filesPath && p != root {
					callers = append(callers, p)
				}
			}
			if len(callers) == 0 || depth >= 2 {
				return true
			}
			for _, p := range callers {
				if liveFrom(p, depth+1) {
					return true
				}
			}
			return false
		}
		live := liveFrom(fn, 0)
		r.Check(!live, "F2-symlink-nostat", "a symlink entry's source is not stat'ed in "+c.funcKey(fn), c.instrPos(stat),
			"for an entry of type symlink the stat of its source is reachable: the source is the link's target, so the mode, size and kind of whatever that path names on the build host end up in the entry (deb then ships a directory instead of the link when the target is a directory there)")
	}
	r.Floor("F2-symlink-nostat", nStat, 1)
}

func isBinOp(v ssa.Value) bool { _, ok := v.(*ssa.BinOp); return ok }

// baseOfFileInfo: where the FileInfo pointer whose field is stored comes from.
func baseOfFileInfo(fa *ssa.FieldAddr) ssa.Value {
	v := fa.X
	if ld, ok := v.(*ssa.UnOp); ok {
		if f2, ok := ld.X.(*ssa.FieldAddr); ok {
			return f2.X
		}
	}
	return v
}

// guardedByZeroMode: the store is dominated by the true edge of `<x>.Mode == 0`.
func guardedByZeroMode(st *ssa.Store) bool {
	for d := st.Block(); d != nil; d = d.Idom() {
		for _, p := range d.Preds {
			ifi, ok := p.Instrs[len(p.Instrs)-1].(*ssa.If)
			if !ok || p.Succs[0] != d {
				continue
			}
			bo, ok := ifi.Cond.(*ssa.BinOp)
			if !ok || bo.Op != token.EQL {
				continue
			}
			if k, ok := bo.Y.(*ssa.Const); ok && k.Value != nil && k.Value.Kind().String() == "Int" && k.Int64() == 0 {
				if ld, ok := bo.X.(*ssa.UnOp); ok {
					if fa, ok := ld.X.(*ssa.FieldAddr); ok && fieldName(fa.X.Type(), fa.Field) == "Mode" {
						return true
					}
				}
			}
		}
	}
	return false
}

var _ = sort.Strings

// isUmaskOperand: a file-mode typed value that is (a captured copy of) a
// parameter — the umask handed to the planner.
func isUmaskOperand(v ssa.Value) bool {
	if ts := v.Type().String(); ts != "io/fs.FileMode" && ts != "os.FileMode" {
		return false
	}
	for i := 0; i < 6 && v != nil; i++ {
		switch x := v.(type) {
		case *ssa.Parameter:
			return true
		case *ssa.UnOp:
			if w := cellValue(x); w != nil {
				v = w
				continue
			}
			return false
		case *ssa.FreeVar:
			fn := x.Parent()
			var b ssa.Value
			if p := fn.Parent(); p != nil {
				forEachInstr(p, func(in ssa.Instruction) {
					if mc, ok := in.(*ssa.MakeClosure); ok && mc.Fn == fn {
						for j, fv := range fn.FreeVars {
							if fv == x && j < len(mc.Bindings) {
								b = mc.Bindings[j]
							}
						}
					}
				})
			}
			v = b
		default:
			return false
		}
	}
	return false
}

// checkPayloadBodies: F1-body. Every read of a file whose path derives from a
// contents entry, on the payload writer's call graph, must read the entry's
// source (not its destination or anything else), and the bytes read must reach
// an archive write / copy / rpm file body through conversions only: no
// slicing, limiting, replacing or re-encoding step may sit between the source
// file and the package.
func checkPayloadBodies(c *Ctx, r *Report, pk *Packager, w *ssa.Function, pa *provAnalysis) int {
	n := 0
	for _, fn := range sortedFuncs(c, c.Reach(w)) {
		if c.funcPkgPath(fn) != pk.PkgPath {
			continue
		}
		k := 0
		forEachInstr(fn, func(in ssa.Instruction) {
			call, ok := in.(*ssa.Call)
			if !ok {
				return
			}
			o := calleeObj(call)
			if o == nil {
				return
			}
			switch qualifiedName(o) {
			case "os.Open", "os.OpenFile", "os.ReadFile":
			default:
				return
			}
			p := pa.Of(call.Call.Args[0])
			fromEntry := false
			for _, a := range p.fields() {
				if strings.HasPrefix(a, "Content.") {
					fromEntry = true
				}
			}
			if !fromEntry {
				return
			}
			n++
			k++
			construct := fmt.Sprintf("%s: payload bytes read#%d in %s", pk.Format, k, c.funcKey(fn))
			var entryAtoms []string
			for _, a := range p.fields() {
				if strings.HasPrefix(a, "Content.") {
					entryAtoms = append(entryAtoms, a)
				}
			}
			if len(entryAtoms) != 1 || entryAtoms[0] != "Content.Source" {
				r.Fail("F1-body", construct, c.instrPos(call), fmt.Sprintf("the file read for the entry's body is named by {%s}; it must be the entry's source", strings.Join(entryAtoms, ",")))
				return
			}
			forwardPA = pa
			sinks, bad := forwardBytes(c, call, map[ssa.Value]bool{}, 0)
			switch {
			case len(bad) > 0:
				sort.Strings(bad)
				r.Fail("F1-body", construct, c.instrPos(call), fmt.Sprintf("the bytes read pass through %v before they are written to the package: file bodies must be copied byte for byte", uniq(bad)))
			case sinks == 0:
				r.Fail("F1-body", construct, c.instrPos(call), "the bytes read never reach an archive write, a copy into the archive or an rpm file body")
			default:
				r.Pass("F1-body", construct, c.instrPos(call), fmt.Sprintf("path is the entry's source; bytes reach %d write sink(s) through conversions only", sinks))
			}
		})
	}
	return n
}

// checkOnlyEntries: F1-only. "Nothing else is in the payload": in the payload
// writer every member is written for an element of the prepared contents -
// each header write (tar WriteHeader / rpm AddFile) on the writer's call
// graph lies in the body of a loop that has loaded an element of a
// []*files.Content, or in a function reached only from such loop bodies.
func checkOnlyEntries(c *Ctx, r *Report, pk *Packager, w *ssa.Function) int {
	inLoop := contentsLoopBody(w)
	isWrite := func(in ssa.Instruction) bool {
		call, ok := in.(*ssa.Call)
		if !ok {
			return false
		}
		return calleeIs(call, "archive/tar", "Writer", "WriteHeader") || calleeIs(call, rpmpackPath, "RPM", "AddFile")
	}
	// functions reachable from call sites of w that are outside the loop
	outside := map[*ssa.Function]bool{}
	var mark func(fn *ssa.Function, d int)
	mark = func(fn *ssa.Function, d int) {
		if fn == nil || fn == w || outside[fn] || d > 12 || fn.Blocks == nil || c.funcPkgPath(fn) != pk.PkgPath {
			return
		}
		outside[fn] = true
		forEachInstr(fn, func(in ssa.Instruction) {
			if call, ok := in.(ssa.CallInstruction); ok {
				mark(call.Common().StaticCallee(), d+1)
				for _, a := range call.Common().Args {
					if mc, ok := a.(*ssa.MakeClosure); ok {
						mark(mc.Fn.(*ssa.Function), d+1)
					}
				}
			}
		})
		for _, an := range fn.AnonFuncs {
			mark(an, d+1)
		}
	}
	forEachInstr(w, func(in ssa.Instruction) {
		if call, ok := in.(ssa.CallInstruction); ok && !inLoop(in) {
			mark(call.Common().StaticCallee(), 0)
		}
	})
	n := 0
	for _, fn := range sortedFuncs(c, c.Reach(w)) {
		if c.funcPkgPath(fn) != pk.PkgPath {
			continue
		}
		k := 0
		forEachInstr(fn, func(in ssa.Instruction) {
			if !isWrite(in) {
				return
			}
			n++
			k++
			construct := fmt.Sprintf("%s: member write#%d in %s is made for a contents entry", pk.Format, k, c.funcKey(fn))
			switch {
			case fn == w && !inLoop(in):
				r.Fail("F1-only", construct, c.instrPos(in), "this member is written outside the loop over the prepared contents: the payload would hold an entry the configuration does not denote")
			case fn != w && outside[fn]:
				r.Fail("F1-only", construct, c.instrPos(in), "this function is also reached from "+c.funcKey(w)+" outside the loop over the prepared contents: the payload would hold an entry the configuration does not denote")
			default:
				r.Pass("F1-only", construct, c.instrPos(in), "written in the body of the loop over the prepared contents (or in a function reached only from there)")
			}
		})
	}
	return n
}

// contentsLoopBody: predicate "the instruction lies in a loop body that has
// loaded an element of a []*files.Content".
func contentsLoopBody(fn *ssa.Function) func(ssa.Instruction) bool {
	var elemBlocks []*ssa.BasicBlock
	forEachInstr(fn, func(in ssa.Instruction) {
		ia, ok := in.(*ssa.IndexAddr)
		if !ok {
			return
		}
		var elem types.Type
		switch t := ia.X.Type().Underlying().(type) {
		case *types.Slice:
			elem = t.Elem()
		case *types.Pointer:
			if a, ok := t.Elem().Underlying().(*types.Array); ok {
				elem = a.Elem()
			}
		}
		if elem != nil && isNamed(derefType(elem), modPath+"/files", "Content") {
			elemBlocks = append(elemBlocks, ia.Block())
		}
	})
	reach := func(from, to *ssa.BasicBlock) bool {
		seen := map[*ssa.BasicBlock]bool{}
		stack := append([]*ssa.BasicBlock{}, from.Succs...)
		for len(stack) > 0 {
			b := stack[len(stack)-1]
			stack = stack[:len(stack)-1]
			if b == to {
				return true
			}
			if seen[b] {
				continue
			}
			seen[b] = true
			stack = append(stack, b.Succs...)
		}
		return false
	}
	return func(in ssa.Instruction) bool {
		b := in.Block()
		for _, e := range elemBlocks {
			if (e == b || e.Dominates(b)) && (e == b && reach(b, b) || e != b && reach(b, e)) {
				return true
			}
		}
		return false
	}
}

// plainFieldRead: v is a load of field `name` of an entry, possibly converted
// ([]byte(x), string(x)) but not passed through any call.
func plainFieldRead(v ssa.Value, name string) bool {
	for i := 0; i < 6; i++ {
		switch x := v.(type) {
		case *ssa.Convert:
			v = x.X
		case *ssa.ChangeType:
			v = x.X
		case *ssa.UnOp:
			fa, ok := x.X.(*ssa.FieldAddr)
			return ok && x.Op == token.MUL && fieldName(fa.X.Type(), fa.Field) == name
		default:
			return false
		}
	}
	return false
}

// narrowsMode: the expression cuts a file mode down to fewer than the twelve
// permission+special bits (Perm(), & 0o777 ...). Returns a description, ""
// when it does not.
func narrowsMode(c *Ctx, v ssa.Value, d int) string {
	if d > 8 || v == nil {
		return ""
	}
	switch x := v.(type) {
	case *ssa.Convert:
		return narrowsMode(c, x.X, d+1)
	case *ssa.ChangeType:
		return narrowsMode(c, x.X, d+1)
	case *ssa.Call:
		if o := calleeObj(x); o != nil && o.Name() == "Perm" && o.Pkg() != nil && o.Pkg().Path() == "io/fs" {
			return "is the result of (fs.FileMode).Perm(), which keeps the nine permission bits only"
		}
	case *ssa.BinOp:
		if x.Op == token.AND {
			for _, side := range []ssa.Value{x.X, x.Y} {
				if k, ok := side.(*ssa.Const); ok && k.Value != nil {
					if m := k.Int64(); m&0o7000 != 0o7000 && m >= 0 && m <= 0o7777 {
						return fmt.Sprintf("is masked with %#o, which clears special bits", m)
					}
				}
			}
		}
		if w := narrowsMode(c, x.X, d+1); w != "" {
			return w
		}
		return narrowsMode(c, x.Y, d+1)
	case *ssa.Phi:
		for _, e := range x.Edges {
			if w := narrowsMode(c, e, d+1); w != "" {
				return w
			}
		}
	}
	return ""
}

// stripConv: v below value conversions.
func stripConv(v ssa.Value) ssa.Value {
	for {
		switch x := v.(type) {
		case *ssa.Convert:
			v = x.X
		case *ssa.ChangeType:
			v = x.X
		default:
			return v
		}
	}
}

// orsConstantIn: v has a non-zero constant OR-ed (or added) into it, in place
// or inside a module function it is the result of.
func orsConstantIn(c *Ctx, v ssa.Value, d int) string {
	if d > 8 || v == nil {
		return ""
	}
	switch x := v.(type) {
	case *ssa.Convert:
		return orsConstantIn(c, x.X, d+1)
	case *ssa.ChangeType:
		return orsConstantIn(c, x.X, d+1)
	case *ssa.BinOp:
		if x.Op == token.OR || x.Op == token.ADD || x.Op == token.XOR {
			for _, side := range []ssa.Value{x.X, x.Y} {
				if k, ok := side.(*ssa.Const); ok && k.Value != nil && k.Int64() != 0 {
					return fmt.Sprintf("has the constant %#o combined into it", k.Int64())
				}
			}
		}
		if w := orsConstantIn(c, x.X, d+1); w != "" {
			return w
		}
		return orsConstantIn(c, x.Y, d+1)
	case *ssa.Phi:
		for _, e := range x.Edges {
			if w := orsConstantIn(c, e, d+1); w != "" {
				return w
			}
		}
	case *ssa.Call:
		sc := x.Call.StaticCallee()
		if sc == nil || len(sc.Blocks) == 0 || !c.isModuleFunc(sc) || d > 3 {
			return ""
		}
		for _, b := range sc.Blocks {
			if ret, ok := b.Instrs[len(b.Instrs)-1].(*ssa.Return); ok && len(ret.Results) == 1 {
				if w := orsConstantIn(c, ret.Results[0], d+2); w != "" {
					return w + " (in " + c.funcKey(sc) + ")"
				}
			}
		}
	}
	return ""
}
