package main

import (
	"fmt"
	"go/token"
	"go/types"
	"sort"
	"strings"

	"golang.org/x/tools/go/ssa"
)

func init() {
	register("C11", checkC11)
	register("C12", checkC12)
}

// ---- W1: deep-fresh plan -------------------------------------------------

func checkW1(c *Ctx, r *Report) {
	prep := c.Func("files", "PrepareForPackager")
	if prep == nil {
		r.Unresolved("files.PrepareForPackager", "planner entry point not found")
		return
	}
	pa := runPointsTo(c, prep)
	r.Count("pointsto_objects", len(pa.objs))
	r.Count("pointsto_functions", len(pa.fns))

	// (a)+(b): the returned plan
	var resObjs = map[*ptObj]bool{}
	rets := 0
	for _, b := range prep.Blocks {
		ret, ok := b.Instrs[len(b.Instrs)-1].(*ssa.Return)
		if !ok {
			continue
		}
		res := retResults(ret)
		if k, isC := res[0].(*ssa.Const); isC && k.IsNil() {
			continue
		}
		rets++
		for cont := range pa.valPts(res[0]) {
			if cont.input {
				r.Fail("W1-result", "files.PrepareForPackager returns the caller's slice", pa.c.instrPos(ret), "the plan is the caller-owned contents slice itself")
			}
			for o := range cont.elems {
				resObjs[o] = true
			}
		}
	}
	if rets == 0 || len(resObjs) == 0 {
		r.Unresolved("result of files.PrepareForPackager", "no success return with a tracked plan (points-to found no entry objects)")
		return
	}
	var objs []*ptObj
	for o := range resObjs {
		objs = append(objs, o)
	}
	sort.Slice(objs, func(i, j int) bool { return objs[i].id < objs[j].id })
	for i, o := range objs {
		construct := fmt.Sprintf("plan entry object %s", objKey(c, o))
		_ = i
		pos := "-"
		if o.site != nil {
			if in, ok := o.site.(ssa.Instruction); ok {
				pos = c.instrPos(in)
			}
		}
		r.Check(!o.input, "W1-entry-fresh", construct, pos, "every *Content in the returned plan must be allocated during the call; this one is "+o.label)
		var shared []string
		for f := range o.fileInfo {
			if f.input {
				shared = append(shared, f.label)
			}
		}
		r.Check(len(shared) == 0, "W1-fileinfo-fresh", construct, pos,
			fmt.Sprintf("the *ContentFileInfo held by a plan entry must be allocated during the call; may point to %v — the packagers' later writes (owner/group/mode/mtime defaults) would go into the parsed configuration", shared))
	}

	// (c): no store through an input object anywhere in the planner (the
	// functions of package files reachable from PrepareForPackager)
	stores := 0
	planner := c.Reach(prep)
	for _, fn := range pa.fns {
		if !planner[fn] {
			continue
		}
		perFn := 0
		forEachInstr(fn, func(in ssa.Instruction) {
			st, ok := in.(*ssa.Store)
			if !ok {
				return
			}
			fa, ok := st.Addr.(*ssa.FieldAddr)
			if !ok {
				return
			}
			base := fa.X
			if !(isContentPtr(base.Type()) || isFileInfoPtr(base.Type())) {
				return
			}
			stores++
			perFn++
			construct := fmt.Sprintf("store#%d to %s.%s in %s", perFn, rootTypeName(base.Type()), fieldName(base.Type(), fa.Field), c.funcKey(fn))
			var bad []string
			for o := range pa.valPts(base) {
				if o.input {
					bad = append(bad, o.label)
				}
			}
			sort.Strings(bad)
			r.Check(len(bad) == 0, "W1-no-store-through-input", construct, c.instrPos(st),
				fmt.Sprintf("the written object may be %v: preparing a plan must not write into the caller's configuration", bad))
		})
	}
	r.Floor("W1-no-store-through-input", stores, 6)

	// (d): no in-place reordering of a caller-owned list: sort.Sort and its
	// relatives permute the backing array, which every Info obtained from the
	// same parsed configuration shares
	sorts := 0
	for _, fn := range pa.fns {
		if !planner[fn] {
			continue
		}
		perFn := 0
		forEachInstr(fn, func(in ssa.Instruction) {
			call, ok := in.(*ssa.Call)
			if !ok {
				return
			}
			o := calleeObj(call)
			if o == nil || !inPlaceMutators[qualifiedName(o)] || len(call.Call.Args) == 0 {
				return
			}
			arg := stripIface(call.Call.Args[0])
			if ct, ok := arg.(*ssa.ChangeType); ok {
				arg = ct.X
			}
			if !isContentContainer(arg.Type()) {
				return
			}
			sorts++
			perFn++
			var bad []string
			for o := range pa.valPts(arg) {
				if o.input {
					bad = append(bad, o.label)
				}
			}
			sort.Strings(bad)
			r.Check(len(bad) == 0, "W1-no-inplace-sort", fmt.Sprintf("%s#%d in %s", qualifiedName(o), perFn, c.funcKey(fn)), c.instrPos(call),
				fmt.Sprintf("the list reordered in place may be %v: the backing array is shared with the parsed configuration and with every Info derived from it", bad))
		})
	}
	r.Floor("W1-no-inplace-sort", sorts, 1)
}

// inPlaceCompactors: library functions that shift the elements of their
// argument's backing array (and zero the tail).
var inPlaceCompactors = map[string]bool{
	"slices.Compact": true, "slices.CompactFunc": true, "slices.Delete": true, "slices.DeleteFunc": true,
	"slices.Insert": true, "slices.Replace": true,
}

var inPlaceMutators = map[string]bool{
	"sort.Sort": true, "sort.Stable": true, "sort.Slice": true, "sort.SliceStable": true, "sort.Strings": true,
	"slices.Sort": true, "slices.SortFunc": true, "slices.SortStableFunc": true, "slices.Reverse": true,
}

func objKey(c *Ctx, o *ptObj) string {
	if o.site == nil {
		return o.label
	}
	if in, ok := o.site.(ssa.Instruction); ok && in.Parent() != nil {
		// ordinal of the allocation within its function (line-independent)
		n := 0
		k := 0
		forEachInstr(in.Parent(), func(x ssa.Instruction) {
			if _, isAlloc := x.(*ssa.Alloc); isAlloc {
				n++
				if x == in {
					k = n
				}
			}
		})
		return fmt.Sprintf("%s alloc#%d in %s", o.kind, k, c.funcKey(in.Parent()))
	}
	return o.label
}

// ---- W2..W4: packager-side stores ----------------------------------------

// storeRoot classifies the object a store writes into.
type storeClass struct {
	kind string // "info", "content", "fileinfo", "fresh", "global", "other"
	path string
}

func classifyStoreAddr(addr ssa.Value) storeClass {
	path := ""
	v := addr
	for i := 0; i < 30 && v != nil; i++ {
		switch x := v.(type) {
		case *ssa.FieldAddr:
			fn := fieldName(x.X.Type(), x.Field)
			if path == "" {
				path = fn
			} else {
				path = fn + "." + path
			}
			// a pointer dereference restarts ownership at the pointee type;
			// addresses computed from another address (field of a field,
			// element of an array) belong to whatever that address belongs to
			_, baseIsField := x.X.(*ssa.FieldAddr)
			_, baseIsIndex := x.X.(*ssa.IndexAddr)
			if !baseIsField && !baseIsIndex {
				switch rootTypeName(x.X.Type()) {
				case "Info", "Overridables":
					if _, isAlloc := x.X.(*ssa.Alloc); !isAlloc {
						return storeClass{"info", path}
					}
				case "Content":
					if _, isAlloc := x.X.(*ssa.Alloc); !isAlloc {
						if isFreshCallResult(x.X) {
							return storeClass{"fresh", path}
						}
						return storeClass{"content", path}
					}
				case "FileInfo":
					if _, isAlloc := x.X.(*ssa.Alloc); !isAlloc {
						return storeClass{"fileinfo", path}
					}
				}
			}
			v = x.X
		case *ssa.IndexAddr:
			path = "[]." + path
			v = x.X
		case *ssa.Alloc:
			return storeClass{"fresh", path}
		case *ssa.Global:
			return storeClass{"global", globalName(x)}
		case *ssa.UnOp:
			// load of a pointer/slice held in a field: keep walking to find the owner
			if x.Op == token.MUL {
				v = x.X
				path = "*." + path
				continue
			}
			return storeClass{"other", path}
		case *ssa.Slice:
			v = x.X
		case *ssa.Parameter, *ssa.FreeVar:
			switch rootTypeName(x.Type()) {
			case "Info":
				return storeClass{"info", path}
			case "Content":
				return storeClass{"content", path}
			case "FileInfo":
				return storeClass{"fileinfo", path}
			}
			return storeClass{"other", path}
		default:
			return storeClass{"other", path}
		}
	}
	return storeClass{"other", path}
}

// isFreshCallResult: value returned by a module constructor-like call in the
// same function (e.g. c.WithFileInfoDefaults(...)).
func isFreshCallResult(v ssa.Value) bool {
	_, ok := v.(*ssa.Call)
	return ok
}

func checkPackagerStores(c *Ctx, r *Report) {
	np := c.Func("", "PrepareForPackager")
	if np == nil {
		r.Unresolved("nfpm.PrepareForPackager", "prepare boundary not found")
		return
	}
	// W2(a): the prepared plan replaces info.Contents on the success path
	okReplace := false
	forEachInstr(np, func(in ssa.Instruction) {
		st, ok := in.(*ssa.Store)
		if !ok {
			return
		}
		p, root := addrPath(st.Addr)
		if root == nil || !strings.HasSuffix(p, "Contents") || rootTypeName(root.Type()) != "Info" {
			return
		}
		if ex, ok := st.Val.(*ssa.Extract); ok {
			if call, ok := ex.Tuple.(*ssa.Call); ok && (calleeIs(call, filesPath, "", "PrepareForPackager") || returnsResultOf(call.Call.StaticCallee(), c.Func("files", "PrepareForPackager"), 0)) {
				okReplace = true
			}
		}
	})
	r.Check(okReplace, "W2-boundary", "nfpm.PrepareForPackager replaces info.Contents", c.pos(np.Pos()),
		"the plan returned by files.PrepareForPackager must replace info.Contents, so that packagers only ever write into the fresh plan")

	fileNameReach := map[*ssa.Function]bool{}
	var fnRoots []*ssa.Function
	for _, p := range c.Packagers {
		fnRoots = append(fnRoots, p.FileName)
		if p.Ext != nil {
			fnRoots = append(fnRoots, p.Ext)
		}
	}
	fileNameReach = c.Reach(fnRoots...)
	var valRoots []*ssa.Function
	for _, n := range []string{"Validate"} {
		if f := c.Func("", n); f != nil {
			valRoots = append(valRoots, f)
		}
	}
	if f := c.Method("", "Config", "Validate"); f != nil {
		valRoots = append(valRoots, f)
	}
	if f := c.Method("", "Config", "Get"); f != nil {
		valRoots = append(valRoots, f)
	}
	if f := c.Method("", "Info", "Validate"); f != nil {
		valRoots = append(valRoots, f)
	}
	validateReach := c.Reach(valRoots...)

	tables := archTables(c)
	contentStores, infoStores := 0, 0
	for _, pk := range c.Packagers {
		reach := c.Reach(pk.Package, pk.FileName)
		pre, post := splitAtPrepare(c, pk.Package, np)
		for _, fn := range sortedFuncs(c, reach) {
			pp := c.funcPkgPath(fn)
			if pp == filesPath || pp == modPath {
				continue // planner: W1; nfpm root: boundary above
			}
			perFn := map[string]int{}
			forEachInstr(fn, func(in ssa.Instruction) {
				var addr ssa.Value
				what := ""
				switch x := in.(type) {
				case *ssa.Store:
					addr, what = x.Addr, "store"
				case *ssa.MapUpdate:
					addr, what = x.Map, "map update"
				case *ssa.Call:
					if b, ok := x.Call.Value.(*ssa.Builtin); ok && b.Name() == "delete" {
						addr, what = x.Call.Args[0], "delete"
					}
				}
				if addr == nil {
					return
				}
				cl := classifyStoreAddr(addr)
				switch cl.kind {
				case "content", "fileinfo":
					contentStores++
					key := cl.kind + "." + cl.path
					perFn[key]++
					construct := fmt.Sprintf("%s: %s to %s#%d in %s", pk.Format, what, key, perFn[key], c.funcKey(fn))
					switch {
					case fileNameReach[fn]:
						r.Fail("W2-post-prepare", construct, c.instrPos(in), "a content entry is written on a path reachable from ConventionalFileName: asking for a file name would change the configuration's entries")
					case validateReach[fn]:
						r.Fail("W2-post-prepare", construct, c.instrPos(in), "a content entry is written on a path reachable from Validate/Get")
					case pre[fn]:
						r.Fail("W2-post-prepare", construct, c.instrPos(in), "a content entry is written by code that can run before nfpm.PrepareForPackager has replaced info.Contents with a fresh plan: the write lands in entries shared with the parsed configuration")
					case !post[fn]:
						r.Fail("W2-post-prepare", construct, c.instrPos(in), "could not place this write after the prepare boundary")
					default:
						r.Pass("W2-post-prepare", construct, c.instrPos(in), "only reachable through call sites dominated by nfpm.PrepareForPackager: writes into the fresh plan")
					}
				case "info":
					infoStores++
					key := cl.path
					perFn[key]++
					construct := fmt.Sprintf("%s: %s to Info.%s#%d in %s", pk.Format, what, key, perFn[key], c.funcKey(fn))
					if what != "store" {
						// map held directly in an Info field: fresh per Get (mergo re-makes maps)
						if strings.Contains(cl.path, "Fields") {
							r.Pass("W4-info-map", construct, c.instrPos(in), "map held directly in an Info field (re-made per Config.Get by mergo; trusted model)")
						} else {
							r.Fail("W4-info-map", construct, c.instrPos(in), "update of a map reachable from Info that is not known to be fresh per Get")
						}
						return
					}
					if strings.Contains(cl.path, "[]") || strings.Contains(cl.path, "*.") {
						r.Fail("W3-info-element", construct, c.instrPos(in), "store into an element/pointee of an Info field: slices and pointees are shared with the parsed configuration (mergo copies slice headers and pointers, not their targets)")
						return
					}
					if fileNameReach[fn] {
						ok, why := idempotentInfoStore(c, in.(*ssa.Store), tables)
						r.Check(ok, "W3-idempotent", construct, c.instrPos(in), why)
					} else {
						r.Pass("W3-info-own", construct, c.instrPos(in), "field of the per-format Info itself (not reachable from ConventionalFileName)")
					}
				case "global":
					// G1
				}
			})
		}
	}
	r.Floor("W2-post-prepare", contentStores, 3)
	r.Floor("W3", infoStores, 6)

	// W4: Validate / Get perform no store through their argument
	n := 0
	w4pa := newProv(c)
	for _, fn := range sortedFuncs(c, validateReach) {
		if c.funcPkgPath(fn) == filesPath {
			continue
		}
		forEachInstr(fn, func(in ssa.Instruction) {
			if mu, isMU := in.(*ssa.MapUpdate); isMU {
				// an update of a map that belongs to the configuration (custom
				// fields, an override's section): visible to every later Get
				if _, fresh := mu.Map.(*ssa.MakeMap); fresh {
					return
				}
				owned := ""
				for _, a := range w4pa.Of(mu.Map).list() {
					if strings.HasPrefix(a, "Info.") || strings.HasPrefix(a, "Overridables.") || strings.HasPrefix(a, "Config.") {
						owned = a
					}
				}
				if owned != "" {
					n++
					r.Fail("W4-validate-readonly", fmt.Sprintf("map update #%d in %s", n, c.funcKey(fn)), c.instrPos(mu), "Validate/Get must not write through the configuration: the map updated here is "+owned+", which the parsed configuration (or one of its override blocks) owns - a second Get sees the rewritten values")
				}
				return
			}
			st, ok := in.(*ssa.Store)
			if !ok {
				return
			}
			cl := classifyStoreAddr(st.Addr)
			if cl.kind == "fresh" || cl.kind == "other" {
				return
			}
			// Config.Get writes the fresh Info it has just allocated and returns
			if c.funcKey(fn) == "(*nfpm.Config).Get" && cl.kind == "info" && storeTargetsFreshInfo(st) {
				return
			}
			// ... also in a helper that Get hands that fresh Info to (the only
			// call site's argument is the allocation)
			if cl.kind == "info" {
				if _, root := addrPath(st.Addr); root != nil {
					if prm, isPrm := root.(*ssa.Parameter); isPrm {
						if al, isAlloc := resolveUp(c, w4pa, prm).(*ssa.Alloc); isAlloc && c.funcKey(al.Parent()) == "(*nfpm.Config).Get" {
							return
						}
					}
				}
			}
			n++
			r.Fail("W4-validate-readonly", fmt.Sprintf("store to %s.%s in %s", cl.kind, cl.path, c.funcKey(fn)), c.instrPos(st), "Validate/Get must not write through the configuration")
		})
	}
	r.Pass("W4-validate-readonly", fmt.Sprintf("%d function(s) reachable from Validate/Get outside package files", len(validateReach)), "-", "no store into Info/Content/FileInfo (package files is covered by W1)")
}

func storeTargetsFreshInfo(st *ssa.Store) bool {
	_, root := addrPath(st.Addr)
	_, ok := root.(*ssa.Alloc)
	return ok
}

// splitAtPrepare partitions the functions reachable from Package into those
// reachable through a call site that is NOT dominated by the prepare call
// (pre) and those reachable through dominated ones (post).
func splitAtPrepare(c *Ctx, pkgFn *ssa.Function, prepare *ssa.Function) (pre, post map[*ssa.Function]bool) {
	var prep ssa.Instruction
	forEachInstr(pkgFn, func(in ssa.Instruction) {
		if call, ok := in.(*ssa.Call); ok && call.Call.StaticCallee() == prepare && prep == nil {
			prep = call
		}
	})
	var preRoots, postRoots []*ssa.Function
	forEachInstr(pkgFn, func(in ssa.Instruction) {
		var targets []*ssa.Function
		if call, ok := in.(ssa.CallInstruction); ok {
			if sc := call.Common().StaticCallee(); sc != nil {
				targets = append(targets, sc)
			}
		}
		var ops []*ssa.Value
		for _, op := range in.Operands(ops) {
			if op == nil || *op == nil {
				continue
			}
			switch v := (*op).(type) {
			case *ssa.Function:
				targets = append(targets, v)
			case *ssa.MakeClosure:
				targets = append(targets, v.Fn.(*ssa.Function))
			}
		}
		if mc, ok := in.(*ssa.MakeClosure); ok {
			targets = append(targets, mc.Fn.(*ssa.Function))
		}
		for _, t := range targets {
			if t == prepare {
				continue
			}
			if prep != nil && in != prep && instrDominates(prep, in) {
				postRoots = append(postRoots, t)
			} else {
				preRoots = append(preRoots, t)
			}
		}
	})
	pre = c.Reach(preRoots...)
	post = c.Reach(postRoots...)
	return pre, post
}

// archTables extracts every package-level map[string]string of the module
// whose initialiser is a literal of constants.
func archTables(c *Ctx) map[*ssa.Global]map[string]string {
	out := map[*ssa.Global]map[string]string{}
	for _, sp := range c.SSAPkgs {
		init := sp.Func("init")
		if init == nil {
			continue
		}
		// map value -> entries
		entries := map[ssa.Value]map[string]string{}
		forEachInstr(init, func(in ssa.Instruction) {
			switch x := in.(type) {
			case *ssa.MapUpdate:
				k, ok1 := x.Key.(*ssa.Const)
				v, ok2 := x.Value.(*ssa.Const)
				if !ok1 || !ok2 {
					return
				}
				if entries[x.Map] == nil {
					entries[x.Map] = map[string]string{}
				}
				entries[x.Map][constString(k)] = constString(v)
			case *ssa.Store:
				if g, ok := x.Addr.(*ssa.Global); ok {
					if e, ok := entries[x.Val]; ok {
						out[g] = e
					}
				}
			}
		})
	}
	return out
}

// idempotentInfoStore: W3 — a store to a field of *Info reachable from
// ConventionalFileName must give the same result when applied twice.
func idempotentInfoStore(c *Ctx, st *ssa.Store, tables map[*ssa.Global]map[string]string) (bool, string) {
	dstPath, _ := addrPath(st.Addr)
	val := st.Val
	// (1) copy of another Info field (format-specific override)
	if ld, ok := val.(*ssa.UnOp); ok && ld.Op == token.MUL {
		if p, root := addrPath(ld.X); root != nil && rootTypeName(root.Type()) == "Info" && p != dstPath {
			return true, "copies another configuration field (" + p + "), which this operation never writes: idempotent"
		}
	}
	// (2) table translation keyed by the same field
	if ex, ok := val.(*ssa.Extract); ok {
		if lk, ok := ex.Tuple.(*ssa.Lookup); ok {
			val = lk
		}
	}
	if lk, ok := val.(*ssa.Lookup); ok {
		if g := rootGlobal(lk.X); g != nil {
			if tbl, ok := tables[g]; ok {
				for k, v := range tbl {
					if v2, again := tbl[v]; again && v2 != v {
						return false, fmt.Sprintf("table %s is not idempotent: %q -> %q -> %q; translating an already translated architecture changes it", globalName(g), k, v, v2)
					}
				}
				return true, "translation through the idempotent table " + globalName(g)
			}
			return false, "lookup in a table that could not be evaluated (" + globalName(g) + ")"
		}
	}
	// (3) default-filling: defaultTo(field, const) or guarded by field == ""
	if call, ok := val.(*ssa.Call); ok && len(call.Call.Args) == 2 {
		if sc := call.Call.StaticCallee(); sc != nil && isDefaultingHelper(sc) {
			if ld, ok := call.Call.Args[0].(*ssa.UnOp); ok {
				if p, _ := addrPath(ld.X); p == dstPath {
					if _, isConst := call.Call.Args[1].(*ssa.Const); isConst {
						return true, "default-filling through " + c.funcKey(sc) + ": idempotent"
					}
				}
			}
		}
	}
	if _, isConst := val.(*ssa.Const); isConst {
		if guardedByEmptyTest(st, dstPath) {
			return true, "default-filling guarded by an emptiness test of the same field: idempotent"
		}
	}
	return false, "this write to Info." + dstPath + " is reachable from ConventionalFileName and is not one of the idempotent shapes (override copy, idempotent table translation, default filling): asking for a file name first could change the package built afterwards"
}

// isDefaultingHelper: func(in, def string) string returning def iff in == "".
func isDefaultingHelper(fn *ssa.Function) bool {
	if len(fn.Params) != 2 || fn.Signature.Results().Len() != 1 {
		return false
	}
	f1 := evalHelper(fn, []AV{cStr(""), cStr("d")})
	f2 := evalHelper(fn, []AV{cStr("x"), cStr("d")})
	s1, ok1 := avStr(f1)
	s2, ok2 := avStr(f2)
	return ok1 && ok2 && s1 == "d" && s2 == "x"
}

func evalHelper(fn *ssa.Function, args []AV) AV {
	ev := &Evaluator{c: &Ctx{ModPrefix: "\x00none"}, Defaults: map[string]*AObj{}, MaxDepth: 0, memo: map[string]*Frame{}, inprog: map[string]bool{}}
	fr := ev.Explore(fn, args)
	return fr.ReturnValue(0)
}

func guardedByEmptyTest(st *ssa.Store, path string) bool {
	b := st.Block()
	for d := b; d != nil; d = d.Idom() {
		for _, p := range d.Preds {
			ifi, ok := p.Instrs[len(p.Instrs)-1].(*ssa.If)
			if !ok || p.Succs[0] != d {
				continue
			}
			bo, ok := ifi.Cond.(*ssa.BinOp)
			if !ok || bo.Op != token.EQL {
				continue
			}
			if ld, ok := bo.X.(*ssa.UnOp); ok {
				if pp, _ := addrPath(ld.X); pp == path {
					if k, ok := bo.Y.(*ssa.Const); ok && (constString(k) == "" || k.IsNil()) {
						return true
					}
				}
			}
		}
		if d == b.Parent().Blocks[0] {
			break
		}
	}
	return false
}

// ---- G1/G2/G3/W5 -----------------------------------------------------------

func checkGlobals(c *Ctx, r *Report) {
	// enumerate package-level variables
	nglob := 0
	for _, sp := range c.SSAPkgs {
		for _, m := range sp.Members {
			if _, ok := m.(*ssa.Global); ok {
				nglob++
			}
		}
	}
	r.Count("package_level_variables", nglob)
	hits := scanGlobalWrites(c, c.ModFuncs)
	locked := 0
	for _, h := range hits {
		fk := c.funcKey(h.Fn)
		construct := h.Detail + " in " + fk
		if strings.HasPrefix(c.funcPkgPath(h.Fn), modPath+"/internal/cmd") || c.funcPkgPath(h.Fn) == modPath+"/cmd/nfpm" {
			r.Note("CLI-only global write: %s", construct)
			continue
		}
		if underLock(h.Fn, h.In) {
			locked++
			r.Pass("G1", construct, c.instrPos(h.In), "write is dominated by lock.Lock() with a deferred Unlock")
		} else {
			r.Fail("G1", construct, c.instrPos(h.In), "a package-level variable is written without holding the registry lock: two concurrent operations can race on it, and one operation can influence a later one")
		}
	}
	r.Floor("G1", locked, 2)
	// package-level variables of kinds that carry mutable state across
	// packagings (pools, synchronised maps, buffers, channels)
	var gnames []string
	globalsByName := map[string]*ssa.Global{}
	for _, sp := range c.SSAPkgs {
		if strings.HasPrefix(sp.Pkg.Path(), modPath+"/internal/cmd") || sp.Pkg.Path() == modPath+"/cmd/nfpm" {
			continue
		}
		for _, m := range sp.Members {
			if g, ok := m.(*ssa.Global); ok {
				gnames = append(gnames, globalName(g))
				globalsByName[globalName(g)] = g
			}
		}
	}
	sort.Strings(gnames)
	for _, gn := range gnames {
		g := globalsByName[gn]
		ts := types.TypeString(derefType(g.Type()), nil)
		bad := ""
		// (pools and synchronised maps are safe containers; their misuse is
		// decided by G4 and by the rules of the properties they would break)
		switch {
		case ts == "bytes.Buffer" || ts == "*bytes.Buffer" || ts == "strings.Builder" || ts == "*strings.Builder":
			bad = ts
		case strings.HasPrefix(ts, "chan ") || strings.HasPrefix(ts, "<-chan") || strings.HasPrefix(ts, "chan<-"):
			bad = ts
		}
		if bad != "" {
			r.Fail("G1-kind", "package-level "+gn+" ("+bad+")", c.pos(g.Pos()), "a package-level "+bad+" keeps state from one packaging to the next and is shared by concurrent packagings: results can depend on what was built before or at the same time")
		}
	}
	r.Pass("G1-kind", fmt.Sprintf("%d package-level variables outside the CLI", len(gnames)), "-", "none is an unsynchronised buffer/builder or a channel")
	// append(global, ...) may write into the global's backing array
	for _, fn := range c.ModFuncs {
		forEachInstr(fn, func(in ssa.Instruction) {
			call, ok := in.(*ssa.Call)
			if !ok {
				return
			}
			b, ok := call.Call.Value.(*ssa.Builtin)
			if !ok || b.Name() != "append" {
				return
			}
			g := rootGlobal(call.Call.Args[0])
			if g == nil {
				return
			}
			construct := "append(" + globalName(g) + ", ...) in " + c.funcKey(fn)
			ok2 := globalIsLiteralSlice(c, g)
			r.Check(ok2, "G1-append", construct, c.instrPos(call), "append to a package-level slice is only safe when the slice is assigned solely by a literal (cap == len, so append always copies)")
		})
	}
	for _, h := range scanAtomicMix(c.ModFuncs) {
		r.Fail("G2", h.Detail+" in "+c.funcKey(h.Fn), c.instrPos(h.In), "a field accessed through sync/atomic is also accessed plainly")
	}
	r.Pass("G2", "all module functions", "-", "every field accessed through sync/atomic is accessed only through it")
	for _, h := range scanGoroutines(c.ModFuncs) {
		r.Fail("G3", "go statement in "+c.funcKey(h.Fn), c.instrPos(h.In), "module code starts a goroutine on module-owned state")
	}
	r.Pass("G3", "all module functions", "-", "no go statement in module code")
	for _, h := range scanFsWrites(c.ModFuncs) {
		pp := c.funcPkgPath(h.Fn)
		if strings.HasPrefix(pp, modPath+"/internal/cmd") {
			continue
		}
		r.Fail("W5", h.Detail+" in "+c.funcKey(h.Fn), c.instrPos(h.In), "file-system mutation outside the CLI: a packaging operation could influence a later one through the file system")
	}
	r.Pass("W5", "all module functions outside internal/cmd", "-", "no file-system mutation")
}

func globalIsLiteralSlice(c *Ctx, g *ssa.Global) bool {
	stores := 0
	ok := true
	for _, fn := range c.ModFuncs {
		forEachInstr(fn, func(in ssa.Instruction) {
			st, isS := in.(*ssa.Store)
			if !isS || st.Addr != ssa.Value(g) {
				return
			}
			stores++
			sl, isSl := st.Val.(*ssa.Slice)
			if !isSl || sl.Low != nil || sl.High != nil {
				ok = false
				return
			}
			if _, isAlloc := sl.X.(*ssa.Alloc); !isAlloc {
				ok = false
			}
			if fn.Name() != "init" {
				ok = false
			}
		})
	}
	return ok && stores == 1
}

// underLock: the instruction is dominated by a call to (*sync.Mutex).Lock on a
// package-level mutex, whose Unlock is deferred.
func underLock(fn *ssa.Function, at ssa.Instruction) bool {
	locked, deferred := false, false
	forEachInstr(fn, func(in ssa.Instruction) {
		switch x := in.(type) {
		case *ssa.Call:
			if o := calleeObj(x); o != nil && o.Name() == "Lock" && isNamed(o.Type().(*types.Signature).Recv().Type(), "sync", "Mutex") {
				if instrDominates(x, at) {
					locked = true
				}
			}
		case *ssa.Defer:
			if o := calleeObj(x); o != nil && o.Name() == "Unlock" {
				deferred = true
			}
		}
	})
	return locked && deferred
}

func ownershipRules(c *Ctx, r *Report) {
	checkW1(c, r)
	checkPackagerStores(c, r)
	checkGlobals(c, r)
	checkSharedSlices(c, r)
	checkOutputBuffers(c, r)
	checkSyncState(c, r)
	r.Rules = append(r.Rules, "W6-helper-params signing helpers store through none of their pointer parameters", "again-R-ghost-nosource a second preparation finds a ghost's source as empty as the first (rule of C08)")
	checkHelpersDoNotWriteThroughParams(c, r)
	// preparing contents that were prepared before changes nothing: the one
	// place where the first pass leaves a trace the second acts on (rule of C08)
	checkEmptySourceKept(c, r, "again-R-ghost-nosource")
	// the Info handed out by Config.Get shares no map or list with the
	// configuration: it is the destination of the deep-copying base merge
	// (rules of C13)
	importRules(c, r, checkC13, "get-", []string{"S-get"}, func(o Obligation) bool {
		return strings.Contains(o.Construct, "deep copy") || strings.Contains(o.Construct, "base copy")
	})
	checkMergeAlias(c, r, "W4-merge-alias")
	checkFixture(c, r, []string{"go", "globalwrite", "fswrite", "atomic-mix"})
}

func checkC11(c *Ctx, r *Report) {
	r.Rules = []string{"W1 deep-fresh plan (points-to)", "W2 prepare boundary / post-prepare-only writes", "W3 Info-own writes idempotent when reachable from ConventionalFileName", "W4 no shared map update, Validate/Get read-only, merge aliasing", "W5 no file-system mutation outside the CLI", "G1 globals written only under the lock", "G2 atomics", "G3 no goroutine", "G4 output buffers are fresh and do not escape", "W1-no-inplace-sort caller-owned lists are not reordered in place", "W3-shared-slice no element store / append-on-reslice into configuration lists (template helpers included)", "G1-init-only no package-level write reachable from an operation", "G1-once a once-function touches package-level state only", "G4-pool an object handed back to a pool is dead", "G1-receiver packager methods store nothing into the registered packager value", "W3-shared-slice also for library functions that rearrange a list in place", "fixture"}
	r.Explanation = "Ownership/effect analysis over go/ssa. The channels through which one operation on a parsed configuration could influence a later one are enumerated — memory shared between the Info values Config.Get hands out (slice backing arrays and pointees; maps are re-made), package-level variables, the file system, and reuse of one Info for file name then package — and each is closed structurally: (W1) a field-sensitive inclusion-based points-to analysis of package files proves every *Content of the returned plan and the *ContentFileInfo it holds are allocated during the call and that no store in the planner goes through a caller-owned object; (W2) nfpm.PrepareForPackager replaces info.Contents by that plan and every write to a Content/ContentFileInfo in a packager is only reachable through call sites dominated by the prepare call, never from ConventionalFileName/Validate/Get; (W3) writes to the Info's own fields reachable from ConventionalFileName are override copies, translations through an idempotent table, or default filling; (W4) no update of a map or slice element shared with the configuration, Validate/Get do not write, and no overridable field is a pointer mergo would merge through; (W5) no file-system mutation outside the CLI; (G1-G3) globals only under the lock, atomics consistent, no goroutines. This decides absence of the influence channels; byte identity of the outputs then follows only with C07's assumptions."
	r.Explanation += " (G4) every buffer under an archive or compressor writer is a fresh local or reset before use, and the bytes of a pooled buffer do not escape. (W1-no-inplace-sort) sort.Sort and its relatives never get a caller-owned list. (W3-shared-slice) parameters of template FuncMap functions count as configuration-owned lists."
	r.Explanation += " (G1-init-only) no function reachable from an operation entry point (parsing, Config.Get/Validate, nfpm.Get, preparing, every packager method) writes a package-level variable, locked or not: nfpm.Get reads the registry without the lock. (G1-once) the function handed to sync.Once.Do stores only into package-level variables or its own locals. (G4-pool) a value handed to sync.Pool.Put is neither returned nor stored by that function, nor used after a non-deferred Put. (G1-receiver) no method of a registered packager type stores through its receiver. W3-shared-slice also flags slices.Compact/Delete/Insert/Replace/Sort... on configuration-owned lists."
	r.Assumptions = []string{
		"mergo v1.0.1 semantics: maps are re-made in the destination, slice headers and pointers are copied (sharing their targets), nested pointers are dereferenced and merged in place",
		"slices produced by the YAML decoder have cap == len, so appending to Info.Contents never writes into the parsed configuration's backing array",
		"third-party libraries keep no state between packagings",
	}
	ownershipRules(c, r)
}

func checkC12(c *Ctx, r *Report) {
	r.Rules = []string{"W1-W4 no write to memory shared between concurrently packaged Infos", "G1 globals written only under the lock", "G2 atomics", "G3 no goroutine", "G4 output buffers are fresh and do not escape", "W1-no-inplace-sort caller-owned lists are not reordered in place", "W3-shared-slice no element store / append-on-reslice into configuration lists (template helpers included)", "G1-init-only no package-level write reachable from an operation", "G1-once a once-function touches package-level state only", "G4-pool an object handed back to a pool is dead", "G1-receiver packager methods store nothing into the registered packager value", "W3-shared-slice also for library functions that rearrange a list in place", "fixture"}
	r.Explanation = "A data race needs two goroutines, one location and at least one write. The locations two concurrent Package calls (each on the Info obtained for its format) can both reach are the part of the configuration graph that Config.Get shares between Infos, package-level variables, and library internals. The check decides that module code writes none of the first two: the ownership analysis of C11 (points-to for the prepared plan, post-prepare-only content writes, Info-own writes, no shared map/element update) shows no store into memory reachable from two Infos; every package-level variable is written only under the registry lock (unlocked reads of the registry race only with registration, which the property's quantifier excludes) and appended to only when append must copy; fields accessed atomically are accessed only atomically; module code starts no goroutine. Interleavings are not explored: the argument is absence of shared writes."
	r.Explanation += " (G4) every buffer under an archive or compressor writer is a fresh local or reset before use, and the bytes of a pooled buffer do not escape. (W1-no-inplace-sort) sort.Sort and its relatives never get a caller-owned list. (W3-shared-slice) parameters of template FuncMap functions count as configuration-owned lists."
	r.Explanation += " (G1-init-only) no function reachable from an operation entry point (parsing, Config.Get/Validate, nfpm.Get, preparing, every packager method) writes a package-level variable, locked or not: nfpm.Get reads the registry without the lock. (G1-once) the function handed to sync.Once.Do stores only into package-level variables or its own locals. (G4-pool) a value handed to sync.Pool.Put is neither returned nor stored by that function, nor used after a non-deferred Put. (G1-receiver) no method of a registered packager type stores through its receiver. W3-shared-slice also flags slices.Compact/Delete/Insert/Replace/Sort... on configuration-owned lists."
	r.Assumptions = []string{
		"mergo v1.0.1 semantics (see C11)",
		"pgzip, zstd and go-crypto are internally synchronised (library property)",
		"registration of packagers happens before concurrent use (package init)",
	}
	ownershipRules(c, r)
}

// ---- shared slice backing arrays -------------------------------------------

// sliceOrigins follows identity-preserving steps (field load, reslice, phi,
// parameter passing, append result) back to where a slice's backing array
// comes from: "field:<Root>.<path>[ resliced]", "fresh", "call:<callee>",
// "param:<fn>" (entry point).
func sliceOrigins(c *Ctx, pa *provAnalysis, v ssa.Value, resliced bool, seen map[ssa.Value]bool, out map[string]bool) {
	if v == nil || seen[v] {
		return
	}
	seen[v] = true
	tag := func(s string) string {
		if resliced {
			return s + " resliced"
		}
		return s
	}
	switch x := v.(type) {
	case *ssa.UnOp:
		if x.Op != token.MUL {
			return
		}
		switch a := x.X.(type) {
		case *ssa.FieldAddr:
			p, root := addrPath(a)
			if root != nil {
				if al, isAlloc := root.(*ssa.Alloc); isAlloc {
					// a local struct: the field holds what this function stored
					// into it; when nothing was stored here (filled by a
					// callee, e.g. by mergo through reflection) the slice may
					// be the configuration's own
					stored := false
					var visit func(v ssa.Value, prefix string)
					visit = func(v ssa.Value, prefix string) {
						for _, ref := range *v.Referrers() {
							f2, ok := ref.(*ssa.FieldAddr)
							if !ok {
								continue
							}
							pp := fieldName(f2.X.Type(), f2.Field)
							if prefix != "" {
								pp = prefix + "." + pp
							}
							if pp == p {
								for _, r2 := range *f2.Referrers() {
									if st, ok := r2.(*ssa.Store); ok && st.Addr == ssa.Value(f2) {
										stored = true
										sliceOrigins(c, pa, st.Val, resliced, seen, out)
									}
								}
							} else if strings.HasPrefix(p, pp+".") {
								visit(f2, pp)
							}
						}
					}
					visit(al, "")
					rn := rootTypeName(al.Type())
					if rn == "Info" || rn == "Overridables" || rn == "Config" {
						// (flow-insensitive: a load may precede the local store)
						out[tag("field:"+rn+"."+p)] = true
					} else if !stored {
						out[tag("fresh")] = true
					}
					return
				}
				out[tag("field:"+rootTypeName(root.Type())+"."+p)] = true
			}
		case *ssa.Alloc:
			for _, ref := range *a.Referrers() {
				if st, ok := ref.(*ssa.Store); ok && st.Addr == ssa.Value(a) {
					sliceOrigins(c, pa, st.Val, resliced, seen, out)
				}
			}
		case *ssa.FreeVar:
			out[tag("freevar")] = true
		case *ssa.Global:
			out[tag("global:"+globalName(a))] = true
		}
	case *ssa.Slice:
		if al := allocOf(x.X); al != nil {
			out[tag("fresh")] = true
			return
		}
		sliceOrigins(c, pa, x.X, resliced || x.High != nil || x.Low != nil, seen, out)
	case *ssa.Phi:
		for _, e := range x.Edges {
			sliceOrigins(c, pa, e, resliced, seen, out)
		}
	case *ssa.ChangeType:
		sliceOrigins(c, pa, x.X, resliced, seen, out)
	case *ssa.Const:
		out["nil"] = true
	case *ssa.MakeSlice, *ssa.Alloc:
		out[tag("fresh")] = true
	case *ssa.Parameter:
		sites := pa.callSites(x.Parent())
		idx := -1
		for i, p := range x.Parent().Params {
			if p == x {
				idx = i
			}
		}
		if len(sites) == 0 || idx < 0 {
			out[tag("param:"+c.funcKey(x.Parent()))] = true
			return
		}
		for _, cs := range sites {
			if idx < len(cs.Common().Args) {
				sliceOrigins(c, pa, cs.Common().Args[idx], resliced, seen, out)
			}
		}
	case *ssa.Call:
		if b, ok := x.Call.Value.(*ssa.Builtin); ok && b.Name() == "append" {
			sliceOrigins(c, pa, x.Call.Args[0], resliced, seen, out)
			return
		}
		if sc := x.Call.StaticCallee(); sc != nil && sc.Blocks != nil && c.isModuleFunc(sc) {
			for _, b := range sc.Blocks {
				if ret, ok := b.Instrs[len(b.Instrs)-1].(*ssa.Return); ok {
					for _, res := range retResults(ret) {
						if _, isSlice := res.Type().Underlying().(*types.Slice); isSlice {
							sliceOrigins(c, pa, res, resliced, seen, out)
						}
					}
				}
			}
			return
		}
		out[tag("call:"+calleeName(x))] = true
	case *ssa.Extract:
		sliceOrigins(c, pa, x.Tuple, resliced, seen, out)
	}
}

// checkSharedSlices: element stores into, and in-place appends onto, slices
// whose backing array belongs to the configuration.
func checkSharedSlices(c *Ctx, r *Report) {
	var roots []*ssa.Function
	for _, p := range c.Packagers {
		roots = append(roots, p.Package, p.FileName)
	}
	for _, n := range []string{"Validate", "PrepareForPackager"} {
		if f := c.Func("", n); f != nil {
			roots = append(roots, f)
		}
	}
	for _, m := range []string{"Get", "Validate"} {
		if f := c.Method("", "Config", m); f != nil {
			roots = append(roots, f)
		}
	}
	reach := c.Reach(roots...)
	n := checkSharedSlicesIn(c, r, reach)
	r.Floor("W3-shared-slice", n, 3)
}

func checkSharedSlicesIn(c *Ctx, r *Report, reach map[*ssa.Function]bool) int {
	pa := newProv(c)
	n := 0
	// functions registered in a template FuncMap are called by the template
	// engine with the configuration's own lists as arguments
	tmplParam := map[string]bool{}
	for fn := range funcMapFuncs(c) {
		tmplParam["param:"+c.funcKey(fn)] = true
	}
	owned := func(o string) bool {
		if strings.HasPrefix(o, "field:Info.") || strings.HasPrefix(o, "field:Overridables.") || strings.HasPrefix(o, "field:Config.") {
			return true
		}
		return tmplParam[strings.TrimSuffix(o, " resliced")]
	}
	for _, fn := range sortedFuncs(c, reach) {
		perFn := 0
		forEachInstr(fn, func(in ssa.Instruction) {
			switch x := in.(type) {
			case *ssa.Store:
				ia, ok := x.Addr.(*ssa.IndexAddr)
				if !ok {
					// field of an element: &s[i].f
					if fa, ok2 := x.Addr.(*ssa.FieldAddr); ok2 {
						if ia2, ok3 := fa.X.(*ssa.IndexAddr); ok3 {
							ia = ia2
						}
					}
					if ia == nil {
						return
					}
				}
				if _, isSlice := ia.X.Type().Underlying().(*types.Slice); !isSlice {
					return
				}
				orig := map[string]bool{}
				sliceOrigins(c, pa, ia.X, false, map[ssa.Value]bool{}, orig)
				n++
				perFn++
				var bad []string
				for o := range orig {
					if owned(o) {
						bad = append(bad, o)
					}
				}
				sort.Strings(bad)
				construct := fmt.Sprintf("element store#%d in %s", perFn, c.funcKey(fn))
				r.Check(len(bad) == 0, "W3-shared-slice", construct, c.instrPos(x),
					fmt.Sprintf("the slice written may be %v: Config.Get copies slice headers only, so this rewrites the parsed configuration's own list (origins: %s)", bad, joinSorted(orig)))
			case *ssa.Call:
				b, ok := x.Call.Value.(*ssa.Builtin)
				if !ok {
					// a library function that rearranges the elements of the
					// slice it is given in place
					if o := calleeObj(x); o != nil && (inPlaceMutators[qualifiedName(o)] || inPlaceCompactors[qualifiedName(o)]) && len(x.Call.Args) > 0 {
						arg := stripIface(x.Call.Args[0])
						if ct, isCT := arg.(*ssa.ChangeType); isCT {
							arg = ct.X
						}
						if _, isSlice := arg.Type().Underlying().(*types.Slice); !isSlice {
							return
						}
						orig := map[string]bool{}
						sliceOrigins(c, pa, arg, false, map[ssa.Value]bool{}, orig)
						var bad []string
						for o := range orig {
							if owned(o) {
								bad = append(bad, o)
							}
						}
						if len(bad) == 0 {
							return
						}
						n++
						perFn++
						sort.Strings(bad)
						r.Fail("W3-shared-slice", fmt.Sprintf("%s#%d in %s", qualifiedName(o), perFn, c.funcKey(fn)), c.instrPos(x),
							fmt.Sprintf("the list rearranged in place may be %v: Config.Get copies slice headers only, so this rewrites the parsed configuration's own list for every later operation", bad))
					}
					return
				}
				if b.Name() != "append" {
					return
				}
				orig := map[string]bool{}
				sliceOrigins(c, pa, x.Call.Args[0], false, map[ssa.Value]bool{}, orig)
				var bad, direct []string
				for o := range orig {
					if owned(o) {
						if strings.HasSuffix(o, " resliced") {
							bad = append(bad, o)
						} else {
							direct = append(direct, o)
						}
					}
				}
				if len(bad) == 0 && len(direct) == 0 {
					return
				}
				n++
				perFn++
				sort.Strings(bad)
				construct := fmt.Sprintf("append#%d in %s", perFn, c.funcKey(fn))
				if len(bad) > 0 {
					r.Fail("W3-shared-slice", construct, c.instrPos(x), fmt.Sprintf("append onto a reslice of a configuration list (%v): the spare capacity is the parsed configuration's own backing array, so the append overwrites its entries", bad))
				} else {
					r.Pass("W3-shared-slice", construct, c.instrPos(x), fmt.Sprintf("append onto the full list %v: copies under the recorded assumption that decoded lists have cap == len", direct))
				}
			}
		})
	}
	return n
}

// ---- G4: buffers that back package output are not shared ---------------------

// checkOutputBuffers: every in-memory buffer under an archive/compressor
// writer of a packager is a fresh local (or is Reset before use), and the
// bytes of a buffer that is handed back to a pool do not escape.
func checkOutputBuffers(c *Ctx, r *Report) {
	sa := newSinkAnalysis(c)
	var roots []*ssa.Function
	for _, p := range c.Packagers {
		roots = append(roots, p.Package)
	}
	reach := c.Reach(roots...)
	n := 0
	for _, fn := range sortedFuncs(c, reach) {
		perFn := 0
		forEachInstr(fn, func(in ssa.Instruction) {
			call, ok := in.(*ssa.Call)
			if !ok {
				return
			}
			o := calleeObj(call)
			if o == nil {
				return
			}
			q := qualifiedName(o)
			if !wrapperCtors[q] || len(call.Call.Args) == 0 {
				return
			}
			n++
			perFn++
			construct := fmt.Sprintf("%s#%d in %s", shortName(q), perFn, c.funcKey(fn))
			ok2 := true
			why := ""
			for _, root := range sa.terminalRoots(call.Call.Args[0]) {
				fresh, w := freshBufferRoot(root)
				if !fresh {
					ok2 = false
					why = w
				}
				if pc, isCall := root.(*ssa.Call); isCall {
					if esc := pooledBytesEscape(pc); esc != "" {
						ok2 = false
						why = esc
					}
				}
			}
			if ok2 {
				why = "every buffer under this writer is a fresh local allocation, caller-supplied, or reset before use"
			}
			r.Check(ok2, "G4", construct, c.instrPos(call), why)
		})
	}
	r.Floor("G4", n, 8)
}

// pooledBytesEscape: the object returned by `get` is handed back through a
// Put call while a slice of its contents (Bytes()) leaves the function.
func pooledBytesEscape(get *ssa.Call) string {
	aliases := map[ssa.Value]bool{}
	var collect func(v ssa.Value, d int)
	collect = func(v ssa.Value, d int) {
		if d > 4 || aliases[v] || v.Referrers() == nil {
			return
		}
		aliases[v] = true
		for _, ref := range *v.Referrers() {
			switch x := ref.(type) {
			case *ssa.TypeAssert:
				collect(x, d+1)
			case *ssa.Extract:
				collect(x, d+1)
			case *ssa.MakeInterface:
				collect(x, d+1)
			}
		}
	}
	collect(get, 0)
	put := false
	var bytesCalls []*ssa.Call
	for a := range aliases {
		for _, ref := range *a.Referrers() {
			ci, ok := ref.(ssa.CallInstruction)
			if !ok {
				continue
			}
			o := calleeObj(ci)
			if o == nil {
				continue
			}
			if o.Name() == "Put" {
				put = true
			}
			if cv, isCall := ci.(*ssa.Call); isCall && (o.Name() == "Bytes" || o.Name() == "String") && callReceiver(ci) == a {
				bytesCalls = append(bytesCalls, cv)
			}
		}
	}
	if !put {
		return ""
	}
	for _, bc := range bytesCalls {
		if o := calleeObj(bc); o != nil && o.Name() == "String" {
			continue // String copies
		}
		for _, ref := range *bc.Referrers() {
			switch x := ref.(type) {
			case *ssa.Return:
				return "the buffer is handed back to its pool while a slice of its bytes is returned: a later packaging reuses and overwrites the memory the caller still reads"
			case *ssa.Store:
				return "the buffer is handed back to its pool while a slice of its bytes is stored"
			case *ssa.Call:
				if b, ok := x.Call.Value.(*ssa.Builtin); ok && (b.Name() == "append" || b.Name() == "copy" || b.Name() == "len") {
					continue
				}
			}
		}
	}
	return ""
}

// returnsResultOf: every return of fn hands on the results of a call to
// target (or of such a wrapper): `return target(...)`.
func returnsResultOf(fn, target *ssa.Function, depth int) bool {
	if fn == nil || target == nil || fn.Blocks == nil || depth > 2 {
		return false
	}
	n := 0
	for _, b := range fn.Blocks {
		ret, ok := b.Instrs[len(b.Instrs)-1].(*ssa.Return)
		if !ok {
			continue
		}
		n++
		res := retResults(ret)
		if len(res) == 0 {
			return false
		}
		var call *ssa.Call
		for _, v := range res {
			var c2 *ssa.Call
			switch x := v.(type) {
			case *ssa.Extract:
				c2, _ = x.Tuple.(*ssa.Call)
			case *ssa.Call:
				c2 = x
			}
			if c2 == nil || call != nil && c2 != call {
				return false
			}
			call = c2
		}
		sc := call.Call.StaticCallee()
		if sc != target && !returnsResultOf(sc, target, depth+1) {
			return false
		}
	}
	return n > 0
}

// funcMapFuncs: functions stored as values of a text/template (or
// html/template) FuncMap.
func funcMapFuncs(c *Ctx) map[*ssa.Function]bool {
	out := map[*ssa.Function]bool{}
	for _, fn := range c.ModFuncs {
		forEachInstr(fn, func(in ssa.Instruction) {
			mu, ok := in.(*ssa.MapUpdate)
			if !ok {
				return
			}
			if !isNamed(mu.Map.Type(), "text/template", "FuncMap") && !isNamed(mu.Map.Type(), "html/template", "FuncMap") {
				return
			}
			switch v := stripIface(mu.Value).(type) {
			case *ssa.MakeClosure:
				if f, ok := v.Fn.(*ssa.Function); ok {
					out[f] = true
				}
			case *ssa.Function:
				out[v] = true
			}
		})
	}
	return out
}

// operationRoots: the entry points of the operations the isolation and
// concurrency properties quantify over - parsing, Config.Get / Validate,
// nfpm.Get, preparing, and every packager method.
func operationRoots(c *Ctx) []*ssa.Function {
	var roots []*ssa.Function
	add := func(f *ssa.Function) {
		if f != nil {
			roots = append(roots, f)
		}
	}
	for _, name := range []string{"Get", "Validate", "PrepareForPackager", "WithDefaults", "Parse", "ParseFile", "ParseWithEnvMapping", "ParseFileWithEnvMapping", "Enumerate"} {
		add(c.Func("", name))
	}
	for _, fn := range c.ModFuncs {
		if fn.Signature.Recv() != nil && isPtrToNamed(fn.Signature.Recv().Type(), modPath, "Config") && fn.Parent() == nil {
			add(fn)
		}
	}
	for _, pk := range c.Packagers {
		add(pk.Package)
		add(pk.FileName)
		for _, fn := range c.ModFuncs {
			if fn.Signature.Recv() != nil && fn.Parent() == nil && c.funcPkgPath(fn) == pk.PkgPath && pk.Package != nil && pk.Package.Signature.Recv() != nil && types.Identical(fn.Signature.Recv().Type(), pk.Package.Signature.Recv().Type()) {
				add(fn)
			}
		}
	}
	return roots
}

// checkSyncState: three ways in which synchronised package-level state lets
// one operation reach into another although every single access is "safe".
//
// (G1-init-only) the registry is read without the lock by nfpm.Get; that is
// only sound because registration happens at initialisation. No function that
// writes a package-level variable (under the lock or not) is reachable from
// an operation.
//
// (G1-once) the function handed to a sync.Once runs for the first operation
// only: it may touch package-level state, never the state of the operation
// that happens to come first (a default stored into that operation's Info).
//
// (G4-pool) an object handed back to a sync.Pool is dead: it is not returned
// or stored by the function that hands it back (deferred Put), nor used after
// a Put.
func checkSyncState(c *Ctx, r *Report) {
	roots := operationRoots(c)
	reach := c.Reach(roots...)
	var scope []*ssa.Function
	for _, fn := range sortedFuncs(c, reach) {
		if c.isModuleFunc(fn) && !strings.HasPrefix(c.funcPkgPath(fn), modPath+"/internal/cmd") {
			scope = append(scope, fn)
		}
	}
	hits := scanGlobalWrites(c, scope)
	for _, h := range hits {
		r.Fail("G1-init-only", h.Detail+" in "+c.funcKey(h.Fn)+" is reachable from an operation", c.instrPos(h.In),
			"a package-level variable is written while configurations are parsed or packages built: unlocked readers (nfpm.Get reads the registry without the lock) race with it, and an earlier operation changes what a later one sees")
	}
	r.Pass("G1-init-only", fmt.Sprintf("%d functions reachable from %d operation entry points", len(scope), len(roots)), "-", "none writes a package-level variable")
	if len(roots) < 12 {
		r.Fail("instance-floor", "G1-init-only roots", "-", fmt.Sprintf("only %d operation entry points found", len(roots)))
	}

	// (G1-receiver) the registered packagers are process-wide singletons; a
	// method that stores into its receiver keeps per-build state where every
	// concurrent and later build sees it
	nRecv := 0
	for _, pk := range c.Packagers {
		if pk.Package == nil || pk.Package.Signature.Recv() == nil {
			continue
		}
		rt := pk.Package.Signature.Recv().Type()
		for _, fn := range c.ModFuncs {
			if fn.Signature.Recv() == nil || !types.Identical(derefType(fn.Signature.Recv().Type()), derefType(rt)) || len(fn.Params) == 0 {
				continue
			}
			nRecv++
			recv := fn.Params[0]
			bad := ""
			var at ssa.Instruction
			forEachInstr(fn, func(in ssa.Instruction) {
				if st, ok := in.(*ssa.Store); ok {
					if _, root := addrPath(st.Addr); root == ssa.Value(recv) {
						bad = shorten(valueExpr(c, st.Addr, 0), 50)
						at = st
					}
				}
			})
			pos := c.pos(fn.Pos())
			if at != nil {
				pos = c.instrPos(at)
			}
			r.Check(bad == "", "G1-receiver", c.funcKey(fn)+" stores nothing into the packager value", pos,
				"the method writes "+bad+" of its receiver, and the receiver is the registered, process-wide packager: what one build leaves there is read by concurrent and later builds")
		}
	}
	if nRecv < 10 {
		r.Fail("instance-floor", "G1-receiver", "-", fmt.Sprintf("only %d packager methods found", nRecv))
	}

	nOnce, nPool := 0, 0
	for _, fn := range c.ModFuncs {
		if strings.HasPrefix(c.funcPkgPath(fn), modPath+"/internal/cmd") {
			continue
		}
		forEachInstr(fn, func(in ssa.Instruction) {
			ci, ok := in.(ssa.CallInstruction)
			if !ok {
				return
			}
			o := calleeObj(ci)
			if o == nil || o.Pkg() == nil || o.Pkg().Path() != "sync" {
				return
			}
			sig, _ := o.Type().(*types.Signature)
			if sig == nil || sig.Recv() == nil {
				return
			}
			switch {
			case o.Name() == "Do" && isNamed(derefType(sig.Recv().Type()), "sync", "Once"):
				nOnce++
				args := ci.Common().Args
				bad := ""
				if mc, isMC := args[len(args)-1].(*ssa.MakeClosure); isMC {
					body := mc.Fn.(*ssa.Function)
					forEachInstr(body, func(i2 ssa.Instruction) {
						st, isSt := i2.(*ssa.Store)
						if !isSt || bad != "" {
							return
						}
						if rootGlobal(st.Addr) != nil {
							return
						}
						if al := allocOf(st.Addr); al != nil && al.Parent() == body {
							return
						}
						bad = fmt.Sprintf("the store at %s writes %s", c.instrPos(st), shorten(valueExpr(c, st.Addr, 0), 60))
					})
				}
				r.Check(bad == "", "G1-once", fmt.Sprintf("once#%d in %s touches package-level state only", nOnce, c.funcKey(fn)), c.instrPos(in),
					"the once-function runs for the first caller only, but "+bad+", which belongs to the calling operation: the first operation gets the effect and every later one does not")
			case o.Name() == "Put" && isNamed(derefType(sig.Recv().Type()), "sync", "Pool"):
				nPool++
				args := ci.Common().Args
				v := args[len(args)-1]
				if mi, isMI := v.(*ssa.MakeInterface); isMI {
					v = mi.X
				}
				_, deferred := in.(*ssa.Defer)
				bad := ""
				aliases := map[ssa.Value]bool{v: true}
				if v.Referrers() != nil {
					for _, ref := range *v.Referrers() {
						if phi, isPhi := ref.(*ssa.Phi); isPhi {
							aliases[phi] = true
						}
					}
				}
				for a := range aliases {
					if a.Referrers() == nil {
						continue
					}
					for _, ref := range *a.Referrers() {
						switch x := ref.(type) {
						case *ssa.Return:
							bad = fmt.Sprintf("it is returned at %s", c.instrPos(x))
						case *ssa.Store:
							if x.Val == a && allocOf(x.Addr) == nil {
								bad = fmt.Sprintf("it is stored at %s", c.instrPos(x))
							}
						default:
							if !deferred && ref != in && instrDominates(in, ref) {
								if _, isDbg := ref.(*ssa.DebugRef); !isDbg {
									bad = fmt.Sprintf("it is used at %s after the Put", c.instrPos(ref))
								}
							}
						}
					}
				}
				// returns spilled through result cells (functions with defers)
				for _, b := range fn.Blocks {
					if ret, isRet := b.Instrs[len(b.Instrs)-1].(*ssa.Return); isRet {
						for _, res := range retResults(ret) {
							if aliases[res] {
								bad = fmt.Sprintf("it is returned at %s", c.instrPos(ret))
							}
						}
					}
				}
				r.Check(bad == "", "G4-pool", fmt.Sprintf("pool put#%d in %s: the object is dead afterwards", nPool, c.funcKey(fn)), c.instrPos(in),
					"the object is handed back to the pool, yet "+bad+": a concurrent or later operation gets the same object from the pool and both write it")
			}
		})
	}
	r.Count("sync_once_calls", nOnce)
	r.Count("sync_pool_puts", nPool)
}

// checkHelpersDoNotWriteThroughParams (W6-helper-params): the signing helpers
// are handed pointers into the settings (the key id is a *string shared with
// the parsed configuration when the format has no override block). They read
// through them; a store through such a parameter rewrites the configuration
// for every later operation.
func checkHelpersDoNotWriteThroughParams(c *Ctx, r *Report) {
	n := 0
	bad := ""
	var at ssa.Instruction
	for _, fn := range c.ModFuncs {
		if c.funcPkgPath(fn) != modPath+"/internal/sign" {
			continue
		}
		n++
		forEachInstr(fn, func(in ssa.Instruction) {
			st, ok := in.(*ssa.Store)
			if !ok {
				return
			}
			root := st.Addr
			for i := 0; i < 8; i++ {
				switch x := root.(type) {
				case *ssa.FieldAddr:
					root = x.X
					continue
				case *ssa.IndexAddr:
					root = x.X
					continue
				}
				break
			}
			prm, isPrm := root.(*ssa.Parameter)
			fv, isFV := root.(*ssa.FreeVar)
			switch {
			case isPrm:
				if _, isPtr := prm.Type().Underlying().(*types.Pointer); isPtr && !(fn.Signature.Recv() != nil && fn.Params[0] == prm) {
					bad, at = "parameter "+prm.Name()+" of "+c.funcKey(fn), st
				}
			case isFV:
				// a captured pointer parameter of the enclosing function
				if _, isPtr := fv.Type().Underlying().(*types.Pointer); isPtr {
					if _, isPP := fv.Type().Underlying().(*types.Pointer).Elem().Underlying().(*types.Pointer); !isPP && !isPointerToCell(fv) {
						bad, at = "captured pointer "+fv.Name()+" in "+c.funcKey(fn), st
					}
				}
			}
		})
	}
	pos := "-"
	if at != nil {
		pos = c.instrPos(at)
	}
	r.Check(bad == "", "W6-helper-params", "the signing helpers store through none of their pointer parameters", pos,
		fmt.Sprintf("%d functions examined; store through %s: the pointer leads into the caller's settings (the key id string is shared with the parsed configuration)", n, bad))
}
