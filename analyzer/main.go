package main

import (
	"encoding/json"
	"flag"
	"fmt"
	"os"
	"path/filepath"
	"sort"
	"strconv"
	"time"
)

type checkFn func(c *Ctx, r *Report)

// verifDir is where spec, fixture, known findings and evidence live.
var verifDir = "/verif"

var registry = map[string]checkFn{}

func register(id string, f checkFn) { registry[id] = f }

func main() {
	prop := flag.String("property", "", "property id (C01..C17) or 'all'")
	tier := flag.String("tier", "", "quick|thorough (default $VERIF_TIER or quick)")
	repo := flag.String("repo", "/repo", "repository to analyse")
	verif := flag.String("verif", "", "verif directory (default: parent of the binary's dir, else /verif)")
	replay := flag.String("replay", "", "replay file written by an earlier run")
	out := flag.String("out", "", "directory that receives evidence/ (default: the verif directory)")
	list := flag.Bool("list", false, "list registered properties")
	flag.Parse()

	if *list {
		var ids []string
		for id := range registry {
			ids = append(ids, id)
		}
		sort.Strings(ids)
		for _, id := range ids {
			fmt.Println(id)
		}
		return
	}
	if *tier == "" {
		*tier = os.Getenv("VERIF_TIER")
	}
	if *tier != "thorough" {
		*tier = "quick"
	}
	if *verif == "" {
		*verif = "/verif"
		if exe, err := os.Executable(); err == nil {
			d := filepath.Dir(filepath.Dir(exe))
			if _, err := os.Stat(filepath.Join(d, "properties.jsonl")); err == nil {
				*verif = d
			}
		}
	}
	verifDir = *verif
	if *out == "" {
		*out = *verif
	}
	seed := 0
	if s := os.Getenv("VERIF_SEED"); s != "" {
		if n, err := strconv.Atoi(s); err == nil {
			seed = n
		}
	}
	var replayRule, replayConstruct string
	if *replay != "" {
		b, err := os.ReadFile(*replay)
		if err != nil {
			fatalf("replay: %v", err)
		}
		var m map[string]string
		if err := json.Unmarshal(b, &m); err != nil {
			fatalf("replay: %v", err)
		}
		*prop = m["property"]
		replayRule, replayConstruct = m["rule"], m["construct"]
		if m["tier"] == "thorough" {
			*tier = "thorough"
		}
	}
	var ids []string
	if *prop == "all" {
		for id := range registry {
			ids = append(ids, id)
		}
		sort.Strings(ids)
	} else if _, ok := registry[*prop]; ok {
		ids = []string{*prop}
	} else {
		fatalf("unknown property %q (use -list)", *prop)
	}

	start := time.Now()
	c, err := loadProgram(*repo, *tier)
	exit := 0
	for _, id := range ids {
		t0 := time.Now()
		r := newReport(id)
		if err != nil {
			// a tree that does not load/type-check is never vacuously clean
			r.Fail("load", "repository", "-", err.Error())
			r.Explanation = "the repository could not be loaded and type-checked; no rule was applied"
		} else {
			func() {
				defer func() {
					if p := recover(); p != nil {
						r.Fail("analysis-panic", id, "-", fmt.Sprintf("analysis panicked (undecided ⇒ fail): %v", p))
						if os.Getenv("NFPMCHECK_DEBUG") != "" {
							panic(p)
						}
					}
				}()
				registry[id](c, r)
			}()
		}
		wall := time.Since(t0).Seconds()
		if len(ids) == 1 {
			wall = time.Since(start).Seconds()
		}
		if *replay != "" {
			still := false
			for _, o := range r.Obls {
				if !o.OK && o.Rule == replayRule && o.Construct == replayConstruct {
					still = true
					fmt.Printf("REPLAY: still failing: rule=%s construct=%q at %s: %s\n", o.Rule, o.Construct, o.Pos, o.Detail)
				}
			}
			if !still {
				fmt.Printf("REPLAY: rule=%s construct=%q no longer fails on the current tree\n", replayRule, replayConstruct)
				os.Exit(0)
			}
			fmt.Printf("VIOLATION property=%s replay=%s\n", id, *replay)
			os.Exit(1)
		}
		if code := r.finish(c, *verif, *out, *tier, seed, wall); code > exit {
			exit = code
		}
	}
	os.Exit(exit)
}
