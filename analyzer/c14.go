package main

import (
	"fmt"
	"go/token"
	"go/types"
	"sort"
	"strings"

	"golang.org/x/tools/go/ssa"
)

func init() { register("C14", checkC14) }

const semverPath = "github.com/Masterminds/semver/v3"

// separatorsIn collects, in the given functions, string concatenations
// `<const> + <value derived from Info.<component>>`: component -> separators.
func separatorsIn(c *Ctx, pa *provAnalysis, fns []*ssa.Function) map[string]map[string]bool {
	out := map[string]map[string]bool{}
	for _, fn := range fns {
		forEachInstr(fn, func(in ssa.Instruction) {
			bo, ok := in.(*ssa.BinOp)
			if !ok || bo.Op != token.ADD {
				return
			}
			sep := constOrEmpty(bo.X)
			if sep == "" {
				// table-driven: row.sep + row.value over a literal table
				if ia, sf, ok := loopElemField(bo.X); ok {
					if ib, vf, ok := loopElemField(bo.Y); ok && ia == ib {
						var arr *ssa.Alloc
						switch x := ia.X.(type) {
						case *ssa.Slice:
							arr, _ = x.X.(*ssa.Alloc)
						case *ssa.Alloc:
							arr = x
						}
						if arr != nil {
							for _, row := range tableRows(arr, ia) {
								k, isK := row[sf].(*ssa.Const)
								if !isK || row[vf] == nil {
									continue
								}
								for _, a := range pa.Of(row[vf]).fields() {
									comp := strings.TrimPrefix(a, "Info.")
									if out[comp] == nil {
										out[comp] = map[string]bool{}
									}
									out[comp][constOrEmpty(k)] = true
								}
							}
						}
					}
				}
				return
			}
			for _, a := range pa.Of(bo.Y).fields() {
				comp := strings.TrimPrefix(a, "Info.")
				if out[comp] == nil {
					out[comp] = map[string]bool{}
				}
				out[comp][sep] = true
			}
		})
	}
	// builder form: b.WriteByte('~'); b.WriteString(info.Prerelease)
	for _, fn := range fns {
		for _, blk := range fn.Blocks {
			lastSep := ""
			var lastRecv ssa.Value
			for _, in := range blk.Instrs {
				call, ok := in.(*ssa.Call)
				if !ok {
					continue
				}
				o := calleeObj(call)
				if o == nil || !strings.HasPrefix(o.Name(), "Write") || len(call.Call.Args) != 2 {
					continue
				}
				recv := call.Call.Args[0]
				if !isNamed(derefType(recv.Type()), "strings", "Builder") && !isNamed(derefType(recv.Type()), "bytes", "Buffer") {
					continue
				}
				arg := call.Call.Args[1]
				if k, isK := arg.(*ssa.Const); isK && k.Value != nil {
					if cs := constOrEmpty(k); cs != "" {
						lastSep, lastRecv = cs, recv
					} else if k.Value.Kind().String() == "Int" {
						lastSep, lastRecv = string(rune(k.Int64())), recv
					}
					continue
				}
				if lastSep != "" && lastRecv == recv {
					for _, a := range pa.Of(arg).fields() {
						comp := strings.TrimPrefix(a, "Info.")
						if out[comp] == nil {
							out[comp] = map[string]bool{}
						}
						out[comp][lastSep] = true
					}
				}
				lastSep = ""
			}
		}
	}
	return out
}

// sanitised: the component passes through strings.ReplaceAll(x, "-", "_").
func sanitisedIn(c *Ctx, pa *provAnalysis, fns []*ssa.Function, comp string) bool {
	found := false
	for _, fn := range fns {
		forEachInstr(fn, func(in ssa.Instruction) {
			call, ok := in.(*ssa.Call)
			if !ok || !calleeIs(call, "strings", "", "ReplaceAll") {
				return
			}
			if constOrEmpty(call.Call.Args[1]) == "-" && constOrEmpty(call.Call.Args[2]) == "_" && pa.Of(call.Call.Args[0]).has("Info."+comp) {
				found = true
			}
		})
	}
	return found
}

// sanitisedOnly: every '-' -> '_' replacement in the functions is applied to
// a value derived from the given component alone (the version proper and the
// metadata are used verbatim).
func sanitisedOnly(c *Ctx, pa *provAnalysis, fns []*ssa.Function, comp string) (bool, string) {
	for _, fn := range fns {
		bad := ""
		forEachInstr(fn, func(in ssa.Instruction) {
			call, ok := in.(*ssa.Call)
			if !ok || !calleeIs(call, "strings", "", "ReplaceAll") {
				return
			}
			if constOrEmpty(call.Call.Args[1]) != "-" {
				return
			}
			for _, a := range pa.Of(call.Call.Args[0]).fields() {
				if a != "Info."+comp && strings.HasPrefix(a, "Info.") {
					bad = fmt.Sprintf("the replacement at %s also rewrites %s", c.instrPos(call), a)
				}
			}
		})
		if bad != "" {
			return false, bad
		}
	}
	return true, "only the prerelease is rewritten"
}

func checkC14(c *Ctx, r *Report) {
	r.Rules = []string{"D8 version schema decision table", "D8 semver split: rewrite only on successful parse, explicit prerelease/metadata win", "F13 separator literals in templates, file names and formatters", "F13 prerelease sanitised for rpm and archlinux", "epoch syntax", "D8-order environment expansion precedes the defaults", "F13-width parsed components are not narrowed after the parse", "D8-verbatim the version field is never handed to a string-rewriting function in a packager", "lossless-F6-parsed no branch on a parsed epoch/release (imported from C02)", "D8-packager-store packagers only default-fill version components", "lossless-F6 the rpm version keeps every configured component on every path (imported from C02)", "D8-parse-arg the semver parser is handed the configured version unrewritten", "D8-split-unguarded whether the split runs depends on the schema alone", "D8-verbatim (extended) deb, ipk and apk also leave prerelease and metadata unrewritten"}
	r.Explanation = "Decision-table and literal-provenance rules. (D8) nfpm.WithDefaults is abstractly evaluated for version_schema in {none, semver, empty, anything else}: the semver split is dead for 'none' and live otherwise; inside the split the version is rewritten only on the success edge of the parse, from major/minor/patch alone, and prerelease and metadata are filled from the parsed version only behind an emptiness test of the same field (explicit values win; nothing is duplicated because the rewritten version carries no prerelease/metadata). (F13) in the deb and ipk control templates, in their conventional file names and in rpm's version formatter the literal immediately before the prerelease is '~' — the only character both dpkg and rpmvercmp order before the end of the string, so this literal is what makes every prerelease build sort before its release — metadata is introduced by '+', release by '-', the epoch is followed by ':' (deb/ipk) or goes to the numeric rpm epoch with its parse error returned; rpm and archlinux replace '-' by '_' in the prerelease. Concrete version comparison is not executed."
	r.Explanation += " (D8-order) in the function that expands the configuration every WithDefaults call is dominated by the expansion. (F13-width) an epoch/release parsed with N bits is never converted to a narrower integer type."
	r.Explanation += " (D8-verbatim) in every packager each load of Info.Version reaches, through phis and conversions, only formatting, concatenation, comparison and module functions - no strings/bytes/regexp/path rewriting call. (lossless-F6-parsed) imported from C02."
	r.Explanation += " (D8-packager-store) every store to Info.Version/Prerelease/VersionMetadata/Release/Epoch in a packager package is a constant behind an emptiness test of the same component, or the defaulting helper on the same component."
	r.Explanation += " (lossless-F6) imported from C02 for the rpm rows."
	r.Assumptions = []string{
		"Masterminds/semver accepts the documented grammar (v-prefix, fewer than three parts) and Prerelease()/Metadata() return the parsed components",
		"dpkg and rpm order '~' before anything including the end of the string (their documented comparison algorithms)",
	}
	pa := newProv(c)
	wd := c.Func("", "WithDefaults")
	if wd == nil {
		r.Unresolved("nfpm.WithDefaults", "not found")
		return
	}
	checkParseOrder(c, r, wd)
	checkParseWidth(c, r, pa)
	checkVersionLines(c, r)
	// the split function: the module function reachable from WithDefaults that calls semver.NewVersion
	var split *ssa.Function
	for _, fn := range sortedFuncs(c, c.Reach(wd)) {
		forEachInstr(fn, func(in ssa.Instruction) {
			if call, ok := in.(*ssa.Call); ok && calleeIs(call, semverPath, "", "NewVersion") {
				split = fn
			}
		})
	}
	if split == nil {
		// any other parser from the semver package (StrictNewVersion) or none
		var other []string
		for _, fn := range sortedFuncs(c, c.Reach(wd)) {
			forEachInstr(fn, func(in ssa.Instruction) {
				if call, ok := in.(*ssa.Call); ok {
					if o := calleeObj(call); o != nil && o.Pkg() != nil && o.Pkg().Path() == semverPath {
						other = append(other, o.Name())
					}
				}
			})
		}
		r.Fail("D8-parser", "version parsed with the lenient semver parser", c.pos(wd.Pos()), fmt.Sprintf("the split must use semver.NewVersion, which accepts a 'v' prefix and fewer than three numeric parts; semver functions called instead: %v", other))
		return
	}
	r.Pass("D8-parser", "version parsed with the lenient semver parser", c.pos(split.Pos()), "semver.NewVersion")
	for _, schema := range []string{"none", "semver", "", "calver"} {
		ev := newEvaluator(c)
		info := newAObj("info")
		info.Fields["VersionSchema"] = cStr(schema)
		ev.Defaults[c.infoPtrKey()] = info
		fr := ev.Explore(wd, make([]AV, len(wd.Params)))
		parsed := false
		for _, li := range fr.LiveInstrs() {
			if call, ok := li.In.(*ssa.Call); ok && calleeIs(call, semverPath, "", "NewVersion") {
				parsed = true
			}
		}
		want := schema != "none"
		r.Check(parsed == want, "D8-schema", fmt.Sprintf("version_schema=%q", schema), c.pos(wd.Pos()), fmt.Sprintf("semver split live=%v, expected=%v ('none' must leave the version verbatim)", parsed, want))
	}
	// whether the split runs is a matter of the schema alone: a test of the
	// version's own text in front of it (has a dot, starts with a digit, ...)
	// leaves versions the parser would split - "v2", "2-rc1" - verbatim
	{
		nSites := 0
		for _, host := range sortedFuncs(c, c.Reach(wd)) {
			if !c.isModuleFunc(host) || host == split {
				continue
			}
			forEachInstr(host, func(in ssa.Instruction) {
				call, ok := in.(*ssa.Call)
				if !ok || call.Call.StaticCallee() != split {
					return
				}
				nSites++
				foreign := ""
				for b := call.Block(); b != nil; b = b.Idom() {
					if len(b.Preds) != 1 {
						continue
					}
					ifi, isIf := b.Preds[0].Instrs[len(b.Preds[0].Instrs)-1].(*ssa.If)
					if !isIf {
						continue
					}
					for _, a := range infoAtoms(pa.Of(ifi.Cond)) {
						if a != "Info.VersionSchema" {
							foreign = a
						}
					}
				}
				r.Check(foreign == "", "D8-split-unguarded", fmt.Sprintf("the semver split in %s depends on the schema alone", c.funcKey(host)), c.instrPos(call),
					"the call of the split is guarded by a test of "+foreign+": a version the lenient parser accepts but the test refuses stays verbatim (a single number with a prerelease then sorts after its release in deb)")
			})
		}
		r.Floor("D8-split-unguarded", nSites, 1)
	}
	// inside the split
	var parse *ssa.Call
	forEachInstr(split, func(in ssa.Instruction) {
		if call, ok := in.(*ssa.Call); ok && calleeIs(call, semverPath, "", "NewVersion") {
			parse = call
		}
	})
	// what is parsed is the configured version as it stands: a rewritten
	// argument (case-folded, trimmed of a prefix, cut at a separator) makes
	// the parser accept or split something other than what was configured
	if parse != nil && len(parse.Call.Args) > 0 {
		arg := parse.Call.Args[0]
		r.Check(plainFieldValue(pa, arg, split, 0) && pa.Of(arg).has("Info.Version"), "D8-parse-arg", "the semver parser is handed the configured version as written", c.instrPos(parse),
			fmt.Sprintf("the argument is %s (derives from {%s}): a version the parser would refuse is split, or a prerelease/metadata is parsed in another spelling than configured", shorten(valueExpr(c, arg, 0), 80), pa.Of(arg).String()))
	}
	perr, _ := errValueOf(parse)
	var okEdge *ssa.BasicBlock
	if perr != nil {
		for _, ref := range *perr.Referrers() {
			if bo, ok := ref.(*ssa.BinOp); ok && (bo.Op == token.EQL || bo.Op == token.NEQ) {
				for _, r2 := range *bo.Referrers() {
					if ifi, ok := r2.(*ssa.If); ok {
						if bo.Op == token.EQL {
							okEdge = ifi.Block().Succs[0]
						} else {
							okEdge = ifi.Block().Succs[1]
						}
					}
				}
			}
		}
	}
	r.Check(okEdge != nil, "D8-split", "semver parse result is tested", c.instrPos(parse), "the split must branch on the parse error (an unparsable version is used verbatim)")
	nStores := 0
	forEachInstr(split, func(in ssa.Instruction) {
		st, ok := in.(*ssa.Store)
		if !ok {
			return
		}
		p, root := addrPath(st.Addr)
		if root == nil || rootTypeName(root.Type()) != "Info" {
			return
		}
		nStores++
		construct := "semver split: store to " + p
		onSuccess := okEdge != nil && (okEdge == st.Block() || okEdge.Dominates(st.Block()))
		pv := pa.Of(st.Val)
		switch p {
		case "Version":
			okVal := pv.has("call:("+semverPath+".Version).Major") && pv.has("call:("+semverPath+".Version).Minor") && pv.has("call:("+semverPath+".Version).Patch") &&
				!pv.has("call:("+semverPath+".Version).Prerelease") && !pv.has("call:("+semverPath+".Version).Metadata") && !pv.has("call:("+semverPath+".Version).Original") && !pv.has("call:("+semverPath+".Version).String")
			r.Check(onSuccess && okVal, "D8-split", construct, c.instrPos(st),
				fmt.Sprintf("the version is rewritten only on the success edge of the parse (%v) and only from major/minor/patch (%v; derives from {%s})", onSuccess, okVal, pv.String()))
		case "Prerelease", "VersionMetadata":
			acc := map[string]string{"Prerelease": "Prerelease", "VersionMetadata": "Metadata"}[p]
			okVal := pv.has("call:(" + semverPath + ".Version)." + acc)
			guarded := guardedByEmptyTest(st, p)
			r.Check(onSuccess && okVal && guarded, "D8-split", construct, c.instrPos(st),
				fmt.Sprintf("filled from the parsed version's %s() (%v), only on the success edge (%v) and only when the configured value is empty (%v): explicit values take precedence", acc, okVal, onSuccess, guarded))
		default:
			r.Fail("D8-split", construct, c.instrPos(st), "the semver split writes a field other than version, prerelease and version_metadata")
		}
	})
	r.Floor("D8-split", nStores, 3)
	// ... and nowhere else on the defaults path is the version rewritten: a
	// version that does not parse is used as configured
	for _, fn := range sortedFuncs(c, c.Reach(wd)) {
		if fn == split || !c.isModuleFunc(fn) {
			continue
		}
		k := 0
		forEachInstr(fn, func(in ssa.Instruction) {
			st, ok := in.(*ssa.Store)
			if !ok {
				return
			}
			p, root := addrPath(st.Addr)
			if root == nil || rootTypeName(root.Type()) != "Info" || !(p == "Version" || p == "Prerelease" || p == "VersionMetadata") {
				return
			}
			k++
			if guardedByEmptyTest(st, p) {
				r.Pass("D8-split", fmt.Sprintf("defaults: store#%d to %s outside the semver split in %s", k, p, c.funcKey(fn)), c.instrPos(st), "default filling: stored only when the configured value is empty")
				return
			}
			r.Fail("D8-split", fmt.Sprintf("defaults: store#%d to %s outside the semver split in %s", k, p, c.funcKey(fn)), c.instrPos(st),
				"the version components are rewritten outside the success edge of the semver parse: a version that does not parse (or is meant verbatim) would not be packaged as configured")
		})
	}
	checkSplitIndependence(c, r, split, parse, "D8-split")

	// ---- F13 ----
	expectTemplate := map[string]string{"Info.Prerelease": "~", "Info.VersionMetadata": "+", "Info.Release": "-"}
	for _, format := range []string{"deb", "ipk"} {
		pk := c.PackagerByFormat(format)
		if pk == nil {
			continue
		}
		for _, ti := range templateConstants(c, c.Reach(pk.Package)) {
			var rows []tmplRow
			for _, row := range ti.Rows {
				if row.Label == "Version" {
					rows = append(rows, row)
				}
			}
			if len(rows) == 0 {
				continue
			}
			for i, row := range rows {
				pf := canonFields(c, row.Printed)
				if len(pf) != 1 {
					continue
				}
				if want, ok := expectTemplate[pf[0]]; ok {
					r.Check(row.Literal == want, "F13", fmt.Sprintf("%s control Version: literal before %s", format, strings.TrimPrefix(pf[0], "Info.")), c.pos(ti.Fn.Pos()),
						fmt.Sprintf("literal %q, expected %q", row.Literal, want))
				}
				if pf[0] == "Info.Epoch" {
					next := ""
					if i+1 < len(rows) {
						next = rows[i+1].Literal
					}
					r.Check(next == ":", "F13", format+" control Version: epoch is followed by ':'", c.pos(ti.Fn.Pos()), fmt.Sprintf("literal after the epoch %q", next))
				}
			}
		}
		// file name
		seps := separatorsIn(c, pa, sortedFuncs(c, c.Reach(pk.FileName)))
		for comp, want := range map[string]string{"Prerelease": "~", "VersionMetadata": "+", "Release": "-"} {
			got := joinSorted(seps[comp])
			r.Check(got == want, "F13", fmt.Sprintf("%s file name: separator before %s", format, comp), c.pos(pk.FileName.Pos()), fmt.Sprintf("separators {%s}, expected %q", got, want))
		}
	}
	if pk := c.PackagerByFormat("rpm"); pk != nil {
		fns := sortedFuncs(c, c.Reach(pk.Package, pk.FileName))
		seps := separatorsIn(c, pa, fns)
		for comp, want := range map[string]string{"Prerelease": "~", "VersionMetadata": "+"} {
			got := joinSorted(seps[comp])
			r.Check(got == want, "F13", "rpm version: separator before "+comp, c.pos(pk.Package.Pos()), fmt.Sprintf("separators {%s}, expected %q", got, want))
		}
		r.Check(sanitisedIn(c, pa, fns, "Prerelease"), "F13", "rpm version: '-' in the prerelease replaced by '_'", c.pos(pk.Package.Pos()), "rpm versions may not contain '-'")
		okOnly, whyOnly := sanitisedOnly(c, pa, fns, "Prerelease")
		r.Check(okOnly, "F13", "rpm version: only the prerelease is rewritten", c.pos(pk.Package.Pos()), whyOnly+" (version and metadata are used verbatim, e.g. under version_schema none)")
		// epoch goes to the numeric tag (D9 in C06 decides the parse error)
		okEpoch := false
		for _, fn := range fns {
			forEachInstr(fn, func(in ssa.Instruction) {
				st, ok := in.(*ssa.Store)
				if !ok {
					return
				}
				if fa, ok := st.Addr.(*ssa.FieldAddr); ok && isNamed(fa.X.Type(), rpmpackPath, "RPMMetaData") && fieldName(fa.X.Type(), fa.Field) == "Epoch" {
					p := pa.Of(st.Val)
					if p.has("Info.Epoch") && p.hasPrefix("call:strconv.Parse") {
						okEpoch = true
					}
				}
			})
		}
		r.Check(okEpoch, "F13", "rpm epoch is the parsed numeric epoch tag", c.pos(pk.Package.Pos()), "any higher epoch sorts after any lower one only if it is carried in the numeric epoch tag")
	}
	if pk := c.PackagerByFormat("archlinux"); pk != nil {
		fns := sortedFuncs(c, c.Reach(pk.Package, pk.FileName))
		r.Check(sanitisedIn(c, pa, fns, "Prerelease"), "F13", "archlinux version: '-' in the prerelease replaced by '_'", c.pos(pk.Package.Pos()), "pkgver may not contain '-'")
		okOnly, whyOnly := sanitisedOnly(c, pa, fns, "Prerelease")
		r.Check(okOnly, "F13", "archlinux version: only the prerelease is rewritten", c.pos(pk.Package.Pos()), whyOnly)
	}
	var keys []string
	for k := range expectTemplate {
		keys = append(keys, k)
	}
	sort.Strings(keys)
}

// checkSplitIndependence: on the success edge of the parse, the prerelease is
// filled whenever it is not configured — whatever the metadata setting — and
// vice versa (no component of the version string is lost).
func checkSplitIndependence(c *Ctx, r *Report, split *ssa.Function, parse *ssa.Call, rule string) {
	perr, _ := errValueOf(parse)
	if perr == nil {
		return
	}
	for _, tc := range []struct{ empty, set string }{{"Prerelease", "VersionMetadata"}, {"VersionMetadata", "Prerelease"}} {
		ev := newEvaluator(c)
		ev.Bind = map[ssa.Value]AV{perr: avConst{nil}}
		ev.NoKill = true // the fills are stores to the very fields tested just before them
		info := newAObj("info")
		info.Fields[tc.empty] = cStr("")
		info.Fields[tc.set] = cStr("configured")
		ev.Defaults[c.infoPtrKey()] = info
		fr := ev.Explore(split, make([]AV, len(split.Params)))
		ok := fr.MustReach(func(in ssa.Instruction, _ *Frame) bool {
			st, isS := in.(*ssa.Store)
			if !isS {
				return false
			}
			p, root := addrPath(st.Addr)
			return root != nil && p == tc.empty && rootTypeName(root.Type()) == "Info"
		})
		r.Check(ok, rule, fmt.Sprintf("semver split: %s taken from the version string when only %s is configured", tc.empty, tc.set), c.pos(split.Pos()),
			"with the parse successful, an unconfigured component must be filled from the version string on every path, independently of the other component; otherwise part of the version is silently lost")
	}
}

// checkParseOrder (D8-order): the parser expands environment references
// before it applies the defaults; the semver split runs inside the defaults,
// so in the other order a version given as ${TAG} is split as the literal
// reference, and an explicit but still unexpanded prerelease wins over the
// one embedded in the version.
func checkParseOrder(c *Ctx, r *Report, wd *ssa.Function) {
	fam := map[*ssa.Function]bool{}
	for _, f := range expansionFamily(c) {
		fam[f] = true
	}
	n := 0
	for _, fn := range c.ModFuncs {
		if c.funcPkgPath(fn) != modPath {
			continue
		}
		var exp, defs []*ssa.Call
		forEachInstr(fn, func(in ssa.Instruction) {
			call, ok := in.(*ssa.Call)
			if !ok {
				return
			}
			sc := call.Call.StaticCallee()
			switch {
			case sc == wd:
				defs = append(defs, call)
			case sc != nil && fam[sc] && !fam[fn]:
				exp = append(exp, call)
			}
		})
		if len(exp) == 0 {
			continue
		}
		n++
		ok := true
		for _, d := range defs {
			dominated := false
			for _, e := range exp {
				if instrDominates(e, d) {
					dominated = true
				}
			}
			if !dominated {
				ok = false
			}
		}
		r.Check(ok, "D8-order", "environment expansion precedes the defaults (and the semver split in them) in "+c.funcKey(fn), c.pos(fn.Pos()),
			"every WithDefaults call in the function that expands the configuration must come after the expansion: version, prerelease and metadata are split from the expanded values")
	}
	r.Floor("D8-order", n, 1)
}

// checkParseWidth (F13-width): a component parsed as an integer is parsed
// with a bit size that the type it is finally stored in can hold; a wider
// parse followed by a narrowing conversion wraps silently (epoch 2^32+1
// becomes 1 and sorts before epoch 2) where the parse would have failed.
func checkParseWidth(c *Ctx, r *Report, pa *provAnalysis) {
	n := 0
	sizes := types.SizesFor("gc", "amd64")
	for _, pk := range c.Packagers {
		if pk.Format == "" {
			continue
		}
		for _, fn := range sortedFuncs(c, c.Reach(pk.Package, pk.FileName)) {
			if c.funcPkgPath(fn) != pk.PkgPath {
				continue
			}
			perFn := 0
			forEachInstr(fn, func(in ssa.Instruction) {
				call, ok := in.(*ssa.Call)
				if !ok {
					return
				}
				o := calleeObj(call)
				if o == nil || o.Pkg() == nil || o.Pkg().Path() != "strconv" || !(o.Name() == "ParseUint" || o.Name() == "ParseInt") || len(call.Call.Args) != 3 {
					return
				}
				p := pa.Of(call.Call.Args[0])
				if !p.has("Info.Epoch") && !p.has("Info.Release") {
					return
				}
				k, ok := call.Call.Args[2].(*ssa.Const)
				if !ok || k.Value == nil {
					return
				}
				bits := k.Int64()
				if bits == 0 {
					bits = 64
				}
				n++
				perFn++
				var narrow *ssa.Convert
				seen := map[ssa.Value]bool{}
				var walk func(v ssa.Value, d int)
				walk = func(v ssa.Value, d int) {
					if v == nil || seen[v] || d > 8 || v.Referrers() == nil {
						return
					}
					seen[v] = true
					for _, ref := range *v.Referrers() {
						switch x := ref.(type) {
						case *ssa.Extract:
							if x.Index == 0 {
								walk(x, d+1)
							}
						case *ssa.Phi:
							walk(x, d+1)
						case *ssa.Store:
							if al, ok := x.Addr.(*ssa.Alloc); ok && x.Val == v {
								for _, r2 := range *al.Referrers() {
									if ld, ok := r2.(*ssa.UnOp); ok && ld.Op == token.MUL {
										walk(ld, d+1)
									}
								}
							}
						case *ssa.Convert:
							if b, ok := x.Type().Underlying().(*types.Basic); ok && b.Info()&types.IsInteger != 0 {
								if sizes.Sizeof(b)*8 < bits && narrow == nil {
									narrow = x
								}
								walk(x, d+1)
							}
						}
					}
				}
				walk(call, 0)
				construct := fmt.Sprintf("%s: width of integer parse#%d in %s", pk.Format, perFn, c.funcKey(fn))
				if narrow != nil {
					r.Fail("F13-width", construct, c.instrPos(call), fmt.Sprintf("parsed with %d bits and then converted to %s at %s: a value beyond that type wraps silently instead of being rejected, so a higher epoch can sort before a lower one", bits, narrow.Type(), c.instrPos(narrow)))
				} else {
					r.Pass("F13-width", construct, c.instrPos(call), fmt.Sprintf("parsed with %d bits; no narrower conversion follows", bits))
				}
			})
		}
	}
	r.Floor("F13-width", n, 2)
}

// checkVersionLines: (F13-plain) in the deb and ipk control templates the
// Version line prints the components as they are - plain field references,
// no function in the printing actions or in the tests around them - so the
// literals checked by F13 are all that is added; (lossless, imported from
// C02-F3) the line states exactly epoch, version, prerelease, metadata and
// release.
func checkVersionLines(c *Ctx, r *Report) {
	n := 0
	for _, format := range []string{"deb", "ipk"} {
		pk := c.PackagerByFormat(format)
		if pk == nil {
			continue
		}
		for _, ti := range templateConstants(c, c.Reach(pk.Package)) {
			var funcs []string
			var helperFns []*ssa.Function
			rows := 0
			for _, row := range ti.Rows {
				if row.Label != "Version" {
					continue
				}
				rows++
				if _, hf, whole := infoFieldsOfRowFuncs(c, ti, row); whole {
					// the whole line is composed by a Go helper handed the
					// Info: its separators are decided below like the file
					// name's, its reads of the version by D8-verbatim
					helperFns = append(helperFns, hf...)
					funcs = append(funcs, row.GFuncs...)
					continue
				}
				funcs = append(funcs, row.Funcs...)
				funcs = append(funcs, row.GFuncs...)
			}
			if rows == 0 {
				continue
			}
			n++
			funcs = uniq(funcs)
			r.Check(len(funcs) == 0, "F13-plain", format+": Version line prints the components as configured", c.pos(ti.Fn.Pos()),
				fmt.Sprintf("functions applied on the Version line: %v; a component rewritten on the way (trimmed, re-formatted) no longer orders and reads as configured", funcs))
			if len(helperFns) > 0 {
				reach := map[*ssa.Function]bool{}
				for _, hf := range helperFns {
					for g := range c.Reach(hf) {
						if c.isModuleFunc(g) {
							reach[g] = true
						}
					}
				}
				seps := separatorsIn(c, newProv(c), sortedFuncs(c, reach))
				for comp, want := range map[string]string{"Prerelease": "~", "VersionMetadata": "+", "Release": "-"} {
					got := joinSorted(seps[comp])
					r.Check(got == want, "F13", fmt.Sprintf("%s control Version (helper): separator before %s", format, comp), c.pos(helperFns[0].Pos()), fmt.Sprintf("separators {%s}, expected %q", got, want))
				}
			}
		}
	}
	r.Floor("F13-plain", n, 2)
	r.Floor("lossless-F6-parsed", importRules(c, r, checkC02, "lossless-", []string{"F6-parsed"}, nil), 3)
	// the rpm version keeps every configured component on every path (rule of
	// C02; the archlinux rows carry that property's known finding and stay there)
	r.Floor("lossless-F6", importRules(c, r, checkC02, "lossless-", []string{"F6"}, func(o Obligation) bool {
		return strings.HasPrefix(o.Construct, "rpm") || strings.HasPrefix(o.Construct, "deb") || strings.HasPrefix(o.Construct, "ipk")
	}), 2)
	checkVersionVerbatim(c, r)
	checkPackagerKeepsComponents(c, r)
	r.Floor("lossless-F3", importRules(c, r, checkC02, "lossless-", []string{"F3"}, func(o Obligation) bool {
		return strings.HasSuffix(o.Construct, ": Version") || strings.Contains(o.Construct, "pkgver")
	}), 2)
}

// checkVersionVerbatim (D8-verbatim): "with schema 'none', or when the version
// does not parse, the string is used verbatim": in the packagers the version
// field itself is only read, concatenated and formatted - it is never handed
// to a string-rewriting library function (a trim of a leading "v", a
// replacement, a case change). The semver split is the only place that may
// take the string apart, and it does so only on a successful parse (D8).
func checkVersionVerbatim(c *Ctx, r *Report) {
	n := 0
	for _, pk := range c.Packagers {
		if pk.Format == "" {
			continue
		}
		loads := 0
		var bad []string
		var at ssa.Instruction
		for _, fn := range sortedFuncs(c, c.Reach(pk.Package, pk.FileName)) {
			if c.funcPkgPath(fn) != pk.PkgPath {
				continue
			}
			forEachInstr(fn, func(in ssa.Instruction) {
				ld, ok := in.(*ssa.UnOp)
				if !ok || ld.Op != token.MUL {
					return
				}
				pth, root := addrPath(ld.X)
				if root == nil || !isPtrToNamed(root.Type(), modPath, "Info") {
					return
				}
				switch pth {
				case "Version":
				case "Prerelease", "VersionMetadata":
					// rpm and archlinux sanitise these (F13); the others state
					// them as the split left them
					if pk.Format == "rpm" || pk.Format == "archlinux" {
						return
					}
				default:
					return
				}
				loads++
				seen := map[ssa.Value]bool{}
				var walk func(v ssa.Value, d int)
				walk = func(v ssa.Value, d int) {
					if d > 4 || seen[v] || v.Referrers() == nil {
						return
					}
					seen[v] = true
					for _, ref := range *v.Referrers() {
						switch x := ref.(type) {
						case *ssa.Phi:
							walk(x, d+1)
						case *ssa.Convert:
							walk(x, d+1)
						case *ssa.Call:
							o := calleeObj(x)
							if o == nil || o.Pkg() == nil {
								continue
							}
							switch o.Pkg().Path() {
							case "strings", "bytes", "regexp", "unicode", "path", "path/filepath":
							default:
								continue
							}
							if sig, _ := o.Type().(*types.Signature); sig != nil && sig.Recv() != nil && o.Name() == "Replace" {
								// (*strings.Replacer).Replace
								bad = append(bad, o.FullName())
								at = x
								continue
							}
							switch o.Name() {
							case "HasPrefix", "HasSuffix", "Contains", "ContainsAny", "ContainsRune", "Index", "EqualFold", "Count", "NewReader", "WriteString", "Compare":
								continue
							}
							bad = append(bad, qualifiedName(o))
							at = x
						}
					}
				}
				walk(ld, 0)
			})
		}
		if loads == 0 {
			continue
		}
		n++
		pos := c.pos(pk.Package.Pos())
		if at != nil {
			pos = c.instrPos(at)
		}
		r.Check(len(bad) == 0, "D8-verbatim", pk.Format+": the version field is used as it stands", pos,
			fmt.Sprintf("%d read(s) of Info.Version; handed to %v: a version that reaches the packager unsplit (schema none, or not a semantic version) would be written differently from what was configured", loads, uniq(bad)))
	}
	r.Floor("D8-verbatim", n, 4)
}

// checkPackagerKeepsComponents (D8-packager-store): the packagers take the
// version components as the split left them. A packager may fill a default
// into an empty component (rpm's release "1"); it never moves or rewrites one
// (a numeric prerelease re-read as the Debian revision sorts after the release
// it precedes).
func checkPackagerKeepsComponents(c *Ctx, r *Report) {
	comps := map[string]bool{"Version": true, "Prerelease": true, "VersionMetadata": true, "Release": true, "Epoch": true}
	n := 0
	for _, pk := range c.Packagers {
		if pk.Format == "" {
			continue
		}
		stores := 0
		var bad []string
		var at ssa.Instruction
		for _, fn := range c.ModFuncs {
			if c.funcPkgPath(fn) != pk.PkgPath {
				continue
			}
			forEachInstr(fn, func(in ssa.Instruction) {
				st, ok := in.(*ssa.Store)
				if !ok {
					return
				}
				pth, root := addrPath(st.Addr)
				if root == nil || !comps[pth] || !isPtrToNamed(root.Type(), modPath, "Info") {
					return
				}
				stores++
				okStore := false
				if _, isConst := st.Val.(*ssa.Const); isConst && guardedByEmptyTest(st, pth) {
					okStore = true
				}
				if call, isCall := st.Val.(*ssa.Call); isCall && len(call.Call.Args) == 2 {
					if sc := call.Call.StaticCallee(); sc != nil && isDefaultingHelper(sc) {
						if ld, isLd := call.Call.Args[0].(*ssa.UnOp); isLd {
							if p2, _ := addrPath(ld.X); p2 == pth {
								if _, isK := call.Call.Args[1].(*ssa.Const); isK {
									okStore = true
								}
							}
						}
					}
				}
				if !okStore {
					bad = append(bad, fmt.Sprintf("Info.%s in %s", pth, c.funcKey(fn)))
					at = st
				}
			})
		}
		n++
		pos := "-"
		if at != nil {
			pos = c.instrPos(at)
		}
		r.Check(len(bad) == 0, "D8-packager-store", pk.Format+": version components are only default-filled by the packager", pos,
			fmt.Sprintf("%d store(s) to version components; not a constant default behind an emptiness test of the same component: %v", stores, uniq(bad)))
	}
	r.Floor("D8-packager-store", n, 5)
}
