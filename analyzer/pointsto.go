package main

import (
	"fmt"
	"go/token"
	"go/types"
	"sort"

	"golang.org/x/tools/go/ssa"
)

// Restricted, field-sensitive, inclusion-based points-to analysis over package
// files (DESIGN A6). It tracks only what W1 needs: *Content objects, the
// *ContentFileInfo each may hold, and the containers ([]*Content,
// map[string]*Content) they travel in. Context-insensitive.

type ptObj struct {
	id    int
	kind  string // "content", "fileinfo", "container"
	input bool   // caller-owned (IN_C / IN_F / IN_S)
	site  ssa.Value
	label string
	// field cells
	fileInfo map[*ptObj]bool // content objects: what .FileInfo may point to
	elems    map[*ptObj]bool // containers: content objects inside
}

type ptAnalysis struct {
	c       *Ctx
	fns     []*ssa.Function
	objs    []*ptObj
	site    map[ssa.Value]*ptObj
	pts     map[ssa.Value]map[*ptObj]bool // pointer-/container-typed SSA values and cells
	cell    map[ssa.Value]map[*ptObj]bool // local cells (Alloc of pointer/container type) and by-ref free vars
	structv map[ssa.Value]map[*ptObj]bool // struct values of type Content: the FileInfo objects they carry
	inC     *ptObj
	inF     *ptObj
	inS     *ptObj
	changed bool
}

func isContentPtr(t types.Type) bool  { return isPtrToNamed(t, filesPath, "Content") }
func isFileInfoPtr(t types.Type) bool { return isPtrToNamed(t, filesPath, "ContentFileInfo") }
func isContentVal(t types.Type) bool {
	_, isPtr := t.Underlying().(*types.Pointer)
	return !isPtr && isNamed(t, filesPath, "Content")
}
func isFileInfoVal(t types.Type) bool {
	_, isPtr := t.Underlying().(*types.Pointer)
	return !isPtr && isNamed(t, filesPath, "ContentFileInfo")
}
func isContentContainer(t types.Type) bool {
	switch u := t.Underlying().(type) {
	case *types.Slice:
		return isContentPtr(u.Elem())
	case *types.Map:
		return isContentPtr(u.Elem())
	case *types.Array:
		return isContentPtr(u.Elem())
	}
	return false
}
func tracked(t types.Type) bool {
	return isContentPtr(t) || isFileInfoPtr(t) || isContentContainer(t)
}

func (pa *ptAnalysis) newObj(kind string, input bool, site ssa.Value, label string) *ptObj {
	o := &ptObj{id: len(pa.objs), kind: kind, input: input, site: site, label: label, fileInfo: map[*ptObj]bool{}, elems: map[*ptObj]bool{}}
	pa.objs = append(pa.objs, o)
	return o
}

func (pa *ptAnalysis) add(m map[ssa.Value]map[*ptObj]bool, v ssa.Value, o *ptObj) {
	s := m[v]
	if s == nil {
		s = map[*ptObj]bool{}
		m[v] = s
	}
	if !s[o] {
		s[o] = true
		pa.changed = true
	}
}

func (pa *ptAnalysis) addAll(m map[ssa.Value]map[*ptObj]bool, v ssa.Value, src map[*ptObj]bool) {
	for o := range src {
		pa.add(m, v, o)
	}
}

func (pa *ptAnalysis) addField(dst map[*ptObj]bool, o *ptObj) {
	if !dst[o] {
		dst[o] = true
		pa.changed = true
	}
}

// runPointsTo analyses all functions of package files with entry as the
// function whose parameters are caller-owned.
func runPointsTo(c *Ctx, entry *ssa.Function) *ptAnalysis {
	pa := &ptAnalysis{c: c, site: map[ssa.Value]*ptObj{}, pts: map[ssa.Value]map[*ptObj]bool{}, cell: map[ssa.Value]map[*ptObj]bool{}, structv: map[ssa.Value]map[*ptObj]bool{}}
	for _, fn := range c.ModFuncs {
		if c.funcPkgPath(fn) == filesPath {
			pa.fns = append(pa.fns, fn)
		}
	}
	pa.inC = pa.newObj("content", true, nil, "IN_C (an entry of the caller's contents)")
	pa.inF = pa.newObj("fileinfo", true, nil, "IN_F (a file_info of the caller's contents)")
	pa.inS = pa.newObj("container", true, nil, "IN_S (the caller's contents slice)")
	pa.inS.elems[pa.inC] = true
	pa.inC.fileInfo[pa.inF] = true

	// inputs: parameters of exported functions/methods of package files
	for _, fn := range pa.fns {
		o, _ := fn.Object().(*types.Func)
		if fn.Parent() != nil || o == nil || !o.Exported() {
			continue
		}
		for _, p := range fn.Params {
			switch {
			case isContentPtr(p.Type()):
				pa.add(pa.pts, p, pa.inC)
			case isFileInfoPtr(p.Type()):
				pa.add(pa.pts, p, pa.inF)
			case isContentContainer(p.Type()):
				pa.add(pa.pts, p, pa.inS)
			}
		}
	}
	for iter := 0; iter < 100; iter++ {
		pa.changed = false
		for _, fn := range pa.fns {
			pa.transfer(fn)
		}
		if !pa.changed {
			break
		}
	}
	return pa
}

func (pa *ptAnalysis) siteObj(v ssa.Value, kind, label string) *ptObj {
	if o, ok := pa.site[v]; ok {
		return o
	}
	o := pa.newObj(kind, false, v, label)
	pa.site[v] = o
	return o
}

// valPts returns the points-to set of a tracked value.
func (pa *ptAnalysis) valPts(v ssa.Value) map[*ptObj]bool { return pa.pts[v] }

func (pa *ptAnalysis) transfer(fn *ssa.Function) {
	forEachInstr(fn, func(in ssa.Instruction) {
		switch x := in.(type) {
		case *ssa.Alloc:
			et := derefType(x.Type())
			switch {
			case isContentVal(et):
				pa.add(pa.pts, x, pa.siteObj(x, "content", "Content allocated at "+pa.c.instrPos(x)))
			case isFileInfoVal(et):
				pa.add(pa.pts, x, pa.siteObj(x, "fileinfo", "ContentFileInfo allocated at "+pa.c.instrPos(x)))
			case isContentContainer(et):
				// array backing a slice literal / variadic
				pa.add(pa.pts, x, pa.siteObj(x, "container", "container allocated at "+pa.c.instrPos(x)))
			}
			// a local cell holding a tracked pointer: handled through cell[]
		case *ssa.MakeMap:
			if isContentContainer(x.Type()) {
				pa.add(pa.pts, x, pa.siteObj(x, "container", "map made at "+pa.c.instrPos(x)))
			}
		case *ssa.MakeSlice:
			if isContentContainer(x.Type()) {
				pa.add(pa.pts, x, pa.siteObj(x, "container", "slice made at "+pa.c.instrPos(x)))
			}
		case *ssa.Phi:
			if tracked(x.Type()) {
				for _, e := range x.Edges {
					pa.addAll(pa.pts, x, pa.pts[e])
				}
			}
		case *ssa.ChangeType:
			if tracked(x.Type()) {
				pa.addAll(pa.pts, x, pa.pts[x.X])
			}
		case *ssa.Slice:
			if isContentContainer(x.Type()) {
				pa.addAll(pa.pts, x, pa.pts[x.X])
			}
		case *ssa.UnOp:
			if x.Op != token.MUL {
				return
			}
			pa.load(x)
		case *ssa.Store:
			pa.store(x)
		case *ssa.MapUpdate:
			for m := range pa.pts[x.Map] {
				for o := range pa.pts[x.Value] {
					pa.addField(m.elems, o)
				}
			}
		case *ssa.Lookup:
			if isContentPtr(x.Type()) {
				for m := range pa.pts[x.X] {
					pa.addAll(pa.pts, x, m.elems)
				}
			} else if x.CommaOk {
				// tuple: element extracted below
			}
		case *ssa.Extract:
			switch t := x.Tuple.(type) {
			case *ssa.Lookup:
				if x.Index == 0 && isContentPtr(x.Type()) {
					for m := range pa.pts[t.X] {
						pa.addAll(pa.pts, x, m.elems)
					}
				}
			case *ssa.Next:
				if isContentPtr(x.Type()) {
					if rg, ok := t.Iter.(*ssa.Range); ok {
						for m := range pa.pts[rg.X] {
							pa.addAll(pa.pts, x, m.elems)
						}
					}
				}
			case *ssa.Call:
				pa.bindResult(t, x, x.Index)
			}
		case *ssa.Call:
			pa.call(x)
		case *ssa.MakeClosure:
			f := x.Fn.(*ssa.Function)
			for i, b := range x.Bindings {
				if i >= len(f.FreeVars) {
					continue
				}
				fv := f.FreeVars[i]
				if tracked(fv.Type()) {
					pa.addAll(pa.pts, fv, pa.pts[b])
				}
				// by-reference capture of a cell
				if al, ok := b.(*ssa.Alloc); ok && tracked(derefType(al.Type())) {
					pa.addAll(pa.cell, fv, pa.cell[al])
					pa.addAll(pa.cell, al, pa.cell[fv])
				}
			}
		}
	})
}

func (pa *ptAnalysis) load(x *ssa.UnOp) {
	switch a := x.X.(type) {
	case *ssa.FieldAddr:
		if fieldName(a.X.Type(), a.Field) == "FileInfo" && isContentPtr(a.X.Type()) && isFileInfoPtr(x.Type()) {
			for o := range pa.pts[a.X] {
				pa.addAll(pa.pts, x, o.fileInfo)
			}
		}
	case *ssa.IndexAddr:
		if isContentPtr(x.Type()) {
			for m := range pa.pts[a.X] {
				pa.addAll(pa.pts, x, m.elems)
			}
		}
	case *ssa.Alloc:
		if tracked(x.Type()) {
			pa.addAll(pa.pts, x, pa.cell[a])
		}
	case *ssa.FreeVar:
		if tracked(x.Type()) {
			pa.addAll(pa.pts, x, pa.cell[a])
		}
	}
	// struct value loaded through a *Content: carries the pointee's FileInfo
	if isContentVal(x.Type()) {
		for o := range pa.pts[x.X] {
			pa.addAll(pa.structv, x, o.fileInfo)
		}
	}
}

func (pa *ptAnalysis) store(x *ssa.Store) {
	switch a := x.Addr.(type) {
	case *ssa.FieldAddr:
		if fieldName(a.X.Type(), a.Field) == "FileInfo" && isContentPtr(a.X.Type()) {
			for o := range pa.pts[a.X] {
				for f := range pa.pts[x.Val] {
					pa.addField(o.fileInfo, f)
				}
			}
		}
	case *ssa.IndexAddr:
		if isContentPtr(x.Val.Type()) {
			for m := range pa.pts[a.X] {
				for o := range pa.pts[x.Val] {
					pa.addField(m.elems, o)
				}
			}
		}
	case *ssa.Alloc:
		if tracked(x.Val.Type()) {
			pa.addAll(pa.cell, a, pa.pts[x.Val])
		}
		// whole-struct copy into a local Content
		if isContentVal(x.Val.Type()) {
			for o := range pa.pts[a] {
				for f := range pa.structv[x.Val] {
					pa.addField(o.fileInfo, f)
				}
			}
		}
	case *ssa.FreeVar:
		if tracked(x.Val.Type()) {
			pa.addAll(pa.cell, a, pa.pts[x.Val])
		}
	}
}

func (pa *ptAnalysis) call(x *ssa.Call) {
	cc := x.Common()
	if b, ok := cc.Value.(*ssa.Builtin); ok {
		if b.Name() == "append" && isContentContainer(x.Type()) {
			// result aliases the first operand's containers; elements of the
			// second operand are added to them (in-place growth is possible)
			pa.addAll(pa.pts, x, pa.pts[cc.Args[0]])
			if len(pa.pts[x]) == 0 {
				pa.add(pa.pts, x, pa.siteObj(x, "container", "slice grown at "+pa.c.instrPos(x)))
			}
			if len(cc.Args) > 1 {
				for dst := range pa.pts[x] {
					for src := range pa.pts[cc.Args[1]] {
						for o := range src.elems {
							pa.addField(dst.elems, o)
						}
					}
				}
			}
		}
		return
	}
	callee := cc.StaticCallee()
	if callee == nil {
		if mc, ok := cc.Value.(*ssa.MakeClosure); ok {
			callee, _ = mc.Fn.(*ssa.Function)
		}
	}
	if callee == nil || callee.Blocks == nil || pa.c.funcPkgPath(callee) != filesPath {
		// external call: sort.Sort(res) etc. do not create aliases of interest;
		// a tracked result of an unknown callee is treated as input-like
		if tracked(x.Type()) && callee == nil {
			return
		}
		return
	}
	for i, a := range cc.Args {
		if i < len(callee.Params) && tracked(a.Type()) {
			pa.addAll(pa.pts, callee.Params[i], pa.pts[a])
		}
	}
	if _, isTuple := x.Type().(*types.Tuple); !isTuple {
		pa.bindResult(x, x, 0)
	}
}

func (pa *ptAnalysis) bindResult(call *ssa.Call, dst ssa.Value, idx int) {
	callee := call.Common().StaticCallee()
	if callee == nil || callee.Blocks == nil || pa.c.funcPkgPath(callee) != filesPath || !tracked(dst.Type()) {
		return
	}
	for _, b := range callee.Blocks {
		if ret, ok := b.Instrs[len(b.Instrs)-1].(*ssa.Return); ok {
			res := retResults(ret)
			if idx < len(res) {
				pa.addAll(pa.pts, dst, pa.pts[res[idx]])
				// spilled result cell
				if ld, ok := ret.Results[idx].(*ssa.UnOp); ok {
					pa.addAll(pa.pts, dst, pa.pts[ld])
				}
			}
		}
	}
}

func objLabels(m map[*ptObj]bool) string {
	var s []string
	for o := range m {
		s = append(s, o.label)
	}
	sort.Strings(s)
	return fmt.Sprint(s)
}
