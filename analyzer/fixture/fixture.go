// Package fixture is the positive example for rules whose expected instance
// count on nfpm is zero (DESIGN §4.2): every run analyses it with the same
// scanners and requires each forbidden construct below to be found, so a
// scanner that has silently stopped matching fails the check.
package fixture

import (
	"bufio"
	"compress/gzip"
	"fmt"
	"io"
	"math/rand"
	"os"
	"runtime"
	"strings"
	"sync"
	"sync/atomic"
	"time"
)

var cache = map[string]int{}

var memo sync.Map

type counter struct{ n uint64 }

// Bad contains one instance of each forbidden construct.
func Bad(w io.Writer, c *counter) {
	_ = time.Now()          // clock outside the gate
	_ = rand.Int()          // math/rand
	_ = os.Getpid()         // process identity
	_ = runtime.NumCPU()    // CPU count
	_ = os.Getenv("HOME")   // environment read
	_, _ = os.Hostname()    // host name
	go func() {}()          // goroutine
	zw := gzip.NewWriter(w) // compressor header field set from a non-constant
	zw.Header.ModTime = time.Now()
	memo.Store("k", 1)                             // write to a package-level sync.Map
	cache["k"] = 1                                 // unlocked write to a package-level map
	_ = os.WriteFile("/tmp/x", nil, 0o600)         // file-system write
	atomic.AddUint64(&c.n, 1)                      // atomic access ...
	c.n++                                          // ... mixed with a plain one
	if strings.HasPrefix(os.Args[0], os.Args[1]) { // path containment by bare string prefix
		return
	}
	for k := range cache { // order-dependent map iteration
		_, _ = io.WriteString(w, k)
	}
}

// CloseOverwrites: a deferred closure that replaces the function's error
// result unconditionally (E1'-defer).
func CloseOverwrites(path string) (err error) {
	f, err := os.Open(path)
	if err != nil {
		return err
	}
	defer func() {
		err = f.Close()
	}()
	_, err = io.Copy(io.Discard, f)
	return err
}

// Lost: an error value that is built and then read by nobody (E1-built).
func Lost(w io.Writer) error {
	_, err := w.Write(nil)
	if err != nil {
		err = fmt.Errorf("wrapped: %w", err)
	}
	return nil
}

// Lines: a line scanner whose error is never consulted (E8-scanner-err).
func Lines(r io.Reader) int {
	s := bufio.NewScanner(r)
	n := 0
	for s.Scan() {
		n++
	}
	return n
}
