package main

// Oracle tables (DESIGN appendix C). Everything here is transcribed from the
// property statements and the package managers' conventions — nothing is
// copied from nfpm's source. The rules extract the corresponding table from
// the code and compare cell by cell.

// C.1 entry types
var (
	typeFile         = "file"
	typeDir          = "dir"
	typeImplicitDir  = "implicit dir"
	typeTree         = "tree"
	typeSymlink      = "symlink"
	typeConfig       = "config"
	typeNoReplace    = "config|noreplace"
	typeMissingOK    = "config|missingok"
	typeGhost        = "ghost"
	typeDoc          = "doc"
	typeLicence      = "licence"
	typeLicense      = "license"
	typeReadme       = "readme"
	typeDebChangelog = "debian changelog"
	typeBogus        = "no-such-type"
)

// every type string a content entry can carry, plus the empty one and one
// representative of "anything else"
var allTypes = []string{
	"", typeFile, typeDir, typeImplicitDir, typeTree, typeSymlink, typeConfig,
	typeNoReplace, typeMissingOK, typeGhost, typeDoc, typeLicence, typeLicense,
	typeReadme, typeDebChangelog, typeBogus,
}

// the five formats the statements name, plus one representative of any other
var specFormats = []string{"deb", "rpm", "apk", "ipk", "archlinux"}

var rpmOnlyTypes = map[string]bool{typeGhost: true, typeDoc: true, typeLicence: true, typeLicense: true, typeReadme: true}

// relevant(P, tag, T): C.1
func specRelevant(packager, tag, typ string) bool {
	if packager == "" {
		return true
	}
	if tag != "" && tag != packager {
		return false
	}
	if rpmOnlyTypes[typ] && packager != "rpm" {
		return false
	}
	if typ == typeDebChangelog && packager != "deb" {
		return false
	}
	return true
}

// plan dispatch: C.1
func specPlanDispatch(typ string) string {
	switch typ {
	case typeDir:
		return "DIR"
	case typeImplicitDir:
		return "IGNORE"
	case typeGhost, typeSymlink, typeDoc, typeLicence, typeLicense, typeReadme, typeDebChangelog:
		return "SINGLE"
	case typeTree:
		return "TREE"
	case typeConfig, typeNoReplace, typeMissingOK, typeFile, "":
		return "GLOB"
	}
	return "ERROR"
}

// types a prepared plan can contain (C.1, last paragraph)
var preparedTypes = []string{
	typeFile, typeDir, typeImplicitDir, typeSymlink, typeConfig, typeNoReplace,
	typeMissingOK, typeGhost, typeDoc, typeLicence, typeLicense, typeReadme, typeDebChangelog,
}

// C.2 payload dispatch: prepared type x packager -> outcome
// "-" = cannot reach that packager by C.1.
func specPayload(format, typ string) string {
	if !specRelevant(format, "", typ) {
		return "-"
	}
	switch typ {
	case typeDir:
		return "DIR"
	case typeImplicitDir:
		if format == "rpm" {
			return "SKIP"
		}
		return "DIR"
	case typeSymlink:
		return "LINK"
	case typeFile, typeConfig, typeNoReplace, typeMissingOK:
		return "FILE"
	case typeGhost:
		return "HEADER-ONLY"
	case typeDoc, typeLicence, typeLicense, typeReadme:
		return "FILE"
	case typeDebChangelog:
		return "GENERATED"
	}
	return "-"
}

// C.3 config registration
var configTypes = map[string]bool{typeConfig: true, typeNoReplace: true, typeMissingOK: true}

// RPMFILE_* numbers from rpm's rpmfiles.h
const (
	rpmfileNone      = 0
	rpmfileConfig    = 1
	rpmfileDoc       = 2
	rpmfileMissingOK = 8
	rpmfileNoReplace = 16
	rpmfileGhost     = 64
	rpmfileLicense   = 128
	rpmfileReadme    = 256
)

func specRPMFlag(typ string) int64 {
	switch typ {
	case typeConfig:
		return rpmfileConfig
	case typeNoReplace:
		return rpmfileConfig | rpmfileNoReplace
	case typeMissingOK:
		return rpmfileConfig | rpmfileMissingOK
	case typeGhost:
		return rpmfileGhost
	case typeDoc:
		return rpmfileDoc
	case typeLicence, typeLicense:
		return rpmfileLicense
	case typeReadme:
		return rpmfileReadme
	}
	return rpmfileNone
}

// C.4 script slots: config field path (SSA field names) -> per-format slot
type scriptSlot struct {
	Field string            // path below *nfpm.Info
	Slots map[string]string // format -> slot name
}

var specScripts = []scriptSlot{
	{"Overridables.Scripts.PreInstall", map[string]string{"deb": "preinst", "ipk": "preinst", "rpm": "PREIN", "apk": ".pre-install", "archlinux": "pre_install"}},
	{"Overridables.Scripts.PostInstall", map[string]string{"deb": "postinst", "ipk": "postinst", "rpm": "POSTIN", "apk": ".post-install", "archlinux": "post_install"}},
	{"Overridables.Scripts.PreRemove", map[string]string{"deb": "prerm", "ipk": "prerm", "rpm": "PREUN", "apk": ".pre-deinstall", "archlinux": "pre_remove"}},
	{"Overridables.Scripts.PostRemove", map[string]string{"deb": "postrm", "ipk": "postrm", "rpm": "POSTUN", "apk": ".post-deinstall", "archlinux": "post_remove"}},
	{"Overridables.RPM.Scripts.PreTrans", map[string]string{"rpm": "PRETRANS"}},
	{"Overridables.RPM.Scripts.PostTrans", map[string]string{"rpm": "POSTTRANS"}},
	{"Overridables.RPM.Scripts.Verify", map[string]string{"rpm": "VERIFYSCRIPT"}},
	{"Overridables.APK.Scripts.PreUpgrade", map[string]string{"apk": ".pre-upgrade"}},
	{"Overridables.APK.Scripts.PostUpgrade", map[string]string{"apk": ".post-upgrade"}},
	{"Overridables.ArchLinux.Scripts.PreUpgrade", map[string]string{"archlinux": "pre_upgrade"}},
	{"Overridables.ArchLinux.Scripts.PostUpgrade", map[string]string{"archlinux": "post_upgrade"}},
	{"Overridables.Deb.Scripts.Rules", map[string]string{"deb": "rules"}},
	{"Overridables.Deb.Scripts.Templates", map[string]string{"deb": "templates"}},
	{"Overridables.Deb.Scripts.Config", map[string]string{"deb": "config"}},
}

// rpm scriptlet tag numbers (rpmtag.h) by slot
var rpmScriptTags = map[string]int{
	"PREIN": 1023, "POSTIN": 1024, "PREUN": 1025, "POSTUN": 1026,
	"PRETRANS": 1151, "POSTTRANS": 1152, "VERIFYSCRIPT": 1079,
}

// rpmpack method that fills each rpm slot (public API of the dependency)
var rpmScriptMethods = map[string]string{
	"AddPrein": "PREIN", "AddPostin": "POSTIN", "AddPreun": "PREUN", "AddPostun": "POSTUN",
	"AddPretrans": "PRETRANS", "AddPosttrans": "POSTTRANS", "AddVerifyScript": "VERIFYSCRIPT",
}
