package main

import (
	"fmt"
	"go/types"
	"strings"

	"golang.org/x/tools/go/ssa"
)

// Sink-root analysis (DESIGN A4): can a write to this writer value fail for
// reasons outside the program (external sink), or is it rooted in an in-memory
// buffer / hash whose Write never returns an error?

type sinkKind int

const (
	sinkInfallible sinkKind = iota
	sinkFallible
)

func (k sinkKind) String() string {
	if k == sinkInfallible {
		return "infallible(in-memory)"
	}
	return "fallible(external)"
}

type sinkAnalysis struct {
	c      *Ctx
	busy   map[ssa.Value]bool
	memo   map[ssa.Value]sinkKind
	scope  []*ssa.Function // functions whose call sites / field stores are considered
	fields map[string][]ssa.Value
}

func newSinkAnalysis(c *Ctx) *sinkAnalysis {
	sa := &sinkAnalysis{c: c, busy: map[ssa.Value]bool{}, memo: map[ssa.Value]sinkKind{}, scope: c.ModFuncs, fields: map[string][]ssa.Value{}}
	// field-based store index: "pkg.Type.field" -> stored values
	for _, fn := range sa.scope {
		forEachInstr(fn, func(in ssa.Instruction) {
			st, ok := in.(*ssa.Store)
			if !ok {
				return
			}
			if fa, ok := st.Addr.(*ssa.FieldAddr); ok {
				k := fieldKey(fa)
				sa.fields[k] = append(sa.fields[k], st.Val)
			}
		})
	}
	return sa
}

func fieldKey(fa *ssa.FieldAddr) string {
	return types.TypeString(derefType(fa.X.Type()), nil) + "." + fieldName(fa.X.Type(), fa.Field)
}

func typeIsInfallibleSink(t types.Type) bool {
	s := types.TypeString(derefType(t), nil)
	switch s {
	case "bytes.Buffer", "strings.Builder":
		return true
	}
	if s == "hash.Hash" || s == "hash.Hash32" || s == "hash.Hash64" {
		return true
	}
	if strings.HasPrefix(s, "crypto/") && strings.HasSuffix(s, ".digest") {
		return true
	}
	return false
}

var wrapperCtors = map[string]bool{
	"archive/tar.NewWriter":                                    true,
	"compress/gzip.NewWriter":                                  true,
	"compress/gzip.NewWriterLevel":                             true,
	"github.com/klauspost/pgzip.NewWriter":                     true,
	"github.com/klauspost/pgzip.NewWriterLevel":                true,
	"github.com/klauspost/compress/zstd.NewWriter":             true,
	"github.com/klauspost/compress/gzip.NewWriter":             true,
	"github.com/ulikunitz/xz.NewWriter":                        true,
	"github.com/ulikunitz/xz/lzma.NewWriter":                   true,
	"bufio.NewWriter":                                          true,
	"bufio.NewWriterSize":                                      true,
	"github.com/blakesmith/ar.NewWriter":                       true,
	"github.com/ProtonMail/go-crypto/openpgp/clearsign.Encode": true,
}

var infallibleCtors = map[string]bool{
	"bytes.NewBuffer": true, "bytes.NewBufferString": true,
	"crypto/sha1.New": true, "crypto/sha256.New": true, "crypto/md5.New": true, "crypto/sha512.New": true,
	"crypto/sha256.New224": true,
}

func (sa *sinkAnalysis) root(v ssa.Value) sinkKind {
	return sa.rootD(v, 0)
}

func (sa *sinkAnalysis) join(vals []ssa.Value, depth int) sinkKind {
	for _, x := range vals {
		if sa.rootD(x, depth+1) == sinkFallible {
			return sinkFallible
		}
	}
	return sinkInfallible
}

func (sa *sinkAnalysis) rootD(v ssa.Value, depth int) sinkKind {
	if v == nil {
		return sinkFallible
	}
	if k, ok := sa.memo[v]; ok {
		return k
	}
	if typeIsInfallibleSink(v.Type()) {
		return sinkInfallible
	}
	if sa.busy[v] {
		return sinkInfallible // identity of the join on cycles
	}
	if depth > 24 {
		return sinkFallible
	}
	sa.busy[v] = true
	k := sa.root1(v, depth)
	delete(sa.busy, v)
	sa.memo[v] = k
	return k
}

func (sa *sinkAnalysis) root1(v ssa.Value, depth int) sinkKind {
	switch x := v.(type) {
	case *ssa.MakeInterface:
		return sa.rootD(x.X, depth+1)
	case *ssa.ChangeInterface:
		return sa.rootD(x.X, depth+1)
	case *ssa.ChangeType:
		return sa.rootD(x.X, depth+1)
	case *ssa.TypeAssert:
		return sa.rootD(x.X, depth+1)
	case *ssa.Const:
		return sinkInfallible // nil writer: never written
	case *ssa.Alloc:
		if typeIsInfallibleSink(x.Type()) {
			return sinkInfallible
		}
		// a local cell holding a writer: join over the values stored
		var vals []ssa.Value
		for _, ref := range *x.Referrers() {
			if st, ok := ref.(*ssa.Store); ok && st.Addr == x {
				vals = append(vals, st.Val)
			}
		}
		// a struct value that embeds/wraps a writer (nopCloser{Writer: w})
		for _, ref := range *x.Referrers() {
			if fa, ok := ref.(*ssa.FieldAddr); ok {
				for _, r2 := range *fa.Referrers() {
					if st, ok := r2.(*ssa.Store); ok && isWriterish(st.Val.Type()) {
						vals = append(vals, st.Val)
					}
				}
			}
		}
		if len(vals) == 0 {
			return sinkFallible
		}
		return sa.join(vals, depth)
	case *ssa.Phi:
		return sa.join(x.Edges, depth)
	case *ssa.Extract:
		return sa.rootD(x.Tuple, depth+1)
	case *ssa.Call:
		cc := x.Common()
		if o := calleeObj(x); o != nil {
			q := qualifiedName(o)
			if infallibleCtors[q] {
				return sinkInfallible
			}
			if wrapperCtors[q] && len(cc.Args) > 0 {
				return sa.rootD(cc.Args[0], depth+1)
			}
			if q == "io.MultiWriter" && len(cc.Args) == 1 {
				return sa.join(variadicElems(cc.Args[0]), depth)
			}
		}
		if sc := cc.StaticCallee(); sc != nil && sc.Blocks != nil && sa.c.isModuleFunc(sc) {
			// module wrapper returning a writer: join over its returned values
			var vals []ssa.Value
			for _, b := range sc.Blocks {
				if r, ok := b.Instrs[len(b.Instrs)-1].(*ssa.Return); ok {
					for _, res := range r.Results {
						if isWriterish(res.Type()) {
							vals = append(vals, res)
						}
					}
				}
			}
			if len(vals) > 0 {
				return sa.join(vals, depth)
			}
		}
		return sinkFallible
	case *ssa.UnOp:
		// load
		switch a := x.X.(type) {
		case *ssa.Alloc:
			return sa.rootD(a, depth+1)
		case *ssa.FieldAddr:
			vals := sa.fields[fieldKey(a)]
			if len(vals) == 0 {
				return sinkFallible
			}
			return sa.join(vals, depth)
		case *ssa.FreeVar:
			return sa.rootD(a, depth+1)
		}
		return sinkFallible
	case *ssa.FreeVar:
		fn := x.Parent()
		idx := -1
		for i, fv := range fn.FreeVars {
			if fv == x {
				idx = i
			}
		}
		var vals []ssa.Value
		if p := fn.Parent(); p != nil && idx >= 0 {
			forEachInstr(p, func(in ssa.Instruction) {
				if mc, ok := in.(*ssa.MakeClosure); ok && mc.Fn == fn && idx < len(mc.Bindings) {
					vals = append(vals, mc.Bindings[idx])
				}
			})
		}
		if len(vals) == 0 {
			return sinkFallible
		}
		return sa.join(vals, depth)
	case *ssa.Parameter:
		fn := x.Parent()
		idx := -1
		for i, p := range fn.Params {
			if p == x {
				idx = i
			}
		}
		if idx < 0 {
			return sinkFallible
		}
		if sa.isEntryPoint(fn) {
			return sinkFallible
		}
		var vals []ssa.Value
		sites := 0
		for _, caller := range sa.scope {
			forEachInstr(caller, func(in ssa.Instruction) {
				call, ok := in.(ssa.CallInstruction)
				if !ok {
					return
				}
				cc := call.Common()
				if cc.StaticCallee() == fn {
					if idx < len(cc.Args) {
						vals = append(vals, cc.Args[idx])
						sites++
					}
					return
				}
				// dynamic call of a func value with this signature (anonymous
				// functions and functions passed as values)
				if cc.StaticCallee() == nil && !cc.IsInvoke() && fn.Signature.Recv() == nil {
					if _, isB := cc.Value.(*ssa.Builtin); isB {
						return
					}
					if types.Identical(cc.Value.Type().Underlying(), fn.Signature) && idx < len(cc.Args) {
						vals = append(vals, cc.Args[idx])
						sites++
					}
				}
			})
		}
		if sites == 0 {
			return sinkFallible
		}
		return sa.join(vals, depth)
	case *ssa.Global:
		return sinkFallible
	}
	return sinkFallible
}

func isWriterish(t types.Type) bool {
	if _, ok := t.Underlying().(*types.Interface); ok {
		ms := types.NewMethodSet(t)
		return ms.Lookup(nil, "Write") != nil
	}
	ms := types.NewMethodSet(t)
	if ms.Lookup(nil, "Write") != nil {
		return true
	}
	if _, isPtr := t.Underlying().(*types.Pointer); !isPtr {
		ms = types.NewMethodSet(types.NewPointer(t))
		return ms.Lookup(nil, "Write") != nil
	}
	return false
}

// variadicElems returns the values stored into the backing array of a
// variadic argument slice.
func variadicElems(v ssa.Value) []ssa.Value {
	var out []ssa.Value
	sl, ok := v.(*ssa.Slice)
	if !ok {
		return []ssa.Value{v}
	}
	al, ok := sl.X.(*ssa.Alloc)
	if !ok {
		return []ssa.Value{v}
	}
	for _, ref := range *al.Referrers() {
		if ia, ok := ref.(*ssa.IndexAddr); ok {
			for _, r2 := range *ia.Referrers() {
				if st, ok := r2.(*ssa.Store); ok {
					out = append(out, st.Val)
				}
			}
		}
	}
	return out
}

// isEntryPoint: exported functions/methods of non-internal module packages and
// the Packager interface methods: their writer parameters are caller-supplied.
func (sa *sinkAnalysis) isEntryPoint(fn *ssa.Function) bool {
	if fn.Parent() != nil {
		return false
	}
	o, ok := fn.Object().(*types.Func)
	if !ok || o == nil {
		return false
	}
	if !o.Exported() {
		return false
	}
	pp := sa.c.funcPkgPath(fn)
	if strings.Contains(pp, "/internal/") {
		return false
	}
	return true
}

// terminalRoots lists where a writer value ultimately comes from, following
// the same identity-preserving steps as root(): in-memory allocations,
// globals, results of non-constructor calls (e.g. a pool's Get), parameters
// of entry points.
func (sa *sinkAnalysis) terminalRoots(v ssa.Value) []ssa.Value {
	seen := map[ssa.Value]bool{}
	var out []ssa.Value
	var walk func(v ssa.Value, d int)
	walk = func(v ssa.Value, d int) {
		if v == nil || seen[v] || d > 24 {
			return
		}
		seen[v] = true
		switch x := v.(type) {
		case *ssa.MakeInterface:
			walk(x.X, d+1)
		case *ssa.ChangeInterface:
			walk(x.X, d+1)
		case *ssa.ChangeType:
			walk(x.X, d+1)
		case *ssa.TypeAssert:
			walk(x.X, d+1)
		case *ssa.Extract:
			walk(x.Tuple, d+1)
		case *ssa.Phi:
			for _, e := range x.Edges {
				walk(e, d+1)
			}
		case *ssa.Alloc:
			if typeIsInfallibleSink(x.Type()) {
				out = append(out, x)
				return
			}
			n := 0
			for _, ref := range *x.Referrers() {
				if st, ok := ref.(*ssa.Store); ok && st.Addr == ssa.Value(x) {
					n++
					walk(st.Val, d+1)
				}
			}
			if n == 0 {
				out = append(out, x)
			}
		case *ssa.Call:
			cc := x.Common()
			if o := calleeObj(x); o != nil {
				q := qualifiedName(o)
				if wrapperCtors[q] && len(cc.Args) > 0 {
					walk(cc.Args[0], d+1)
					return
				}
				if q == "io.MultiWriter" && len(cc.Args) == 1 {
					for _, e := range variadicElems(cc.Args[0]) {
						walk(e, d+1)
					}
					return
				}
			}
			if sc := cc.StaticCallee(); sc != nil && sc.Blocks != nil && sa.c.isModuleFunc(sc) {
				for _, b := range sc.Blocks {
					if r, ok := b.Instrs[len(b.Instrs)-1].(*ssa.Return); ok {
						for _, res := range r.Results {
							if isWriterish(res.Type()) {
								walk(res, d+1)
							}
						}
					}
				}
				return
			}
			out = append(out, x)
		case *ssa.UnOp:
			switch a := x.X.(type) {
			case *ssa.Alloc:
				walk(a, d+1)
			case *ssa.FieldAddr:
				for _, val := range sa.fields[fieldKey(a)] {
					walk(val, d+1)
				}
			case *ssa.FreeVar:
				walk(a, d+1)
			case *ssa.Global:
				out = append(out, a)
			}
		case *ssa.FreeVar:
			fn := x.Parent()
			if p := fn.Parent(); p != nil {
				forEachInstr(p, func(in ssa.Instruction) {
					if mc, ok := in.(*ssa.MakeClosure); ok && mc.Fn == fn {
						for i, fv := range fn.FreeVars {
							if fv == x && i < len(mc.Bindings) {
								walk(mc.Bindings[i], d+1)
							}
						}
					}
				})
			}
		case *ssa.Parameter:
			fn := x.Parent()
			idx := -1
			for i, p := range fn.Params {
				if p == x {
					idx = i
				}
			}
			if idx < 0 || sa.isEntryPoint(fn) {
				out = append(out, x)
				return
			}
			sites := 0
			for _, caller := range sa.scope {
				forEachInstr(caller, func(in ssa.Instruction) {
					call, ok := in.(ssa.CallInstruction)
					if !ok {
						return
					}
					cc := call.Common()
					if cc.StaticCallee() == fn && idx < len(cc.Args) {
						sites++
						walk(cc.Args[idx], d+1)
					} else if cc.StaticCallee() == nil && !cc.IsInvoke() && fn.Signature.Recv() == nil {
						if _, isB := cc.Value.(*ssa.Builtin); !isB && types.Identical(cc.Value.Type().Underlying(), fn.Signature) && idx < len(cc.Args) {
							sites++
							walk(cc.Args[idx], d+1)
						}
					}
				})
			}
			if sites == 0 {
				out = append(out, x)
			}
		case *ssa.Global:
			out = append(out, x)
		default:
			out = append(out, v)
		}
	}
	walk(v, 0)
	return out
}

// freshBufferRoot: the root is a zero-valued local buffer, or a buffer
// obtained elsewhere that is Reset before any other use in its function.
func freshBufferRoot(root ssa.Value) (bool, string) {
	switch x := root.(type) {
	case *ssa.Alloc:
		return true, "local allocation"
	case *ssa.Call:
		if o := calleeObj(x); o != nil {
			q := qualifiedName(o)
			if infallibleCtors[q] {
				return true, q
			}
			// e.g. (*sync.Pool).Get: require Reset dominating every other use
			name := funcObjName(o)
			var users []ssa.Instruction
			var collect func(v ssa.Value, d int)
			collect = func(v ssa.Value, d int) {
				if d > 4 || v.Referrers() == nil {
					return
				}
				for _, ref := range *v.Referrers() {
					switch r := ref.(type) {
					case *ssa.TypeAssert:
						collect(r, d+1)
					case *ssa.Extract:
						collect(r, d+1)
					case *ssa.MakeInterface:
						collect(r, d+1)
					default:
						users = append(users, ref)
					}
				}
			}
			collect(x, 0)
			var reset ssa.Instruction
			for _, u := range users {
				if call, ok := u.(*ssa.Call); ok {
					if uo := calleeObj(call); uo != nil && (uo.Name() == "Reset" || uo.Name() == "Truncate") {
						reset = u
					}
				}
			}
			if reset == nil {
				if poolHoldsOnlyResetObjects(x) {
					return true, "obtained from a pool into which only freshly made or Reset objects are put"
				}
				return false, "obtained from " + name + " and never Reset: it can still hold bytes of an earlier packaging"
			}
			for _, u := range users {
				if u == reset {
					continue
				}
				if _, isDefer := u.(*ssa.Defer); isDefer {
					continue
				}
				if !instrDominates(reset, u) {
					return false, "obtained from " + name + " and used before it is Reset"
				}
			}
			return true, "obtained from " + name + " and Reset before use"
		}
	case *ssa.Parameter:
		return true, "caller-supplied"
	case *ssa.Global:
		return false, "package-level buffer " + globalName(x) + ": shared by all packagings"
	}
	return true, fmt.Sprintf("%T", root)
}

// poolHoldsOnlyResetObjects: get is (*sync.Pool).Get on a package-level pool
// whose every Put, anywhere in the module, hands back a value on which Reset
// (or Truncate) was called before - in the same function, dominating the Put -
// and whose New function returns a fresh allocation.
func poolHoldsOnlyResetObjects(get *ssa.Call) bool {
	o := calleeObj(get)
	if o == nil || o.Name() != "Get" || o.Pkg() == nil || o.Pkg().Path() != "sync" || len(get.Call.Args) == 0 {
		return false
	}
	g, ok := get.Call.Args[0].(*ssa.Global)
	if !ok || get.Parent() == nil {
		return false
	}
	puts := 0
	for _, fn := range moduleFuncsByProg[get.Parent().Prog] {
		bad := false
		forEachInstr(fn, func(in ssa.Instruction) {
			ci, ok := in.(ssa.CallInstruction)
			if !ok {
				return
			}
			po := calleeObj(ci)
			if po == nil || po.Name() != "Put" || po.Pkg() == nil || po.Pkg().Path() != "sync" || len(ci.Common().Args) < 2 {
				return
			}
			if pg, isG := ci.Common().Args[0].(*ssa.Global); !isG || pg != g {
				return
			}
			puts++
			v := ci.Common().Args[1]
			if mi, isMI := v.(*ssa.MakeInterface); isMI {
				v = mi.X
			}
			reset := false
			if v.Referrers() != nil {
				for _, ref := range *v.Referrers() {
					if rc, isCall := ref.(*ssa.Call); isCall {
						if ro := calleeObj(rc); ro != nil && (ro.Name() == "Reset" || ro.Name() == "Truncate") && callReceiver(rc) == v && instrDominates(rc, in) {
							reset = true
						}
					}
				}
			}
			if !reset {
				bad = true
			}
		})
		if bad {
			return false
		}
	}
	return puts > 0
}
