package main

import (
	"fmt"
	"go/token"
	"go/types"
	"sort"
	"strings"

	"golang.org/x/tools/go/ssa"
)

func init() { register("C05", checkC05) }

const filesPath = modPath + "/files"
const globPath = modPath + "/internal/glob"

func (c *Ctx) contentPtrKey() string {
	n := c.NamedType("files", "Content")
	if n == nil {
		return ""
	}
	return types.TypeString(types.NewPointer(n), nil)
}

func (c *Ctx) infoPtrKey() string {
	n := c.NamedType("", "Info")
	if n == nil {
		return ""
	}
	return types.TypeString(types.NewPointer(n), nil)
}

func isContentMap(t types.Type) bool {
	m, ok := t.Underlying().(*types.Map)
	if !ok {
		return false
	}
	return isPtrToNamed(m.Elem(), filesPath, "Content")
}

// planMarkers classifies what a content entry of the cell can cause inside
// files.PrepareForPackager: which insert/expansion mechanisms are live.
func planMarkers(c *Ctx, fr *Frame) map[string]bool {
	out := map[string]bool{}
	for _, li := range fr.LiveInstrs() {
		switch in := li.In.(type) {
		case ssa.CallInstruction:
			if calleeIs(in, globPath, "", "Glob") {
				out["GLOB"] = true
			}
			if calleeIs(in, "path/filepath", "", "WalkDir") || calleeIs(in, "path/filepath", "", "Walk") {
				out["TREE"] = true
			}
		case *ssa.MapUpdate:
			if !isContentMap(in.Map.Type()) {
				continue
			}
			// the planner itself, or a helper it calls directly for one
			// declared entry (not the tree / glob / parents machinery, which
			// have their own markers)
			if li.F != fr && (li.F == nil || li.F.depth != fr.depth+1 || reachesExpansion(c, li.F.Fn) || !insertsParamEntry(in)) {
				continue
			}
			// which normaliser produced the Destination stored in this branch?
			kind := ""
			for _, bi := range in.Block().Instrs {
				st, ok := bi.(*ssa.Store)
				if !ok {
					continue
				}
				fa, ok := st.Addr.(*ssa.FieldAddr)
				if !ok || fieldName(fa.X.Type(), fa.Field) != "Destination" {
					continue
				}
				if call, ok := st.Val.(*ssa.Call); ok {
					callee := call.Call.StaticCallee()
					if callee == nil && li.F != nil {
						// the normaliser handed in as a function value
						if fv, ok := li.F.Eval(call.Call.Value).(avFunc); ok {
							callee = fv.fn
						}
					}
					if callee != nil && c.funcPkgPath(callee) == filesPath {
						switch callee.Name() {
						case "NormalizeAbsoluteDirPath":
							kind = "DIR"
						case "NormalizeAbsoluteFilePath":
							kind = "SINGLE"
						}
					}
				}
			}
			if kind == "" {
				if li.F != fr {
					continue // a helper's insert of something else (implied parents)
				}
				kind = "INSERT?"
			}
			out[kind] = true
		case *ssa.Return:
			if li.F != fr || len(in.Results) == 0 {
				continue
			}
			res := retResults(in)
			last := res[len(res)-1]
			if isFreshError(last) {
				out["ERROR"] = true
			}
		}
	}
	return out
}

// isFreshError: an error made on the spot (fmt.Errorf / errors.New) that
// wraps no other error value — the "invalid setting" kind of error, as opposed
// to propagation of a callee's failure.
func isFreshError(v ssa.Value) bool {
	if mi, ok := v.(*ssa.MakeInterface); ok {
		v = mi.X
	}
	call, ok := v.(*ssa.Call)
	if !ok {
		return false
	}
	if !(calleeIs(call, "fmt", "", "Errorf") || calleeIs(call, "errors", "", "New")) {
		return false
	}
	return !callWrapsError(call)
}

func callWrapsError(call *ssa.Call) bool {
	errT := types.Universe.Lookup("error").Type()
	var visit func(v ssa.Value, depth int) bool
	visit = func(v ssa.Value, depth int) bool {
		if depth > 6 || v == nil {
			return false
		}
		if types.Identical(v.Type(), errT) {
			return true
		}
		switch x := v.(type) {
		case *ssa.MakeInterface:
			return types.Implements(x.X.Type(), errT.Underlying().(*types.Interface)) || visit(x.X, depth+1)
		case *ssa.Slice:
			return visit(x.X, depth+1)
		case *ssa.ChangeInterface:
			return visit(x.X, depth+1)
		case *ssa.Alloc:
			// variadic []any backing array: look at the stores into it
			for _, ref := range *x.Referrers() {
				if ia, ok := ref.(*ssa.IndexAddr); ok {
					for _, r2 := range *ia.Referrers() {
						if st, ok := r2.(*ssa.Store); ok && visit(st.Val, depth+1) {
							return true
						}
					}
				}
			}
		}
		return false
	}
	for _, a := range call.Call.Args {
		if visit(a, 0) {
			return true
		}
	}
	return false
}

func checkC05(c *Ctx, r *Report) {
	r.Rules = []string{"D1+D5 plan decision table", "D6 Less ordering table", "K2 insert-after-collision-check", "K1 key=destination", "O5 parents-before-entry / sort-before-return", "T2 order-insensitive map iteration (files, glob)", "G-base the base of every relative-path computation is a whole directory", "G-prefix no bare string-prefix containment test on paths", "G-cutset trim cutsets with path characters are single characters", "G-rooted absolute-path normalisers anchor at the root before cleaning", "fixture", "O5-parents-clean ancestors are those of the normalised destination", "D5-glob-source expanded entries come from glob.Glob", "K2b an implied directory (and nothing else) is replaced by a declared one", "K2c an occupant of the other kind always fails; an occupant under the insert's key fails or is replaced", "K5-changelog the generated deb changelog entry joins the contents whenever a changelog is configured", "K6-sorted-search binary searches run over literal tables in ascending order", "G-into-dir base-name placement is decided by the destination's trailing slash alone", "K7-no-dedup the planner keeps no side table by which later entries are dropped silently", "K5-before-plan the generated changelog entry is added before PrepareForPackager", "K8-implicit-only-dirs only an entry known to be a directory is demoted to an implied one", "select-W3-shared-slice the per-format selection in Config.Get does not write into the configuration's list (rule of C11)"}
	r.Explanation = "Static decision of the structural necessary conditions of content planning: (D1+D5) files.PrepareForPackager is abstractly evaluated (finite-domain constant propagation over go/ssa, no execution) for every cell packager x entry-packager-tag x entry type, and the set of live plan mechanisms (skip / dir insert / single insert / tree walk / glob / invalid-type error) is compared with the table transcribed from the statement; (D6) Contents.Less is evaluated on all 27 orderings of (destination, type, packager) and must be the lexicographic order; (K2) every insert into the destination map is dominated by a lookup on the same map whose occupied edge can return the collision error; (O5) parents are added before each declared entry and the returned slice is sorted before every success return; (T2) every map range in files/glob is order-insensitive by an enumerated idiom; (G-base) every definition of the base argument of filepath.Rel in files and internal/glob is the entry's configured path or was cut at a separator by filepath.Dir after any string slicing, and (G-prefix) no strings.HasPrefix/TrimPrefix/CutPrefix in those packages takes a computed prefix that does not end in a separator by construction - a common string prefix is not a directory. Not decided: lexical cleaning, which directory is the deepest common one for a given match list, tree walking on disk."
	r.Explanation += " (G-cutset) constant cutsets of strings.Trim* that contain path characters are single characters. (G-rooted) every return of files.NormalizeAbsolute* is cleaned after being anchored at the root, and a '/' suffix is appended only where the root has been told apart. (O5-parents-clean) the enumeration of an entry's ancestors starts from its normalised destination. (K3) the helper that switches between the two key spellings is given the entry's normalised key."
	r.Explanation += " (K2c) from the occupied edge of every collision probe all paths end in an error return - or, under the insert's own key, at the insert (whose admissible occupants K2b decides) - never back in the scan or at a success return; inserts of implied parents are exempt under their own key. (K5-changelog) the function that creates the changelog-typed entry, evaluated with a changelog configured, must-reaches the store of the extended contents."
	r.Explanation += " (K6-sorted-search) every slices.BinarySearch / sort.Search* in the planner's packages runs over a package-level table initialised by one literal of string constants in ascending order. (G-into-dir) the block of glob.Glob that uses filepath.Base is guarded by strings.HasSuffix on the destination parameter itself. (K7-no-dedup) a comma-ok lookup in a non-content map the function itself fills never leads back to the loop without a return or an update of that map."
	r.Assumptions = []string{
		"filepath.Clean/Join/Rel, fileglob and WalkDir behave as documented (path normalisation semantics are not analysed)",
		"a Content entry is touched by the planner's selection logic only through ==/!= comparisons of its Type and Packager fields (any other use makes the evaluator fork both ways)",
	}
	prep := c.Func("files", "PrepareForPackager")
	if prep == nil {
		r.Unresolved("files.PrepareForPackager", "exported planner entry point not found")
		return
	}
	ck := c.contentPtrKey()

	// ---- D1+D5 ----
	packagers := append([]string{""}, specFormats...)
	packagers = append(packagers, "otherfmt")
	cells := 0
	for _, pk := range packagers {
		tags := []string{"", pk, "zz-other-packager"}
		if pk == "" {
			tags = []string{"", "deb"}
		}
		for _, tag := range tags {
			for _, typ := range allTypes {
				cells++
				ev := newEvaluator(c)
				obj := newAObj("content")
				obj.Fields["Type"] = cStr(typ)
				obj.Fields["Packager"] = cStr(tag)
				ev.Defaults[ck] = obj
				args := make([]AV, len(prep.Params))
				// parameter 2 is the packager (by type: the only string parameter)
				nstr := 0
				for i, p := range prep.Params {
					if b, ok := p.Type().Underlying().(*types.Basic); ok && b.Kind() == types.String {
						args[i] = cStr(pk)
						nstr++
					}
				}
				if nstr != 1 {
					r.Unresolved("files.PrepareForPackager packager parameter", fmt.Sprintf("expected exactly one string parameter, found %d", nstr))
					return
				}
				fr := ev.Explore(prep, args)
				got := planMarkers(c, fr)
				want := map[string]bool{}
				if specRelevant(pk, tag, typ) {
					if d := specPlanDispatch(typ); d != "IGNORE" {
						want[d] = true
					}
				}
				construct := fmt.Sprintf("plan[packager=%q,tag=%q,type=%q]", pk, tag, typ)
				ok := joinSorted(got) == joinSorted(want)
				r.Check(ok, "D1+D5", construct, c.pos(prep.Pos()),
					fmt.Sprintf("live mechanisms {%s}, expected {%s}", joinSorted(got), joinSorted(want)))
			}
		}
	}
	r.Count("plan_cells", cells)

	// ---- D6 Less ----
	less := c.Method("files", "Contents", "Less")
	if less == nil || len(less.Params) != 3 {
		r.Unresolved("files.Contents.Less", "sort order method not found")
	} else {
		rel := [][2]string{{"m", "m"}, {"a", "b"}, {"b", "a"}}
		n := 0
		for di, d := range rel {
			for ti, t := range rel {
				for pi, p := range rel {
					ev := newEvaluator(c)
					a, b := newAObj("a"), newAObj("b")
					a.Fields["Destination"], b.Fields["Destination"] = cStr(d[0]), cStr(d[1])
					a.Fields["Type"], b.Fields["Type"] = cStr(t[0]), cStr(t[1])
					a.Fields["Packager"], b.Fields["Packager"] = cStr(p[0]), cStr(p[1])
					sl := &avSlice{id: "c", elems: []AV{avObj{a}, avObj{b}}}
					fr := ev.Explore(less, []AV{sl, cInt(0), cInt(1)})
					want := false
					switch {
					case di != 0:
						want = di == 1
					case ti != 0:
						want = ti == 1
					case pi != 0:
						want = pi == 1
					}
					got, known := avBool(fr.ReturnValue(0))
					sym := []string{"=", "<", ">"}
					construct := fmt.Sprintf("Less[dst%s,type%s,packager%s]", sym[di], sym[ti], sym[pi])
					r.Check(known && got == want, "D6", construct, c.pos(less.Pos()),
						fmt.Sprintf("Less returns %v (decided=%v), lexicographic (destination,type,packager) order requires %v", got, known, want))
					n++
				}
			}
		}
		r.Count("less_cells", n)
		// the order is total: Less compares the stored fields themselves; a
		// key computed from them (lower-cased, trimmed) makes distinct
		// destinations compare equal, and sort.Sort then leaves their order
		// to the map iteration that produced the list
		var callIn ssa.Instruction
		forEachInstr(less, func(in ssa.Instruction) {
			if call, ok := in.(*ssa.Call); ok && callIn == nil {
				if _, isB := call.Call.Value.(*ssa.Builtin); !isB {
					callIn = in
				}
			}
		})
		if callIn != nil {
			r.Fail("D6-plain", "Less compares the stored fields themselves", c.instrPos(callIn), "a function is applied to the compared values: entries that differ only in what the function discards become ties, and the unstable sort orders ties by hash-map iteration")
		} else {
			r.Pass("D6-plain", "Less compares the stored fields themselves", c.pos(less.Pos()), "no call inside Less")
		}
	}

	// ---- K2 / K1 / O5 ----
	reach := c.Reach(prep)
	collisionFns := collisionErrorFuncs(c)
	if len(collisionFns) == 0 {
		r.Unresolved("content-collision error constructor", "no function returning an error that wraps files.ErrContentCollision")
	}
	inserts := 0
	for _, fn := range sortedFuncs(c, reach) {
		if c.funcPkgPath(fn) != filesPath {
			continue
		}
		forEachInstr(fn, func(in ssa.Instruction) {
			mu, ok := in.(*ssa.MapUpdate)
			if !ok || !isContentMap(mu.Map.Type()) {
				return
			}
			inserts++
			construct := fmt.Sprintf("insert#%d in %s", countInsertsBefore(fn, mu), c.funcKey(fn))
			ok2, why := insertGuarded(c, fn, mu, collisionFns)
			r.Check(ok2, "K2", construct, c.instrPos(mu), why)
			checkOtherKindFails(c, r, fn, mu, construct, collisionFns)
			if ok2 {
				checkReplacementTable(c, r, fn, mu, construct)
			}
			ok3, why3 := keyIsDestination(c, fn, mu)
			if ok3 {
				r.Pass("K1", construct, c.instrPos(mu), why3)
			} else {
				r.Note("K1 undischarged (not a violation): %s at %s: %s", construct, c.instrPos(mu), why3)
			}
			ok4, why4 := parentsBeforeInsert(c, fn, mu)
			r.Check(ok4, "O5-parents", construct, c.instrPos(mu), why4)
		})
	}
	r.Floor("K2", inserts, 3)
	checkParentsOfCleanPath(c, r, reach)
	checkKeyForms(c, r, reach)

	// sort dominates success return
	sorted := 0
	for _, b := range prep.Blocks {
		ret, ok := b.Instrs[len(b.Instrs)-1].(*ssa.Return)
		if !ok || len(ret.Results) != 2 {
			continue
		}
		res := retResults(ret)
		if k, ok := res[0].(*ssa.Const); ok && k.IsNil() {
			continue // error return
		}
		sorted++
		okS := sortedAtReturn(prep, res[0], ret, 2)
		r.Check(okS, "O5-sort", "files.PrepareForPackager success return", c.instrPos(ret),
			"the returned plan must be sorted (sort.Sort/Stable or slices.SortFunc on the returned slice) on every path to a success return")
	}
	r.Floor("O5-sort", sorted, 1)

	// ---- T2 ----
	n := checkMapRanges(c, r, "T2", func(fn *ssa.Function) bool {
		pp := c.funcPkgPath(fn)
		return pp == filesPath || pp == globPath
	})
	r.Floor("T2", n, 2)
	checkGlobBase(c, r)
	checkChangelogJoinsPlan(c, r)
	checkSortedSearches(c, r)
	checkGlobIntoDir(c, r)
	checkNoSilentDedup(c, r, reach)
	r.Exhaustive = true
}

func countInsertsBefore(fn *ssa.Function, mu *ssa.MapUpdate) int {
	n := 0
	for _, b := range fn.Blocks {
		for _, in := range b.Instrs {
			if m, ok := in.(*ssa.MapUpdate); ok && isContentMap(m.Map.Type()) {
				n++
				if m == mu {
					return n
				}
			}
		}
	}
	return n
}

// collisionErrorFuncs: module functions returning an error built around the
// global files.ErrContentCollision.
func collisionErrorFuncs(c *Ctx) map[*ssa.Function]bool {
	out := map[*ssa.Function]bool{}
	fp := c.Pkg("files")
	if fp == nil {
		return out
	}
	g, _ := fp.Members["ErrContentCollision"].(*ssa.Global)
	if g == nil {
		return out
	}
	for _, fn := range c.ModFuncs {
		if c.funcPkgPath(fn) != filesPath {
			continue
		}
		res := fn.Signature.Results()
		if res.Len() != 1 || res.At(0).Type().String() != "error" {
			continue
		}
		uses := false
		forEachInstr(fn, func(in ssa.Instruction) {
			var ops []*ssa.Value
			for _, op := range in.Operands(ops) {
				if *op == ssa.Value(g) {
					uses = true
				}
			}
		})
		if uses {
			out[fn] = true
		}
	}
	// ... and wrappers (also local closures) that hand its result on
	for grew := true; grew; {
		grew = false
		for _, fn := range c.ModFuncs {
			if out[fn] || c.funcPkgPath(fn) != filesPath {
				continue
			}
			for base := range out {
				if returnsResultOf(fn, base, 0) {
					out[fn] = true
					grew = true
					break
				}
			}
		}
	}
	return out
}

// mapRoot strips loads through free variables / parameters: two expressions
// denote the same map when they are the same SSA value, parameter or free var.
func sameValue(a, b ssa.Value) bool {
	if a == b {
		return true
	}
	// loads of the same local cell
	ua, ok1 := a.(*ssa.UnOp)
	ub, ok2 := b.(*ssa.UnOp)
	if ok1 && ok2 && ua.X == ub.X {
		return true
	}
	// loads of the same field of the same object
	if ok1 && ok2 {
		fa, okA := ua.X.(*ssa.FieldAddr)
		fb, okB := ub.X.(*ssa.FieldAddr)
		if okA && okB && fa.Field == fb.Field && (fa.X == fb.X || sameValue(fa.X, fb.X)) {
			return true
		}
	}
	return false
}

func instrIndex(in ssa.Instruction) int {
	for i, x := range in.Block().Instrs {
		if x == in {
			return i
		}
	}
	return -1
}

// instrDominates: a executes before b on every path reaching b.
func instrDominates(a, b ssa.Instruction) bool {
	if a.Block() == b.Block() {
		return instrIndex(a) < instrIndex(b)
	}
	return a.Block().Dominates(b.Block())
}

// insertGuarded implements K2 for one insert.
func insertGuarded(c *Ctx, fn *ssa.Function, mu *ssa.MapUpdate, collisionFns map[*ssa.Function]bool) (bool, string) {
	for _, g := range guardsOf(c, fn, mu) {
		if g.ok == nil || g.ok.Referrers() == nil {
			continue
		}
		// the found flag must control a branch from which a collision error
		// is returned without performing the insert
		for _, r2 := range *g.ok.Referrers() {
			ifi, ok := r2.(*ssa.If)
			if !ok {
				continue
			}
			occupied := ifi.Block().Succs[0]
			if g.via != nil {
				// inside the helper the occupied edge returns the collision
				// error; in the inserting function the helper's error leaves
				// before the insert
				fail := nilTestFailEdge(g.via)
				if reachesCollisionReturn(occupied, nil, collisionFns) && fail != nil && fail != mu.Block() && !blockReaches(fail, mu.Block()) {
					return true, fmt.Sprintf("dominated by the probe helper called at %s: its occupied edge returns the collision error, which leaves before the insert", c.instrPos(g.via))
				}
				// the helper hands back the occupant (nil: free); the caller
				// turns a non-nil result into the collision error
				if isContentPtr(g.via.Type()) && g.val != nil && returnsValueFrom(occupied, g.val) && fail != nil && reachesCollisionReturn(fail, mu, collisionFns) {
					return true, fmt.Sprintf("dominated by the probe helper called at %s: it returns the occupant, and a non-nil result returns the collision error before the insert", c.instrPos(g.via))
				}
				continue
			}
			if reachesCollisionReturn(occupied, mu, collisionFns) {
				return true, fmt.Sprintf("dominated by the collision probe at %s whose occupied edge returns the collision error", c.instrPos(g.at))
			}
		}
	}
	return false, "insert into the destination map is not dominated by a lookup on the same map whose occupied edge returns the content-collision error: an occupied destination would be silently replaced"
}

// checkReplacementTable (K2b): with the guarding lookup bound to "occupied by
// an entry of type T", the insert may be live only for T = implicit dir, and
// only where the inserted entry is a directory ("only an explicitly declared
// directory may take the place of an implied one").
func checkReplacementTable(c *Ctx, r *Report, fn *ssa.Function, mu *ssa.MapUpdate, construct string) {
	lks := guardsOf(c, fn, mu)
	if len(lks) == 0 {
		return
	}
	insertsDir := insertedEntryMayBeDir(c, fn, mu)
	insSp := joinSorted(keySpellings(c, mu.Key, fn, 0))
	for li, hit := range lks {
		// this probe finds an occupant, the others do not; a helper that
		// probes several spellings at once never licenses a replacement
		own := hit.index != nil && (sameValue(hit.index, mu.Key) || joinSorted(hit.forms) == insSp)
		for _, typ := range preparedTypes {
			ev := newEvaluator(c)
			ev.Bind = map[ssa.Value]AV{}
			occ := newAObj("occupant")
			occ.Fields["Type"] = cStr(typ)
			for lj, lk := range lks {
				if lk.val != nil && lj == li {
					ev.Bind[lk.val] = avObj{occ}
				}
				if lk.ok != nil {
					ev.Bind[lk.ok] = cBool(lj == li)
				}
			}
			fr := ev.Explore(fn, make([]AV, len(fn.Params)))
			live := fr != nil && fr.Live(mu.Block())
			allowed := typ == typeImplicitDir && insertsDir && own
			kind := "same spelling"
			if !own {
				kind = "other spelling"
			}
			cons := fmt.Sprintf("%s [lookup#%d (%s) finds %q]", construct, li+1, kind, typ)
			if live && !allowed {
				r.Fail("K2b", cons, c.instrPos(mu), fmt.Sprintf("with the destination already occupied by an entry of type %q the insert is still reachable: the occupant would be silently replaced or doubled (only an implied directory may be replaced, and only by a directory stored under the same key)", typ))
			} else if allowed && !live && hit.index != nil && sameValue(hit.index, mu.Key) && keySpellings(c, mu.Key, fn, 0)["NormalizeAbsoluteDirPath"] && !insertsOnlyImplicitDirs(fn, mu) {
				// the other half: a declared directory (or a directory of a
				// replicated tree) must take the place of the implied one -
				// otherwise it keeps the placeholder's root:root 0755 and,
				// in rpm, is not recorded at all
				r.Fail("K2b", cons, c.instrPos(mu), "with the destination occupied by an implied directory the insert of the declared directory is not reachable: the directory keeps the placeholder's owner, group and mode instead of the declared ones")
			} else {
				r.Pass("K2b", cons, c.instrPos(mu), fmt.Sprintf("insert reachable=%v", live))
			}
		}
	}
}

// insertedEntryMayBeDir: the entry stored by this insert can be a directory
// (its Destination is produced by the directory normaliser somewhere in fn).
func insertedEntryMayBeDir(c *Ctx, fn *ssa.Function, mu *ssa.MapUpdate) bool {
	found := false
	forEachInstr(fn, func(in ssa.Instruction) {
		call, ok := in.(*ssa.Call)
		if !ok {
			return
		}
		isDir := false
		for _, sc := range calleeCandidates(c, &call.Call) {
			if c.funcPkgPath(sc) == filesPath && sc.Name() == "NormalizeAbsoluteDirPath" {
				isDir = true
			}
		}
		if isDir {
			for _, ref := range *call.Referrers() {
				if _, isStore := ref.(*ssa.Store); isStore {
					found = true
				}
			}
		}
	})
	return found
}

func reachesCollisionReturn(start *ssa.BasicBlock, avoid ssa.Instruction, collisionFns map[*ssa.Function]bool) bool {
	seen := map[*ssa.BasicBlock]bool{}
	var dfs func(b *ssa.BasicBlock) bool
	dfs = func(b *ssa.BasicBlock) bool {
		if seen[b] {
			return false
		}
		seen[b] = true
		for _, in := range b.Instrs {
			if in == avoid {
				return false
			}
			if call, ok := in.(*ssa.Call); ok {
				if sc := call.Call.StaticCallee(); sc != nil && collisionFns[sc] {
					// its result must be returned
					for _, ref := range *call.Referrers() {
						if _, ok := ref.(*ssa.Return); ok {
							return true
						}
						if st, ok := ref.(*ssa.Store); ok {
							if _, isAl := st.Addr.(*ssa.Alloc); isAl {
								return true // defer-spilled result cell
							}
						}
					}
				}
			}
		}
		for _, s := range b.Succs {
			if dfs(s) {
				return true
			}
		}
		return false
	}
	return dfs(start)
}

// keyIsDestination: the map key denotes the Destination of the stored entry.
func keyIsDestination(c *Ctx, fn *ssa.Function, mu *ssa.MapUpdate) (bool, string) {
	// idiom 1: key is a load of <stored>.Destination
	if ld, ok := mu.Key.(*ssa.UnOp); ok {
		if fa, ok := ld.X.(*ssa.FieldAddr); ok && fieldName(fa.X.Type(), fa.Field) == "Destination" {
			if fa.X == mu.Value || sameValue(fa.X, mu.Value) {
				return true, "key is the stored entry's Destination field"
			}
			// c.Destination where value = c.WithFileInfoDefaults(...) (copy keeps Destination)
			if call, ok := mu.Value.(*ssa.Call); ok && len(call.Call.Args) > 0 && call.Call.Args[0] == fa.X {
				return true, "key is the Destination of the entry the stored copy is made from"
			}
		}
	}
	// idiom 2: the stored entry is a literal/copy whose Destination field is
	// assigned from the key value (or the same normaliser call on it)
	key := mu.Key
	val := mu.Value
	if call, ok := val.(*ssa.Call); ok && len(call.Call.Args) > 0 {
		val = call.Call.Args[0] // (&Content{...}).WithFileInfoDefaults(...)
	}
	if al, ok := val.(*ssa.Alloc); ok {
		for _, ref := range *al.Referrers() {
			fa, ok := ref.(*ssa.FieldAddr)
			if !ok || fieldName(fa.X.Type(), fa.Field) != "Destination" {
				continue
			}
			for _, r2 := range *fa.Referrers() {
				st, ok := r2.(*ssa.Store)
				if !ok {
					continue
				}
				if st.Val == key {
					return true, "stored entry's Destination is assigned the key value"
				}
				if call, ok := st.Val.(*ssa.Call); ok && len(call.Call.Args) == 1 && call.Call.Args[0] == key {
					if o := calleeObj(call); o != nil && strings.HasPrefix(o.Name(), "NormalizeAbsolute") {
						return true, "stored entry's Destination is the (idempotent) normalisation of the key value"
					}
				}
			}
		}
	}
	return false, "could not prove that the key denotes the stored entry's Destination"
}

// parentsBeforeInsert: O5 — the function that inserts a declared entry calls
// the parent-closure helper on the same map before it (for inserts made inside
// a closure: before the closure is created).
func parentsBeforeInsert(c *Ctx, fn *ssa.Function, mu *ssa.MapUpdate) (bool, string) {
	// the parent-closure helper itself: inserts only implicit dirs
	if insertsOnlyImplicitDirs(fn, mu) {
		return true, "this insert is the parent-closure helper itself (stores an implicit directory)"
	}
	check := func(f *ssa.Function, before ssa.Instruction, m ssa.Value) bool {
		ok := false
		forEachInstr(f, func(in ssa.Instruction) {
			call, isCall := in.(*ssa.Call)
			if !isCall || ok {
				return
			}
			sc := call.Call.StaticCallee()
			if sc == nil || !isParentHelper(sc) {
				return
			}
			if before != nil && !instrDominates(call, before) {
				return
			}
			ok = true
		})
		return ok
	}
	if check(fn, mu, mu.Map) {
		return true, "dominated by a call to the parent-closure helper"
	}
	if p := fn.Parent(); p != nil {
		// find the MakeClosure in the parent
		var mk ssa.Instruction
		forEachInstr(p, func(in ssa.Instruction) {
			if mc, ok := in.(*ssa.MakeClosure); ok && mc.Fn == fn {
				mk = mc
			}
		})
		if mk != nil && check(p, mk, nil) {
			return true, "the enclosing function calls the parent-closure helper before creating this closure (walk visits directories before their children)"
		}
	}
	return false, "no call to the parent-closure helper dominates this insert: ancestors of the entry may be missing from the plan"
}

func insertsOnlyImplicitDirs(fn *ssa.Function, mu *ssa.MapUpdate) bool {
	return implicitDirValue(mu.Value, 0)
}

// implicitDirValue: v is a freshly built entry of the implied-directory type -
// a composite literal, or the result of a constructor all of whose returns
// are such literals.
func implicitDirValue(v ssa.Value, depth int) bool {
	if call, isCall := v.(*ssa.Call); isCall && depth < 2 {
		sc := call.Call.StaticCallee()
		if sc == nil || len(sc.Blocks) == 0 {
			return false
		}
		n := 0
		for _, b := range sc.Blocks {
			if ret, isRet := b.Instrs[len(b.Instrs)-1].(*ssa.Return); isRet && len(ret.Results) == 1 {
				n++
				if !implicitDirValue(ret.Results[0], depth+1) {
					return false
				}
			}
		}
		return n > 0
	}
	al, ok := v.(*ssa.Alloc)
	if !ok {
		return false
	}
	for _, ref := range *al.Referrers() {
		fa, ok := ref.(*ssa.FieldAddr)
		if !ok || fieldName(fa.X.Type(), fa.Field) != "Type" {
			continue
		}
		for _, r2 := range *fa.Referrers() {
			if st, ok := r2.(*ssa.Store); ok {
				if k, ok := st.Val.(*ssa.Const); ok && constString(k) == typeImplicitDir {
					return true
				}
			}
		}
	}
	return false
}

// isParentHelper: a function that inserts implicit directories into a content map.
func isParentHelper(fn *ssa.Function) bool {
	found := false
	forEachInstr(fn, func(in ssa.Instruction) {
		if mu, ok := in.(*ssa.MapUpdate); ok && isContentMap(mu.Map.Type()) && insertsOnlyImplicitDirs(fn, mu) {
			found = true
		}
	})
	return found
}

// checkKeyForms (K3): when entries are stored in the destination map under
// more than one key spelling (directories with a trailing slash, everything
// else without), a collision check that looks up only the inserting entry's
// own spelling cannot see an occupant of the other kind at the same
// destination. Every insert must therefore be dominated by collision lookups
// covering every key form in use.
func checkKeyForms(c *Ctx, r *Report, reach map[*ssa.Function]bool) {
	pa := newProv(c)
	type site struct {
		fn  *ssa.Function
		mu  *ssa.MapUpdate
		ord int
	}
	_ = pa
	formOf := func(v ssa.Value, fn *ssa.Function) map[string]bool { return keySpellings(c, v, fn, 0) }
	var sites []site
	forms := map[string]bool{}
	for _, fn := range sortedFuncs(c, reach) {
		if c.funcPkgPath(fn) != filesPath {
			continue
		}
		n := 0
		forEachInstr(fn, func(in ssa.Instruction) {
			mu, ok := in.(*ssa.MapUpdate)
			if !ok || !isContentMap(mu.Map.Type()) {
				return
			}
			n++
			sites = append(sites, site{fn, mu, n})
			for f := range formOf(mu.Key, fn) {
				forms[f] = true
			}
		})
	}
	if len(forms) <= 1 {
		r.Pass("K3", "destination map uses a single key spelling", "-", "all inserts normalise their key through "+joinSorted(forms))
		return
	}
	for _, s := range sites {
		covered := map[string]bool{}
		var keys []ssa.Value
		var rawSwitch []ssa.Instruction
		nkeys := 0
		for _, g := range guardsOf(c, s.fn, s.mu) {
			if g.index == nil {
				// a helper probing the map: its lookups, with this call's arguments
				for f := range g.forms {
					covered[f] = true
				}
				nkeys += g.nkeys
				continue
			}
			// a key obtained from the helper that switches between the two
			// spellings covers the other kind only if the helper is given this
			// entry's own normalised key: handed a raw destination it decides
			// by the raw spelling (a trailing slash in the configuration)
			if call, ok := g.index.(*ssa.Call); ok && call.Call.StaticCallee() != nil && len(g.forms) > 1 && len(call.Call.Args) == 1 {
				if len(formOf(call.Call.Args[0], s.fn)) == 0 {
					rawSwitch = append(rawSwitch, g.at)
					continue
				}
			}
			for f := range g.forms {
				covered[f] = true
			}
			dup := false
			for _, k := range keys {
				if sameValue(k, g.index) {
					dup = true
				}
			}
			if !dup {
				keys = append(keys, g.index)
				nkeys++
			}
		}
		// one looked-up key has one spelling at run time, whatever the set of
		// spellings it may have statically: two spellings need two lookups
		if nkeys < len(forms) {
			covered = map[string]bool{}
			if len(keys) == 1 && nkeys == 1 {
				for f := range formOf(keys[0], s.fn) {
					covered["own spelling: "+f] = true
				}
			}
		}
		// inside a closure: lookups made by the enclosing function before the
		// closure is created do not count (they concern the tree root only)
		var missing []string
		for f := range forms {
			if !covered[f] {
				missing = append(missing, f)
			}
		}
		sort.Strings(missing)
		construct := fmt.Sprintf("insert#%d in %s", s.ord, c.funcKey(s.fn))
		if len(missing) > 0 && len(rawSwitch) > 0 {
			r.Fail("K3", construct, c.instrPos(rawSwitch[0]), "the lookup of the other key spelling is computed from the raw destination, not from this entry's normalised key: for a destination spelled with a trailing slash it probes the entry's own key again and an occupant of the other kind goes unnoticed")
			continue
		}
		r.Check(len(missing) == 0, "K3", construct, c.instrPos(s.mu),
			fmt.Sprintf("entries are keyed under %d spellings (%s) but the collision lookups before this insert cover only {%s}: an occupant of the other kind at the same destination (a file where a directory is added, or a parent directory that is a file) is not detected", len(forms), joinSorted(forms), joinSorted(covered)))
	}
}

// keySpellings: the spelling of a map key is decided by the outermost
// normaliser applied to it; a helper that returns results of several
// normalisers yields all of their spellings.
func keySpellings(c *Ctx, v ssa.Value, fn *ssa.Function, depth int) map[string]bool {
	out := map[string]bool{}
	if depth > 6 || v == nil {
		return out
	}
	switch x := v.(type) {
	case *ssa.Call:
		for _, sc := range calleeCandidates(c, &x.Call) {
			if c.funcPkgPath(sc) != filesPath {
				continue
			}
			if strings.HasPrefix(sc.Name(), "Normalize") && sc.Object() != nil && sc.Object().Exported() {
				out[sc.Name()] = true
				continue
			}
			for _, b := range sc.Blocks {
				if ret, ok := b.Instrs[len(b.Instrs)-1].(*ssa.Return); ok {
					for _, res := range retResults(ret) {
						for f := range keySpellings(c, res, sc, depth+1) {
							out[f] = true
						}
					}
				}
			}
		}
	case *ssa.Phi:
		for _, e := range x.Edges {
			for f := range keySpellings(c, e, fn, depth+1) {
				out[f] = true
			}
		}
	case *ssa.UnOp:
		// a local variable held in a cell (captured by a closure, reassigned)
		if al, ok := x.X.(*ssa.Alloc); ok {
			for _, ref := range *al.Referrers() {
				if st, ok := ref.(*ssa.Store); ok && st.Addr == ssa.Value(al) {
					for f := range keySpellings(c, st.Val, fn, depth+1) {
						out[f] = true
					}
				}
			}
			return out
		}
		if fa, ok := x.X.(*ssa.FieldAddr); ok && fieldName(fa.X.Type(), fa.Field) == "Destination" {
			forEachInstr(fn, func(in ssa.Instruction) {
				st, ok := in.(*ssa.Store)
				if !ok {
					return
				}
				if fa2, ok := st.Addr.(*ssa.FieldAddr); ok && fieldName(fa2.X.Type(), fa2.Field) == "Destination" && sameValue(fa2.X, fa.X) {
					for f := range keySpellings(c, st.Val, fn, depth+1) {
						out[f] = true
					}
				}
			})
		}
	}
	return out
}

var candPA *provAnalysis
var candCtx *Ctx

// calleeCandidates: the functions a call can invoke - its static callee, or,
// for a call through a func-typed parameter, the function values bound to
// that parameter at the module's call sites of the enclosing function.
func calleeCandidates(c *Ctx, call *ssa.CallCommon) []*ssa.Function {
	if sc := call.StaticCallee(); sc != nil {
		return []*ssa.Function{sc}
	}
	prm, ok := call.Value.(*ssa.Parameter)
	if !ok {
		return nil
	}
	if candPA == nil || candCtx != c {
		candPA, candCtx = newProv(c), c
	}
	fn := prm.Parent()
	idx := -1
	for i, q := range fn.Params {
		if q == prm {
			idx = i
		}
	}
	var out []*ssa.Function
	for _, cs := range candPA.callSites(fn) {
		if cs.Common().StaticCallee() != fn || idx < 0 || idx >= len(cs.Common().Args) {
			continue
		}
		switch a := cs.Common().Args[idx].(type) {
		case *ssa.Function:
			out = append(out, a)
		case *ssa.MakeClosure:
			if f, ok := a.Fn.(*ssa.Function); ok {
				out = append(out, f)
			}
		default:
			return nil // not a known function at some site
		}
	}
	return out
}

// reachesExpansion: the function (transitively, inside package files) calls
// the glob or tree-walk machinery.
func reachesExpansion(c *Ctx, fn *ssa.Function) bool {
	found := false
	for g := range c.Reach(fn) {
		forEachInstr(g, func(in ssa.Instruction) {
			if call, ok := in.(ssa.CallInstruction); ok {
				if calleeIs(call, globPath, "", "Glob") || calleeIs(call, "path/filepath", "", "WalkDir") || calleeIs(call, "path/filepath", "", "Walk") {
					found = true
				}
			}
		})
	}
	return found
}

// insertsParamEntry: the inserted value is the defaults-filled copy of an
// entry the function received as a parameter (the declared entry itself, not
// an implied parent or an expanded file).
func insertsParamEntry(mu *ssa.MapUpdate) bool {
	call, ok := mu.Value.(*ssa.Call)
	if !ok {
		return false
	}
	sc := call.Call.StaticCallee()
	if sc == nil || sc.Name() != "WithFileInfoDefaults" || len(call.Call.Args) == 0 {
		return false
	}
	_, isParam := call.Call.Args[0].(*ssa.Parameter)
	return isParam
}

// guardLookup is a collision probe that dominates an insert: a comma-ok
// lookup on the destination map, or a call of a module helper that performs
// such lookups on the map it is handed and returns (occupant, found).
type guardLookup struct {
	at    ssa.Instruction
	val   ssa.Value // the occupant (Extract #0), may be nil
	ok    ssa.Value // the found flag (Extract #1)
	index ssa.Value // key of a direct lookup (nil for a helper)
	forms map[string]bool
	nkeys int
	via   *ssa.Call // the call of an error-returning probe helper the lookup sits in (nil: in the inserting function)
}

func guardsOf(c *Ctx, fn *ssa.Function, mu *ssa.MapUpdate) []guardLookup {
	var out []guardLookup
	extracts := func(v ssa.Value) (val, ok ssa.Value) {
		if v.Referrers() == nil {
			return
		}
		for _, ref := range *v.Referrers() {
			if ex, isEx := ref.(*ssa.Extract); isEx {
				switch ex.Index {
				case 0:
					val = ex
				case 1:
					ok = ex
				}
			}
		}
		return
	}
	forEachInstr(fn, func(in ssa.Instruction) {
		switch x := in.(type) {
		case *ssa.Lookup:
			if !x.CommaOk || !sameValue(x.X, mu.Map) || !instrDominates(x, mu) {
				return
			}
			v, ok := extracts(x)
			out = append(out, guardLookup{at: x, val: v, ok: ok, index: x.Index, forms: keySpellings(c, x.Index, fn, 0), nkeys: 1})
		case *ssa.Call:
			sc := x.Call.StaticCallee()
			if sc == nil || sc.Blocks == nil || !c.isModuleFunc(sc) || !instrDominates(x, mu) {
				return
			}
			// which parameter receives the map?
			mi := -1
			for i, a := range x.Call.Args {
				if sameValue(a, mu.Map) {
					mi = i
				}
			}
			res := sc.Signature.Results()
			if mi >= 0 && mi < len(sc.Params) && res.Len() == 1 && (types.Identical(res.At(0).Type(), errorType) || isContentPtr(res.At(0).Type())) && onlyProbes(sc, sc.Params[mi]) {
				// a probe helper that reports the collision itself: its
				// lookups guard the insert through the error it returns
				forEachInstr(sc, func(i2 ssa.Instruction) {
					lk, isLk := i2.(*ssa.Lookup)
					if !isLk || !lk.CommaOk || lk.X != ssa.Value(sc.Params[mi]) {
						return
					}
					v, ok := extracts(lk)
					g := guardLookup{at: lk, val: v, ok: ok, forms: keySpellingsAt(c, lk.Index, sc, x), nkeys: literalKeyCount(lk.Index), via: x}
					// the helper's key is the same field of the same entry as the insert's key
					if ld, isLd := lk.Index.(*ssa.UnOp); isLd && ld.Op == token.MUL {
						if fa, isFA := ld.X.(*ssa.FieldAddr); isFA {
							if prm, isPrm := fa.X.(*ssa.Parameter); isPrm {
								for i, q := range sc.Params {
									if q != prm || i >= len(x.Call.Args) {
										continue
									}
									if ld2, ok2 := mu.Key.(*ssa.UnOp); ok2 && ld2.Op == token.MUL {
										if fa2, ok3 := ld2.X.(*ssa.FieldAddr); ok3 && fa2.Field == fa.Field && (fa2.X == x.Call.Args[i] || sameValue(fa2.X, x.Call.Args[i])) {
											g.index = mu.Key
											g.forms = keySpellings(c, mu.Key, fn, 0)
										}
									}
								}
							}
						}
					}
					out = append(out, g)
				})
				return
			}
			if mi < 0 || mi >= len(sc.Params) || res.Len() != 2 || !isContentPtr(res.At(0).Type()) {
				return
			}
			if b, isB := res.At(1).Type().Underlying().(*types.Basic); !isB || b.Kind() != types.Bool {
				return
			}
			forms := map[string]bool{}
			n := 0
			forEachInstr(sc, func(i2 ssa.Instruction) {
				lk, isLk := i2.(*ssa.Lookup)
				if !isLk || !lk.CommaOk || lk.X != ssa.Value(sc.Params[mi]) {
					return
				}
				n++
				for f := range keySpellingsAt(c, lk.Index, sc, x) {
					forms[f] = true
				}
			})
			if n == 0 {
				return
			}
			v, ok := extracts(x)
			out = append(out, guardLookup{at: x, val: v, ok: ok, forms: forms, nkeys: n})
		}
	})
	return out
}

// keySpellingsAt: spellings of a key expression inside a helper, with the
// helper's parameters standing for the arguments of one call of it.
func keySpellingsAt(c *Ctx, v ssa.Value, helper *ssa.Function, call *ssa.Call) map[string]bool {
	// the key variable of a loop over a literal list of keys
	// (`for _, key := range [...]string{dst, otherKind(dst)}`): every listed key
	if elems := literalListElems(v); len(elems) > 0 {
		out := map[string]bool{}
		for _, e := range elems {
			for f := range keySpellingsAt(c, e, helper, call) {
				out[f] = true
			}
		}
		return out
	}
	if prm, ok := v.(*ssa.Parameter); ok {
		for i, q := range helper.Params {
			if q == prm && i < len(call.Call.Args) {
				return keySpellings(c, call.Call.Args[i], call.Parent(), 0)
			}
		}
	}
	if cv, ok := v.(*ssa.Call); ok {
		if sc := cv.Call.StaticCallee(); sc != nil && len(cv.Call.Args) == 1 {
			inner := keySpellingsAt(c, cv.Call.Args[0], helper, call)
			outer := keySpellings(c, v, helper, 0)
			if len(outer) > 1 && len(inner) > 0 {
				// the spelling switcher applied to a normalised key: the other spelling
				out := map[string]bool{}
				for f := range outer {
					if !inner[f] {
						out[f] = true
					}
				}
				if len(out) > 0 {
					return out
				}
			}
			return outer
		}
	}
	return keySpellings(c, v, helper, 0)
}

// checkParentsOfCleanPath (O5-parents-clean): the ancestors that are added
// for an entry are those of its *normalised* destination. The enumeration of
// ancestors (the loop over filepath.Dir) must start from a value that went
// through files.NormalizeAbsolute*, inside the enumerating function or at
// every call site that feeds it: started from a raw destination such as
// "../x" it yields ".." and a directory above the root is planned.
func checkParentsOfCleanPath(c *Ctx, r *Report, reach map[*ssa.Function]bool) {
	n := 0
	for _, fn := range sortedFuncs(c, reach) {
		if c.funcPkgPath(fn) != filesPath {
			continue
		}
		forEachInstr(fn, func(in ssa.Instruction) {
			call, ok := in.(*ssa.Call)
			if !ok || !(calleeIs(call, "path/filepath", "", "Dir") || calleeIs(call, "path", "", "Dir")) {
				return
			}
			phi, ok := call.Call.Args[0].(*ssa.Phi)
			if !ok {
				return
			}
			// the loop-carried ancestor: one edge is the Dir result itself
			cyc := false
			var starts []ssa.Value
			for _, e := range phi.Edges {
				if e == ssa.Value(call) {
					cyc = true
				} else {
					starts = append(starts, e)
				}
			}
			if !cyc {
				return
			}
			n++
			okAll := true
			why := "the enumeration starts from a normalised path"
			for _, st := range starts {
				if ok, w := startsNormalised(c, st, map[ssa.Value]bool{}, 0); !ok {
					okAll = false
					why = w
				}
			}
			r.Check(okAll, "O5-parents-clean", "ancestors enumerated in "+c.funcKey(fn)+" are those of the normalised destination", c.instrPos(call), why)
		})
	}
	r.Floor("O5-parents-clean", n, 1)
}

func startsNormalised(c *Ctx, v ssa.Value, seen map[ssa.Value]bool, d int) (bool, string) {
	if v == nil || d > 10 {
		return false, "definition chain too deep to decide"
	}
	if seen[v] {
		return true, ""
	}
	seen[v] = true
	switch x := v.(type) {
	case *ssa.Call:
		o := calleeObj(x)
		if o == nil {
			return false, "result of a dynamic call"
		}
		if sc := x.Call.StaticCallee(); sc != nil && c.funcPkgPath(sc) == filesPath && strings.HasPrefix(sc.Name(), "NormalizeAbsolute") {
			return true, ""
		}
		switch qualifiedName(o) {
		case "strings.Trim", "strings.TrimLeft", "strings.TrimRight", "strings.TrimSuffix", "strings.TrimPrefix", "path/filepath.ToSlash", "path/filepath.Clean", "path.Clean":
			return startsNormalised(c, x.Call.Args[0], seen, d+1)
		}
		if sc := x.Call.StaticCallee(); sc != nil && sc.Blocks != nil && c.isModuleFunc(sc) && len(x.Call.Args) == 1 {
			return startsNormalised(c, x.Call.Args[0], seen, d+1)
		}
		return false, "result of " + funcObjName(o)
	case *ssa.Phi:
		for _, e := range x.Edges {
			if ok, w := startsNormalised(c, e, seen, d+1); !ok {
				return false, w
			}
		}
		return true, ""
	case *ssa.Parameter:
		fn := x.Parent()
		idx := -1
		for i, p := range fn.Params {
			if p == x {
				idx = i
			}
		}
		if candPA == nil || candCtx != c {
			candPA, candCtx = newProv(c), c
		}
		sites := candPA.callSites(fn)
		if len(sites) == 0 || idx < 0 {
			return false, "parameter " + x.Name() + " of " + c.funcKey(fn) + " (no call site to inspect)"
		}
		for _, cs := range sites {
			if cs.Common().StaticCallee() != fn || idx >= len(cs.Common().Args) {
				continue
			}
			a := cs.Common().Args[idx]
			if len(keySpellings(c, a, cs.Parent(), 0)) > 0 {
				continue
			}
			if ok, w := startsNormalised(c, a, seen, d+1); !ok {
				if strings.HasPrefix(w, "at ") {
					return false, w
				}
				return false, fmt.Sprintf("at %s the path handed to %s is the destination as configured (%s), not its normalised form: for a destination such as \"../x\" the ancestors enumerated are \"..\" - a directory above the root is added to the plan", c.instrPos(cs), c.funcKey(fn), shorten(valueExpr(c, a, 0), 60))
			}
		}
		return true, ""
	case *ssa.UnOp:
		if al, ok := x.X.(*ssa.Alloc); ok {
			for _, ref := range *al.Referrers() {
				if st, ok := ref.(*ssa.Store); ok && st.Addr == ssa.Value(al) {
					if ok2, w := startsNormalised(c, st.Val, seen, d+1); !ok2 {
						return false, w
					}
				}
			}
			return true, ""
		}
		return false, "a raw field read " + shorten(valueExpr(c, v, 0), 60)
	}
	return false, "unrecognised definition " + shorten(valueExpr(c, v, 0), 60)
}

// sortedAtReturn: the value returned at ret is sorted - a sort call on that very
// slice dominates the return, or the value is the result of a helper every one
// of whose returns hands back a slice sorted in the same sense.
func sortedAtReturn(fn *ssa.Function, v ssa.Value, ret *ssa.Return, depth int) bool {
	ok := false
	forEachInstr(fn, func(in ssa.Instruction) {
		call, isCall := in.(*ssa.Call)
		if !isCall {
			return
		}
		if !(calleeIs(call, "sort", "", "Sort") || calleeIs(call, "sort", "", "Stable") || calleeIs(call, "slices", "", "SortFunc") || calleeIs(call, "slices", "", "SortStableFunc")) {
			return
		}
		arg := call.Call.Args[0]
		if mi, isMI := arg.(*ssa.MakeInterface); isMI {
			arg = mi.X
		}
		if sameValue(arg, v) && instrDominates(call, ret) {
			ok = true
		}
	})
	if ok || depth == 0 {
		return ok
	}
	idx := 0
	if ex, isEx := v.(*ssa.Extract); isEx {
		idx = ex.Index
		v = ex.Tuple
	}
	call, isCall := v.(*ssa.Call)
	if !isCall {
		return false
	}
	sc := call.Call.StaticCallee()
	if sc == nil || len(sc.Blocks) == 0 {
		return false
	}
	rets := 0
	for _, b := range sc.Blocks {
		r2, isRet := b.Instrs[len(b.Instrs)-1].(*ssa.Return)
		if !isRet {
			continue
		}
		res := retResults(r2)
		if idx >= len(res) {
			return false
		}
		if k, isK := res[idx].(*ssa.Const); isK && k.IsNil() {
			continue
		}
		rets++
		if !sortedAtReturn(sc, res[idx], r2, depth-1) {
			return false
		}
	}
	return rets > 0
}

// onlyProbes: the helper only looks the map parameter up - it neither updates
// it nor hands it on.
func onlyProbes(fn *ssa.Function, m *ssa.Parameter) bool {
	if m.Referrers() == nil {
		return false
	}
	n := 0
	for _, ref := range *m.Referrers() {
		switch x := ref.(type) {
		case *ssa.Lookup:
			if x.X == ssa.Value(m) {
				n++
				continue
			}
			return false
		case *ssa.DebugRef:
		default:
			return false
		}
	}
	return n > 0
}

// checkOtherKindFails (K2c): an occupant of the other kind - a non-directory
// where a directory is wanted, or the reverse - is never tolerated: from the
// occupied edge of a probe under the other spelling every path ends in an
// error return, whatever the occupant is (no `continue`, no type test that
// lets some occupants through).
func checkOtherKindFails(c *Ctx, r *Report, fn *ssa.Function, mu *ssa.MapUpdate, construct string, collisionFns map[*ssa.Function]bool) {
	insSp := joinSorted(keySpellings(c, mu.Key, fn, 0))
	for li, g := range guardsOf(c, fn, mu) {
		if g.via != nil || g.ok == nil || g.ok.Referrers() == nil || g.index == nil {
			continue
		}
		// under the insert's own key an implied directory may be replaced
		// (K2b decides for which occupants): there the occupied edge may also
		// end at the insert itself - but nowhere else
		own := sameValue(g.index, mu.Key) || joinSorted(g.forms) == insSp
		if own && insertsOnlyImplicitDirs(fn, mu) {
			continue // an implied parent that is already there (as a directory) is simply not added again
		}
		for _, ref := range *g.ok.Referrers() {
			ifi, ok := ref.(*ssa.If)
			if !ok {
				continue
			}
			occupied := ifi.Block().Succs[0]
			home := g.at.Block()
			bad := ""
			seen := map[*ssa.BasicBlock]bool{}
			var dfs func(b *ssa.BasicBlock)
			dfs = func(b *ssa.BasicBlock) {
				if seen[b] || bad != "" {
					return
				}
				seen[b] = true
				if own && b == mu.Block() {
					return // the replacement
				}
				if b != occupied && (b == home || b.Dominates(home)) {
					bad = "control returns to " + c.instrPos(b.Instrs[0]) + " (the scan goes on)"
					return
				}
				if ret, isRet := b.Instrs[len(b.Instrs)-1].(*ssa.Return); isRet {
					fails := errorIsNonNilAt(ret)
					if !fails {
						res := retResults(ret)
						if len(res) > 0 {
							v := res[len(res)-1]
							if ex, isEx := v.(*ssa.Extract); isEx {
								v = ex.Tuple
							}
							if cl, isCl := v.(*ssa.Call); isCl {
								if sc := cl.Call.StaticCallee(); sc != nil && collisionFns[sc] {
									fails = true
								}
							}
						}
					}
					if !fails {
						bad = "the return at " + c.instrPos(ret) + " can report success"
					}
					return
				}
				for _, s := range b.Succs {
					dfs(s)
				}
			}
			dfs(occupied)
			if own {
				r.Check(bad == "", "K2c", fmt.Sprintf("%s [lookup#%d under the insert's key]: an occupant fails or is replaced", construct, li+1), c.instrPos(g.at),
					"from the edge on which the destination is occupied "+bad+": for some occupants the new entry would be dropped without the collision being reported")
				continue
			}
			r.Check(bad == "", "K2c", fmt.Sprintf("%s [lookup#%d under the other spelling]: an occupant always fails", construct, li+1), c.instrPos(g.at),
				"from the edge on which an entry of the other kind occupies the destination "+bad+": an entry beneath a non-directory (or a file at a directory's place) would be accepted for some occupants")
		}
	}
}

// checkChangelogJoinsPlan (K5-changelog): the member deb generates for a
// configured changelog takes a destination like any declared entry, and the
// planner is what rejects a collision with one. The function that adds the
// generated entry therefore adds it on every path once a changelog is
// configured - a test of the declared contents in front of it ("already
// there") would let a declared entry at that destination silently win.
func checkChangelogJoinsPlan(c *Ctx, r *Report) {
	checkImplicitOnlyDirs(c, r)
	// the selection of the entries addressed to a packager (Config.Get) leaves
	// the configuration's own list alone: filtered in place, the next format's
	// selection starts from what the previous one kept (rule of C11)
	if get := c.Method("", "Config", "Get"); get != nil {
		tmpS := newReport("tmp")
		nSites := checkSharedSlicesIn(c, tmpS, c.Reach(get))
		for _, o := range tmpS.Obls {
			if o.Rule == "W3-shared-slice" {
				o.Rule = "select-W3-shared-slice"
				r.Obls = append(r.Obls, o)
			}
		}
		r.Pass("select-W3-shared-slice", "Config.Get: slice writes below the selection examined", c.pos(get.Pos()), fmt.Sprintf("%d element store / append / in-place call site(s) examined in %d function(s)", nSites, len(c.Reach(get))))
	}
	pk := c.PackagerByFormat("deb")
	if pk == nil {
		return
	}
	n, nPlan := 0, 0
	defer func() { r.Floor("K5-before-plan", nPlan, 1) }()
	for _, fn := range sortedFuncs(c, c.Reach(pk.Package)) {
		if c.funcPkgPath(fn) != pk.PkgPath {
			continue
		}
		// the function that creates an entry of the changelog type
		creates := false
		forEachInstr(fn, func(in ssa.Instruction) {
			st, ok := in.(*ssa.Store)
			if !ok {
				return
			}
			fa, ok := st.Addr.(*ssa.FieldAddr)
			if !ok || !isContentPtr(fa.X.Type()) || fieldName(fa.X.Type(), fa.Field) != "Type" {
				return
			}
			if k, isK := st.Val.(*ssa.Const); isK && isConstString(k) && constString(k) == typeDebChangelog {
				creates = true
			}
		})
		if !creates {
			continue
		}
		n++
		ev := newEvaluator(c)
		info := newAObj("info")
		info.Fields["Changelog"] = cStr("changelog.yaml")
		ev.Defaults[c.infoPtrKey()] = info
		fr := ev.Explore(fn, make([]AV, len(fn.Params)))
		must := fr != nil && fr.MustReach(func(in ssa.Instruction, _ *Frame) bool {
			st, ok := in.(*ssa.Store)
			if !ok {
				return false
			}
			p, root := addrPath(st.Addr)
			return root != nil && strings.HasSuffix(p, "Contents") && isPtrToNamed(root.Type(), modPath, "Info")
		})
		r.Check(must, "K5-changelog", "deb: the generated changelog entry joins the contents whenever a changelog is configured ("+c.funcKey(fn)+")", c.pos(fn.Pos()),
			"with a changelog configured some path returns without adding the entry: a declared entry at the changelog's destination would take its place without the collision being reported")
		// ... and it joins them before the plan is made: an entry appended
		// to the prepared contents is never checked for a collision, has no
		// parent directories and stands behind the sorted entries
		prep := c.Func("", "PrepareForPackager")
		for _, host := range sortedFuncs(c, c.Reach(pk.Package)) {
			if c.funcPkgPath(host) != pk.PkgPath || prep == nil {
				continue
			}
			var prepCalls, addCalls []*ssa.Call
			forEachInstr(host, func(in ssa.Instruction) {
				call, ok := in.(*ssa.Call)
				if !ok || call.Call.StaticCallee() == nil {
					return
				}
				sc := call.Call.StaticCallee()
				if sc == prep {
					prepCalls = append(prepCalls, call)
				} else if sc == fn || (c.isModuleFunc(sc) && c.Reach(sc)[fn]) {
					addCalls = append(addCalls, call)
				}
			})
			for i, pc := range prepCalls {
				before := false
				for _, ac := range addCalls {
					if ac.Block() == pc.Block() && instrIndexOf(ac) < instrIndexOf(pc) || ac.Block() != pc.Block() && ac.Block().Dominates(pc.Block()) {
						before = true
					}
				}
				r.Check(before, "K5-before-plan", fmt.Sprintf("deb: the changelog entry is added before the plan is made (PrepareForPackager#%d in %s)", i+1, c.funcKey(host)), c.instrPos(pc),
					"no call adding the generated changelog entry dominates this PrepareForPackager call: the entry would be appended to contents that are already planned - unchecked for collisions, without its parent directories, out of order")
				nPlan++
			}
		}
	}
	r.Floor("K5-changelog", n, 1)
}

// literalKeyCount: the number of keys a lookup probes - the length of the
// literal key list when its index is the variable of a loop over one, else 1.
func literalKeyCount(v ssa.Value) int {
	if n := len(literalListElems(v)); n > 0 {
		return n
	}
	return 1
}

// literalListElems: v is the element variable of a loop over a local literal
// array or slice (`range [...]T{a, b}` indexes a copy of the array value,
// `range []T{a, b}` loads through an element address): the listed values.
func literalListElems(v ssa.Value) []ssa.Value {
	var arr *ssa.Alloc
	var self ssa.Value
	switch x := v.(type) {
	case *ssa.Index:
		if ld, ok := x.X.(*ssa.UnOp); ok && ld.Op == token.MUL {
			arr, _ = ld.X.(*ssa.Alloc)
		}
	case *ssa.UnOp:
		if x.Op != token.MUL {
			return nil
		}
		ia, ok := x.X.(*ssa.IndexAddr)
		if !ok {
			return nil
		}
		self = ia
		switch y := ia.X.(type) {
		case *ssa.Alloc:
			arr = y
		case *ssa.Slice:
			arr, _ = y.X.(*ssa.Alloc)
		}
	}
	if arr == nil || arr.Referrers() == nil {
		return nil
	}
	byIdx := map[int64]ssa.Value{}
	for _, ref := range *arr.Referrers() {
		ea, ok := ref.(*ssa.IndexAddr)
		if !ok || ssa.Value(ea) == self || ea.Referrers() == nil {
			continue
		}
		k, isConst := ea.Index.(*ssa.Const)
		if !isConst {
			continue
		}
		for _, r2 := range *ea.Referrers() {
			if st, ok := r2.(*ssa.Store); ok && st.Addr == ssa.Value(ea) {
				byIdx[k.Int64()] = st.Val
			}
		}
	}
	var out []ssa.Value
	for i := int64(0); i < int64(len(byIdx)); i++ {
		if e, ok := byIdx[i]; ok {
			out = append(out, e)
		}
	}
	return out
}

// returnsValueFrom: some return reachable from start hands back v.
func returnsValueFrom(start *ssa.BasicBlock, v ssa.Value) bool {
	seen := map[*ssa.BasicBlock]bool{}
	var dfs func(b *ssa.BasicBlock) bool
	dfs = func(b *ssa.BasicBlock) bool {
		if seen[b] {
			return false
		}
		seen[b] = true
		if ret, ok := b.Instrs[len(b.Instrs)-1].(*ssa.Return); ok {
			for _, res := range retResults(ret) {
				if res == v {
					return true
				}
			}
			return false
		}
		for _, s := range b.Succs {
			if dfs(s) {
				return true
			}
		}
		return false
	}
	return dfs(start)
}

// checkSortedSearches (K6-sorted-search): a binary search answers "absent" for
// elements of a list that is not sorted. Every binary search in the planner's
// packages therefore runs over a package-level list whose initial value is one
// literal of constants in ascending order - a list glued together from two
// sorted lists, or sorted later, cannot be shown sorted.
func checkSortedSearches(c *Ctx, r *Report) {
	n := 0
	for _, fn := range c.ModFuncs {
		pp := c.funcPkgPath(fn)
		if pp != filesPath && pp != globPath && pp != modPath {
			continue
		}
		forEachInstr(fn, func(in ssa.Instruction) {
			call, ok := in.(*ssa.Call)
			if !ok || len(call.Call.Args) == 0 {
				return
			}
			o := calleeObj(call)
			if o == nil {
				return
			}
			switch qualifiedName(o) {
			case "slices.BinarySearch", "slices.BinarySearchFunc", "sort.SearchStrings", "sort.SearchInts":
			default:
				return
			}
			n++
			construct := fmt.Sprintf("binary search#%d in %s runs over a sorted list", n, c.funcKey(fn))
			g := rootGlobal(call.Call.Args[0])
			if g == nil {
				r.Fail("K6-sorted-search", construct, c.instrPos(call), "the list searched is not a package-level table: its order cannot be decided")
				return
			}
			why := "the table " + globalName(g) + " is not initialised by one literal of constants"
			okSorted := false
			if init := g.Pkg.Func("init"); init != nil {
				forEachInstr(init, func(i2 ssa.Instruction) {
					st, ok := i2.(*ssa.Store)
					if !ok || st.Addr != ssa.Value(g) {
						return
					}
					sl, ok := st.Val.(*ssa.Slice)
					if !ok {
						return
					}
					elems := variadicOrdered(sl)
					prev := ""
					sorted := len(elems) > 0
					for i, e := range elems {
						k, isK := e.(*ssa.Const)
						if !isK || !isConstString(k) {
							sorted = false
							why = "the table " + globalName(g) + " holds non-constant elements"
							break
						}
						if i > 0 && constString(k) < prev {
							sorted = false
							why = fmt.Sprintf("the table %s is not in ascending order: %q comes after %q", globalName(g), constString(k), prev)
							break
						}
						prev = constString(k)
					}
					okSorted = sorted
				})
			}
			r.Check(okSorted, "K6-sorted-search", construct, c.instrPos(call), why+": elements the search misses are treated as absent (a directory owned by the filesystem package would be planned as an explicit directory)")
		})
	}
	r.Count("binary_searches", n)
}

// checkGlobIntoDir (G-into-dir): "a destination ending in '/' places each match
// in that directory under its base name". In the glob expansion the branch
// that places a match under filepath.Base of itself is taken on exactly one
// condition, evaluated for every match: strings.HasSuffix(<dst parameter>, "/")
// - not a flag computed beforehand that other facts (the source being a
// directory) can switch off.
func checkGlobIntoDir(c *Ctx, r *Report) {
	g := c.Func("internal/glob", "Glob")
	if g == nil {
		r.Unresolved("glob.Glob", "function not found")
		return
	}
	n := 0
	pa := newProv(c)
	var fns []*ssa.Function
	for _, fn := range sortedFuncs(c, c.Reach(g)) {
		if c.funcPkgPath(fn) == c.funcPkgPath(g) {
			fns = append(fns, fn)
		}
	}
	// the guard seen from Glob: a helper's parameter stands for what its
	// single call site passes
	var resolve func(v ssa.Value, fn *ssa.Function, d int) (ssa.Value, *ssa.Function)
	resolve = func(v ssa.Value, fn *ssa.Function, d int) (ssa.Value, *ssa.Function) {
		prm, ok := v.(*ssa.Parameter)
		if !ok || fn == g || d > 2 {
			return v, fn
		}
		idx := -1
		for i, q := range fn.Params {
			if q == prm {
				idx = i
			}
		}
		sites := pa.callSites(fn)
		if idx < 0 || len(sites) != 1 || idx >= len(sites[0].Common().Args) {
			return v, fn
		}
		return resolve(sites[0].Common().Args[idx], sites[0].Parent(), d+1)
	}
	for _, fn := range fns {
		forEachInstr(fn, func(in ssa.Instruction) {
			call, ok := in.(*ssa.Call)
			if !ok || !calleeIs(call, "path/filepath", "", "Base") {
				return
			}
			// the test that guards the block using the base name
			b := call.Block()
			var cond ssa.Value
			for d := b; d != nil && cond == nil; d = d.Idom() {
				for _, p := range d.Preds {
					if ifi, isIf := p.Instrs[len(p.Instrs)-1].(*ssa.If); isIf && p.Succs[0] == d && len(d.Preds) == 1 {
						cond = ifi.Cond
					}
				}
				if d == b.Parent().Blocks[0] {
					break
				}
			}
			n++
			ok2 := false
			why := "the placement under the base name is not guarded by a test at all"
			if cond != nil {
				cv, cfn := resolve(cond, fn, 0)
				why = "the guard is " + shorten(valueExpr(c, cv, 0), 80)
				if hs, isCall := cv.(*ssa.Call); isCall && calleeIs(hs, "strings", "", "HasSuffix") && len(hs.Call.Args) == 2 && constOrEmpty(hs.Call.Args[1]) == "/" {
					av, afn := resolve(hs.Call.Args[0], cfn, 0)
					if prm, isPrm := av.(*ssa.Parameter); isPrm && afn == g && prm.Parent() == g {
						ok2 = true
					}
				}
			}
			r.Check(ok2, "G-into-dir", fmt.Sprintf("glob.Glob: base-name placement#%d is decided by the destination's trailing slash alone", n), c.instrPos(call),
				"expected the guard strings.HasSuffix(dst, \"/\") on the destination parameter; "+why+": for some sources a destination ending in '/' would not place the match directly in that directory")
		})
	}
	r.Floor("G-into-dir", n, 1)
}

// checkNoSilentDedup (K7-no-dedup): every entry of the contents is decided on
// its own - selected for the packager or not, placed, checked against the
// plan. The planner keeps no side table of entries it has "seen" by which a
// later entry is dropped without a word: two entries that agree in type,
// source and destination may still differ in what the table's key leaves out
// (the packager tag), and the one dropped may be the only one addressed to
// the format being planned.
func checkNoSilentDedup(c *Ctx, r *Report, reach map[*ssa.Function]bool) {
	n := 0
	for _, fn := range sortedFuncs(c, reach) {
		pp := c.funcPkgPath(fn)
		if pp != filesPath && pp != globPath {
			continue
		}
		written := map[string]bool{}
		forEachInstr(fn, func(in ssa.Instruction) {
			if mu, ok := in.(*ssa.MapUpdate); ok && !isContentMap(mu.Map.Type()) {
				if k := exprKey(mu.Map); k != "" {
					written[k] = true
				}
			}
		})
		if len(written) == 0 {
			continue
		}
		forEachInstr(fn, func(in ssa.Instruction) {
			lk, ok := in.(*ssa.Lookup)
			if !ok || !lk.CommaOk || !written[exprKey(lk.X)] || lk.Referrers() == nil {
				return
			}
			for _, ref := range *lk.Referrers() {
				ex, ok := ref.(*ssa.Extract)
				if !ok || ex.Index != 1 || ex.Referrers() == nil {
					continue
				}
				for _, r2 := range *ex.Referrers() {
					ifi, ok := r2.(*ssa.If)
					if !ok {
						continue
					}
					n++
					found := ifi.Block().Succs[0]
					home := lk.Block()
					silent := false
					seen := map[*ssa.BasicBlock]bool{}
					var dfs func(b *ssa.BasicBlock)
					dfs = func(b *ssa.BasicBlock) {
						if seen[b] || silent {
							return
						}
						seen[b] = true
						if b != found && (b == home || b.Dominates(home)) {
							silent = true
							return
						}
						if _, isRet := b.Instrs[len(b.Instrs)-1].(*ssa.Return); isRet {
							return
						}
						for _, i2 := range b.Instrs {
							if mu, ok := i2.(*ssa.MapUpdate); ok && exprKey(mu.Map) == exprKey(lk.X) {
								return // the entry found is replaced, not the new one dropped
							}
						}
						for _, s := range b.Succs {
							dfs(s)
						}
					}
					dfs(found)
					r.Check(!silent, "K7-no-dedup", fmt.Sprintf("side table %s in %s does not drop entries silently", shorten(valueExpr(c, lk.X, 0), 30), c.funcKey(fn)), c.instrPos(lk),
						"an element found in a table the loop itself fills is skipped and the loop goes on: the later of two entries that agree in the table's key is dropped without an error, whatever else distinguishes them (their packager tags)")
				}
			}
		})
	}
	r.Count("side_table_lookups_in_planner", n)
}

// checkImplicitOnlyDirs (K8-implicit-only-dirs): an entry is marked as an
// implied directory (one the packagers leave out) either when it is built as
// one, or where the same entry has just been marked a directory. A demotion
// that also reaches files and links drops them from the package whenever their
// destination coincides with a path the filesystem package owns.
func checkImplicitOnlyDirs(c *Ctx, r *Report) {
	n := 0
	for _, fn := range c.ModFuncs {
		if c.funcPkgPath(fn) != modPath+"/files" {
			continue
		}
		k := 0
		forEachInstr(fn, func(in ssa.Instruction) {
			st, ok := in.(*ssa.Store)
			if !ok {
				return
			}
			fa, ok := st.Addr.(*ssa.FieldAddr)
			if !ok || !isContentPtr(fa.X.Type()) || fieldName(fa.X.Type(), fa.Field) != "Type" {
				return
			}
			kv, isK := st.Val.(*ssa.Const)
			if !isK || !isConstString(kv) || constString(kv) != typeImplicitDir {
				return
			}
			n++
			k++
			// other stores to the Type of the same object
			var others []*ssa.Store
			if refs := fa.X.Referrers(); refs != nil {
				for _, ref := range *refs {
					fa2, ok := ref.(*ssa.FieldAddr)
					if !ok || fa2 == fa || fieldName(fa2.X.Type(), fa2.Field) != "Type" {
						continue
					}
					for _, r2 := range *fa2.Referrers() {
						if s2, ok := r2.(*ssa.Store); ok && s2.Addr == fa2 {
							others = append(others, s2)
						}
					}
				}
			}
			okDir := len(others) == 0
			if _, fresh := fa.X.(*ssa.Alloc); !fresh && len(others) == 0 {
				okDir = false // an entry handed in: its kind is not known here
			}
			for _, s2 := range others {
				k2, isK2 := s2.Val.(*ssa.Const)
				if !isK2 || !isConstString(k2) || constString(k2) != typeDir {
					continue
				}
				if s2.Block() == st.Block() && instrIndexOf(s2) < instrIndexOf(st) || s2.Block() != st.Block() && s2.Block().Dominates(st.Block()) {
					okDir = true
				}
			}
			if !okDir {
				// a test of the entry's own type in front of the store
				for _, ref := range *fa.X.Referrers() {
					fa2, ok := ref.(*ssa.FieldAddr)
					if !ok || fieldName(fa2.X.Type(), fa2.Field) != "Type" {
						continue
					}
					for _, r2 := range *fa2.Referrers() {
						ld, ok := r2.(*ssa.UnOp)
						if !ok {
							continue
						}
						for _, r3 := range *ld.Referrers() {
							bo, ok := r3.(*ssa.BinOp)
							if !ok || bo.Op != token.EQL {
								continue
							}
							kk, _ := bo.Y.(*ssa.Const)
							if kk == nil || !isConstString(kk) || constString(kk) != typeDir {
								continue
							}
							for _, r4 := range *bo.Referrers() {
								if ifi, ok := r4.(*ssa.If); ok && (ifi.Block().Succs[0] == st.Block() || ifi.Block().Succs[0].Dominates(st.Block())) && len(ifi.Block().Succs[0].Preds) == 1 {
									okDir = true
								}
							}
						}
					}
				}
			}
			r.Check(okDir, "K8-implicit-only-dirs", fmt.Sprintf("implied-directory mark#%d in %s is set on a directory", k, c.funcKey(fn)), c.instrPos(st),
				"the entry is demoted to an implied directory on a path where it was not just marked (or tested to be) a directory: a file or link whose destination is a path the filesystem package owns is left out of the package")
		})
	}
	r.Floor("K8-implicit-only-dirs", n, 2)
}
