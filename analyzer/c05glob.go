package main

import (
	"fmt"
	"go/token"
	"strings"

	"golang.org/x/tools/go/ssa"
)

// G-base / G-prefix: the destination of a globbed or tree-walked file is
// dst + (source path relative to a base directory). The base has to be a
// whole directory: a base that ends inside a path component ("build/lib" for
// matches in build/lib/ and build/lib64/) makes filepath.Rel produce
// "../"-paths that leave the destination. Two structural necessary
// conditions are decided:
//
//	G-base    every definition of the base argument of filepath.Rel in the
//	          planner packages is the entry's own configured path, or was cut
//	          at a separator by filepath.Dir / path.Dir after any string
//	          slicing (a common *string* prefix is not a directory);
//	G-prefix  no path containment test or cut in a function that computes such
//	          a base (it holds the Rel call, or its result is traced into the
//	          base) uses a bare string prefix: the prefix argument of strings.HasPrefix /
//	          TrimPrefix / CutPrefix is a constant, ends in a separator by
//	          construction (x + "/"), or is the volume name of the same path.
//
// Which directory is the deepest common one for a given match list is a
// property of run-time strings and is not decided.

func plannerPkgFuncs(c *Ctx) []*ssa.Function {
	var out []*ssa.Function
	for _, fn := range c.ModFuncs {
		pp := c.funcPkgPath(fn)
		if pp == modPath+"/files" || pp == modPath+"/internal/glob" {
			out = append(out, fn)
		}
	}
	return sortedFuncs(c, funcSet(out))
}

func funcSet(fns []*ssa.Function) map[*ssa.Function]bool {
	m := map[*ssa.Function]bool{}
	for _, f := range fns {
		m[f] = true
	}
	return m
}

type barePrefixHit struct {
	Call ssa.CallInstruction
	Fn   *ssa.Function
	OK   bool
	Why  string
}

func scanPrefixTests(c *Ctx, fns []*ssa.Function) []barePrefixHit {
	var hits []barePrefixHit
	for _, fn := range fns {
		forEachInstr(fn, func(in ssa.Instruction) {
			call, ok := in.(ssa.CallInstruction)
			if !ok {
				return
			}
			o := calleeObj(call)
			if o == nil {
				return
			}
			switch qualifiedName(o) {
			case "strings.HasPrefix", "strings.TrimPrefix", "strings.CutPrefix":
			default:
				return
			}
			args := call.Common().Args
			if len(args) < 2 {
				return
			}
			if _, isConst := args[1].(*ssa.Const); isConst {
				return
			}
			h := barePrefixHit{Call: call, Fn: fn}
			switch x := args[1].(type) {
			case *ssa.BinOp:
				if k, isK := x.Y.(*ssa.Const); isK && x.Op == token.ADD && k.Value != nil {
					if s := constString(k); strings.HasSuffix(s, "/") || strings.HasSuffix(s, "\\") {
						h.OK, h.Why = true, "idiom: prefix ends in a separator by construction"
					}
				}
			case *ssa.Call:
				if o2 := calleeObj(x); o2 != nil && qualifiedName(o2) == "path/filepath.VolumeName" && len(x.Call.Args) == 1 && sameValue(x.Call.Args[0], args[0]) {
					h.OK, h.Why = true, "idiom: volume name of the same path"
				}
			}
			if !h.OK {
				h.Why = "the prefix " + shorten(valueExpr(c, args[1], 0), 80) + " is a bare string: \"lib\" is a string prefix of \"lib64/x\" without containing it"
			}
			hits = append(hits, h)
		})
	}
	return hits
}

func checkGlobBase(c *Ctx, r *Report) {
	fns := plannerPkgFuncs(c)
	// functions that compute a base: those holding a Rel call and the module
	// functions (with their callees) whose result is traced into a base
	relevant := map[*ssa.Function]bool{}
	nrel := 0
	perFn := map[string]int{}
	for _, fn := range fns {
		forEachInstr(fn, func(in ssa.Instruction) {
			call, ok := in.(*ssa.Call)
			if !ok {
				return
			}
			o := calleeObj(call)
			if o == nil || qualifiedName(o) != "path/filepath.Rel" {
				return
			}
			nrel++
			fk := c.funcKey(fn)
			perFn[fk]++
			construct := fmt.Sprintf("%s: base of filepath.Rel#%d", fk, perFn[fk])
			relevant[fn] = true
			ok2, why := baseIsDirectory(c, call.Call.Args[0], relevant)
			r.Check(ok2, "G-base", construct, c.instrPos(call), why)
		})
	}
	r.Floor("G-base", nrel, 2)
	np := 0
	perFn = map[string]int{}
	for _, h := range scanPrefixTests(c, fns) {
		if !relevant[h.Fn] {
			continue
		}
		np++
		fk := c.funcKey(h.Fn)
		perFn[fk]++
		r.Check(h.OK, "G-prefix", fmt.Sprintf("%s: %s#%d with a computed prefix", fk, calleeName(h.Call), perFn[fk]), c.instrPos(h.Call), h.Why)
	}
	r.Count("computed_prefix_tests", np)
	checkFixture(c, r, []string{"bare-prefix"})
	checkCutsets(c, r, fns)
	checkRootedClean(c, r)
	checkGlobSource(c, r, fns)
}

// checkCutsets (G-cutset): strings.Trim/TrimLeft/TrimRight take a *set* of
// characters. A constant cutset of several characters that contains a path
// character ("./") strips every leading '.' and '/' - "/.cache/x" becomes
// "cache/x" and collides with "/cache/x" - where a prefix was meant.
func checkCutsets(c *Ctx, r *Report, fns []*ssa.Function) {
	n := 0
	perFn := map[string]int{}
	for _, fn := range fns {
		forEachInstr(fn, func(in ssa.Instruction) {
			call, ok := in.(*ssa.Call)
			if !ok {
				return
			}
			o := calleeObj(call)
			if o == nil {
				return
			}
			switch qualifiedName(o) {
			case "strings.Trim", "strings.TrimLeft", "strings.TrimRight":
			default:
				return
			}
			k, ok := call.Call.Args[1].(*ssa.Const)
			if !ok {
				return
			}
			cut := constOrEmpty(k)
			n++
			fk := c.funcKey(fn)
			perFn[fk]++
			bad := len(cut) > 1 && strings.ContainsAny(cut, "./\\")
			r.Check(!bad, "G-cutset", fmt.Sprintf("%s: %s#%d cutset", fk, calleeName(call), perFn[fk]), c.instrPos(call),
				fmt.Sprintf("cutset %q: a multi-character cutset with path characters strips all of them, not a prefix/suffix (\"/.cache\" and \"/cache\" get the same name)", cut))
		})
	}
	r.Floor("G-cutset", n, 2)
}

// checkRootedClean (G-rooted): the absolute-path normalisers anchor the path
// at "/" *before* it is cleaned (filepath.Join("/", p), Clean("/"+p)), so
// that ".." components cannot climb above the root; cleaning first and
// prepending "/" afterwards leaves "/../etc/x". Every return of
// files.NormalizeAbsolute* must be such a rooted-then-cleaned value, possibly
// with a suffix appended.
func checkRootedClean(c *Ctx, r *Report) {
	n := 0
	for _, fn := range c.ModFuncs {
		if c.funcPkgPath(fn) != filesPath || fn.Object() == nil || !fn.Object().Exported() || !strings.HasPrefix(fn.Name(), "NormalizeAbsolute") {
			continue
		}
		n++
		ok := true
		why := "every return is cleaned after being anchored at the root"
		for _, b := range fn.Blocks {
			ret, isRet := b.Instrs[len(b.Instrs)-1].(*ssa.Return)
			if !isRet {
				continue
			}
			for _, res := range retResults(ret) {
				rootedWhy = ""
				if !cleanedRooted(c, res, map[*ssa.Parameter]bool{}, 0) {
					ok = false
					if rootedWhy != "" {
						why = rootedWhy
						continue
					}
					why = fmt.Sprintf("the value returned at %s (%s) is not cleaned after being anchored at \"/\": a destination with leading \"..\" components would stay above the root (\"/../etc/x\") and neither collide with \"/etc/x\" nor get its real parents", c.instrPos(ret), shorten(valueExpr(c, res, 0), 100))
				}
			}
		}
		r.Check(ok, "G-rooted", "files."+fn.Name()+" anchors at the root before cleaning", c.pos(fn.Pos()), why)
	}
	r.Floor("G-rooted", n, 2)
}

var rootedWhy string

func isRootedInput(c *Ctx, v ssa.Value, env map[*ssa.Parameter]bool, d int) bool {
	switch x := v.(type) {
	case *ssa.Const:
		return strings.HasPrefix(constOrEmpty(x), "/")
	case *ssa.BinOp:
		if x.Op == token.ADD {
			return isRootedInput(c, x.X, env, d+1)
		}
	}
	return cleanedRooted(c, v, env, d)
}

func cleanedRooted(c *Ctx, v ssa.Value, env map[*ssa.Parameter]bool, d int) bool {
	if d > 10 || v == nil {
		return false
	}
	switch x := v.(type) {
	case *ssa.Const:
		return constOrEmpty(x) == "/"
	case *ssa.Parameter:
		return env[x]
	case *ssa.Phi:
		for _, e := range x.Edges {
			if !cleanedRooted(c, e, env, d+1) {
				return false
			}
		}
		return len(x.Edges) > 0
	case *ssa.BinOp:
		// a suffix appended to a cleaned, rooted path
		if x.Op != token.ADD || !cleanedRooted(c, x.X, env, d+1) {
			return false
		}
		// ... a "/" suffix doubles the slash when the cleaned path is the root
		// itself, unless the root is told apart first
		if k, ok := x.Y.(*ssa.Const); ok && strings.HasPrefix(constOrEmpty(k), "/") {
			guarded := false
			if x.X.Referrers() != nil {
				for _, ref := range *x.X.Referrers() {
					if cmp, ok := ref.(*ssa.BinOp); ok && (cmp.Op == token.EQL || cmp.Op == token.NEQ) {
						for _, side := range []ssa.Value{cmp.X, cmp.Y} {
							if kk, ok := side.(*ssa.Const); ok && constOrEmpty(kk) == "/" {
								guarded = true
							}
						}
					}
				}
			}
			if !guarded {
				rootedWhy = fmt.Sprintf("at %s a \"/\" is appended to a cleaned path without telling the root apart: for the root the result is \"//\", which is not a clean path and matches no key of the plan", c.instrPos(x))
				return false
			}
		}
		return true
	case *ssa.Call:
		o := calleeObj(x)
		if o == nil {
			return false
		}
		switch qualifiedName(o) {
		case "path/filepath.Join", "path.Join":
			elems := variadicElems(x.Call.Args[0])
			return len(elems) > 0 && isRootedInput(c, elems[0], env, d+1)
		case "path/filepath.Clean", "path.Clean":
			return isRootedInput(c, x.Call.Args[0], env, d+1)
		case "path/filepath.ToSlash", "path/filepath.FromSlash", "strings.TrimSuffix", "strings.TrimRight":
			return cleanedRooted(c, x.Call.Args[0], env, d+1)
		}
		sc := x.Call.StaticCallee()
		if sc == nil || sc.Blocks == nil || !c.isModuleFunc(sc) {
			return false
		}
		env2 := map[*ssa.Parameter]bool{}
		for i, p := range sc.Params {
			if i < len(x.Call.Args) {
				env2[p] = isRootedInput(c, x.Call.Args[i], env, d+1)
			}
		}
		any := false
		for _, b := range sc.Blocks {
			if ret, ok := b.Instrs[len(b.Instrs)-1].(*ssa.Return); ok {
				for _, res := range retResults(ret) {
					any = true
					if !cleanedRooted(c, res, env2, d+1) {
						return false
					}
				}
			}
		}
		return any
	}
	return false
}

// baseIsDirectory traces every definition of a Rel base back to its leaves.
func baseIsDirectory(c *Ctx, v ssa.Value, visited map[*ssa.Function]bool) (bool, string) {
	pa := newProv(c)
	seen := map[ssa.Value]bool{}
	var leaves []string
	var bad string
	var walk func(v ssa.Value, d int)
	walk = func(v ssa.Value, d int) {
		if v == nil || seen[v] || bad != "" {
			return
		}
		seen[v] = true
		if d > 12 {
			bad = "definition chain too deep to decide"
			return
		}
		switch x := v.(type) {
		case *ssa.Phi:
			for _, e := range x.Edges {
				walk(e, d+1)
			}
		case *ssa.Parameter:
			// a helper's parameter: every call site's argument
			fn := x.Parent()
			idx := -1
			for i, p := range fn.Params {
				if p == x {
					idx = i
				}
			}
			if fn.Object() != nil && fn.Object().Exported() {
				leaves = append(leaves, "parameter "+x.Name()+" of "+c.funcKey(fn)+" (the caller's configured path)")
				return
			}
			sites := pa.callSites(fn)
			if len(sites) == 0 {
				leaves = append(leaves, "parameter "+x.Name()+" of "+c.funcKey(fn))
			}
			for _, s := range sites {
				if idx >= 0 && idx < len(s.Common().Args) {
					walk(s.Common().Args[idx], d+1)
				}
			}
		case *ssa.UnOp:
			if x.Op != token.MUL {
				bad = "unrecognised definition " + valueExpr(c, v, 0)
				return
			}
			switch a := x.X.(type) {
			case *ssa.Alloc:
				for _, ref := range *a.Referrers() {
					if st, ok := ref.(*ssa.Store); ok && st.Addr == ssa.Value(a) {
						walk(st.Val, d+1)
					}
				}
			case *ssa.FieldAddr:
				leaves = append(leaves, "field "+fieldName(a.X.Type(), a.Field)+" (the entry's configured path)")
			case *ssa.IndexAddr:
				bad = "an element of a computed list (" + valueExpr(c, v, 0) + ": a matched path or a common string prefix, not a directory)"
			default:
				bad = "unrecognised definition " + valueExpr(c, v, 0)
			}
		case *ssa.Extract:
			walk(x.Tuple, d+1)
		case *ssa.Call:
			o := calleeObj(x)
			if o == nil {
				bad = "result of a dynamic call " + valueExpr(c, v, 0)
				return
			}
			switch q := qualifiedName(o); q {
			case "path/filepath.Dir", "path.Dir":
				leaves = append(leaves, "cut at a separator by "+q)
			case "path/filepath.ToSlash", "path/filepath.FromSlash", "path/filepath.Clean", "path.Clean", "path/filepath.Abs":
				walk(x.Call.Args[0], d+1)
			default:
				sc := x.Call.StaticCallee()
				if sc != nil && sc.Blocks != nil && c.isModuleFunc(sc) {
					markCallees(c, sc, visited, 0)
					for _, b := range sc.Blocks {
						if ret, ok := b.Instrs[len(b.Instrs)-1].(*ssa.Return); ok {
							res := retResults(ret)
							if len(res) > 0 {
								walk(res[0], d+1)
							}
						}
					}
					return
				}
				bad = "result of " + q + ", which does not cut at a separator"
			}
		case *ssa.Slice:
			bad = "a string slice " + valueExpr(c, v, 0) + " (a common string prefix can end inside a path component)"
		case *ssa.BinOp:
			bad = "a concatenation " + valueExpr(c, v, 0)
		case *ssa.Const:
			leaves = append(leaves, "constant")
		default:
			bad = "unrecognised definition " + valueExpr(c, v, 0)
		}
	}
	walk(v, 0)
	if bad != "" {
		return false, "the base can be " + bad + " without passing filepath.Dir: relative paths computed against it can start with ../ and leave the destination"
	}
	return true, "base definitions: " + strings.Join(uniqStrings(leaves), "; ")
}

func markCallees(c *Ctx, fn *ssa.Function, set map[*ssa.Function]bool, d int) {
	if set[fn] || d > 6 {
		return
	}
	set[fn] = true
	forEachInstr(fn, func(in ssa.Instruction) {
		if call, ok := in.(ssa.CallInstruction); ok {
			if sc := call.Common().StaticCallee(); sc != nil && sc.Blocks != nil && c.isModuleFunc(sc) {
				markCallees(c, sc, set, d+1)
			}
		}
	})
}

func shorten(s string, n int) string {
	if len(s) <= n {
		return s
	}
	return s[:n] + "…"
}

// checkGlobSource (D5-glob-source): the source->destination map handed to the
// function that plans expanded files is, on every path, the result of
// glob.Glob: the rules of that function (destination ending in '/' means
// "into that directory", structure below the common directory) apply to every
// file or config entry, also with globbing disabled or for a single plain
// file; a map built by hand beside it bypasses them.
func checkGlobSource(c *Ctx, r *Report, fns []*ssa.Function) {
	n := 0
	for _, fn := range fns {
		forEachInstr(fn, func(in ssa.Instruction) {
			call, ok := in.(*ssa.Call)
			if !ok {
				return
			}
			sc := call.Call.StaticCallee()
			if sc == nil || !c.isModuleFunc(sc) {
				return
			}
			for i, a := range call.Call.Args {
				if a.Type().String() != "map[string]string" || i >= len(sc.Params) {
					continue
				}
				// the callee ranges over this map and inserts into the destination map
				inserts := false
				forEachInstr(sc, func(i2 ssa.Instruction) {
					if mu, ok := i2.(*ssa.MapUpdate); ok && isContentMap(mu.Map.Type()) {
						inserts = true
					}
				})
				if !inserts {
					continue
				}
				n++
				bad := ""
				seen := map[ssa.Value]bool{}
				var walk func(v ssa.Value, d int)
				walk = func(v ssa.Value, d int) {
					if v == nil || seen[v] || bad != "" || d > 8 {
						return
					}
					seen[v] = true
					switch x := v.(type) {
					case *ssa.Phi:
						for _, e := range x.Edges {
							walk(e, d+1)
						}
					case *ssa.Extract:
						walk(x.Tuple, d+1)
					case *ssa.Call:
						if !calleeIs(x, globPath, "", "Glob") {
							bad = "the result of " + calleeName(x)
						}
					case *ssa.UnOp:
						if al, ok := x.X.(*ssa.Alloc); ok {
							for _, ref := range *al.Referrers() {
								if st, ok := ref.(*ssa.Store); ok && st.Addr == ssa.Value(al) {
									walk(st.Val, d+1)
								}
							}
							return
						}
						bad = "a value loaded from " + shorten(valueExpr(c, x.X, 0), 60)
					case *ssa.Const:
						// nil map on an error path
					case *ssa.MakeMap:
						bad = "a map built by hand"
					default:
						bad = "an unrecognised value " + shorten(valueExpr(c, v, 0), 60)
					}
				}
				walk(a, 0)
				r.Check(bad == "", "D5-glob-source", fmt.Sprintf("%s: the expansion handed to %s#%d comes from glob.Glob", c.funcKey(fn), c.funcKey(sc), n), c.instrPos(call),
					"the source->destination map can be "+bad+" instead of the result of glob.Glob: the trailing-slash and common-directory rules of glob.Glob would not apply to such entries")
			}
		})
	}
	r.Floor("D5-glob-source", n, 1)
}
