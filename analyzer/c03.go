package main

import (
	"fmt"
	"go/token"
	"go/types"
	"regexp"
	"sort"
	"strings"

	"golang.org/x/tools/go/ssa"
)

func init() { register("C03", checkC03) }

var hashCtors = map[string]string{
	"crypto/md5.New": "md5", "crypto/sha1.New": "sha1", "crypto/sha256.New": "sha256", "crypto/sha512.New": "sha512",
}

func isArchiveWriterType(v ssa.Value) bool {
	if mi, ok := v.(*ssa.MakeInterface); ok {
		v = mi.X
	}
	return isPtrToNamed(v.Type(), "archive/tar", "Writer")
}

// hashAliases: the hash value and its interface conversions / phis.
func hashAliases(h ssa.Value) map[ssa.Value]bool {
	set := map[ssa.Value]bool{}
	var add func(v ssa.Value)
	add = func(v ssa.Value) {
		if v == nil || set[v] || v.Referrers() == nil {
			return
		}
		set[v] = true
		for _, ref := range *v.Referrers() {
			switch x := ref.(type) {
			case *ssa.MakeInterface:
				add(x)
			case *ssa.ChangeInterface:
				add(x)
			case *ssa.Phi:
				add(x)
			}
		}
	}
	add(h)
	return set
}

type hashUse struct {
	feeds    []ssa.Instruction // instructions after which the hash has seen the shipped bytes
	how      []string
	badFeeds []string
	sums     []*ssa.Call
}

// analyseHash classifies how a hash created in fn is fed and where it is read.
func analyseHash(c *Ctx, fn *ssa.Function, h *ssa.Call) hashUse {
	var u hashUse
	al := hashAliases(h)
	for a := range al {
		for _, ref := range *a.Referrers() {
			call, ok := ref.(*ssa.Call)
			if !ok {
				continue
			}
			o := calleeObj(call)
			if o == nil {
				continue
			}
			q := qualifiedName(o)
			switch {
			case o.Name() == "Sum" && callReceiver(call) == a:
				u.sums = append(u.sums, call)
			case o.Name() == "Write" && callReceiver(call) == a:
				// (iii) h.Write(x): the same x must be written to the archive
				x := call.Call.Args[len(call.Call.Args)-1]
				if shippedValue(c, fn, x) {
					u.feeds = append(u.feeds, call)
					u.how = append(u.how, "Write of the same value that is written to the archive")
				} else {
					u.badFeeds = append(u.badFeeds, "fed by Write at "+c.instrPos(call)+" with a value that is not the one written to the archive")
				}
			case q == "io.TeeReader" && len(call.Call.Args) == 2 && call.Call.Args[1] == a:
				// (i) the tee must end up as the source of a copy into the archive
				if cp := teeCopiedToArchive(c, call, 0); cp != nil {
					u.feeds = append(u.feeds, cp)
					u.how = append(u.how, "TeeReader on the stream copied into the archive")
				} else {
					u.badFeeds = append(u.badFeeds, "TeeReader at "+c.instrPos(call)+" is not the source of a copy into the archive")
				}
			case q == "io.Copy" && call.Call.Args[0] == a:
				u.badFeeds = append(u.badFeeds, "fed by a separate io.Copy at "+c.instrPos(call)+" (a second read of the data, not the stream that is shipped)")
			}
		}
	}
	// (ii) element of a MultiWriter together with the archive / output writer
	forEachInstr(fn, func(in ssa.Instruction) {
		call, ok := in.(*ssa.Call)
		if !ok || !calleeIs(call, "io", "", "MultiWriter") {
			return
		}
		elems := variadicOrdered(call.Call.Args[0])
		has, other := false, false
		for _, e := range elems {
			if al[e] {
				has = true
			} else if isArchiveWriterType(e) || isWriterish(e.Type()) {
				other = true
			}
		}
		if !has {
			return
		}
		if !other {
			u.badFeeds = append(u.badFeeds, "MultiWriter at "+c.instrPos(call)+" does not also write to the archive/output")
			return
		}
		// completion: an io.Copy into the MultiWriter, or Close of a compressor layered over it
		done := false
		for _, ref := range *call.Referrers() {
			switch x := ref.(type) {
			case *ssa.Call:
				if calleeIs(x, "io", "", "Copy") && x.Call.Args[0] == ssa.Value(call) {
					u.feeds = append(u.feeds, x)
					u.how = append(u.how, "MultiWriter with the archive writer, fed by one io.Copy")
					done = true
				}
				if o := calleeObj(x); o != nil && wrapperCtors[qualifiedName(o)] {
					// compressor over the MultiWriter: feeding ends at its Close
					for cl := range closesOf(x) {
						u.feeds = append(u.feeds, cl)
						u.how = append(u.how, "sits below the compressor (sees the shipped bytes); complete at the compressor's Close")
						done = true
					}
				}
			}
		}
		if !done {
			u.badFeeds = append(u.badFeeds, "MultiWriter at "+c.instrPos(call)+" is never completed by a copy or a compressor Close")
		}
	})
	return u
}

func closesOf(ctor *ssa.Call) map[*ssa.Call]bool {
	out := map[*ssa.Call]bool{}
	for a := range aliasesOf(ctor) {
		if a.Referrers() == nil {
			continue
		}
		for _, ref := range *a.Referrers() {
			if cl, ok := ref.(*ssa.Call); ok {
				if o := calleeObj(cl); o != nil && o.Name() == "Close" && callReceiver(cl) == a {
					out[cl] = true
				}
			}
		}
	}
	return out
}

// teeCopiedToArchive follows a TeeReader (through further tees) to the io.Copy
// that consumes it; the copy's destination must be an archive writer.
func teeCopiedToArchive(c *Ctx, tee *ssa.Call, depth int) *ssa.Call {
	if depth > 4 {
		return nil
	}
	for _, ref := range *tee.Referrers() {
		call, ok := ref.(*ssa.Call)
		if !ok {
			// stored into a local variable and reloaded (r = io.TeeReader(r, h))
			continue
		}
		if calleeIs(call, "io", "", "Copy") && call.Call.Args[1] == ssa.Value(tee) && (isArchiveWriterType(call.Call.Args[0]) || paramBoundToArchive(c, call.Call.Args[0])) {
			return call
		}
		if calleeIs(call, "io", "", "TeeReader") && call.Call.Args[0] == ssa.Value(tee) {
			if cp := teeCopiedToArchive(c, call, depth+1); cp != nil {
				return cp
			}
		}
	}
	return nil
}

// shippedValue: x is also written to a tar.Writer in fn (directly, or handed
// to a module function that writes its parameter).
func shippedValue(c *Ctx, fn *ssa.Function, x ssa.Value) bool {
	found := false
	for _, ref := range *x.Referrers() {
		call, ok := ref.(*ssa.Call)
		if !ok {
			continue
		}
		if calleeIs(call, "archive/tar", "Writer", "Write") && call.Call.Args[1] == x {
			found = true
		}
		if sc := call.Call.StaticCallee(); sc != nil && sc.Blocks != nil && c.isModuleFunc(sc) {
			for i, a := range call.Call.Args {
				if a == x && i < len(sc.Params) && paramWrittenToTar(c, sc, sc.Params[i], 0) {
					found = true
				}
			}
		}
	}
	if p, ok := x.(*ssa.Parameter); ok && paramWrittenToTar(c, fn, p, 0) {
		found = true
	}
	if p, ok := x.(*ssa.Parameter); ok && !found {
		// a hashing helper below the function that writes the member: the
		// value every caller hands in is shipped there
		found = shippedAtCallers(c, fn, p, 0)
	}
	return found
}

func shippedAtCallers(c *Ctx, fn *ssa.Function, p *ssa.Parameter, depth int) bool {
	if depth > 3 {
		return false
	}
	idx := -1
	for i, q := range fn.Params {
		if q == p {
			idx = i
		}
	}
	sites := newProv(c).callSites(fn)
	if idx < 0 || len(sites) == 0 {
		return false
	}
	for _, cs := range sites {
		if idx >= len(cs.Common().Args) {
			return false
		}
		arg := cs.Common().Args[idx]
		caller := cs.Parent()
		ok := false
		if arg.Referrers() != nil {
			for _, ref := range *arg.Referrers() {
				if call, isCall := ref.(*ssa.Call); isCall && calleeIs(call, "archive/tar", "Writer", "Write") && call.Call.Args[1] == arg {
					ok = true
				}
			}
		}
		if ap, isPrm := arg.(*ssa.Parameter); isPrm && !ok {
			ok = paramWrittenToTar(c, caller, ap, 0) || shippedAtCallers(c, caller, ap, depth+1)
		}
		if !ok {
			return false
		}
	}
	return true
}

func paramWrittenToTar(c *Ctx, fn *ssa.Function, p *ssa.Parameter, depth int) bool {
	if depth > 3 || p.Referrers() == nil {
		return false
	}
	for _, ref := range *p.Referrers() {
		call, ok := ref.(*ssa.Call)
		if !ok {
			continue
		}
		if calleeIs(call, "archive/tar", "Writer", "Write") && call.Call.Args[1] == ssa.Value(p) {
			return true
		}
		if sc := call.Call.StaticCallee(); sc != nil && sc.Blocks != nil && c.isModuleFunc(sc) {
			for i, a := range call.Call.Args {
				if a == ssa.Value(p) && i < len(sc.Params) && paramWrittenToTar(c, sc, sc.Params[i], depth+1) {
					return true
				}
			}
		}
	}
	return false
}

func checkC03(c *Ctx, r *Report) {
	r.Rules = []string{"O1 every digest is fed by the stream that is shipped and read only after it is complete", "O2 apk digests sit below the compressor; datahash/signed digest are the segment writers' results", "F7 md5sums names the header that was written", "F8 mtree verbs bound to the matching fields; .PKGINFO first; one size value", "F9 size accumulators are fed from the copied entries", "F8-line every shipped entry type gets an mtree line", "shipped-F12-apk the apk segments shipped are the buffers that were hashed (imported from C10)", "F9-files-only directories and links add nothing to the installed size", "fresh-T6-no-carried-state no digest (or anything else) is kept in package-level state between builds (rule of C07)", "F8-time the mtree entry's time is the time written to the member's header", "F8-link the mtree link target is the entry's source unrewritten", "F7-files-only directories and links get no md5sums line", "kind-F1-mode-tag an rpm regular file keeps the mode bits that make it one (imported from C01)"}
	r.Explanation = "Stream-coupling and ordering rules over go/ssa for every hash nfpm creates on a packaging path (internal/sign excluded). (O1) each hash must be fed in one of three coupled ways — a TeeReader on the very reader that io.Copy drains into the archive writer, an io.MultiWriter that also contains the archive/output writer and is the destination of one copy or the sink of the compressor, or Write of the same SSA value that is written to the archive — and never by a separate read of the data; every Sum is dominated by the completion of that feeding (the copy, or the Close of the compressor the hash sits under). (O2) in apk the hash is an element of the MultiWriter that is the gzip writer's sink, so it covers the bytes as shipped. (F7) the name printed into md5sums is the Name field of the header handed to WriteHeader. (F8) in the mtree line formats each key=%verb is bound to the like-named field, .PKGINFO's entry is put first, and the .PKGINFO size in the tar header and in the mtree is one value; digests go to the fields of their own algorithm. (F9) installed-size accumulators are fed from the entries' sizes, divided by 1024 for deb/ipk. Digest and size values themselves, and rpmpack's internal digests, are not computed."
	r.Explanation += " (F8-line) the mtree line writer, evaluated for every entry type the archlinux payload writer ships, must reach a write. (shipped-F12-apk, imported from C10) the buffers the apk segments were hashed from are the ones concatenated into the package, all of them, on every path."
	r.Explanation += " (F9-files-only) the payload writer is evaluated for every directory and link type: no addition whose addend derives from the entry's size is live with a value other than the constant zero."
	r.Explanation += " (fresh-T6) rule of C07: a digest cached per source path would describe an earlier build's bytes."
	r.Explanation += " (F8-time) each MtreeEntry.Time (below .Unix()) is the ModTime expression of the tar header built in the same block."
	r.Assumptions = []string{
		"hash.Hash, io.TeeReader, io.MultiWriter and io.Copy behave as documented",
		"rpm header/payload digests and sizes are computed inside rpmpack over the payload it writes (dependency)",
	}
	pa := newProv(c)
	nh := 0
	for _, pk := range c.Packagers {
		for _, fn := range sortedFuncs(c, c.Reach(pk.Package)) {
			if c.funcPkgPath(fn) == signPath {
				continue
			}
			perFn := map[string]int{}
			forEachInstr(fn, func(in ssa.Instruction) {
				h, ok := in.(*ssa.Call)
				if !ok {
					return
				}
				o := calleeObj(h)
				if o == nil {
					return
				}
				algo, isHash := hashCtors[qualifiedName(o)]
				if !isHash {
					return
				}
				// a hash created only to be handed to a module function (apk
				// writeTgz's digest argument) is analysed at its use inside
				perFn[algo]++
				construct := fmt.Sprintf("%s: %s#%d in %s", pk.Format, algo, perFn[algo], c.funcKey(fn))
				targetFn, hv := fn, ssa.Value(h)
				if p := passedAsParam(c, h); p != nil {
					targetFn, hv = p.Parent(), p
				}
				nh++
				var u hashUse
				if hc, ok := hv.(*ssa.Call); ok {
					u = analyseHash(c, targetFn, hc)
				} else {
					u = analyseHashValue(c, targetFn, hv)
				}
				switch {
				case len(u.badFeeds) > 0:
					r.Fail("O1", construct, c.instrPos(h), strings.Join(u.badFeeds, "; ")+": the digest would describe bytes other than those shipped")
				case len(u.feeds) == 0:
					r.Fail("O1", construct, c.instrPos(h), "the digest is never fed from the stream written to the archive")
				default:
					okSum := true
					why := strings.Join(uniqStrings(u.how), "; ")
					for _, s := range u.sums {
						dom := false
						for _, f := range u.feeds {
							if instrDominates(f, s) {
								dom = true
							}
						}
						if !dom {
							okSum = false
							why = fmt.Sprintf("Sum at %s is not dominated by the completion of the feeding: the digest can be read before all shipped bytes went through it", c.instrPos(s))
						}
					}
					if len(u.sums) == 0 {
						okSum = false
						why = "the digest is never read"
					}
					r.Check(okSum, "O1", construct, c.instrPos(h), why)
				}
			})
		}
	}
	r.Floor("O1", nh, 5)
	checkAPKDigestPlacement(c, r)
	checkMd5sumsNames(c, r, pa)
	checkMtree(c, r, pa)
	checkSizes(c, r, pa)
	// the data segment whose digest .PKGINFO announces is the one shipped:
	// the buffers the segments were written into are concatenated, all of
	// them, on every path (shared with C10)
	// a digest describes the bytes shipped by *this* build: nothing on the
	// packaging paths keeps digests (or anything else) in package-level state
	// for a later build (rule of C07)
	checkNoCarriedState(c, r, "fresh-T6-no-carried-state")
	r.Floor("shipped-F12-apk", importRules(c, r, checkC10, "shipped-", []string{"F12-apk"}, func(o Obligation) bool {
		return strings.Contains(o.Construct, "segment order of concatenation")
	}, "apk segments"), 1)
	// rpm takes the size and digest it records from the kind of entry the
	// mode's type bits state: a regular file's mode carries none of the
	// packager's making (rule of C01)
	r.Floor("kind-F1-mode-tag", importRules(c, r, checkC01, "kind-", []string{"F1-mode-tag"}, nil), 1)
}

func uniqStrings(s []string) []string {
	sort.Strings(s)
	return uniq(s)
}

// passedAsParam: the hash is only handed to one module function; returns that
// function's parameter.
func passedAsParam(c *Ctx, h *ssa.Call) *ssa.Parameter {
	var out *ssa.Parameter
	n := 0
	for a := range hashAliases(h) {
		for _, ref := range *a.Referrers() {
			switch x := ref.(type) {
			case *ssa.Call:
				if sc := x.Call.StaticCallee(); sc != nil && sc.Blocks != nil && c.isModuleFunc(sc) {
					for i, arg := range x.Call.Args {
						if arg == a && i < len(sc.Params) {
							out = sc.Params[i]
							n++
						}
					}
				} else {
					n += 10
				}
			case *ssa.MakeInterface, *ssa.ChangeInterface:
			default:
				n += 10
			}
		}
	}
	if n == 1 {
		return out
	}
	return nil
}

func analyseHashValue(c *Ctx, fn *ssa.Function, hv ssa.Value) hashUse {
	var u hashUse
	al := hashAliases(hv)
	for a := range al {
		for _, ref := range *a.Referrers() {
			if call, ok := ref.(*ssa.Call); ok {
				if o := calleeObj(call); o != nil && o.Name() == "Sum" && callReceiver(call) == a {
					u.sums = append(u.sums, call)
				}
			}
		}
	}
	forEachInstr(fn, func(in ssa.Instruction) {
		call, ok := in.(*ssa.Call)
		if !ok || !calleeIs(call, "io", "", "MultiWriter") {
			return
		}
		has, other := false, false
		for _, e := range variadicOrdered(call.Call.Args[0]) {
			if al[e] {
				has = true
			} else if isWriterish(e.Type()) {
				other = true
			}
		}
		if !has || !other {
			return
		}
		for _, ref := range *call.Referrers() {
			if x, ok := ref.(*ssa.Call); ok {
				if o := calleeObj(x); o != nil && wrapperCtors[qualifiedName(o)] {
					for cl := range closesOf(x) {
						u.feeds = append(u.feeds, cl)
						u.how = append(u.how, "element of the MultiWriter that is the compressor's sink (sees the bytes as shipped); complete at the compressor's Close")
					}
				}
				if calleeIs(x, "io", "", "Copy") && x.Call.Args[0] == ssa.Value(call) {
					u.feeds = append(u.feeds, x)
					u.how = append(u.how, "MultiWriter with the output writer, fed by one io.Copy")
				}
			}
		}
	})
	return u
}

func checkAPKDigestPlacement(c *Ctx, r *Report) {
	pk := c.PackagerByFormat("apk")
	if pk == nil {
		return
	}
	found := false
	for _, fn := range sortedFuncs(c, c.Reach(pk.Package)) {
		forEachInstr(fn, func(in ssa.Instruction) {
			mw, ok := in.(*ssa.Call)
			if !ok || !calleeIs(mw, "io", "", "MultiWriter") {
				return
			}
			hasHash := false
			for _, e := range variadicOrdered(mw.Call.Args[0]) {
				if ci, ok := e.(*ssa.ChangeInterface); ok {
					e = ci.X
				}
				if mi, ok := e.(*ssa.MakeInterface); ok {
					e = mi.X
				}
				if strings.HasPrefix(e.Type().String(), "hash.") {
					hasHash = true
				}
			}
			if !hasHash {
				return
			}
			found = true
			below := false
			for _, ref := range *mw.Referrers() {
				if x, ok := ref.(*ssa.Call); ok {
					if o := calleeObj(x); o != nil && strings.Contains(qualifiedName(o), "gzip.NewWriter") && x.Call.Args[0] == ssa.Value(mw) {
						below = true
					}
				}
			}
			r.Check(below, "O2", "apk: digest is below the gzip writer in "+c.funcKey(fn), c.instrPos(mw), "the MultiWriter holding the digest must be the compressor's sink, so that the digest covers the segment as shipped (apk verifies datahash and the signature over compressed bytes)")
		})
	}
	if !found {
		r.Unresolved("apk digest placement", "no MultiWriter with a hash in the apk call graph")
	}
}

func checkMd5sumsNames(c *Ctx, r *Report, pa *provAnalysis) {
	pk := c.PackagerByFormat("deb")
	if pk == nil {
		return
	}
	n := 0
	for _, fn := range sortedFuncs(c, c.Reach(pk.Package)) {
		forEachInstr(fn, func(in ssa.Instruction) {
			call, ok := in.(*ssa.Call)
			if !ok || !calleeIs(call, "fmt", "", "Fprintf") {
				return
			}
			f := constOrEmpty(call.Call.Args[1])
			if !strings.Contains(f, "%x  %s") {
				return
			}
			n++
			elems := variadicOrdered(call.Call.Args[2])
			if len(elems) != 2 {
				r.Fail("F7", "deb md5sums line in "+c.funcKey(fn), c.instrPos(call), "unexpected argument count")
				return
			}
			name := elems[1]
			if mi, ok := name.(*ssa.MakeInterface); ok {
				name = mi.X
			}
			// the line is written by a helper that is handed the name: the
			// rule is applied where the helper is called
			if prm, isPrm := name.(*ssa.Parameter); isPrm {
				idx := -1
				for i, q := range fn.Params {
					if q == prm {
						idx = i
					}
				}
				sites := pa.callSites(fn)
				if idx < 0 || len(sites) == 0 {
					r.Fail("F7", fmt.Sprintf("deb md5sums line#%d in %s", n, c.funcKey(fn)), c.instrPos(call), "the name is a parameter no call site binds")
					return
				}
				n--
				for _, cs := range sites {
					n++
					arg := cs.Common().Args[idx]
					okS, whyS := md5NameMatchesHeader(c, pa, arg, cs.Parent())
					r.Check(okS, "F7", fmt.Sprintf("deb md5sums line#%d in %s", n, c.funcKey(cs.Parent())), c.instrPos(cs), whyS)
				}
				return
			}
			okName, why := md5NameMatchesHeader(c, pa, name, fn)
			r.Check(okName, "F7", fmt.Sprintf("deb md5sums line#%d in %s", n, c.funcKey(fn)), c.instrPos(call), why)
		})
	}
	r.Floor("F7", n, 2)
}

// md5NameMatchesHeader: the name printed in an md5sums line (name, in fn) is
// the name of the member written.
func md5NameMatchesHeader(c *Ctx, pa *provAnalysis, name ssa.Value, fn *ssa.Function) (bool, string) {
	{
		{
			okName := false
			why := ""
			// (a) load of <header>.Name where header is handed to WriteHeader in fn
			if ld, ok := name.(*ssa.UnOp); ok {
				if fa, ok := ld.X.(*ssa.FieldAddr); ok && fieldName(fa.X.Type(), fa.Field) == "Name" {
					forEachInstr(fn, func(i2 ssa.Instruction) {
						if wh, ok := i2.(*ssa.Call); ok && calleeIs(wh, "archive/tar", "Writer", "WriteHeader") && wh.Call.Args[1] == fa.X {
							okName = true
							why = "the name printed is the Name field of the header written"
						}
					})
				}
			}
			// (b) the same helper applied to the same value as the writer of the member applies
			if nc, ok := name.(*ssa.Call); ok && calleeIs(nc, filesPath, "", "AsExplicitRelativePath") {
				arg := nc.Call.Args[0]
				forEachInstr(fn, func(i2 ssa.Instruction) {
					c2, ok := i2.(*ssa.Call)
					if !ok || c2.Call.StaticCallee() == nil || !c.isModuleFunc(c2.Call.StaticCallee()) {
						return
					}
					for i, a := range c2.Call.Args {
						if a != arg || i >= len(c2.Call.StaticCallee().Params) {
							continue
						}
						p := c2.Call.StaticCallee().Params[i]
						// the callee names its header AsExplicitRelativePath(<that parameter>)
						if appliesHelperTo(c, c2.Call.StaticCallee(), p, "AsExplicitRelativePath", 2) {
							okName = true
							why = "the name printed and the member's header name are the same helper applied to the same value"
						}
					}
				})
			}
			if why == "" {
				why = "the md5sums line must name the member exactly as its tar header does (derives from {" + pa.Of(name).String() + "})"
			}
			return okName, why
		}
	}
}

var verbRe = regexp.MustCompile(`(?:([a-z0-9]+)=)?%[0-9.]*[a-zA-Z]`)

func checkMtree(c *Ctx, r *Report, pa *provAnalysis) {
	pk := c.PackagerByFormat("archlinux")
	if pk == nil {
		return
	}
	want := map[string]string{"": "Destination", "time": "Time", "mode": "Mode", "size": "Size", "md5digest": "MD5", "sha256digest": "SHA256", "link": "LinkSource"}
	n := 0
	bound := map[string]bool{}
	fieldOf := func(v ssa.Value) string {
		v = stripIface(v)
		if ld, ok := v.(*ssa.UnOp); ok {
			if fa, ok := ld.X.(*ssa.FieldAddr); ok {
				return fieldName(fa.X.Type(), fa.Field)
			}
		}
		return ""
	}
	keyRe := regexp.MustCompile(`(time|mode|size|md5digest|sha256digest|link)=$`)
	for _, fn := range c.ModFuncs {
		if c.funcPkgPath(fn) != pk.PkgPath {
			continue
		}
		forEachInstr(fn, func(in ssa.Instruction) {
			switch x := in.(type) {
			case *ssa.BinOp:
				// "... link=" + me.LinkSource
				if x.Op != token.ADD {
					return
				}
				left := ""
				switch l := x.X.(type) {
				case *ssa.Const:
					left = constOrEmpty(l)
				case *ssa.BinOp:
					if k, ok := l.Y.(*ssa.Const); ok && l.Op == token.ADD {
						left = constOrEmpty(k)
					}
				}
				m := keyRe.FindStringSubmatch(left)
				if m == nil {
					return
				}
				f := fieldOf(x.Y)
				if f == "" {
					return
				}
				n++
				bound[m[1]] = true
				r.Check(f == want[m[1]], "F8", fmt.Sprintf("archlinux mtree line: key %q (concatenation in %s)", m[1], c.funcKey(fn)), c.instrPos(x), fmt.Sprintf("bound to field %q, expected %q", f, want[m[1]]))
			case *ssa.Call:
				first := -1
				switch {
				case calleeIs(x, "fmt", "", "Fprintf"):
					first = 1
				case calleeIs(x, "fmt", "", "Sprintf"):
					first = 0
				default:
					return
				}
				// one format with its arguments - or, when the format is chosen
				// per entry kind first, the formats and the argument lists that
				// arrive together (the phis of one join, edge by edge)
				type variant struct {
					format string
					elems  []ssa.Value
				}
				var variants []variant
				if f := constOrEmpty(x.Call.Args[first]); f != "" {
					variants = append(variants, variant{f, variadicOrdered(x.Call.Args[first+1])})
				} else if fp, isPhi := x.Call.Args[first].(*ssa.Phi); isPhi {
					ap, isAP := x.Call.Args[first+1].(*ssa.Phi)
					if !isAP || ap.Block() != fp.Block() {
						return
					}
					for i, fe := range fp.Edges {
						seqs := sliceSequences(ap.Edges[i], 0)
						if constOrEmpty(fe) == "" || len(seqs) != 1 {
							return
						}
						variants = append(variants, variant{constOrEmpty(fe), seqs[0]})
					}
				}
				for _, vr := range variants {
					f := vr.format
					if !strings.Contains(f, "time=") && !strings.Contains(f, "type=") && !strings.Contains(f, "digest=") {
						continue
					}
					n++
					ms := verbRe.FindAllStringSubmatch(f, -1)
					elems := vr.elems
					construct := fmt.Sprintf("archlinux mtree line format#%d", n)
					if len(ms) != len(elems) {
						r.Fail("F8", construct, c.instrPos(x), fmt.Sprintf("%d verbs but %d arguments", len(ms), len(elems)))
						continue
					}
					for i, m := range ms {
						field := fieldOf(elems[i])
						key := m[1]
						if _, known := want[key]; !known {
							continue
						}
						bound[key] = true
						r.Check(field == want[key], "F8", fmt.Sprintf("%s: key %q", construct, key), c.instrPos(x), fmt.Sprintf("bound to field %q, expected %q", field, want[key]))
					}
				}
			}
		})
	}
	for key := range want {
		if key != "" && !bound[key] {
			r.Fail("F8", "archlinux mtree line: key "+key, c.pos(pk.Package.Pos()), "no line format binds this key to a field of the entry")
		}
	}
	r.Floor("F8", n, 2)
	checkMtreeLines(c, r)
	checkMtreeSizeAgrees(c, r, pk)
	// digests go to the field of their own algorithm; sizes come from one value
	nLink := 0
	defer func() { r.Floor("F8-link", nLink, 1) }()
	for _, fn := range sortedFuncs(c, c.Reach(pk.Package)) {
		forEachInstr(fn, func(in ssa.Instruction) {
			st, ok := in.(*ssa.Store)
			if !ok {
				return
			}
			fa, ok := st.Addr.(*ssa.FieldAddr)
			if !ok || !strings.HasSuffix(derefType(fa.X.Type()).String(), "MtreeEntry") {
				return
			}
			name := fieldName(fa.X.Type(), fa.Field)
			if name == "LinkSource" {
				// the link target listed is the one the archive carries: the
				// entry's source as it stands (the header's Linkname, C01)
				nLink++
				pv := pa.Of(st.Val)
				rew := ""
				for _, a := range pv.list() {
					if strings.HasPrefix(a, "call:") {
						rew = a
					}
				}
				r.Check(pv.has("Content.Source") && rew == "", "F8-link", fmt.Sprintf("archlinux mtree link target#%d in %s is the entry's source as written", nLink, c.funcKey(fn)), c.instrPos(st),
					fmt.Sprintf("the listed target derives from {%s}; the tar header carries the source itself, so a rewritten target (%s) makes the listing disagree with the link shipped", pv.String(), rew))
				return
			}
			if name != "MD5" && name != "SHA256" {
				return
			}
			algo := digestAlgoOf(c, st.Val, 0)
			want := map[string]string{"MD5": "md5", "SHA256": "sha256"}[name]
			r.Check(algo == want, "F8", fmt.Sprintf("archlinux mtree %s digest in %s", name, c.funcKey(fn)), c.instrPos(st), fmt.Sprintf("field %s is fed from a %q hash, expected %q", name, algo, want))
		})
	}
	// .PKGINFO first: the slice handed to the mtree writer is append([]MtreeEntry{<pkginfo>}, <entries>...)
	okFirst := false
	forEachInstr(pk.Package, func(in ssa.Instruction) {
		call, ok := in.(*ssa.Call)
		if !ok {
			return
		}
		b, ok := call.Call.Value.(*ssa.Builtin)
		if !ok || b.Name() != "append" {
			return
		}
		first := call.Call.Args[0]
		if sl, ok := first.(*ssa.Slice); ok {
			if al, ok := sl.X.(*ssa.Alloc); ok {
				p := pa.Of(al)
				_ = p
				// element 0 is the dereferenced result of the .PKGINFO writer
				for _, ref := range *al.Referrers() {
					if ia, ok := ref.(*ssa.IndexAddr); ok {
						for _, r2 := range *ia.Referrers() {
							if st, ok := r2.(*ssa.Store); ok {
								if ld, ok := st.Val.(*ssa.UnOp); ok {
									if ex, ok := ld.X.(*ssa.Extract); ok {
										if pc, ok := ex.Tuple.(*ssa.Call); ok && pc.Call.StaticCallee() != nil && writesConstHeader(pc.Call.StaticCallee(), ".PKGINFO") {
											okFirst = true
										}
									}
								}
							}
						}
					}
				}
			}
		}
	})
	r.Check(okFirst, "F8", "archlinux: .PKGINFO entry is put first in the mtree list", c.pos(pk.Package.Pos()), "the list handed to the mtree writer must start with the entry returned by the .PKGINFO writer")
	// one size value for header and mtree entry
	for _, fn := range sortedFuncs(c, c.Reach(pk.Package)) {
		if !writesConstHeader(fn, ".PKGINFO") {
			continue
		}
		var hdr, ent ssa.Value
		forEachInstr(fn, func(in ssa.Instruction) {
			st, ok := in.(*ssa.Store)
			if !ok {
				return
			}
			fa, ok := st.Addr.(*ssa.FieldAddr)
			if !ok || fieldName(fa.X.Type(), fa.Field) != "Size" {
				return
			}
			src := st.Val
			if cv, ok := src.(*ssa.Convert); ok {
				src = cv.X
			}
			if isNamed(fa.X.Type(), "archive/tar", "Header") {
				hdr = src
			} else {
				ent = src
			}
		})
		if hdr == nil {
			// the header is built by a helper: the size is the argument that
			// becomes its Size field, in the call that also names the member
			forEachInstr(fn, func(in ssa.Instruction) {
				call, ok := in.(*ssa.Call)
				if !ok {
					return
				}
				sc := call.Call.StaticCallee()
				if sc == nil || sc.Blocks == nil {
					return
				}
				named := false
				for _, a := range call.Call.Args {
					if constOrEmpty(a) == ".PKGINFO" {
						named = true
					}
				}
				if !named {
					return
				}
				for i, a := range call.Call.Args {
					if i < len(sc.Params) && paramBecomesHeaderField(sc, sc.Params[i], "Size", 0) {
						src := a
						if cv, ok := src.(*ssa.Convert); ok {
							src = cv.X
						}
						hdr = src
					}
				}
			})
		}
		r.Check(hdr != nil && hdr == ent, "F8", "archlinux: .PKGINFO size in the tar header and in the mtree entry is one value", c.pos(fn.Pos()), "both sizes must come from the same measurement of the rendered .PKGINFO")
	}
}

func writesConstHeader(fn *ssa.Function, name string) bool {
	found := false
	forEachInstr(fn, func(in ssa.Instruction) {
		switch x := in.(type) {
		case *ssa.Store:
			if isHeaderFieldStore(x, "Name") && constOrEmpty(x.Val) == name {
				found = true
			}
		case *ssa.Call:
			// the constant handed to a module helper whose parameter becomes
			// the header's name (through further helpers)
			sc := x.Call.StaticCallee()
			if sc == nil || sc.Blocks == nil {
				return
			}
			for i, a := range x.Call.Args {
				if constOrEmpty(a) == name && i < len(sc.Params) && paramBecomesHeaderField(sc, sc.Params[i], "Name", 0) {
					found = true
				}
			}
		}
	})
	return found
}

func isHeaderFieldStore(st *ssa.Store, field string) bool {
	fa, ok := st.Addr.(*ssa.FieldAddr)
	return ok && fieldName(fa.X.Type(), fa.Field) == field && isNamed(fa.X.Type(), "archive/tar", "Header")
}

// paramBecomesHeaderField: the parameter is stored into the given field of a
// tar header, here or in a module function it is handed on to.
func paramBecomesHeaderField(fn *ssa.Function, prm *ssa.Parameter, field string, depth int) bool {
	if depth > 3 || prm.Referrers() == nil {
		return false
	}
	for _, ref := range *prm.Referrers() {
		switch x := ref.(type) {
		case *ssa.Store:
			if isHeaderFieldStore(x, field) && x.Val == ssa.Value(prm) {
				return true
			}
		case *ssa.Call:
			sc := x.Call.StaticCallee()
			if sc == nil || sc.Blocks == nil {
				continue
			}
			for i, a := range x.Call.Args {
				if a == ssa.Value(prm) && i < len(sc.Params) && paramBecomesHeaderField(sc, sc.Params[i], field, depth+1) {
					return true
				}
			}
		}
	}
	return false
}

// checkAccumulators: a size accumulator of a payload loop adds, in each
// iteration, only a value produced in that iteration (a constant or a call
// result), never a value carried over from an earlier iteration.
func checkAccumulators(c *Ctx, r *Report) {
	n := 0
	for _, pk := range c.Packagers {
		w := payloadWriter(c, pk)
		if w == nil || pk.Format == "rpm" {
			continue
		}
		fns := []*ssa.Function{w}
		for _, fn := range fns {
			forEachInstr(fn, func(in ssa.Instruction) {
				bo, ok := in.(*ssa.BinOp)
				if !ok || bo.Op != token.ADD || bo.Type().String() != "int64" {
					return
				}
				acc, ok := bo.X.(*ssa.Phi)
				if !ok {
					return
				}
				feedsBack := false
				for _, e := range acc.Edges {
					if e == ssa.Value(bo) {
						feedsBack = true
					}
				}
				if !feedsBack {
					return
				}
				n++
				header := acc.Block()
				stale := ""
				seen := map[ssa.Value]bool{}
				var walk func(v ssa.Value, d int)
				walk = func(v ssa.Value, d int) {
					if d > 8 || seen[v] {
						return
					}
					seen[v] = true
					if p, ok := v.(*ssa.Phi); ok {
						if p.Block() == header && p != acc {
							stale = p.Comment
							if stale == "" {
								stale = p.Name()
							}
							return
						}
						for _, e := range p.Edges {
							walk(e, d+1)
						}
					}
				}
				walk(bo.Y, 0)
				r.Check(stale == "", "F9-acc", fmt.Sprintf("%s: size accumulator in %s", pk.Format, c.funcKey(fn)), c.instrPos(bo),
					"the value added per entry must be produced in the same iteration; a loop-carried value ("+stale+") would re-add an earlier entry's size for entries that have none (directories, symlinks)")
			})
		}
	}
	r.Floor("F9-acc", n, 2)
}

// checkPAXChecksum: apk's per-file checksum record is set on every path
// before the header is written.
func checkPAXChecksum(c *Ctx, r *Report) {
	pk := c.PackagerByFormat("apk")
	if pk == nil {
		return
	}
	n := 0
	for _, fn := range sortedFuncs(c, c.Reach(pk.Package)) {
		forEachInstr(fn, func(in ssa.Instruction) {
			mu, ok := in.(*ssa.MapUpdate)
			if !ok || constOrEmpty(mu.Key) != "APK-TOOLS.checksum.SHA1" {
				return
			}
			n++
			okDom := false
			hasWH := false
			forEachInstr(fn, func(i2 ssa.Instruction) {
				if wh, ok := i2.(*ssa.Call); ok && calleeIs(wh, "archive/tar", "Writer", "WriteHeader") {
					hasWH = true
					okDom = instrDominates(mu, wh)
				}
			})
			if !hasWH {
				// the record is set by a helper of the function that writes the
				// header: set on every successful return of the helper, and the
				// helper's call dominates the header write in every caller
				okHelper := true
				for _, b := range fn.Blocks {
					ret, isRet := b.Instrs[len(b.Instrs)-1].(*ssa.Return)
					if !isRet {
						continue
					}
					success := len(ret.Results) == 0
					if len(ret.Results) > 0 {
						if k, isK := ret.Results[len(ret.Results)-1].(*ssa.Const); isK && k.IsNil() {
							success = true
						}
					}
					if success && b != mu.Block() && !mu.Block().Dominates(b) {
						okHelper = false
					}
				}
				sites := newProv(c).callSites(fn)
				if len(sites) == 0 {
					okHelper = false
				}
				for _, cs := range sites {
					domWH := false
					forEachInstr(cs.Parent(), func(i2 ssa.Instruction) {
						if wh, ok := i2.(*ssa.Call); ok && calleeIs(wh, "archive/tar", "Writer", "WriteHeader") {
							domWH = instrDominates(cs, wh)
						}
					})
					if !domWH {
						okHelper = false
					}
				}
				okDom = okHelper
			}
			r.Check(okDom, "O1-pax", "apk: per-file SHA-1 record set before every header write in "+c.funcKey(fn), c.instrPos(mu), "the APK-TOOLS.checksum.SHA1 record must be set on every path to WriteHeader (also for empty files), otherwise apk cannot verify that member")
		})
	}
	r.Floor("O1-pax", n, 1)
}

// checkSizeOnlyForBodies (F9-files-only): the installed-size accumulators count
// the bytes shipped - entries that ship no body (directories, symbolic links)
// add nothing. The payload writer is evaluated for each such entry type; an
// addition whose addend derives from the entry's size (which, for a link, is
// the size of whatever the link's source happens to name on the build host)
// must not be live, unless the addend is the constant zero there.
func isMD5Line(in ssa.Instruction) bool {
	call, ok := in.(*ssa.Call)
	if !ok || !calleeIs(call, "fmt", "", "Fprintf") || len(call.Call.Args) < 2 {
		return false
	}
	f := constOrEmpty(call.Call.Args[1])
	return strings.Contains(f, "%x") && strings.Contains(f, "%s")
}

func checkSizeOnlyForBodies(c *Ctx, r *Report, pa *provAnalysis) {
	n, nMD5 := 0, 0
	for _, pk := range c.Packagers {
		if pk.Format == "" || pk.Format == "rpm" {
			continue
		}
		w := payloadWriter(c, pk)
		if w == nil {
			continue
		}
		for _, typ := range preparedTypes {
			want := specPayload(pk.Format, typ)
			if want != "DIR" && want != "LINK" {
				continue
			}
			n++
			ev := cellEvaluator(c, typ, nil)
			fr := ev.Explore(w, make([]AV, len(w.Params)))
			bad := ""
			var at ssa.Instruction
			for _, li := range fr.LiveInstrs() {
				bo, ok := li.In.(*ssa.BinOp)
				if !ok || bo.Op != token.ADD {
					continue
				}
				b, isB := bo.Type().Underlying().(*types.Basic)
				if !isB || b.Info()&types.IsInteger == 0 {
					continue
				}
				fromSize := false
				if call, isC := bo.Y.(*ssa.Call); isC {
					if o := calleeObj(call); o != nil && o.Name() == "Size" && len(call.Call.Args) > 0 && isContentPtr(call.Call.Args[0].Type()) {
						fromSize = true
					}
				}
				if !fromSize && pa.Of(bo.Y).has("FileInfo.Size") {
					fromSize = true
				}
				if !fromSize {
					continue
				}
				if li.F != nil {
					if v, known := avInt(li.F.Eval(bo.Y)); known && v == 0 {
						continue
					}
				}
				bad = shorten(valueExpr(c, bo.Y, 0), 60)
				at = bo
			}
			pos := c.pos(w.Pos())
			if at != nil {
				pos = c.instrPos(at)
			}
			r.Check(bad == "", "F9-files-only", fmt.Sprintf("%s: an entry of type %q adds nothing to the installed size", pk.Format, typ), pos,
				"for this entry type the addition of "+bad+" is live: the entry ships no body, and its recorded size is that of whatever its source names on the build host (a link's target), so the stated size exceeds the payload")
			if pk.Format == "deb" {
				// ... and gets no md5sums line ("one line per regular file")
				var line ssa.Instruction
				for _, li := range fr.LiveInstrs() {
					if isMD5Line(li.In) {
						line = li.In
					}
				}
				nMD5++
				lpos := c.pos(w.Pos())
				if line != nil {
					lpos = c.instrPos(line)
				}
				r.Check(line == nil, "F7-files-only", fmt.Sprintf("deb: an entry of type %q gets no md5sums line", typ), lpos,
					"for this entry type the write of a digest line is live: md5sums would list a directory or link (with the digest of nothing), and dpkg --verify reports an untouched installation as modified")
			}
		}
		if pk.Format == "deb" {
			// the recogniser sees the line for a regular file
			ev := cellEvaluator(c, "file", nil)
			fr := ev.Explore(w, make([]AV, len(w.Params)))
			seen := false
			for _, li := range fr.LiveInstrs() {
				if isMD5Line(li.In) {
					seen = true
				}
			}
			r.Check(seen, "F7-files-only", "deb: a regular file gets its md5sums line (control)", c.pos(w.Pos()), "no digest-line write is live for a regular file: the recogniser no longer matches how md5sums is written")
		}
	}
	r.Floor("F9-files-only", n, 8)
	r.Floor("F7-files-only", nMD5, 2)
}

func checkSizes(c *Ctx, r *Report, pa *provAnalysis) {
	checkAccumulators(c, r)
	checkSizeOnlyForBodies(c, r, pa)
	checkPAXChecksum(c, r)
	// deb / ipk: InstalledSize = accumulator / 1024, accumulator fed from entry sizes
	for _, format := range []string{"deb", "ipk"} {
		pk := c.PackagerByFormat(format)
		if pk == nil {
			continue
		}
		ok := false
		var at ssa.Instruction
		spa := newProvScoped(c, c.Reach(pk.Package))
		for _, fn := range sortedFuncs(c, c.Reach(pk.Package)) {
			forEachInstr(fn, func(in ssa.Instruction) {
				st, isS := in.(*ssa.Store)
				if !isS {
					return
				}
				fa, isF := st.Addr.(*ssa.FieldAddr)
				if !isF || fieldName(fa.X.Type(), fa.Field) != "InstalledSize" {
					return
				}
				at = in
				if bo, isB := st.Val.(*ssa.BinOp); isB && bo.Op == token.QUO {
					if k, isK := bo.Y.(*ssa.Const); isK && k.Value != nil && k.Int64() == 1024 {
						p := spa.Of(bo.X)
						if p.has("FileInfo.Size") || p.has("call:builtin.len") {
							ok = true
						}
					}
				}
			})
		}
		pos := c.pos(pk.Package.Pos())
		if at != nil {
			pos = c.instrPos(at)
		}
		r.Check(ok, "F9", format+": Installed-Size is the KiB estimate of the copied entries", pos, "the value must be the accumulated entry sizes divided by 1024")
	}
	for _, format := range []string{"apk", "archlinux"} {
		pk := c.PackagerByFormat(format)
		if pk == nil {
			continue
		}
		ok := false
		w := payloadWriter(c, pk)
		if w != nil {
			for _, fn := range sortedFuncs(c, c.Reach(w)) {
				forEachInstr(fn, func(in ssa.Instruction) {
					bo, isB := in.(*ssa.BinOp)
					if !isB || bo.Op != token.ADD {
						return
					}
					if call, isC := bo.Y.(*ssa.Call); isC {
						if o := calleeObj(call); o != nil && o.Name() == "Size" && isContentPtr(call.Call.Args[0].Type()) {
							ok = true
						}
					}
					// the entry's size handed back by the helper that copied it
					if b, isI := bo.Y.Type().Underlying().(*types.Basic); isI && b.Info()&types.IsInteger != 0 && pa.Of(bo.Y).has("FileInfo.Size") {
						ok = true
					}
				})
			}
		}
		r.Check(ok, "F9", format+": installed size accumulates the entries' sizes", c.pos(pk.Package.Pos()), "the size reported in the metadata must be the sum of Content.Size() over the copied entries")
	}
}

// checkMtreeLines: "one line per payload entry": the mtree line writer,
// evaluated for every entry type the archlinux payload writer ships, reaches
// a formatted write; for a shipped type no path may end without a line.
func checkMtreeLines(c *Ctx, r *Report) {
	pk := c.PackagerByFormat("archlinux")
	if pk == nil {
		return
	}
	mt := c.NamedType(strings.TrimPrefix(pk.PkgPath, modPath+"/"), "MtreeEntry")
	var wt *ssa.Function
	for _, fn := range sortedFuncs(c, c.Reach(pk.Package)) {
		// the io.WriterTo of the entry type
		if fn.Signature.Recv() != nil && mt != nil && types.Identical(derefType(fn.Signature.Recv().Type()), mt) && fn.Name() == "WriteTo" {
			wt = fn
		}
	}
	if wt == nil || mt == nil {
		r.Unresolved("archlinux mtree line writer", "no method of MtreeEntry formats lines")
		return
	}
	n := 0
	for _, typ := range preparedTypes {
		switch specPayload("archlinux", typ) {
		case "DIR", "LINK", "FILE":
		default:
			continue
		}
		n++
		ev := newEvaluator(c)
		obj := newAObj("entry")
		obj.Fields["Type"] = cStr(typ)
		ev.Defaults[types.TypeString(types.NewPointer(mt), nil)] = obj
		fr := ev.Explore(wt, make([]AV, len(wt.Params)))
		must := fr != nil && fr.MustReach(func(in ssa.Instruction, _ *Frame) bool {
			call, ok := in.(*ssa.Call)
			if !ok {
				return false
			}
			if calleeIs(call, "fmt", "", "Fprintf") || calleeIs(call, "fmt", "", "Fprint") || calleeIs(call, "io", "", "WriteString") {
				return true
			}
			return call.Call.IsInvoke() && call.Call.Method.Name() == "Write"
		})
		r.Check(must, "F8-line", fmt.Sprintf("archlinux mtree line for a shipped entry of type %q", typ), c.pos(wt.Pos()),
			"every path through the line writer must write a line for this type: the payload writer ships such entries, an entry without a line is missing from .MTREE")
	}
	r.Floor("F8-line", n, 6)
}

// digestAlgoOf: the hash algorithm whose Sum a value is - directly
// (h.Sum(nil) on a hash made by a known constructor) or as the result of a
// module helper all of whose non-nil returns are such sums of one algorithm.
func digestAlgoOf(c *Ctx, v ssa.Value, depth int) string {
	if depth > 3 || v == nil {
		return ""
	}
	switch x := v.(type) {
	case *ssa.Parameter:
		// a constructor's parameter: what every call site binds to it
		fn := x.Parent()
		idx := -1
		for i, q := range fn.Params {
			if q == x {
				idx = i
			}
		}
		sites := newProv(c).callSites(fn)
		if idx < 0 || len(sites) == 0 {
			return ""
		}
		algo := ""
		for _, cs := range sites {
			if idx >= len(cs.Common().Args) {
				return ""
			}
			a := digestAlgoOf(c, cs.Common().Args[idx], depth+1)
			if a == "" || algo != "" && a != algo {
				return ""
			}
			algo = a
		}
		return algo
	case *ssa.Call:
		if recv := callReceiver(x); recv != nil {
			rv := stripIface(recv)
			if hc, ok := rv.(*ssa.Call); ok {
				if o := calleeObj(hc); o != nil {
					return hashCtors[qualifiedName(o)]
				}
			}
		}
	case *ssa.Extract:
		call, ok := x.Tuple.(*ssa.Call)
		if !ok {
			return ""
		}
		sc := call.Call.StaticCallee()
		if sc == nil || sc.Blocks == nil || !c.isModuleFunc(sc) {
			return ""
		}
		algo := ""
		for _, b := range sc.Blocks {
			ret, ok := b.Instrs[len(b.Instrs)-1].(*ssa.Return)
			if !ok {
				continue
			}
			res := retResults(ret)
			if x.Index >= len(res) {
				return ""
			}
			if k, isK := res[x.Index].(*ssa.Const); isK && k.IsNil() {
				continue // the failure return
			}
			a := digestAlgoOf(c, res[x.Index], depth+1)
			if a == "" || algo != "" && a != algo {
				return ""
			}
			algo = a
		}
		return algo
	}
	return ""
}

// checkMtreeSizeAgrees: for a payload file the size in the tar header, the
// size in its .MTREE line and the amount added to the package size are one
// value: in the function that writes payload members every MtreeEntry.Size is
// one of the expressions stored as a header's Size (structural comparison).
func checkMtreeSizeAgrees(c *Ctx, r *Report, pk *Packager) {
	w := payloadWriter(c, pk)
	if w == nil {
		return
	}
	hdr := map[string]bool{}
	// stores into an MtreeEntry field: in the writer itself, or in a
	// constructor it calls with the entry at hand (the expression is then read
	// with the constructor's entry parameter replaced by the argument, and the
	// store is placed where the constructor is called)
	type mstore struct {
		st    *ssa.Store
		val   ssa.Value
		expr  func(v ssa.Value) string
		block *ssa.BasicBlock
	}
	mtreeStores := func(field string) []mstore {
		var out []mstore
		scan := func(fn *ssa.Function, expr func(ssa.Value) string, block func(*ssa.Store) *ssa.BasicBlock) {
			forEachInstr(fn, func(in ssa.Instruction) {
				st, ok := in.(*ssa.Store)
				if !ok {
					return
				}
				fa, ok := st.Addr.(*ssa.FieldAddr)
				if !ok || fieldName(fa.X.Type(), fa.Field) != field || !strings.HasSuffix(derefType(fa.X.Type()).String(), "MtreeEntry") {
					return
				}
				out = append(out, mstore{st, st.Val, expr, block(st)})
			})
		}
		scan(w, func(v ssa.Value) string { return valueExpr(c, v, 0) }, func(st *ssa.Store) *ssa.BasicBlock { return st.Block() })
		forEachInstr(w, func(in ssa.Instruction) {
			call, ok := in.(*ssa.Call)
			if !ok {
				return
			}
			g := call.Call.StaticCallee()
			if g == nil || !c.isModuleFunc(g) || len(g.Blocks) == 0 || g.Signature.Results().Len() != 1 || !strings.HasSuffix(derefType(g.Signature.Results().At(0).Type()).String(), "MtreeEntry") {
				return
			}
			entryArg := ""
			nEntry := 0
			for i, q := range g.Params {
				if isContentPtr(q.Type()) && i < len(call.Call.Args) {
					entryArg = valueExpr(c, call.Call.Args[i], 0)
					nEntry++
				}
			}
			if nEntry != 1 {
				return
			}
			scan(g, func(v ssa.Value) string {
				return strings.ReplaceAll(valueExpr(c, v, 0), "param:Content", entryArg)
			}, func(*ssa.Store) *ssa.BasicBlock { return call.Block() })
		})
		return out
	}
	forEachInstr(w, func(in ssa.Instruction) {
		st, ok := in.(*ssa.Store)
		if !ok {
			return
		}
		fa, ok := st.Addr.(*ssa.FieldAddr)
		if !ok || fieldName(fa.X.Type(), fa.Field) != "Size" {
			return
		}
		if isNamed(derefType(fa.X.Type()), "archive/tar", "Header") {
			hdr[valueExpr(c, st.Val, 0)] = true
		}
	})
	n := 0
	for _, m := range mtreeStores("Size") {
		st := m.st
		if k, isK := st.Val.(*ssa.Const); isK && k.Value != nil && k.Int64() == 0 {
			continue
		}
		n++
		e := m.expr(st.Val)
		r.Check(hdr[e], "F8-size", fmt.Sprintf("archlinux: mtree size#%d is the size written to the member's header", n), c.instrPos(st),
			fmt.Sprintf("the .MTREE entry takes its size from %s, the tar headers of this function from {%s}: when the two can differ the line describes a member of another length", shorten(e, 80), shorten(joinSorted(hdr), 160)))
	}
	r.Floor("F8-size", n, 1)
	// the same for the time: the .MTREE entry states the modification time
	// the member's header carries (paired within the block that builds both)
	type tstore struct {
		st    *ssa.Store
		expr  string
		block *ssa.BasicBlock
	}
	var hdrT, mtT []tstore
	unixOf := func(v ssa.Value) ssa.Value {
		// x.Unix() -> x
		if call, ok := v.(*ssa.Call); ok {
			if o := calleeObj(call); o != nil && o.Name() == "Unix" && len(call.Call.Args) == 1 {
				return call.Call.Args[0]
			}
		}
		return v
	}
	forEachInstr(w, func(in ssa.Instruction) {
		st, ok := in.(*ssa.Store)
		if !ok {
			return
		}
		fa, ok := st.Addr.(*ssa.FieldAddr)
		if !ok {
			return
		}
		if isNamed(derefType(fa.X.Type()), "archive/tar", "Header") && fieldName(fa.X.Type(), fa.Field) == "ModTime" {
			hdrT = append(hdrT, tstore{st, valueExpr(c, st.Val, 0), st.Block()})
		}
	})
	for _, m := range mtreeStores("Time") {
		mtT = append(mtT, tstore{m.st, m.expr(unixOf(m.st.Val)), m.block})
	}
	nt := 0
	for _, m := range mtT {
		var same []string
		all := map[string]bool{}
		for _, h := range hdrT {
			all[h.expr] = true
			if h.block == m.block {
				same = append(same, h.expr)
			}
		}
		if len(all) == 0 {
			continue
		}
		nt++
		ok := all[m.expr]
		if len(same) > 0 {
			ok = false
			for _, e := range same {
				if e == m.expr {
					ok = true
				}
			}
		}
		r.Check(ok, "F8-time", fmt.Sprintf("archlinux: mtree time#%d is the time written to the member's header", nt), c.instrPos(m.st),
			fmt.Sprintf("the .MTREE entry takes its time from %s, the header built beside it from {%s}: the line would state another modification time than the member carries", shorten(m.expr, 80), shorten(strings.Join(same, ","), 160)))
	}
	r.Floor("F8-time", nt, 2)
}

// appliesHelperTo: f applies the files helper to its parameter p - itself, or
// by handing p on to a module function that does.
func appliesHelperTo(c *Ctx, f *ssa.Function, p *ssa.Parameter, helper string, depth int) bool {
	found := false
	forEachInstr(f, func(in ssa.Instruction) {
		call, ok := in.(*ssa.Call)
		if !ok || found {
			return
		}
		if calleeIs(call, filesPath, "", helper) && call.Call.Args[0] == ssa.Value(p) {
			found = true
			return
		}
		sc := call.Call.StaticCallee()
		if sc == nil || !c.isModuleFunc(sc) || depth == 0 {
			return
		}
		for i, a := range call.Call.Args {
			if a == ssa.Value(p) && i < len(sc.Params) && appliesHelperTo(c, sc, sc.Params[i], helper, depth-1) {
				found = true
			}
		}
	})
	return found
}

// paramBoundToArchive: v is a writer parameter of a module helper that every
// call site binds to an archive writer.
func paramBoundToArchive(c *Ctx, v ssa.Value) bool {
	prm, ok := v.(*ssa.Parameter)
	if !ok {
		return false
	}
	fn := prm.Parent()
	idx := -1
	for i, q := range fn.Params {
		if q == prm {
			idx = i
		}
	}
	sites := newProv(c).callSites(fn)
	if idx < 0 || len(sites) == 0 {
		return false
	}
	for _, cs := range sites {
		if idx >= len(cs.Common().Args) || !isArchiveWriterType(cs.Common().Args[idx]) {
			return false
		}
	}
	return true
}
