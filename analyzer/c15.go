package main

import (
	"fmt"
	"go/token"
	"sort"
	"strings"

	"golang.org/x/tools/go/ssa"
)

func init() { register("C15", checkC15) }

var identityComponents = []string{"Name", "Version", "Prerelease", "VersionMetadata", "Release", "Arch"}

// fileNameDeps: with the component fixed non-empty, does the conventional
// file name depend on it on every live path?
func fileNameDeps(c *Ctx, pk *Packager) map[string]bool {
	out := map[string]bool{}
	for _, comp := range identityComponents {
		ev := newEvaluator(c)
		info := newAObj("info")
		v := "x1"
		if comp == "Release" {
			v = "7"
		}
		info.Fields[comp] = cStr(v)
		ev.Defaults[c.infoPtrKey()] = info
		fr := ev.Explore(pk.FileName, make([]AV, len(pk.FileName.Params)))
		var sets []provSet
		for _, b := range pk.FileName.Blocks {
			if !fr.Live(b) {
				continue
			}
			if ret, ok := b.Instrs[len(b.Instrs)-1].(*ssa.Return); ok {
				sets = append(sets, mustProv(c, fr, retResults(ret)[0], map[*ssa.Parameter]provSet{}, 0, map[ssa.Value]bool{}))
			}
		}
		if intersect(sets)["Info."+comp] {
			out[comp] = true
		}
		// archlinux parses the release as an integer with a default (noted,
		// not claimed): may-provenance on both sides
		if pk.Format == "archlinux" && comp == "Release" {
			pa := newProv(c)
			for _, b := range pk.FileName.Blocks {
				if ret, ok := b.Instrs[len(b.Instrs)-1].(*ssa.Return); ok && pa.Of(retResults(ret)[0]).has("Info.Release") {
					out[comp] = true
				}
			}
		}
	}
	return out
}

// metadataDeps: the identity components the inner metadata states.
func metadataDeps(c *Ctx, pk *Packager) (map[string]bool, map[string]bool, string) {
	out := map[string]bool{}
	archFields := map[string]bool{}
	switch pk.Format {
	case "deb", "ipk", "apk":
		for _, ti := range templateConstants(c, c.Reach(pk.Package)) {
			for _, row := range ti.Rows {
				switch row.Label {
				case "Package", "pkgname", "Version", "pkgver", "Architecture", "arch":
				default:
					continue
				}
				for _, f := range canonFields(c, row.Printed) {
					if f == "Info" {
						// a helper applied to the whole Info (apk pkgver): its own dependencies
						for _, fn := range row.Funcs {
							for _, g := range templateFuncs(c, ti.Fn, fn) {
								for _, comp := range identityComponents {
									if funcMustDepend(c, g, comp) {
										out[comp] = true
									}
								}
							}
						}
						continue
					}
					comp := strings.TrimPrefix(f, "Info.")
					out[comp] = true
					if row.Label == "Architecture" || row.Label == "arch" {
						archFields[comp] = true
					}
				}
			}
		}
		return out, archFields, "control template"
	case "rpm":
		for _, s := range versionSlots(c) {
			if s.format != "rpm" {
				continue
			}
			for _, comp := range s.comps {
				if slotMustDepend(c, s, comp) {
					out[comp] = true
				}
			}
		}
		pa := newProv(c)
		for _, fn := range sortedFuncs(c, c.Reach(pk.Package)) {
			forEachInstr(fn, func(in ssa.Instruction) {
				st, ok := in.(*ssa.Store)
				if !ok {
					return
				}
				fa, ok := st.Addr.(*ssa.FieldAddr)
				if !ok || !isNamed(fa.X.Type(), rpmpackPath, "RPMMetaData") {
					return
				}
				switch fieldName(fa.X.Type(), fa.Field) {
				case "Name":
					if pa.Of(st.Val).has("Info.Name") {
						out["Name"] = true
					}
				case "Arch":
					for _, a := range infoAtoms(pa.Of(st.Val)) {
						archFields[strings.TrimPrefix(a, "Info.")] = true
					}
					if pa.Of(st.Val).has("Info.Arch") {
						out["Arch"] = true
					}
				}
			})
		}
		return out, archFields, "rpmpack.RPMMetaData"
	case "archlinux":
		pa := newProv(c)
		for _, s := range versionSlots(c) {
			if s.format != "archlinux" {
				continue
			}
			for _, comp := range []string{"Version", "Prerelease"} {
				if slotMustDepend(c, s, comp) {
					out[comp] = true
				}
			}
			// release goes through an integer parse with a default: may-provenance
			if pa.Of(s.val).has("Info.Release") {
				out["Release"] = true
			}
		}
		for _, kv := range archKeyValues(c, pa, pk) {
			switch kv.key {
			case "pkgname":
				if pa.Of(kv.val).has("Info.Name") {
					out["Name"] = true
				}
			case "arch":
				for _, a := range infoAtoms(pa.Of(kv.val)) {
					archFields[strings.TrimPrefix(a, "Info.")] = true
				}
				if pa.Of(kv.val).has("Info.Arch") {
					out["Arch"] = true
				}
			}
		}
		return out, archFields, ".PKGINFO"
	}
	return out, archFields, "?"
}

// templateFuncs resolves a template function name registered in fn's FuncMap.
func templateFuncs(c *Ctx, fn *ssa.Function, name string) []*ssa.Function {
	var out []*ssa.Function
	forEachInstr(fn, func(in ssa.Instruction) {
		mu, ok := in.(*ssa.MapUpdate)
		if !ok || constOrEmpty(mu.Key) != name {
			return
		}
		v := mu.Value
		if mi, ok := v.(*ssa.MakeInterface); ok {
			v = mi.X
		}
		if f, ok := v.(*ssa.Function); ok {
			out = append(out, f)
		}
	})
	return out
}

func funcMustDepend(c *Ctx, f *ssa.Function, comp string) bool {
	ev := newEvaluator(c)
	info := newAObj("info")
	v := "x1"
	if comp == "Release" {
		v = "7"
	}
	info.Fields[comp] = cStr(v)
	ev.Defaults[c.infoPtrKey()] = info
	fr := ev.Explore(f, make([]AV, len(f.Params)))
	var sets []provSet
	for _, b := range f.Blocks {
		if !fr.Live(b) {
			continue
		}
		if ret, ok := b.Instrs[len(b.Instrs)-1].(*ssa.Return); ok {
			sets = append(sets, mustProv(c, fr, retResults(ret)[0], map[*ssa.Parameter]provSet{}, 0, map[ssa.Value]bool{}))
		}
	}
	return intersect(sets)["Info."+comp]
}

func slotMustDepend(c *Ctx, s versionSlot, comp string) bool {
	ev := newEvaluator(c)
	info := newAObj("info")
	v := "x1"
	if comp == "Release" || comp == "Epoch" {
		v = "7"
	}
	info.Fields[comp] = cStr(v)
	ev.Defaults[c.infoPtrKey()] = info
	fr := ev.Explore(s.fn, make([]AV, len(s.fn.Params)))
	return mustProv(c, fr, s.val, map[*ssa.Parameter]provSet{}, 0, map[ssa.Value]bool{})["Info."+comp]
}

func checkC15(c *Ctx, r *Report) {
	r.Rules = []string{"F14 file name and metadata state the same identity components", "F14 architecture after the same translation, stated plainly", "file name ends in the conventional extension", "W3 file-name side effects are idempotent", "CLI target resolution", "CLI packager inference", "F14-same-expr the same expression on both sides (rpm, apk, archlinux release)", "CLI working directory unchanged while the target is resolved", "same-F13-plain the control template's Version line applies no helper the file name does not (imported from C14)", "F14-name-fixpoint a sanitiser applied to the name in the file name is what Package validates the name with", "same-D8-packager-store (imported from C14)", "CLI-name-info the command names the file after the settings it packages", "F14-row-plain name and architecture rows of a control template apply no template function", "F14-no-defaults no packager applies nfpm.WithDefaults"}
	r.Explanation = "Agreement and structure rules over go/ssa and the parsed templates. (F14) per packager and per identity component (name, version, prerelease, version metadata, release, architecture) the conventional file name depends on the component on every live path (abstract evaluation with the component fixed non-empty, intersection of provenance at joins) exactly when the inner metadata states it (control template rows / rpm metadata fields / .PKGINFO keys, the same way); both ConventionalFileName and Package apply the same architecture translation before anything reads the architecture, and the metadata's architecture derives from the translated architecture alone; the file name's format ends in the packager's ConventionalExtension constant; the writes ConventionalFileName performs on the Info are idempotent (C11-W3). (CLI) in doPackage the path handed to os.Create is the phi of the given target, the conventional name (on the target-empty edge) and path.Join(target, conventional name) (on the is-a-directory edge); Info.Target receives the same value; the packager is taken from the target's extension only on the packager-empty edge."
	r.Explanation += " (F14-same-expr) rpm: name, version, release and architecture in the file name are the expressions written to the metadata; apk: the template's pkgver function; archlinux: the release expression. The command changes the working directory nowhere on its packaging path."
	r.Explanation += " (same-F13-plain) imported from C14: a helper applied to a version component on the template's Version line only makes file name and metadata disagree."
	r.Explanation += " (F14-name-fixpoint) for every string function of the packager that the file name applies to the configured name, Package's call graph compares that function's result with its argument (so names it would change are rejected)."
	r.Explanation += " (CLI-name-info) every ConventionalFileName call on the command's call graph is given the value Package is given (helper parameters resolved to their single call site)."
	r.Assumptions = []string{"concrete strings are not computed; 'depends on' is provenance, not equality of rendered text"}
	for _, pk := range c.Packagers {
		if pk.Format == "" {
			continue
		}
		fileDeps := fileNameDeps(c, pk)
		metaDeps, archFields, where := metadataDeps(c, pk)
		for _, comp := range identityComponents {
			if comp == "VersionMetadata" && pk.Format == "archlinux" {
				continue // archlinux has no metadata component in either place
			}
			construct := fmt.Sprintf("%s: %s in file name and in %s", pk.Format, comp, where)
			r.Check(fileDeps[comp] == metaDeps[comp], "F14", construct, c.pos(pk.FileName.Pos()),
				fmt.Sprintf("file name depends on it on every path: %v; metadata states it: %v — a package whose name and inner metadata disagree on this component", fileDeps[comp], metaDeps[comp]))
		}
		// architecture stated plainly
		var af []string
		for k := range archFields {
			af = append(af, k)
		}
		sort.Strings(af)
		r.Check(strings.Join(af, ",") == "Arch", "F14-arch", pk.Format+": metadata architecture derives from the translated architecture alone", c.pos(pk.Package.Pos()),
			fmt.Sprintf("the metadata's architecture is built from {%s}; the file name uses the translated architecture only", strings.Join(af, ",")))
		// the defaults (semver split, platform, float-suffix stripping) are the
		// caller's business: applied in Package or in the file-name function
		// alone, they make the two disagree for every Info the caller did not
		// run through them itself
		if wdf := c.Func("", "WithDefaults"); wdf != nil {
			var site ssa.Instruction
			nFns := 0
			for _, fn := range sortedFuncs(c, c.Reach(pk.Package, pk.FileName)) {
				if c.funcPkgPath(fn) != pk.PkgPath {
					continue
				}
				nFns++
				forEachInstr(fn, func(in ssa.Instruction) {
					if call, ok := in.(ssa.CallInstruction); ok && call.Common().StaticCallee() == wdf {
						site = in
					}
				})
			}
			pos := c.pos(pk.Package.Pos())
			if site != nil {
				pos = c.instrPos(site)
			}
			r.Check(site == nil && nFns > 0, "F14-no-defaults", pk.Format+": the packager applies nfpm.WithDefaults nowhere", pos,
				fmt.Sprintf("%d packager functions examined; a call of WithDefaults inside the packager re-splits the version (and rewrites platform and architecture) on one of the two paths only: file name and metadata disagree for an Info that was not defaulted by the caller", nFns))
		}
		// name and architecture rows of a control template print the field as
		// it is: a template function rewrites what the file name states plainly
		if pk.Format == "deb" || pk.Format == "ipk" || pk.Format == "apk" {
			nRows := 0
			for _, ti := range templateConstants(c, c.Reach(pk.Package)) {
				for _, row := range ti.Rows {
					switch row.Label {
					case "Package", "pkgname", "Architecture", "arch":
					default:
						continue
					}
					plainField := false
					for _, f := range canonFields(c, row.Printed) {
						if f == "Info.Name" || f == "Info.Arch" {
							plainField = true
						}
					}
					if !plainField {
						continue
					}
					nRows++
					r.Check(len(row.Funcs) == 0, "F14-row-plain", fmt.Sprintf("%s: control row %q prints the field as the file name states it", pk.Format, row.Label), c.pos(ti.Fn.Pos()),
						fmt.Sprintf("the row applies %v to the field; the conventional file name states the field itself, so the two disagree for every value the function changes", row.Funcs))
				}
			}
			r.Floor("F14-row-plain/"+pk.Format, nRows, 1)
		}
		// same translation in both entry points
		tables := archTables(c)
		_, tfn := archTableOf(c, pk, tables)
		if tfn == nil {
			r.Unresolved(pk.Format+" architecture translation", "not found")
		} else {
			for _, entry := range []*ssa.Function{pk.FileName, pk.Package} {
				okT := false
				var first ssa.Instruction
				// a helper that translates on every path before it reads the
				// architecture counts as the translation
				translatesFirst := func(h *ssa.Function) bool {
					if h == nil || !c.isModuleFunc(h) || len(h.Blocks) == 0 {
						return false
					}
					var tc ssa.Instruction
					forEachInstr(h, func(in ssa.Instruction) {
						if call, ok := in.(*ssa.Call); ok && call.Call.StaticCallee() == tfn && tc == nil {
							tc = call
						}
					})
					if tc == nil {
						return false
					}
					okH := true
					forEachInstr(h, func(in ssa.Instruction) {
						switch x := in.(type) {
						case *ssa.Return:
							if !instrDominates(tc, x) {
								okH = false
							}
						case *ssa.UnOp:
							if p, root := addrPath(x.X); x.Op == token.MUL && root != nil && p == "Arch" && rootTypeName(root.Type()) == "Info" && !instrDominates(tc, x) {
								okH = false
							}
						}
					})
					return okH
				}
				forEachInstr(entry, func(in ssa.Instruction) {
					if call, ok := in.(*ssa.Call); ok && first == nil && (call.Call.StaticCallee() == tfn || translatesFirst(call.Call.StaticCallee())) {
						first = call
					}
				})
				if first != nil {
					okT = true
					// no read of Info.Arch in this function before the translation
					forEachInstr(entry, func(in ssa.Instruction) {
						ld, ok := in.(*ssa.UnOp)
						if !ok || ld.Op != token.MUL {
							return
						}
						if p, root := addrPath(ld.X); root != nil && p == "Arch" && rootTypeName(root.Type()) == "Info" && !instrDominates(first, ld) {
							okT = false
						}
					})
				}
				r.Check(okT, "F14-arch", fmt.Sprintf("%s: %s translates the architecture before use", pk.Format, c.funcKey(entry)), c.pos(entry.Pos()),
					"both the file name and the package must apply "+c.funcKey(tfn)+" before reading the architecture")
			}
		}
		// extension
		if pk.Ext != nil {
			ext := ""
			forEachInstr(pk.Ext, func(in ssa.Instruction) {
				if ret, ok := in.(*ssa.Return); ok {
					ext = constOrEmpty(ret.Results[0])
				}
			})
			okExt := false
			forEachInstr(pk.FileName, func(in ssa.Instruction) {
				if call, ok := in.(*ssa.Call); ok && calleeIs(call, "fmt", "", "Sprintf") {
					if f := constOrEmpty(call.Call.Args[0]); ext != "" && strings.HasSuffix(f, ext) {
						okExt = true
					}
				}
			})
			r.Check(okExt, "F14-ext", pk.Format+": file name ends in the conventional extension", c.pos(pk.FileName.Pos()), fmt.Sprintf("ConventionalExtension() is %q; the file name's format string must end with it", ext))
		}
	}
	// same expression on both sides where the code composes both (rpm, apk)
	checkSameVersionExpr(c, r)
	checkSanitisedNameAgrees(c, r)
	// the file name takes the version components as configured; so must the
	// control template (a helper applied on the Version line only - a
	// sanitiser, say - makes the two disagree; shared with C14)
	r.Floor("same-F13-plain", importRules(c, r, checkC14, "same-", []string{"F13-plain", "D8-packager-store", "lossless-F6-parsed"}, nil), 10)
	// W3 (shared with C11)
	tmp := newReport("tmp")
	checkPackagerStores(c, tmp)
	n := 0
	for _, o := range tmp.Obls {
		if o.Rule == "W3-idempotent" || o.Rule == "W2-post-prepare" && strings.Contains(o.Detail, "ConventionalFileName") {
			n++
			r.Obls = append(r.Obls, o)
		}
	}
	r.Floor("W3-idempotent", n, 6)
	checkCLITarget(c, r)
}

func checkCLITarget(c *Ctx, r *Report) {
	dp := c.Func("internal/cmd", "doPackage")
	if dp == nil {
		r.Unresolved("internal/cmd.doPackage", "not found")
		return
	}
	checkCLINameInfo(c, r, dp)
	var create *ssa.Call
	for _, fn := range sortedFuncs(c, c.Reach(dp)) {
		if !strings.HasPrefix(c.funcPkgPath(fn), modPath+"/internal/cmd") {
			continue
		}
		forEachInstr(fn, func(in ssa.Instruction) {
			if call, ok := in.(*ssa.Call); ok && calleeIs(call, "os", "", "Create") {
				create = call
			}
		})
	}
	if create == nil {
		r.Unresolved("doPackage: os.Create", "not found")
		return
	}
	var targetParam, packagerParam *ssa.Parameter
	for _, p := range dp.Params {
		switch p.Name() {
		case "target":
			targetParam = p
		case "packager":
			packagerParam = p
		}
	}
	// fall back to positions (configPath, target, packager)
	if targetParam == nil && len(dp.Params) == 3 {
		targetParam, packagerParam = dp.Params[1], dp.Params[2]
	}
	cliPA := newProv(c)
	// resolve a helper's parameter to the argument it is given, stopping at
	// doPackage's own parameters
	up := func(v ssa.Value) ssa.Value {
		for i := 0; i < 4; i++ {
			prm, ok := v.(*ssa.Parameter)
			if !ok || prm.Parent() == dp {
				return v
			}
			fn := prm.Parent()
			idx := -1
			for j, q := range fn.Params {
				if q == prm {
					idx = j
				}
			}
			sites := cliPA.callSites(fn)
			if len(sites) != 1 || idx < 0 || idx >= len(sites[0].Common().Args) {
				return v
			}
			v = sites[0].Common().Args[idx]
		}
		return v
	}
	var phi ssa.Value = up(create.Call.Args[0])
	switch phi.(type) {
	case *ssa.Phi, *ssa.Call:
	default:
		r.Fail("CLI-target", "doPackage: path handed to os.Create", c.instrPos(create), "expected the join of the three target forms (given file, conventional name, directory + conventional name)")
		return
	}
	kinds := map[string]bool{}
	detail := []string{}
	var flatten func(v ssa.Value, from *ssa.BasicBlock, depth int)
	flatten = func(v ssa.Value, from *ssa.BasicBlock, depth int) {
		if depth > 4 {
			return
		}
		switch x := v.(type) {
		case *ssa.Phi:
			for i, e := range x.Edges {
				flatten(e, x.Block().Preds[i], depth+1)
			}
		case *ssa.Parameter:
			if x == targetParam || up(x) == ssa.Value(targetParam) {
				kinds["given"] = true
			} else {
				kinds["other-param"] = true
			}
		case *ssa.Call:
			// a helper of the command that computes the path: its returns
			if sc := x.Call.StaticCallee(); sc != nil && sc.Blocks != nil && c.isModuleFunc(sc) && !x.Call.IsInvoke() && strings.HasPrefix(c.funcPkgPath(sc), modPath+"/internal/cmd") {
				for _, b := range sc.Blocks {
					if ret, ok := b.Instrs[len(b.Instrs)-1].(*ssa.Return); ok {
						flatten(retResults(ret)[0], b, depth+1)
					}
				}
				return
			}
			switch {
			case x.Call.IsInvoke() && x.Call.Method.Name() == "ConventionalFileName":
				// must be on the target == "" edge
				if edgeOfTest(from, func(bo *ssa.BinOp) bool {
					return bo.Op == token.EQL && (bo.X == ssa.Value(targetParam) || up(bo.X) == ssa.Value(targetParam)) && constOrEmpty(bo.Y) == "" && isConstString(bo.Y)
				}) {
					kinds["conventional"] = true
				} else {
					detail = append(detail, "conventional name not on the target-empty edge")
				}
			case calleeIs(x, "path", "", "Join") || calleeIs(x, "path/filepath", "", "Join"):
				elems := variadicOrdered(x.Call.Args[0])
				okJ := len(elems) == 2 && (elems[0] == ssa.Value(targetParam) || up(elems[0]) == ssa.Value(targetParam))
				if okJ {
					if c2, ok := elems[1].(*ssa.Call); !ok || !c2.Call.IsInvoke() || c2.Call.Method.Name() != "ConventionalFileName" {
						okJ = false
					}
				}
				if okJ {
					kinds["joined"] = true
				} else {
					detail = append(detail, "directory case is not Join(target, conventional name)")
				}
			default:
				kinds["other-call:"+calleeName(x)] = true
			}
		default:
			kinds[fmt.Sprintf("other:%T", v)] = true
		}
	}
	flatten(phi, nil, 0)
	r.Check(joinSorted(kinds) == "conventional,given,joined" && len(detail) == 0, "CLI-target", "doPackage: path handed to os.Create", c.instrPos(create),
		fmt.Sprintf("forms found {%s} %v; expected exactly: the given target, the conventional name when no target is given, and Join(target, conventional name) when the target is a directory", joinSorted(kinds), detail))
	// "is a directory" is decided by os.Stat (which follows symbolic links)
	okStat := false
	var cmdFns []*ssa.Function
	for _, fn := range sortedFuncs(c, c.Reach(dp)) {
		if strings.HasPrefix(c.funcPkgPath(fn), modPath+"/internal/cmd") {
			cmdFns = append(cmdFns, fn)
		}
	}
	forEachInstrIn(cmdFns, func(in ssa.Instruction) {
		call, ok := in.(*ssa.Call)
		if !ok || !call.Call.IsInvoke() || call.Call.Method.Name() != "IsDir" {
			return
		}
		if ex, ok := call.Call.Value.(*ssa.Extract); ok {
			if st, ok := ex.Tuple.(*ssa.Call); ok && calleeIs(st, "os", "", "Stat") && (st.Call.Args[0] == ssa.Value(targetParam) || up(st.Call.Args[0]) == ssa.Value(targetParam)) {
				okStat = true
			}
		}
	})
	r.Check(okStat, "CLI-target", "doPackage: directory test is os.Stat(target).IsDir()", c.pos(dp.Pos()), "an existing directory — also one reached through a symbolic link — must be recognised: the test must use os.Stat on the given target")
	// info.Target gets the same value
	okTarget := false
	forEachInstr(create.Parent(), func(in ssa.Instruction) {
		st, ok := in.(*ssa.Store)
		if !ok {
			return
		}
		if p, root := addrPath(st.Addr); root != nil && p == "Target" && st.Val == create.Call.Args[0] {
			okTarget = true
		}
	})
	// the target is tested (Stat) and created (Create) as one path: nothing
	// on the way may change the working directory a relative target is
	// resolved against
	var chdir ssa.Instruction
	for _, fn := range sortedFuncs(c, c.Reach(dp)) {
		if !c.isModuleFunc(fn) {
			continue
		}
		forEachInstr(fn, func(in ssa.Instruction) {
			if call, ok := in.(ssa.CallInstruction); ok && chdir == nil {
				if o := calleeObj(call); o != nil && (qualifiedName(o) == "os.Chdir" || o.Name() == "Chdir" && o.Pkg() != nil && o.Pkg().Path() == "os") {
					chdir = in
				}
			}
		})
	}
	if chdir != nil {
		r.Fail("CLI-target", "doPackage: the working directory is not changed while the target is resolved", c.instrPos(chdir), "the working directory is changed on the packaging path of the command: a relative (or empty) target is tested against one directory and created in another")
	} else {
		r.Pass("CLI-target", "doPackage: the working directory is not changed while the target is resolved", c.pos(dp.Pos()), "no os.Chdir on the command's packaging path")
	}
	r.Check(okTarget, "CLI-target", "doPackage: Info.Target is the created path", c.instrPos(create), "the Info handed to the packager must carry the same path that is created")
	// packager from the extension only when none is given
	okInfer := false
	inferred := 0
	forEachInstrIn(cmdFns, func(in ssa.Instruction) {
		call, ok := in.(*ssa.Call)
		if !ok || !calleeIs(call, "path/filepath", "", "Ext") {
			return
		}
		inferred++
		if call.Call.Args[0] != ssa.Value(targetParam) && up(call.Call.Args[0]) != ssa.Value(targetParam) {
			return
		}
		// the block - or, when the lookup sits in a helper, the helper's call
		// in doPackage - is on the packager == "" edge
		at := ssa.Instruction(call)
		for hop := 0; hop < 3 && at.Parent() != dp; hop++ {
			sites := cliPA.callSites(at.Parent())
			if len(sites) != 1 {
				return
			}
			at = sites[0]
		}
		if at.Parent() != dp {
			return
		}
		for d := at.Block(); d != nil; d = d.Idom() {
			for _, p := range d.Preds {
				if ifi, ok := p.Instrs[len(p.Instrs)-1].(*ssa.If); ok && p.Succs[0] == d {
					if bo, ok := ifi.Cond.(*ssa.BinOp); ok && bo.Op == token.EQL && bo.X == ssa.Value(packagerParam) && isConstString(bo.Y) && constOrEmpty(bo.Y) == "" {
						okInfer = true
					}
				}
			}
		}
	})
	r.Check(okInfer && inferred == 1, "CLI-packager", "doPackage: packager inferred from the target's extension only when none is specified", c.pos(dp.Pos()), "filepath.Ext(target) must be consulted only on the packager-empty edge")
	// the packager handed to the registry and to Config.Get is that phi
	uses := 0
	forEachInstr(dp, func(in ssa.Instruction) {
		call, ok := in.(*ssa.Call)
		if !ok {
			return
		}
		sc := call.Call.StaticCallee()
		if sc == nil || sc.Name() != "Get" || !c.isModuleFunc(sc) {
			return
		}
		arg := call.Call.Args[len(call.Call.Args)-1]
		if ph, ok := arg.(*ssa.Phi); ok {
			for _, e := range ph.Edges {
				if e == ssa.Value(packagerParam) {
					uses++
				}
			}
		} else if arg == ssa.Value(packagerParam) {
			uses++
		}
	})
	r.Check(uses >= 2, "CLI-packager", "doPackage: settings and packager are looked up with the same format", c.pos(dp.Pos()), "Config.Get and the registry lookup must both receive the specified (or inferred) packager")
}

func isConstString(v ssa.Value) bool {
	k, ok := v.(*ssa.Const)
	return ok && k.Value != nil && k.Value.Kind().String() == "String"
}

// edgeOfTest: block b (or a dominator chain up to 3 levels) is entered through
// the true edge of an If whose condition satisfies pred.
func edgeOfTest(b *ssa.BasicBlock, pred func(*ssa.BinOp) bool) bool {
	for d, n := b, 0; d != nil && n < 4; d, n = d.Idom(), n+1 {
		for _, p := range d.Preds {
			if ifi, ok := p.Instrs[len(p.Instrs)-1].(*ssa.If); ok && p.Succs[0] == d {
				if bo, ok := ifi.Cond.(*ssa.BinOp); ok && pred(bo) {
					return true
				}
			}
		}
		// the block itself may hold the If (value computed in the If's block)
		if ifi, ok := d.Instrs[len(d.Instrs)-1].(*ssa.If); ok && n == 0 {
			_ = ifi
		}
	}
	return false
}

// valueExpr renders a string-valued SSA expression structurally (go/ssa has
// no CSE): calls by callee and argument expressions, field loads by path.
func valueExpr(c *Ctx, v ssa.Value, depth int) string {
	if depth > 8 || v == nil {
		return "?"
	}
	if isPtrToNamed(v.Type(), modPath, "Info") {
		return "Info" // every *Info in a packager is the one being packaged
	}
	switch x := v.(type) {
	case *ssa.Const:
		return x.String()
	case *ssa.Parameter:
		return "param:" + rootTypeName(x.Type())
	case *ssa.UnOp:
		if x.Op == token.MUL {
			if p, root := addrPath(x.X); root != nil {
				return rootTypeName(root.Type()) + "." + p
			}
			if w := cellValue(x); w != nil {
				return valueExpr(c, w, depth+1)
			}
		}
		return x.Op.String() + valueExpr(c, x.X, depth+1)
	case *ssa.BinOp:
		return "(" + valueExpr(c, x.X, depth+1) + x.Op.String() + valueExpr(c, x.Y, depth+1) + ")"
	case *ssa.Call:
		var args []string
		for _, a := range x.Call.Args {
			args = append(args, valueExpr(c, a, depth+1))
		}
		return calleeName(x) + "(" + strings.Join(args, ",") + ")"
	case *ssa.Convert:
		return valueExpr(c, x.X, depth+1)
	case *ssa.ChangeType:
		return valueExpr(c, x.X, depth+1)
	case *ssa.MakeInterface:
		return valueExpr(c, x.X, depth+1)
	case *ssa.Phi:
		var es []string
		for _, e := range x.Edges {
			es = append(es, valueExpr(c, e, depth+1))
		}
		sort.Strings(es)
		return "phi{" + strings.Join(es, "|") + "}"
	case *ssa.Slice:
		var es []string
		for _, e := range variadicOrdered(x) {
			es = append(es, valueExpr(c, e, depth+1))
		}
		return "[" + strings.Join(es, ",") + "]"
	}
	return fmt.Sprintf("%T", v)
}

// checkSameVersionExpr: where the packager's code composes both the file name
// and the metadata (rpm, apk), the version and release that go into the file
// name are the very expressions that go into the metadata.
func checkSameVersionExpr(c *Ctx, r *Report) {
	if pk := c.PackagerByFormat("rpm"); pk != nil {
		meta := map[string]string{}
		for _, fn := range sortedFuncs(c, c.Reach(pk.Package)) {
			forEachInstr(fn, func(in ssa.Instruction) {
				st, ok := in.(*ssa.Store)
				if !ok {
					return
				}
				fa, ok := st.Addr.(*ssa.FieldAddr)
				if !ok || !isNamed(fa.X.Type(), rpmpackPath, "RPMMetaData") {
					return
				}
				switch f := fieldName(fa.X.Type(), fa.Field); f {
				case "Version", "Release", "Name", "Arch":
					meta[f] = valueExpr(c, st.Val, 0)
				}
			})
		}
		var args []ssa.Value
		forEachInstr(pk.FileName, func(in ssa.Instruction) {
			if call, ok := in.(*ssa.Call); ok && calleeIs(call, "fmt", "", "Sprintf") {
				args = variadicOrdered(call.Call.Args[1])
			}
		})
		if len(args) != 4 {
			r.Fail("F14-same-expr", "rpm: file name composition", c.pos(pk.FileName.Pos()), "expected the file name to be formatted from name, version, release and architecture")
		} else {
			for i, f := range []string{"Name", "Version", "Release", "Arch"} {
				got := valueExpr(c, args[i], 0)
				r.Check(got == meta[f], "F14-same-expr", "rpm: "+f+" in the file name is the expression written to the metadata", c.pos(pk.FileName.Pos()),
					fmt.Sprintf("file name uses %s, metadata uses %s: any extra transformation on one side makes name and header disagree for some input", got, meta[f]))
			}
		}
	}
	if pk := c.PackagerByFormat("archlinux"); pk != nil {
		// the release: both sides format the same expression (the integer
		// parse with its default, or neither)
		pa := newProv(c)
		collect := func(fns map[*ssa.Function]bool) map[string]bool {
			out := map[string]bool{}
			for _, fn := range sortedFuncs(c, fns) {
				if c.funcPkgPath(fn) != pk.PkgPath {
					continue
				}
				forEachInstr(fn, func(in ssa.Instruction) {
					call, ok := in.(*ssa.Call)
					if !ok || !calleeIs(call, "fmt", "", "Sprintf") || len(call.Call.Args) < 2 {
						return
					}
					for _, a := range variadicOrdered(call.Call.Args[1]) {
						if pa.Of(a).has("Info.Release") {
							// a helper's parameter stands for what its callers pass
							var up func(v ssa.Value, in *ssa.Function, d int)
							up = func(v ssa.Value, in *ssa.Function, d int) {
								w := v
								if mi, isMI := w.(*ssa.MakeInterface); isMI {
									w = mi.X
								}
								w = stripConv(w)
								prm, isPrm := w.(*ssa.Parameter)
								if !isPrm || d > 2 {
									out[valueExpr(c, v, 0)] = true
									return
								}
								idx := -1
								for i, q := range in.Params {
									if q == prm {
										idx = i
									}
								}
								sites := pa.callSites(in)
								if idx < 0 || len(sites) == 0 {
									out[valueExpr(c, v, 0)] = true
									return
								}
								for _, cs := range sites {
									if idx < len(cs.Common().Args) {
										up(cs.Common().Args[idx], cs.Parent(), d+1)
									}
								}
							}
							up(a, fn, 0)
						}
					}
				})
			}
			return out
		}
		name := collect(c.Reach(pk.FileName))
		meta := collect(c.Reach(pk.Package))
		okRel := len(name) > 0
		for e := range name {
			if !meta[e] {
				okRel = false
			}
		}
		r.Check(okRel, "F14-same-expr", "archlinux: release in the file name is the expression written to pkgver", c.pos(pk.FileName.Pos()),
			fmt.Sprintf("file name formats {%s}, .PKGINFO formats {%s}: a release that is not a plain decimal number (\"02\", \"2.1\") would be stated differently by the two", joinSorted(name), joinSorted(meta)))
	}
	if pk := c.PackagerByFormat("apk"); pk != nil {
		// the function the template calls for pkgver is the one the file name calls
		var tfn *ssa.Function
		for _, ti := range templateConstants(c, c.Reach(pk.Package)) {
			for _, f := range templateFuncs(c, ti.Fn, "pkgver") {
				tfn = f
			}
		}
		same := false
		forEachInstr(pk.FileName, func(in ssa.Instruction) {
			if call, ok := in.(*ssa.Call); ok && tfn != nil && call.Call.StaticCallee() == tfn {
				// its result goes into the name unmodified
				for _, ref := range *call.Referrers() {
					if _, ok := ref.(*ssa.MakeInterface); ok {
						same = true
					}
				}
			}
		})
		r.Check(same, "F14-same-expr", "apk: version in the file name is the template's pkgver function", c.pos(pk.FileName.Pos()), "the file name must use the unmodified result of the function that renders pkgver in .PKGINFO")
	}
}

// checkSanitisedNameAgrees (F14-name-fixpoint): where the file name is passed
// through a sanitiser (archlinux strips the characters pacman does not accept)
// while the metadata states the configured name as it stands, the two agree
// only for names the sanitiser leaves unchanged. Package must therefore reject
// every other name with that very function: somewhere on its call graph the
// sanitiser's result is compared with its own argument.
func checkSanitisedNameAgrees(c *Ctx, r *Report) {
	pa := newProv(c)
	n := 0
	for _, pk := range c.Packagers {
		if pk.Format == "" || pk.FileName == nil {
			continue
		}
		sanitisers := map[*ssa.Function]ssa.Instruction{}
		for _, fn := range sortedFuncs(c, c.Reach(pk.FileName)) {
			if c.funcPkgPath(fn) != pk.PkgPath {
				continue
			}
			forEachInstr(fn, func(in ssa.Instruction) {
				call, ok := in.(*ssa.Call)
				if !ok {
					return
				}
				sc := call.Call.StaticCallee()
				if sc == nil || !c.isModuleFunc(sc) || len(sc.Blocks) == 0 || len(call.Call.Args) != 1 || sc.Signature.Results().Len() != 1 {
					return
				}
				if call.Call.Args[0].Type().String() != "string" || sc.Signature.Results().At(0).Type().String() != "string" {
					return
				}
				if pa.Of(call.Call.Args[0]).has("Info.Name") && !pa.Of(call.Call.Args[0]).has("Info.Arch") || pa.Of(call.Call.Args[0]).has("Info.Name") && c.funcPkgPath(sc) == pk.PkgPath {
					// a pure string function of the package applied to (a string containing) the name
					if _, isTable := sanitisers[sc]; !isTable {
						sanitisers[sc] = in
					}
				}
			})
		}
		var fns []*ssa.Function
		for f := range sanitisers {
			fns = append(fns, f)
		}
		sort.Slice(fns, func(i, j int) bool { return fns[i].Pos() < fns[j].Pos() })
		for _, san := range fns {
			n++
			fix := false
			for _, g := range sortedFuncs(c, c.Reach(pk.Package)) {
				forEachInstr(g, func(in ssa.Instruction) {
					call, ok := in.(*ssa.Call)
					if !ok || call.Call.StaticCallee() != san || call.Referrers() == nil {
						return
					}
					for _, ref := range *call.Referrers() {
						if bo, isBO := ref.(*ssa.BinOp); isBO && (bo.Op == token.EQL || bo.Op == token.NEQ) {
							other := bo.X
							if bo.X == ssa.Value(call) {
								other = bo.Y
							}
							if other == call.Call.Args[0] || sameValue(other, call.Call.Args[0]) {
								fix = true
							}
						}
					}
				})
			}
			r.Check(fix, "F14-name-fixpoint", fmt.Sprintf("%s: the file name's sanitiser %s is what Package validates the name with", pk.Format, c.funcKey(san)), c.instrPos(sanitisers[san]),
				"the file name passes the name through "+c.funcKey(san)+", the metadata states it as configured; nothing on Package's call graph rejects a name that function changes (no comparison of its result with its argument): for such a name file name and metadata disagree")
		}
	}
	r.Count("file_name_sanitisers", n)
}

// checkCLINameInfo (CLI-name-info): the command names the file after the
// settings it packages: the Info handed to ConventionalFileName is the one
// handed to Package (the result of Config.Get for the chosen packager), not a
// copy of the base settings taken beforehand.
func checkCLINameInfo(c *Ctx, r *Report, dp *ssa.Function) {
	pa := newProv(c)
	up := func(v ssa.Value, fn *ssa.Function) ssa.Value {
		for d := 0; d < 3; d++ {
			prm, ok := v.(*ssa.Parameter)
			if !ok || fn == dp {
				return v
			}
			idx := -1
			for i, q := range fn.Params {
				if q == prm {
					idx = i
				}
			}
			sites := pa.callSites(fn)
			if idx < 0 || len(sites) != 1 || idx >= len(sites[0].Common().Args) {
				return v
			}
			v, fn = sites[0].Common().Args[idx], sites[0].Parent()
		}
		return v
	}
	var names []ssa.Value
	var nameAt []ssa.Instruction
	var pkgInfo ssa.Value
	for _, fn := range sortedFuncs(c, c.Reach(dp)) {
		if c.funcPkgPath(fn) != c.funcPkgPath(dp) {
			continue
		}
		forEachInstr(fn, func(in ssa.Instruction) {
			call, ok := in.(*ssa.Call)
			if !ok || !call.Call.IsInvoke() || len(call.Call.Args) == 0 {
				return
			}
			switch call.Call.Method.Name() {
			case "ConventionalFileName":
				names = append(names, up(call.Call.Args[0], fn))
				nameAt = append(nameAt, in)
			case "Package":
				pkgInfo = up(call.Call.Args[0], fn)
			}
		})
	}
	if pkgInfo == nil || len(names) == 0 {
		r.Unresolved("internal/cmd.doPackage", "the calls of ConventionalFileName and Package were not both found")
		return
	}
	for i, nv := range names {
		r.Check(nv == pkgInfo || sameValue(nv, pkgInfo), "CLI-name-info", fmt.Sprintf("the command names the file after the settings it packages (name call#%d)", i+1), c.instrPos(nameAt[i]),
			fmt.Sprintf("ConventionalFileName is given %s, Package %s: overrides and defaults applied to one of them only make the file name state another architecture or version than the package", shorten(valueExpr(c, nv, 0), 60), shorten(valueExpr(c, pkgInfo, 0), 60)))
	}
}
