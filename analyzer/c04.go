package main

import (
	"fmt"
	"go/token"
	"go/types"
	"strings"

	"golang.org/x/tools/go/ssa"
)

func init() { register("C04", checkC04) }

// nameConforms decides F10 for one value stored into a header's Name.
func nameConforms(c *Ctx, pa *provAnalysis, format string, v ssa.Value) (bool, string) {
	p := pa.Of(v)
	helper := map[string]string{"deb": "via:files.AsExplicitRelativePath", "ipk": "via:files.AsExplicitRelativePath", "apk": "via:files.AsRelativePath", "archlinux": "via:files.AsRelativePath"}[format]
	if k, ok := v.(*ssa.Const); ok && k.Value != nil {
		s := constString(k)
		if strings.HasPrefix(s, "/") || strings.Contains(s, "..") {
			return false, fmt.Sprintf("constant name %q is not a relative path", s)
		}
		if (format == "deb" || format == "ipk") && !strings.HasPrefix(s, "./") {
			return false, fmt.Sprintf("constant name %q lacks the ./ prefix every member of a %s tar carries", s, format)
		}
		return true, fmt.Sprintf("constant %q", s)
	}
	if p.has(helper) {
		return true, "through " + strings.TrimPrefix(helper, "via:")
	}
	// deb/ipk also accept the plain relative helper wrapped by the explicit one
	if (format == "deb" || format == "ipk") && p.has("via:files.AsRelativePath") && p.has("const:./") {
		return true, "through files.AsRelativePath with the ./ prefix"
	}
	fields := p.fields()
	if len(fields) == 0 {
		// built from constants only (fixed member names through ToNixPath)
		for _, s := range p.consts() {
			if strings.HasPrefix(s, "/") || strings.Contains(s, "..") {
				return false, fmt.Sprintf("constant component %q is not relative", s)
			}
		}
		if format == "deb" || format == "ipk" {
			prefixed := false
			for _, s := range p.consts() {
				if strings.HasPrefix(s, "./") {
					prefixed = true
				}
			}
			if !prefixed {
				return false, fmt.Sprintf("built from the constants %v without the ./ prefix (or the helper that adds it): dpkg and opkg look the control members up as ./<name>", p.consts())
			}
		}
		return true, "built from constants only"
	}
	if format == "apk" && (p.has("const:.SIGN.RSA.%s") || p.has("const:.SIGN.RSA.")) {
		return true, "signature member .SIGN.RSA.<key name> (C10)"
	}
	return false, fmt.Sprintf("derives from {%s} without passing the format's relative-name helper: the member could be absolute, unclean or named after its source", strings.Join(fields, ","))
}

func checkC04(c *Ctx, r *Report) {
	r.Rules = []string{"O3 member order and names (deb ar, ipk, apk segments and cut/full kinds, archlinux)", "D4 deb compression name -> constructor -> member suffix", "F10 every tar member name is relative by construction", "O4 nested archives are completed before they are read (shared with C06-E2/E2m)", "uniqueness / parents-before-children inherited from the plan (shared with C05)", "F10-size header-only members carry size zero", "O3-align apk segments end on a 512-byte boundary without a whole zero block", "mtree-F8 .PKGINFO first in .MTREE (imported from C03)", "apk-F12-apk segment order by buffer identity (imported from C10)", "fresh-G4 archives start in fresh buffers (imported from C11)", "O3-all every return that can report success follows all mandatory members (deb, ipk)", "F10-rpm names handed to rpmpack are normalised at their last definition", "O4-once a buffer holding a finished part is read by one consumer on any path", "plan-K2c (imported from C05)", "F10-ids numeric uid/gid of tar headers are zero or a non-negative constant", "F10-rpm-type rpm file type flags are fixed where the record is built"}
	r.Explanation = "Structural necessary conditions of well-formedness decided from source. (O3) deb: the ar global header is written before any member and the members are debian-binary (constant body \"2.0\\n\"), control.tar.gz, the data member, then the optional signature, in that order on every path; ipk: ./debian-binary, ./control.tar.gz, ./data.tar.gz in that order through the './'-prefixing helper; apk: the data segment is written as a complete tar (the kind constant for which the writer flushes after closing the tar), control and signature as cut tars, the buffered writer is large enough to hold back the end-of-archive marker (>= 1024), Flush precedes the tar Close, and .PKGINFO is the first entry of the control segment; archlinux: .INSTALL is written only when at least one script is configured. (D4) the deb compression setting is evaluated for every accepted name and for an unknown one: exactly one compressor constructor is live and the member name carries the matching suffix; an unknown name is an error. (F10) for every tar header created on a packaging path, every definition of Name that can reach the point where the header is written (flow-sensitive reaching stores) is a relative constant, is built from constants, or passes the format's relative-name helper; a header made by tar.FileInfoHeader keeps its source-path name unless overwritten on every path. (O4) every tar/compressor layered over a buffer is closed before the buffer is read. Uniqueness of names and parents-before-children follow from the plan rules of C05, which are re-evaluated here. Acceptance by dpkg/rpm/apk/pacman and rpm's internal layout are not decided."
	r.Explanation += " (F10-size) per header, over the combinations of Typeflag and Size definitions that can hold together at a use, a header-only class never meets a size other than the constant zero. (O3-align) the hand-written padding of apk segments, evaluated in an affine domain for every residue of the byte counter modulo 512, satisfies 0 <= pad < 512 and (counter+pad) mod 512 = 0. Imported: .PKGINFO first in .MTREE (C03 F8), apk segment order by buffer identity (C10 F12-apk), fresh output buffers (C11 G4), and the planner's path discipline (C05 G-*, O5-parents-clean)."
	r.Explanation += " (O3-all) in deb's Package and ipk's outer writer every return whose error is not provably non-nil is dominated by the writes of all mandatory members. (F10-rpm) every definition of a file record's Name that reaches rpmpack's AddFile is the result of files.ToNixPath (or a clean absolute constant), and one such definition dominates the call."
	r.Explanation += " (O4-once) every local bytes.Buffer of a packager that is read (as io.Reader argument, element of a reader list, Read/WriteTo/Next, or by a module function that reads its parameter) has no two readers on one path."
	r.Explanation += " (F10-ids) stores to tar.Header.Uid/Gid in packager packages are non-negative constants. (F10-rpm-type) RPMFile.Type is stored only through a fresh record (the builder's own allocation or the result of a fresh-returning builder)."
	r.Assumptions = []string{
		"archive/tar, blakesmith/ar, pgzip, zstd, xz and rpmpack produce well-formed containers for well-formed input",
		"files.AsRelativePath / AsExplicitRelativePath return clean relative paths (their string semantics are not analysed)",
	}
	// ---- O3 deb ----
	if pk := c.PackagerByFormat("deb"); pk != nil {
		members := arMembers(c, pk.Package)
		var gh *ssa.Call
		forEachInstr(pk.Package, func(in ssa.Instruction) {
			if call, ok := in.(*ssa.Call); ok && calleeIs(call, "github.com/blakesmith/ar", "Writer", "WriteGlobalHeader") {
				gh = call
			}
		})
		okHdr := gh != nil
		for _, m := range members {
			if gh != nil && !instrDominates(gh, m.at()) {
				okHdr = false
			}
		}
		r.Check(okHdr && len(members) >= 4, "O3", "deb: ar global header precedes every member", c.pos(pk.Package.Pos()), fmt.Sprintf("%d member writes found", len(members)))
		var names []string
		for _, m := range members {
			n := constOrEmpty(m.name)
			if n == "" {
				if bo, ok := m.name.(*ssa.BinOp); ok && constOrEmpty(bo.X) == "_gpg" {
					n = "_gpg*"
				} else {
					n = "<data member>"
				}
			}
			names = append(names, n)
		}
		ordered := true
		for i := 1; i < len(members); i++ {
			if !memberBefore(members[i-1], members[i]) {
				ordered = false
			}
		}
		r.Check(ordered && strings.Join(names, ",") == "debian-binary,control.tar.gz,<data member>,_gpg*", "O3", "deb: ar member order", c.pos(pk.Package.Pos()), "members written: "+strings.Join(names, ", ")+" (each dominated by the previous one)")
		// every return that can report success comes after the three
		// mandatory members
		for _, b := range pk.Package.Blocks {
			ret, isRet := b.Instrs[len(b.Instrs)-1].(*ssa.Return)
			if !isRet || errorIsNonNilAt(ret) {
				continue
			}
			missing := ""
			for i, m := range members {
				if names[i] == "_gpg*" {
					continue
				}
				okM := false
				switch {
				case m.site == nil && m.done != nil:
					okM = m.done == b || m.done.Dominates(b)
				default:
					okM = m.at().Block() == b || m.at().Block().Dominates(b)
				}
				if !okM {
					missing = names[i]
				}
			}
			r.Check(missing == "", "O3-all", "deb: a return that can report success follows every mandatory member", c.instrPos(ret),
				"the write of "+missing+" does not dominate this return: a package without that member would be reported as built")
		}
		// debian-binary body
		for _, m := range members {
			if constOrEmpty(m.name) == "debian-binary" {
				body := m.body
				if cv, ok := body.(*ssa.Convert); ok {
					body = cv.X
				}
				r.Check(constOrEmpty(body) == "2.0\n", "O3", "deb: debian-binary content", c.instrPos(m.call), fmt.Sprintf("content constant %q, expected \"2.0\\n\"", constOrEmpty(body)))
			}
		}
		checkDebCompression(c, r, pk)
	}

	// ---- O3 ipk ----
	if pk := c.PackagerByFormat("ipk"); pk != nil {
		found := false
		for _, fn := range sortedFuncs(c, c.Reach(pk.Package)) {
			type outer struct {
				call *ssa.Call
				name string
				body ssa.Value
				row  int
				done *ssa.BasicBlock
			}
			var seq []outer
			var names []string
			forEachInstr(fn, func(in ssa.Instruction) {
				call, ok := in.(*ssa.Call)
				if !ok || call.Call.StaticCallee() == nil || len(call.Call.Args) == 0 || !isArchiveWriterType(call.Call.Args[0]) {
					return
				}
				for i, a := range call.Call.Args {
					var body ssa.Value
					if i+1 < len(call.Call.Args) {
						body = call.Call.Args[i+1]
					}
					switch constOrEmpty(a) {
					case "debian-binary", "control.tar.gz", "data.tar.gz":
						seq = append(seq, outer{call, constOrEmpty(a), body, 0, nil})
						names = append(names, constOrEmpty(a))
						continue
					}
					// table-driven: one call in a loop over a literal table of
					// {name, content} rows - one member per row, in row order
					ia, nfield, isElem := loopElemField(a)
					if !isElem || a.Type().String() != "string" {
						continue
					}
					arr, done := fullRangeOver(ia, call)
					if arr == nil {
						continue
					}
					rows := tableRows(arr, ia)
					bfield := ""
					if body != nil {
						if ib, bf, ok := loopElemField(body); ok && ib == ia {
							bfield = bf
						}
					}
					for k, row := range rows {
						switch n := constOrEmpty(row[nfield]); n {
						case "debian-binary", "control.tar.gz", "data.tar.gz":
							seq = append(seq, outer{call, n, row[bfield], k, done})
							names = append(names, n)
						}
					}
				}
			})
			if len(seq) == 0 {
				continue
			}
			found = true
			ordered := len(seq) == 3
			for i := 1; i < len(seq); i++ {
				if seq[i-1].call == seq[i].call {
					if seq[i-1].row >= seq[i].row {
						ordered = false
					}
				} else if !instrDominates(seq[i-1].call, seq[i].call) {
					ordered = false
				}
			}
			r.Check(ordered && strings.Join(names, ",") == "debian-binary,control.tar.gz,data.tar.gz", "O3", "ipk: outer member order", c.pos(fn.Pos()), "members written: "+strings.Join(names, ", "))
			for _, b := range fn.Blocks {
				ret, isRet := b.Instrs[len(b.Instrs)-1].(*ssa.Return)
				if !isRet || errorIsNonNilAt(ret) {
					continue
				}
				missing := ""
				for _, m := range seq {
					okM := false
					if m.done != nil {
						okM = m.done == b || m.done.Dominates(b)
					} else {
						okM = m.call.Block() == b || m.call.Block().Dominates(b)
					}
					if !okM {
						missing = m.name
					}
				}
				r.Check(missing == "", "O3-all", "ipk: a return that can report success follows every outer member", c.instrPos(ret),
					"the write of "+missing+" does not dominate this return: an ipk without that member would be reported as built")
			}
			for _, s := range seq {
				if s.name == "debian-binary" && s.body != nil {
					body := s.body
					if cv, ok := body.(*ssa.Convert); ok {
						body = cv.X
					}
					r.Check(constOrEmpty(body) == "2.0\n", "O3", "ipk: debian-binary content", c.instrPos(s.call), fmt.Sprintf("content constant %q", constOrEmpty(body)))
				}
			}
		}
		if !found {
			r.Unresolved("ipk outer members", "no function writes debian-binary/control.tar.gz/data.tar.gz")
		}
	}

	checkAPKStructure(c, r)
	checkRPMNames(c, r)
	checkBuffersReadOnce(c, r)
	checkHeaderIDsAndFlags(c, r)
	// modes and kinds the planner hands to the header writers (rules of C01):
	// a directory mode with Go's type or special bits is written in base-256
	// by the packagers that copy the stored mode as it stands
	{
		tmpP := newReport("tmp")
		checkPlannerDefaults(c, tmpP)
		nP := 0
		for _, o := range tmpP.Obls {
			if o.Rule == "F2-perm" || o.Rule == "F2-symlink-nostat" {
				o.Rule = "plan-" + o.Rule
				r.Obls = append(r.Obls, o)
				nP++
			}
		}
		r.Floor("plan-F2-perm", nP, 2)
	}
	// the command replaces the target file (rule of C17): a package written
	// over a longer file without truncation is followed by the old tail
	{
		tmpT := newReport("tmp")
		checkSchemaOutputFile(c, tmpT)
		nT := 0
		for _, o := range tmpT.Obls {
			if o.Rule == "output-truncates" {
				o.Rule = "cli-output-truncates"
				r.Obls = append(r.Obls, o)
				nT++
			}
		}
		r.Floor("cli-output-truncates", nT, 2)
	}

	// ---- O3 archlinux: .INSTALL only with scripts ----
	if pk := c.PackagerByFormat("archlinux"); pk != nil {
		done := false
		for _, fn := range sortedFuncs(c, c.Reach(pk.Package)) {
			if !writesConstHeader(fn, ".INSTALL") {
				continue
			}
			done = true
			ev := newEvaluator(c)
			info := newAObj("info")
			for _, s := range specScripts {
				info.Fields[s.Field] = cStr("")
			}
			ev.Defaults[c.infoPtrKey()] = info
			ev.MaxDepth = 2
			fr := ev.Explore(fn, make([]AV, len(fn.Params)))
			wrote := false
			for _, li := range fr.LiveInstrs() {
				if call, ok := li.In.(*ssa.Call); ok && li.F == fr && calleeIs(call, "archive/tar", "Writer", "WriteHeader") {
					wrote = true
				}
			}
			// the map's emptiness is not visible to the evaluator: decide by dominance of the len()==0 exit
			guard := false
			forEachInstr(fn, func(in ssa.Instruction) {
				ifi, ok := in.(*ssa.If)
				if !ok {
					return
				}
				if bo, ok := ifi.Cond.(*ssa.BinOp); ok && bo.Op == token.EQL {
					if k, ok := bo.Y.(*ssa.Const); ok && k.Value != nil && k.Int64() == 0 {
						if ln, ok := bo.X.(*ssa.Call); ok {
							if b, ok := ln.Call.Value.(*ssa.Builtin); ok && b.Name() == "len" {
								tb := ifi.Block().Succs[0]
								if _, isRet := tb.Instrs[len(tb.Instrs)-1].(*ssa.Return); isRet {
									guard = true
								}
							}
						}
					}
				}
			})
			_ = wrote
			r.Check(guard, "O3", "archlinux: .INSTALL only when a script is configured", c.pos(fn.Pos()), "the function must return before writing .INSTALL when the collected script set is empty")
		}
		if !done {
			r.Unresolved("archlinux .INSTALL writer", "not found")
		}
	}

	// ---- F10 ----
	nh, nsz := 0, 0
	for _, pk := range c.Packagers {
		if pk.Format == "rpm" || pk.Format == "" {
			continue
		}
		var fns []*ssa.Function
		for _, fn := range sortedFuncs(c, c.Reach(pk.Package)) {
			if c.funcPkgPath(fn) == pk.PkgPath {
				fns = append(fns, fn)
			}
		}
		spa := newProvScoped(c, c.Reach(pk.Package))
		for _, h := range headerObjects(c, fns) {
			if h.Kind != "tar" {
				continue
			}
			nh++
			construct := pk.Format + ": name of " + h.key(c)
			if len(h.Uses) == 0 {
				r.Note("header never used: %s", construct)
				continue
			}
			ok := true
			var whys []string
			for _, use := range h.Uses {
				defs, init := h.reaching("Name", use)
				if init {
					ok = false
					if h.FromFileInfo {
						whys = append(whys, fmt.Sprintf("at %s the name can still be the one tar.FileInfoHeader derived from the entry (its source path)", c.instrPos(use)))
					} else {
						whys = append(whys, fmt.Sprintf("at %s the name can be unset", c.instrPos(use)))
					}
				}
				for _, st := range defs {
					if good, why := nameConforms(c, spa, pk.Format, st.Val); !good {
						ok = false
						whys = append(whys, fmt.Sprintf("definition at %s reaching %s: %s", c.instrPos(st), c.instrPos(use), why))
					} else {
						whys = append(whys, why)
					}
				}
			}
			whys = uniqStrings(whys)
			r.Check(ok, "F10", construct, c.instrPos(h.Create), strings.Join(whys, "; "))

			// F10-size: a member of a header-only class (directory, link,
			// device, fifo) is followed by no data blocks, so its size field
			// must be zero: a reader that honours the field skips that many
			// bytes of the following members. Decided per combination of
			// Typeflag and Size definitions that can hold together at a use.
			if !h.FromFileInfo {
				nsz++
				okS := true
				var whyS []string
				for _, use := range h.Uses {
					for _, p := range h.reachingPairs("Typeflag", "Size", use) {
						cls := h.typeflagClass(p.A)
						if p.B == nil {
							continue
						}
						if k, isK := p.B.Val.(*ssa.Const); isK && k.Value != nil && k.Int64() == 0 {
							continue
						}
						if cls == "FILE" {
							whyS = append(whyS, "size set for a regular member")
							continue
						}
						okS = false
						tf := "a non-constant Typeflag"
						if p.A != nil {
							tf = "the Typeflag set at " + c.instrPos(p.A)
						}
						whyS = append(whyS, fmt.Sprintf("at %s the size set at %s (%s) can hold together with %s (class %s): a header-only member would announce data that is not written", c.instrPos(use), c.instrPos(p.B), valueExpr(c, p.B.Val, 0), tf, cls))
					}
				}
				whyS = uniqStrings(whyS)
				if len(whyS) == 0 {
					whyS = []string{"size is never set: zero"}
				}
				r.Check(okS, "F10-size", pk.Format+": size of "+h.key(c), c.instrPos(h.Create), strings.Join(whyS, "; "))
			}
		}
	}
	r.Floor("F10", nh, 10)
	checkTarFormats(c, r)
	checkZstdWindow(c, r)
	r.Floor("F10-size", nsz, 8)

	// ---- O4 (shared with C06) and plan rules (shared with C05) ----
	tmp := newReport("tmp")
	checkC06(c, tmp)
	n := 0
	for _, o := range tmp.Obls {
		if o.Rule == "E2m" || o.Rule == "E2" {
			o.Rule = "O4"
			r.Obls = append(r.Obls, o)
			n++
		}
	}
	r.Floor("O4", n, 10)
	tmp5 := newReport("tmp")
	checkC05(c, tmp5)
	n5 := 0
	for _, o := range tmp5.Obls {
		switch o.Rule {
		case "K2", "K2b", "K2c", "K5-changelog", "K5-before-plan", "K8-implicit-only-dirs", "K3", "O5-parents", "O5-parents-clean", "O5-sort", "D6", "G-base", "G-prefix", "G-cutset", "G-rooted":
			o.Rule = "plan-" + o.Rule
			r.Obls = append(r.Obls, o)
			n5++
		}
	}
	r.Floor("plan rules", n5, 40)
	// stated in so many words: the .MTREE lists .PKGINFO first (rule of C03),
	// an apk is [signature,] control, data - each the buffer that segment was
	// written into (rule of C10) - and every archive starts in a buffer that
	// holds nothing from an earlier build (rule of C11/C12)
	r.Floor("mtree-F8", importRules(c, r, checkC03, "mtree-", []string{"F8"}, func(o Obligation) bool {
		return strings.Contains(o.Construct, ".PKGINFO")
	}), 1)
	r.Floor("apk-F12-apk", importRules(c, r, checkC10, "apk-", []string{"F12-apk"}, func(o Obligation) bool {
		return strings.Contains(o.Construct, "segment order of concatenation")
	}, "apk segments"), 1)
	r.Floor("fresh-G4", importRules(c, r, checkC11, "fresh-", []string{"G4"}, nil), 8)
}

func checkDebCompression(c *Ctx, r *Report, pk *Packager) {
	var fn *ssa.Function
	for _, f := range fieldLoadFuncs(c, c.Reach(pk.Package), "Overridables.Deb.Compression") {
		if comparesFieldToConst(f, "Overridables.Deb.Compression") {
			fn = f
		}
	}
	if fn == nil {
		r.Unresolved("deb compression switch", "not found")
		return
	}
	want := map[string][2]string{
		"":     {"compress/gzip.NewWriter", "data.tar.gz"},
		"gzip": {"compress/gzip.NewWriter", "data.tar.gz"},
		"xz":   {"github.com/ulikunitz/xz.NewWriter", "data.tar.xz"},
		"zstd": {"github.com/klauspost/compress/zstd.NewWriter", "data.tar.zst"},
		"none": {"", "data.tar"},
	}
	for _, name := range []string{"", "gzip", "xz", "zstd", "none"} {
		ev := newEvaluator(c)
		info := newAObj("info")
		info.Fields["Overridables.Deb.Compression"] = cStr(name)
		ev.Defaults[c.infoPtrKey()] = info
		ev.MaxDepth = 2
		fr := ev.Explore(fn, make([]AV, len(fn.Params)))
		ctors := map[string]bool{}
		for _, li := range fr.LiveInstrs() {
			// the switch itself or a helper it was extracted into (a callee
			// that receives the setting), not the tar/control builders
			if li.F != fr && !(li.F != nil && valueIsParamCompared(li.F.Fn)) {
				continue
			}
			if call, ok := li.In.(*ssa.Call); ok {
				if o := calleeObj(call); o != nil {
					q := qualifiedName(o)
					if _, isC := closerCtors[q]; isC && !strings.HasPrefix(q, "archive/tar") && !strings.HasPrefix(q, "os.") {
						ctors[q] = true
					}
				}
			}
		}
		// member name: the non-empty string constants assigned in live code
		// (the name is a named result held in a cell), also when the constant
		// arrives as a helper's result
		names := map[string]bool{}
		for _, li := range fr.LiveInstrs() {
			st, ok := li.In.(*ssa.Store)
			if !ok || li.F != fr {
				continue
			}
			if _, isCell := st.Addr.(*ssa.Alloc); !isCell {
				continue
			}
			if s := constOrEmpty(st.Val); s != "" {
				names[s] = true
			} else if s, ok := avStr(fr.Eval(st.Val)); ok && s != "" {
				names[s] = true
			} else if ex, ok := st.Val.(*ssa.Extract); ok {
				// a helper's result that differs between its error and
				// success returns: the non-empty constants it can return
				if call, ok := ex.Tuple.(*ssa.Call); ok {
					if ch := fr.childFrame(call); ch != nil {
						for _, rv := range ch.Returns {
							if ex.Index < len(rv) {
								if s, ok := avStr(rv[ex.Index]); ok && s != "" {
									names[s] = true
								}
							}
						}
					}
				}
			}
		}
		w := want[name]
		wantC := ""
		if w[0] != "" {
			wantC = w[0]
		}
		r.Check(joinSorted(ctors) == wantC && joinSorted(names) == w[1], "D4", fmt.Sprintf("deb compression %q", name), c.pos(fn.Pos()),
			fmt.Sprintf("live compressor constructors {%s}, member name on success {%s}; expected {%s} and %q", joinSorted(ctors), joinSorted(names), wantC, w[1]))
	}
	ok, why := errorOnlyUnder(c, fn, map[string]string{"Overridables.Deb.Compression": "no-such-compression"})
	r.Check(ok, "D4", "deb compression: unknown name", c.pos(fn.Pos()), why)
}

func checkAPKStructure(c *Ctx, r *Report) {
	pk := c.PackagerByFormat("apk")
	if pk == nil {
		return
	}
	// the segment writer: function with a parameter of a named integer kind
	// compared against a constant, creating gzip+tar writers
	var wt *ssa.Function
	for _, fn := range sortedFuncs(c, c.Reach(pk.Package)) {
		hasTar, hasGz := false, false
		forEachInstr(fn, func(in ssa.Instruction) {
			if call, ok := in.(*ssa.Call); ok {
				if calleeIs(call, "archive/tar", "", "NewWriter") {
					hasTar = true
				}
				if o := calleeObj(call); o != nil && strings.Contains(qualifiedName(o), "gzip.NewWriter") {
					hasGz = true
				}
			}
		})
		if hasTar && hasGz {
			wt = fn
		}
	}
	if wt == nil {
		r.Unresolved("apk segment writer", "not found")
		return
	}
	// the kind parameter and the constant meaning "complete tar": the If that
	// guards the Flush after the tar Close
	var twClose, firstFlush *ssa.Call
	var flushes []*ssa.Call
	var bufSize int64 = -1
	forEachInstr(wt, func(in ssa.Instruction) {
		call, ok := in.(*ssa.Call)
		if !ok {
			return
		}
		if calleeIs(call, "archive/tar", "Writer", "Close") {
			twClose = call
		}
		if calleeIs(call, "bufio", "Writer", "Flush") {
			flushes = append(flushes, call)
			if firstFlush == nil {
				firstFlush = call
			}
		}
		if calleeIs(call, "bufio", "", "NewWriterSize") {
			if k, ok := call.Call.Args[1].(*ssa.Const); ok && k.Value != nil {
				bufSize = k.Int64()
			}
		}
		if calleeIs(call, "bufio", "", "NewWriter") {
			bufSize = 4096
		}
	})
	r.Check(twClose != nil && firstFlush != nil && instrDominates(firstFlush, twClose), "O3", "apk: buffered data flushed before the tar is closed", c.pos(wt.Pos()), "Flush must precede tar.Writer.Close so that only the end-of-archive marker remains buffered")
	r.Check(bufSize >= 1024, "O3", "apk: buffer holds back the end-of-archive marker", c.pos(wt.Pos()), fmt.Sprintf("buffer size %d; the 1024-byte tar trailer must fit so that cut segments can drop it", bufSize))
	checkApkAlign(c, r, wt)
	var fullConst int64 = -1
	var kindParam *ssa.Parameter
	for _, fl := range flushes {
		if twClose == nil || !instrDominates(twClose, fl) {
			continue
		}
		// this is the post-close flush: find its guard
		for d := fl.Block(); d != nil; d = d.Idom() {
			for _, p := range d.Preds {
				ifi, ok := p.Instrs[len(p.Instrs)-1].(*ssa.If)
				if !ok || p.Succs[0] != d {
					continue
				}
				if bo, ok := ifi.Cond.(*ssa.BinOp); ok && bo.Op == token.EQL {
					if prm, ok := bo.X.(*ssa.Parameter); ok {
						if k, ok := bo.Y.(*ssa.Const); ok && k.Value != nil {
							kindParam, fullConst = prm, k.Int64()
						}
					}
				}
			}
			if kindParam != nil {
				break
			}
		}
	}
	if kindParam == nil {
		r.Fail("O3", "apk: trailer kept only for the complete (data) tar", c.pos(wt.Pos()), "the Flush after the tar Close must be guarded by the segment kind")
		return
	}
	r.Pass("O3", "apk: trailer kept only for the complete (data) tar", c.pos(wt.Pos()), fmt.Sprintf("post-close Flush guarded by kind == %d", fullConst))
	kindIdx := -1
	for i, p := range wt.Params {
		if p == kindParam {
			kindIdx = i
		}
	}
	// call sites: which segment passes which kind
	n := 0
	for _, fn := range sortedFuncs(c, c.Reach(pk.Package)) {
		forEachInstr(fn, func(in ssa.Instruction) {
			call, ok := in.(*ssa.Call)
			if !ok || call.Call.StaticCallee() != wt {
				return
			}
			n++
			k, ok := call.Call.Args[kindIdx].(*ssa.Const)
			if !ok || k.Value == nil {
				r.Fail("O3", "apk: segment kind in "+c.funcKey(fn), c.instrPos(call), "kind is not a constant")
				return
			}
			// data segment: the one whose hash is sha256 (datahash); control/signature: sha1
			isData := false
			for _, a := range call.Call.Args {
				v := a
				if mi, ok := v.(*ssa.MakeInterface); ok {
					v = mi.X
				}
				if hc, ok := v.(*ssa.Call); ok {
					if o := calleeObj(hc); o != nil && qualifiedName(o) == "crypto/sha256.New" {
						isData = true
					}
				}
			}
			full := k.Int64() == fullConst
			want := "cut (no end-of-archive marker)"
			if isData {
				want = "complete"
			}
			r.Check(full == isData, "O3", "apk: segment kind in "+c.funcKey(fn), c.instrPos(call), fmt.Sprintf("segment written as complete tar=%v; this segment must be %s", full, want))
		})
	}
	r.Floor("O3-apk-kinds", n, 3)
	// .PKGINFO first in the control segment
	for _, fn := range sortedFuncs(c, c.Reach(pk.Package)) {
		if !writesConstHeader(fn, ".PKGINFO") {
			continue
		}
		var first *ssa.Call
		var others []*ssa.Call
		forEachInstr(fn, func(in ssa.Instruction) {
			call, ok := in.(*ssa.Call)
			if !ok || call.Call.StaticCallee() == nil || !c.isModuleFunc(call.Call.StaticCallee()) {
				return
			}
			takesTar := false
			for _, a := range call.Call.Args {
				if isArchiveWriterType(a) {
					takesTar = true
				}
			}
			if !takesTar {
				return
			}
			isInfo := false
			for _, a := range call.Call.Args {
				if constOrEmpty(a) == ".PKGINFO" {
					isInfo = true // the name handed to a helper that builds the header
				}
				if al, ok := a.(*ssa.Alloc); ok && isNamed(derefType(al.Type()), "archive/tar", "Header") {
					for _, ref := range *al.Referrers() {
						if fa, ok := ref.(*ssa.FieldAddr); ok && fieldName(fa.X.Type(), fa.Field) == "Name" {
							for _, r2 := range *fa.Referrers() {
								if st, ok := r2.(*ssa.Store); ok && constOrEmpty(st.Val) == ".PKGINFO" {
									isInfo = true
								}
							}
						}
					}
				}
			}
			if isInfo {
				first = call
			} else {
				others = append(others, call)
			}
		})
		ok := first != nil
		for _, o := range others {
			if first == nil || !instrDominates(first, o) {
				ok = false
			}
		}
		r.Check(ok, "O3", "apk: .PKGINFO is the first entry of the control segment", c.pos(fn.Pos()), fmt.Sprintf("%d other entries written, each after .PKGINFO", len(others)))
	}
}

// valueIsParamCompared: the function compares one of its string parameters
// against constants (a setting's switch extracted into a helper).
func valueIsParamCompared(fn *ssa.Function) bool {
	for _, p := range fn.Params {
		if b, ok := p.Type().Underlying().(*types.Basic); ok && b.Info()&types.IsString != 0 && valueComparedToConst(p, 2) {
			return true
		}
	}
	return false
}

// checkTarFormats (F10-format): dpkg reads only the old GNU / ustar tar
// dialects; a header written without an explicit format lets archive/tar fall
// back to PAX records as soon as a field does not fit (a link target longer
// than 100 bytes), which dpkg rejects. Every tar header of the deb and ipk
// packagers therefore has Format = FormatGNU at every use - set in the
// literal, by its factory, or by the helper it is handed to.
func checkTarFormats(c *Ctx, r *Report) {
	n := 0
	for _, format := range []string{"deb", "ipk"} {
		pk := c.PackagerByFormat(format)
		if pk == nil {
			continue
		}
		var fns []*ssa.Function
		for _, fn := range sortedFuncs(c, c.Reach(pk.Package)) {
			if c.funcPkgPath(fn) == pk.PkgPath {
				fns = append(fns, fn)
			}
		}
		for _, h := range headerObjects(c, fns) {
			if h.Kind != "tar" || len(h.Uses) == 0 {
				continue
			}
			n++
			ok := true
			why := "Format is FormatGNU at every use"
			for _, u := range h.Uses {
				if _, isRet := u.(*ssa.Return); isRet {
					continue
				}
				defs, init := h.reaching("Format", u)
				if init && !calleeSetsFormat(c, u, h.Root) {
					ok = false
					why = fmt.Sprintf("at %s the header's Format can be unset: archive/tar then chooses the dialect itself and switches to PAX extended headers for long names or link targets, which dpkg does not read", c.instrPos(u))
				}
				for _, st := range defs {
					if k, isK := h.valueOf(st).(*ssa.Const); !isK || k.Value == nil || k.Int64() != 8 { // tar.FormatGNU
						ok = false
						why = fmt.Sprintf("the Format stored at %s is not tar.FormatGNU", c.instrPos(st))
					}
				}
			}
			r.Check(ok, "F10-format", format+": tar dialect of "+h.key(c), c.instrPos(h.Create), why)
		}
	}
	r.Floor("F10-format", n, 6)
}

// calleeSetsFormat: the use hands the header to a module function that stores
// FormatGNU into its parameter's Format before anything else uses it.
func calleeSetsFormat(c *Ctx, use ssa.Instruction, root ssa.Value) bool {
	call, ok := use.(*ssa.Call)
	if !ok {
		return false
	}
	sc := call.Call.StaticCallee()
	if sc == nil || sc.Blocks == nil || !c.isModuleFunc(sc) {
		return false
	}
	for i, a := range call.Call.Args {
		if a != root || i >= len(sc.Params) {
			continue
		}
		prm := sc.Params[i]
		found := false
		for _, ref := range *prm.Referrers() {
			fa, ok := ref.(*ssa.FieldAddr)
			if !ok || fieldName(fa.X.Type(), fa.Field) != "Format" {
				continue
			}
			for _, r2 := range *fa.Referrers() {
				if st, ok := r2.(*ssa.Store); ok && st.Addr == ssa.Value(fa) && st.Block() == sc.Blocks[0] {
					if k, isK := st.Val.(*ssa.Const); isK && k.Value != nil && k.Int64() == 8 { // tar.FormatGNU
						found = true
					}
				}
			}
		}
		return found
	}
	return false
}

// checkZstdWindow (O3-zstd-window): a zstd frame announces its window size;
// decoders (zstd -d, libarchive) refuse frames whose window exceeds 128 MiB
// unless told otherwise. An encoder option that sets the window must be a
// constant within that bound - not derived from the payload.
func checkZstdWindow(c *Ctx, r *Report) {
	const zstdPath = "github.com/klauspost/compress/zstd"
	n := 0
	ctors := 0
	for _, fn := range c.ModFuncs {
		forEachInstr(fn, func(in ssa.Instruction) {
			call, ok := in.(*ssa.Call)
			if !ok {
				return
			}
			if calleeIs(call, zstdPath, "", "NewWriter") {
				ctors++
			}
			if !calleeIs(call, zstdPath, "", "WithWindowSize") {
				return
			}
			n++
			k, isK := call.Call.Args[0].(*ssa.Const)
			okW := isK && k.Value != nil && k.Int64() <= 1<<27
			r.Check(okW, "O3-zstd-window", fmt.Sprintf("zstd window option#%d in %s", n, c.funcKey(fn)), c.instrPos(call),
				"the window size is not a constant of at most 128 MiB: a frame announcing a larger window is refused by zstd -d and libarchive with their default limits")
		})
	}
	if n == 0 {
		r.Pass("O3-zstd-window", fmt.Sprintf("%d zstd encoder(s), none with a window option", ctors), "-", "the encoder default (8 MiB) is accepted by every decoder")
	}
	if ctors < 1 {
		r.Fail("instance-floor", "O3-zstd-window", "-", "no zstd encoder found")
	}
}

// checkRPMNames (F10-rpm): every file record handed to rpmpack carries a name
// that went through the repository's path normaliser (files.ToNixPath) at its
// last definition: rpmpack stores the name as given - dirname and basename are
// split from it - so a name left unclean ("" for the root, a trailing slash, a
// doubled separator) ends up in the header's file list as such.
func checkRPMNames(c *Ctx, r *Report) {
	pk := c.PackagerByFormat("rpm")
	if pk == nil {
		return
	}
	var fns []*ssa.Function
	for _, fn := range sortedFuncs(c, c.Reach(pk.Package)) {
		if c.funcPkgPath(fn) == pk.PkgPath {
			fns = append(fns, fn)
		}
	}
	pa := newProv(c)
	n := 0
	isNorm := func(v ssa.Value) bool {
		if k, isK := v.(*ssa.Const); isK && isConstString(k) {
			t := constString(k)
			return strings.HasPrefix(t, "/") && (t == "/" || t == strings.TrimRight(t, "/"))
		}
		cl, isCl := v.(*ssa.Call)
		return isCl && (calleeIs(cl, filesPath, "", "ToNixPath") || calleeIs(cl, filesPath, "", "NormalizeAbsoluteFilePath") || calleeIs(cl, filesPath, "", "NormalizeAbsoluteDirPath"))
	}
	for _, fn := range fns {
		forEachInstr(fn, func(in ssa.Instruction) {
			call, isCall := in.(*ssa.Call)
			if !isCall || !calleeIs(call, rpmpackPath, "RPM", "AddFile") {
				return
			}
			n++
			construct := fmt.Sprintf("rpm: file record#%d added in %s has a normalised name", n, c.funcKey(fn))
			ld, isLd := call.Call.Args[len(call.Call.Args)-1].(*ssa.UnOp)
			if !isLd || ld.Op != token.MUL {
				r.Check(false, "F10-rpm", construct, c.instrPos(call), "the record added is not read through a pointer whose Name definitions can be enumerated")
				return
			}
			ptr := ld.X
			var stores []*ssa.Store
			forEachInstr(fn, func(i2 ssa.Instruction) {
				st, isSt := i2.(*ssa.Store)
				if !isSt {
					return
				}
				if fa, isFA := st.Addr.(*ssa.FieldAddr); isFA && fa.X == ptr && fieldName(fa.X.Type(), fa.Field) == "Name" {
					stores = append(stores, st)
				}
			})
			dominating := false
			bad := ""
			for _, st := range stores {
				if instrDominates(st, call) {
					dominating = true
				}
				if !isNorm(st.Val) {
					bad = fmt.Sprintf("the definition at %s is %s (derives from {%s})", c.instrPos(st), shorten(valueExpr(c, st.Val, 0), 80), strings.Join(pa.Of(st.Val).fields(), ","))
				}
			}
			if !dominating && bad == "" {
				bad = "no definition of Name in this function dominates the call; the records come from their builders as they are"
				// every builder normalises the name itself?
				allNorm := true
				nb := 0
				for _, h := range headerObjects(c, fns) {
					if h.Kind != "rpm" {
						continue
					}
					for _, st := range h.fieldStores("Name") {
						nb++
						if !isNorm(h.valueOf(st)) {
							allNorm = false
						}
					}
				}
				if allNorm && nb > 0 {
					bad = ""
				}
			}
			r.Check(bad == "", "F10-rpm", construct, c.instrPos(call),
				"expected every definition of Name that can reach AddFile to be files.ToNixPath(...), and one of them on every path: "+bad)
		})
	}
	r.Floor("F10-rpm", n, 1)
}

// checkBuffersReadOnce (O4-once): a bytes.Buffer that holds a finished part of
// the package (an apk segment, a nested tarball) is drained by reading it. It
// is therefore read by one consumer only on any path: a second reader - a
// digest computed "afterwards" with io.Copy(hash, &buf), say - leaves nothing
// for the concatenation that ships the part.
func checkBuffersReadOnce(c *Ctx, r *Report) {
	n := 0
	for _, pk := range c.Packagers {
		if pk.Format == "" {
			continue
		}
		for _, fn := range sortedFuncs(c, c.Reach(pk.Package)) {
			if c.funcPkgPath(fn) != pk.PkgPath {
				continue
			}
			k := 0
			forEachInstr(fn, func(in ssa.Instruction) {
				al, ok := in.(*ssa.Alloc)
				if !ok || types.TypeString(derefType(al.Type()), nil) != "bytes.Buffer" || al.Referrers() == nil {
					return
				}
				var readers []ssa.Instruction
				for _, ref := range *al.Referrers() {
					switch x := ref.(type) {
					case *ssa.MakeInterface:
						// handed on as an io.Reader (io.Copy source, MultiReader element ...)
						if x.Referrers() == nil {
							continue
						}
						for _, r2 := range *x.Referrers() {
							if ci, isCall := r2.(ssa.CallInstruction); isCall && passedAsReader(ci, x) {
								readers = append(readers, r2)
							}
							// an element of a []io.Reader literal (variadic readers)
							if st, isSt := r2.(*ssa.Store); isSt && st.Val == ssa.Value(x) {
								if ia, isIA := st.Addr.(*ssa.IndexAddr); isIA && strings.Contains(ia.X.Type().String(), "io.Reader") {
									readers = append(readers, r2)
								}
							}
						}
					case ssa.CallInstruction:
						if o := calleeObj(x); o != nil && callReceiver(x) == ssa.Value(al) {
							switch o.Name() {
							case "Read", "ReadByte", "ReadBytes", "ReadRune", "ReadString", "Next", "WriteTo":
								readers = append(readers, ref)
							}
							continue
						}
						// a module function that is handed the buffer and reads it
						if sc := x.Common().StaticCallee(); sc != nil && c.isModuleFunc(sc) && len(sc.Blocks) > 0 {
							for i, a := range x.Common().Args {
								if a == ssa.Value(al) && i < len(sc.Params) && paramIsRead(c, sc, sc.Params[i], 2) {
									readers = append(readers, ref)
								}
							}
						}
					}
				}
				if len(readers) == 0 {
					return
				}
				n++
				k++
				var first, second ssa.Instruction
				for _, a := range readers {
					for _, b := range readers {
						if a == b {
							continue
						}
						if a.Block() == b.Block() && instrIndex(a) < instrIndex(b) || a.Block() != b.Block() && blockReaches(a.Block(), b.Block()) {
							first, second = a, b
						}
					}
				}
				construct := fmt.Sprintf("%s: buffer#%d of %s is read by one consumer", pk.Format, k, c.funcKey(fn))
				if second != nil {
					r.Fail("O4-once", construct, c.instrPos(second), fmt.Sprintf("the buffer is already drained by the reader at %s when it is read here: the part it holds would be missing from (or empty in) the package", c.instrPos(first)))
				} else {
					r.Pass("O4-once", construct, c.instrPos(readers[0]), fmt.Sprintf("%d reader(s), no two on one path", len(readers)))
				}
			})
		}
	}
	r.Floor("O4-once", n, 3)
}

// passedAsReader: the interface value is an argument in a position whose
// parameter type is io.Reader (or a variadic of it).
func passedAsReader(ci ssa.CallInstruction, v ssa.Value) bool {
	sig := ci.Common().Signature()
	args := ci.Common().Args
	off := 0
	if sig.Recv() != nil && !ci.Common().IsInvoke() {
		off = 1
	}
	for i, a := range args {
		if a != v {
			continue
		}
		pi := i - off
		if pi < 0 || sig.Params().Len() == 0 {
			continue
		}
		if pi >= sig.Params().Len() {
			pi = sig.Params().Len() - 1
		}
		pt := sig.Params().At(pi).Type()
		if sl, isSl := pt.(*types.Slice); isSl && sig.Variadic() && pi == sig.Params().Len()-1 {
			pt = sl.Elem()
		}
		if pt.String() == "io.Reader" {
			return true
		}
	}
	// a variadic io.Reader list built into a slice literal
	return false
}

// paramIsRead: the module function reads from the buffer / reader parameter.
func paramIsRead(c *Ctx, fn *ssa.Function, p *ssa.Parameter, depth int) bool {
	if p.Referrers() == nil {
		return false
	}
	for _, ref := range *p.Referrers() {
		switch x := ref.(type) {
		case *ssa.MakeInterface:
			if x.Referrers() == nil {
				continue
			}
			for _, r2 := range *x.Referrers() {
				if ci, isCall := r2.(ssa.CallInstruction); isCall && passedAsReader(ci, x) {
					return true
				}
				// stored into a []io.Reader literal (io.MultiReader(a, b, c))
				if st, isSt := r2.(*ssa.Store); isSt {
					if ia, isIA := st.Addr.(*ssa.IndexAddr); isIA {
						if strings.Contains(ia.X.Type().String(), "io.Reader") {
							return true
						}
					}
				}
			}
		case ssa.CallInstruction:
			if o := calleeObj(x); o != nil && callReceiver(x) == ssa.Value(p) {
				switch o.Name() {
				case "Read", "ReadByte", "ReadBytes", "ReadRune", "ReadString", "Next", "WriteTo":
					return true
				}
				continue
			}
			if passedAsReader(x, p) {
				return true
			}
			if sc := x.Common().StaticCallee(); sc != nil && c.isModuleFunc(sc) && len(sc.Blocks) > 0 && depth > 0 {
				for i, a := range x.Common().Args {
					if a == ssa.Value(p) && i < len(sc.Params) && paramIsRead(c, sc, sc.Params[i], depth-1) {
						return true
					}
				}
			}
		}
	}
	return false
}

// checkHeaderIDsAndFlags: two header-level details strict readers depend on.
// (F10-ids) the numeric uid/gid fields of tar headers are left at zero or set
// from a non-negative constant - owners are recorded by name; a computed id
// can be negative (written in base-256, which dpkg rejects). (F10-rpm-type) an
// rpm file record's type flags are fixed where the record is built: rpmpack
// decides "ghost: no payload" by comparing the whole flag word, so flags
// or-ed in afterwards (a %doc bit for everything below the doc directory) put
// a ghost into the payload while the header still says ghost.
func checkHeaderIDsAndFlags(c *Ctx, r *Report) {
	nIDs, nType := 0, 0
	var badID, badType string
	var atID, atType ssa.Instruction
	for _, pk := range c.Packagers {
		if pk.Format == "" {
			continue
		}
		for _, fn := range c.ModFuncs {
			if c.funcPkgPath(fn) != pk.PkgPath {
				continue
			}
			forEachInstr(fn, func(in ssa.Instruction) {
				st, ok := in.(*ssa.Store)
				if !ok {
					return
				}
				fa, ok := st.Addr.(*ssa.FieldAddr)
				if !ok {
					return
				}
				name := fieldName(fa.X.Type(), fa.Field)
				switch {
				case isNamed(derefType(fa.X.Type()), "archive/tar", "Header") && (name == "Uid" || name == "Gid"):
					nIDs++
					if k, isK := st.Val.(*ssa.Const); !isK || k.Value == nil || k.Int64() < 0 {
						badID = fmt.Sprintf("%s.%s = %s in %s", "tar.Header", name, shorten(valueExpr(c, st.Val, 0), 50), c.funcKey(fn))
						atID = st
					}
				case isNamed(derefType(fa.X.Type()), rpmpackPath, "RPMFile") && name == "Type":
					nType++
					if allocOf(fa.X) == nil && !freshPointer(c, fa.X) {
						badType = fmt.Sprintf("RPMFile.Type stored through %s in %s", shorten(valueExpr(c, fa.X, 0), 40), c.funcKey(fn))
						atType = st
					}
				}
			})
		}
	}
	pos := func(in ssa.Instruction) string {
		if in == nil {
			return "-"
		}
		return c.instrPos(in)
	}
	r.Check(badID == "", "F10-ids", "numeric uid/gid fields of tar headers are zero or a non-negative constant", pos(atID),
		fmt.Sprintf("%d store(s) to Uid/Gid examined; %s: a computed id can be negative or out of range, and strict readers (dpkg-deb) reject such a header", nIDs, badID))
	r.Check(badType == "", "F10-rpm-type", "rpm file type flags are fixed where the record is built", pos(atType),
		fmt.Sprintf("%d store(s) to RPMFile.Type examined; %s: flags changed after the builder has chosen them no longer match how rpmpack classifies the entry (ghost entries would get a payload)", nType, badType))
	r.Floor("F10-rpm-type", nType, 1)
}
