package main

// Abstract evaluator (DESIGN appendix A2 / P3).
//
// It decides, for code that touches a value only through comparisons against
// constants (or against another such value), which blocks, instructions and
// results are possible for each cell of the induced finite partition. Values
// are drawn from representative constants; anything the evaluator cannot decide
// is "unknown" and forks control flow both ways (may-semantics), so a cell's
// live set is an over-approximation of what that input class can execute.
// No code is run and no solver is used: this is constant propagation over a
// finite abstract domain on go/ssa.

import (
	"fmt"
	"go/constant"
	"go/token"
	"go/types"
	"sort"
	"strings"

	"golang.org/x/tools/go/ssa"
)

// AV is an abstract value; nil means unknown.
type AV interface{ key() string }

type avConst struct{ v constant.Value } // v == nil means the nil constant
type avObj struct{ o *AObj }
type avFieldAddr struct {
	o    *AObj
	path string
}
type avSlice struct {
	id    string
	elems []AV
}
type avElemAddr struct {
	s   *avSlice
	idx int
}
type avCycle struct{}

// avCell: a local variable that is assigned exactly once and otherwise only
// read (also by closures that capture it): loads yield the assigned value.
type avCell struct {
	st *ssa.Store
	fr *Frame
}

func (a avCell) key() string { return fmt.Sprintf("cell:%p", a.st) }

// avNonNil: an interface value known to be non-nil (a constructed error).
type avNonNil struct{}

func (avNonNil) key() string { return "nonnil" }

// avFunc is a function value (closure with its evaluated bindings).
type avFunc struct {
	fn   *ssa.Function
	free []AV
}

func (a avFunc) key() string {
	k := fmt.Sprintf("f:%p", a.fn)
	for _, x := range a.free {
		k += "," + avKey(x)
	}
	return k
}

func (a avConst) key() string {
	if a.v == nil {
		return "nil"
	}
	return "c:" + a.v.ExactString()
}
func (a avObj) key() string       { return "o:" + a.o.Name }
func (a avFieldAddr) key() string { return "&" + a.o.Name + "." + a.path }
func (a *avSlice) key() string    { return "s:" + a.id }
func (a avElemAddr) key() string  { return fmt.Sprintf("&%s[%d]", a.s.id, a.idx) }
func (avCycle) key() string       { return "cycle" }

func avKey(a AV) string {
	if a == nil {
		return "?"
	}
	return a.key()
}

// AObj is an abstract object (a *files.Content, a *nfpm.Info ...) with the
// subset of its fields the cell fixes. Paths use SSA field names joined by '.'.
type AObj struct {
	Name   string
	Fields map[string]AV
	killed map[string]bool
}

func newAObj(name string) *AObj {
	return &AObj{Name: name, Fields: map[string]AV{}, killed: map[string]bool{}}
}

func cStr(s string) AV  { return avConst{constant.MakeString(s)} }
func cBool(b bool) AV   { return avConst{constant.MakeBool(b)} }
func cInt(i int64) AV   { return avConst{constant.MakeInt64(i)} }
func isConst(a AV) bool { _, ok := a.(avConst); return ok }

func avBool(a AV) (bool, bool) {
	c, ok := a.(avConst)
	if !ok || c.v == nil || c.v.Kind() != constant.Bool {
		return false, false
	}
	return constant.BoolVal(c.v), true
}

func avStr(a AV) (string, bool) {
	c, ok := a.(avConst)
	if !ok || c.v == nil || c.v.Kind() != constant.String {
		return "", false
	}
	return constant.StringVal(c.v), true
}

func avInt(a AV) (int64, bool) {
	c, ok := a.(avConst)
	if !ok || c.v == nil || c.v.Kind() != constant.Int {
		return 0, false
	}
	i, exact := constant.Int64Val(c.v)
	return i, exact
}

// Evaluator holds the configuration shared by all frames of one query.
type Evaluator struct {
	c *Ctx
	// Defaults binds every otherwise-unknown value of the given type (types.TypeString
	// with full package paths) to an abstract object: "the *files.Content at hand".
	Defaults map[string]*AObj
	MaxDepth int
	memo     map[string]*Frame
	inprog   map[string]bool
	// Bind overrides the abstract value of specific SSA values (e.g. the
	// result of one map lookup: "whenever the destination is occupied by an
	// entry of type T").
	Bind map[ssa.Value]AV
	// NoKill keeps the cell's field values even when the code stores into
	// those fields: for queries about tests of the *initial* configuration in
	// functions whose stores to a field come after the tests of that field.
	NoKill bool
	// Expand models os.Expand(s, mapping) for constant s: the environment of
	// the cell ("$NFPM_PASSPHRASE" -> "G"); other strings stay unknown.
	Expand map[string]AV
}

func newEvaluator(c *Ctx) *Evaluator {
	return &Evaluator{c: c, Defaults: map[string]*AObj{}, MaxDepth: 6, memo: map[string]*Frame{}, inprog: map[string]bool{}}
}

// Frame is one explored invocation of a function under a cell.
type Frame struct {
	ev        *Evaluator
	Fn        *ssa.Function
	Params    []AV
	FreeVars  []AV
	depth     int
	liveBlock map[int]bool
	liveEdge  map[[2]int]bool
	memo      map[ssa.Value]AV
	busy      map[ssa.Value]bool
	children  map[ssa.CallInstruction]*Frame
	Returns   [][]AV // per live return instruction, its results
}

func (ev *Evaluator) typeDefault(t types.Type) AV {
	if len(ev.Defaults) == 0 {
		return nil
	}
	if o, ok := ev.Defaults[types.TypeString(t, nil)]; ok {
		return avObj{o}
	}
	return nil
}

// Explore evaluates fn with the given abstract arguments (nil = unknown).
func (ev *Evaluator) Explore(fn *ssa.Function, args []AV) *Frame {
	return ev.explore(fn, args, nil, 0)
}

func (ev *Evaluator) explore(fn *ssa.Function, args []AV, free []AV, depth int) *Frame {
	var kb strings.Builder
	fmt.Fprintf(&kb, "%p", fn)
	for _, a := range args {
		kb.WriteString("|" + avKey(a))
	}
	kb.WriteString("#")
	for _, a := range free {
		kb.WriteString("|" + avKey(a))
	}
	k := kb.String()
	if f, ok := ev.memo[k]; ok {
		return f
	}
	if ev.inprog[k] {
		return nil // recursion: unknown
	}
	ev.inprog[k] = true
	defer delete(ev.inprog, k)
	f := &Frame{ev: ev, Fn: fn, Params: args, FreeVars: free, depth: depth}
	f.run()
	ev.memo[k] = f
	return f
}

func (f *Frame) run() {
	fn := f.Fn
	if len(fn.Blocks) == 0 {
		return
	}
	f.liveBlock = map[int]bool{0: true}
	f.liveEdge = map[[2]int]bool{}
	for iter := 0; iter < 64; iter++ {
		changed := false
		f.memo = map[ssa.Value]AV{}
		f.busy = map[ssa.Value]bool{}
		f.children = map[ssa.CallInstruction]*Frame{}
		// iterate live blocks in index order until stable within this round
		for again := true; again; {
			again = false
			idx := make([]int, 0, len(f.liveBlock))
			for b := range f.liveBlock {
				idx = append(idx, b)
			}
			sort.Ints(idx)
			for _, bi := range idx {
				b := fn.Blocks[bi]
				// stores that overwrite a fixed field of a subject object
				for _, in := range b.Instrs {
					if f.ev.NoKill {
						break
					}
					if st, ok := in.(*ssa.Store); ok {
						if fa, ok := f.Eval(st.Addr).(avFieldAddr); ok {
							if cur, fixed := fa.o.Fields[fa.path]; fixed && !fa.o.killed[fa.path] {
								// a store of the value the cell already fixes
								// (default filling of a configured field) is a no-op
								if nv := f.Eval(st.Val); nv != nil && cur != nil && nv.key() == cur.key() {
									continue
								}
								fa.o.killed[fa.path] = true
								changed = true
							}
						}
					}
				}
				var succs []int
				switch t := b.Instrs[len(b.Instrs)-1].(type) {
				case *ssa.If:
					if v, ok := avBool(f.Eval(t.Cond)); ok {
						if v {
							succs = []int{b.Succs[0].Index}
						} else {
							succs = []int{b.Succs[1].Index}
						}
					} else {
						succs = []int{b.Succs[0].Index, b.Succs[1].Index}
					}
				default:
					for _, s := range b.Succs {
						succs = append(succs, s.Index)
					}
				}
				for _, s := range succs {
					e := [2]int{bi, s}
					if !f.liveEdge[e] {
						f.liveEdge[e] = true
						changed = true
						again = true
					}
					if !f.liveBlock[s] {
						f.liveBlock[s] = true
						again = true
					}
				}
			}
			if again {
				// phi values may have changed with new edges
				f.memo = map[ssa.Value]AV{}
				f.busy = map[ssa.Value]bool{}
			}
		}
		if !changed {
			break
		}
	}
	// returns
	for bi := range f.liveBlock {
		b := fn.Blocks[bi]
		if r, ok := b.Instrs[len(b.Instrs)-1].(*ssa.Return); ok {
			var res []AV
			for _, x := range retResults(r) {
				res = append(res, f.Eval(x))
			}
			f.Returns = append(f.Returns, res)
		}
	}
}

// Live reports whether block index bi is possible under the cell.
func (f *Frame) Live(b *ssa.BasicBlock) bool { return f != nil && f.liveBlock[b.Index] }

func joinAV(vals []AV) AV {
	if len(vals) == 0 {
		return nil
	}
	first := vals[0]
	if first == nil {
		return nil
	}
	for _, v := range vals[1:] {
		if v == nil || v.key() != first.key() {
			return nil
		}
	}
	return first
}

// ReturnValue joins result i over all live returns (nil when they disagree).
func (f *Frame) ReturnValue(i int) AV {
	if f == nil {
		return nil
	}
	var vals []AV
	for _, r := range f.Returns {
		if i < len(r) {
			vals = append(vals, r[i])
		}
	}
	return joinAV(vals)
}

// ReturnSet lists the distinct abstract values result i can take ("?" = unknown).
func (f *Frame) ReturnSet(i int) []string {
	set := map[string]bool{}
	if f != nil {
		for _, r := range f.Returns {
			if i < len(r) {
				set[avKey(r[i])] = true
			}
		}
	}
	var out []string
	for k := range set {
		out = append(out, k)
	}
	sort.Strings(out)
	return out
}

func (f *Frame) Eval(v ssa.Value) AV {
	if v == nil {
		return nil
	}
	if a, ok := f.memo[v]; ok {
		return a
	}
	if b, ok := f.ev.Bind[v]; ok {
		return b
	}
	if f.busy[v] {
		return avCycle{}
	}
	f.busy[v] = true
	a := f.eval1(v)
	delete(f.busy, v)
	if _, cyc := a.(avCycle); cyc {
		a = nil
	}
	if a == nil {
		switch v.(type) {
		case *ssa.Alloc, *ssa.Call, *ssa.MakeInterface, *ssa.MakeMap, *ssa.MakeSlice, *ssa.BinOp, *ssa.Const, *ssa.Function, *ssa.MakeClosure:
		default:
			a = f.ev.typeDefault(v.Type())
		}
	}
	f.memo[v] = a
	return a
}

func (f *Frame) eval1(v ssa.Value) AV {
	switch x := v.(type) {
	case *ssa.Const:
		if x.Value == nil {
			if x.IsNil() {
				return avConst{nil}
			}
			// zero value of a non-nillable type without constant (struct etc.)
			return nil
		}
		return avConst{x.Value}
	case *ssa.Alloc:
		if st := singleAssignment(x); st != nil {
			return avCell{st, f}
		}
		return nil
	case *ssa.Parameter:
		for i, p := range f.Fn.Params {
			if p == x && i < len(f.Params) {
				return f.Params[i]
			}
		}
		return nil
	case *ssa.FreeVar:
		for i, p := range f.Fn.FreeVars {
			if p == x && i < len(f.FreeVars) {
				return f.FreeVars[i]
			}
		}
		return nil
	case *ssa.FieldAddr:
		base := f.Eval(x.X)
		fname := fieldName(x.X.Type(), x.Field)
		if al, isAl := x.X.(*ssa.Alloc); isAl {
			// a local copy of a configuration struct that is only read
			// (`t := info.Deb.Triggers; len(t.Interest)`): its fields are the
			// fields of the struct it was copied from
			if src := readOnlyStructCopy(al); src != nil {
				if a, ok := f.Eval(src).(avFieldAddr); ok {
					return avFieldAddr{a.o, a.path + "." + fname}
				}
			}
		}
		switch b := base.(type) {
		case avObj:
			return avFieldAddr{b.o, fname}
		case avFieldAddr:
			return avFieldAddr{b.o, b.path + "." + fname}
		}
		return nil
	case *ssa.IndexAddr:
		base := f.Eval(x.X)
		if s, ok := base.(*avSlice); ok {
			if i, ok := avInt(f.Eval(x.Index)); ok && int(i) < len(s.elems) && i >= 0 {
				return avElemAddr{s, int(i)}
			}
		}
		return nil
	case *ssa.UnOp:
		switch x.Op {
		case token.MUL:
			switch a := f.Eval(x.X).(type) {
			case avFieldAddr:
				if a.o.killed[a.path] {
					return nil
				}
				if fv, ok := a.o.Fields[a.path]; ok {
					return fv
				}
				return nil
			case avElemAddr:
				return a.s.elems[a.idx]
			case avCell:
				return a.fr.Eval(a.st.Val)
			}
			// a field of a struct this function has just allocated and only
			// fills in field by field (`cc := &T{F: v}; if cc.F == "" {...}`):
			// the one store to that field that lies in a live block
			if fa, ok := x.X.(*ssa.FieldAddr); ok {
				if al, ok := fa.X.(*ssa.Alloc); ok && (onlyFieldwise(al) || fieldwiseBut(f.ev.c, al, fa.Field)) {
					var reaching *ssa.Store
					n := 0
					for _, ref := range *al.Referrers() {
						fa2, ok := ref.(*ssa.FieldAddr)
						if !ok || fa2.Field != fa.Field || fa2.Referrers() == nil {
							continue
						}
						for _, r2 := range *fa2.Referrers() {
							st, ok := r2.(*ssa.Store)
							if !ok || st.Addr != ssa.Value(fa2) || !f.liveBlock[st.Block().Index] {
								continue
							}
							n++
							reaching = st
						}
					}
					if n == 1 && (reaching.Block() == x.Block() && instrIndexOf(reaching) < instrIndexOf(x) || reaching.Block() != x.Block() && reaching.Block().Dominates(x.Block())) {
						return f.Eval(reaching.Val)
					}
				}
			}
			// a private local cell (named result, address-taken local that
			// never leaves the function): the value stored earlier in the
			// same block (`x, err = f(); if err != nil`)
			if al, ok := x.X.(*ssa.Alloc); ok && privateCell(al) {
				var last *ssa.Store
				for _, in := range x.Block().Instrs {
					if in == ssa.Instruction(x) {
						break
					}
					if st, ok := in.(*ssa.Store); ok && st.Addr == ssa.Value(al) {
						last = st
					}
				}
				if last != nil {
					return f.Eval(last.Val)
				}
			}
			return nil
		case token.NOT:
			if b, ok := avBool(f.Eval(x.X)); ok {
				return cBool(!b)
			}
			return nil
		case token.SUB, token.XOR:
			if c, ok := f.Eval(x.X).(avConst); ok && c.v != nil && c.v.Kind() == constant.Int {
				return avConst{constant.UnaryOp(x.Op, c.v, 0)}
			}
			return nil
		}
		return nil
	case *ssa.BinOp:
		return f.evalBinOp(x)
	case *ssa.Phi:
		var vals []AV
		known := true
		blk := x.Block()
		for i, e := range x.Edges {
			if !f.liveEdge[[2]int{blk.Preds[i].Index, blk.Index}] {
				continue
			}
			a := f.Eval(e)
			if _, cyc := a.(avCycle); cyc {
				continue // optimistic on self-dependence; other edges decide
			}
			if a == nil {
				known = false
				break
			}
			vals = append(vals, a)
		}
		if !known {
			return nil
		}
		return joinAV(vals)
	case *ssa.ChangeType:
		return f.Eval(x.X)
	case *ssa.Convert:
		a := f.Eval(x.X)
		if c, ok := a.(avConst); ok && c.v != nil {
			// string<->named string, int<->named int conversions keep the constant
			fb, _ := x.X.Type().Underlying().(*types.Basic)
			tb, _ := x.Type().Underlying().(*types.Basic)
			if fb != nil && tb != nil {
				if fb.Info()&types.IsString != 0 && tb.Info()&types.IsString != 0 {
					return a
				}
				if fb.Info()&types.IsInteger != 0 && tb.Info()&types.IsInteger != 0 {
					return a
				}
			}
		}
		return nil
	case *ssa.MakeInterface:
		if types.Identical(x.Type(), errorType) {
			return avNonNil{}
		}
		return nil
	case *ssa.Function:
		return avFunc{fn: x}
	case *ssa.MakeClosure:
		fn, _ := x.Fn.(*ssa.Function)
		var free []AV
		for _, b := range x.Bindings {
			free = append(free, f.Eval(b))
		}
		return avFunc{fn: fn, free: free}
	case *ssa.Call:
		return f.evalCall(x)
	case *ssa.Field:
		// a field of a struct value that was loaded from the configuration
		// (`t := info.Deb.Triggers; t.Interest`)
		if ld, ok := x.X.(*ssa.UnOp); ok && ld.Op == token.MUL {
			if a, ok := f.Eval(ld.X).(avFieldAddr); ok {
				path := a.path + "." + fieldName(x.X.Type(), x.Field)
				if a.o.killed[path] || a.o.killed[a.path] {
					return nil
				}
				if fv, ok := a.o.Fields[path]; ok {
					return fv
				}
			}
		}
		return nil
	case *ssa.Lookup:
		if x.CommaOk {
			return nil
		}
		if val, found, known := f.lookupLiteral(x); known {
			if found {
				return val
			}
			return f.zeroOf(x.Type())
		}
		return nil
	case *ssa.Extract:
		if lk, ok := x.Tuple.(*ssa.Lookup); ok && lk.CommaOk {
			if val, found, known := f.lookupLiteral(lk); known {
				if x.Index == 1 {
					return cBool(found)
				}
				if found {
					return val
				}
				return f.zeroOf(x.Type())
			}
			return nil
		}
		if call, ok := x.Tuple.(*ssa.Call); ok {
			if child := f.childFrame(call); child != nil {
				return child.ReturnValue(x.Index)
			}
		}
		return nil
	case *ssa.Slice:
		if x.Low == nil && x.High == nil {
			return f.Eval(x.X)
		}
		return nil
	}
	return nil
}

func fieldName(t types.Type, idx int) string {
	st, ok := derefType(t).Underlying().(*types.Struct)
	if !ok || idx >= st.NumFields() {
		return fmt.Sprintf("#%d", idx)
	}
	return st.Field(idx).Name()
}

func (f *Frame) evalBinOp(x *ssa.BinOp) AV {
	l, r := f.Eval(x.X), f.Eval(x.Y)
	// a value that depends on itself through arithmetic (induction variable)
	// is unknown; only pure copy cycles are skipped by Phi
	if _, c := l.(avCycle); c {
		return nil
	}
	if _, c := r.(avCycle); c {
		return nil
	}
	switch x.Op {
	case token.EQL, token.NEQ:
		eq, known := avEqual(l, r)
		if !known {
			return nil
		}
		if x.Op == token.NEQ {
			eq = !eq
		}
		return cBool(eq)
	}
	lc, lok := l.(avConst)
	rc, rok := r.(avConst)
	if !lok || !rok || lc.v == nil || rc.v == nil {
		return nil
	}
	switch x.Op {
	case token.LSS, token.LEQ, token.GTR, token.GEQ:
		if lc.v.Kind() != rc.v.Kind() {
			return nil
		}
		return cBool(constant.Compare(lc.v, x.Op, rc.v))
	case token.ADD, token.SUB, token.MUL, token.AND, token.OR, token.XOR, token.AND_NOT:
		if lc.v.Kind() != rc.v.Kind() {
			return nil
		}
		if lc.v.Kind() == constant.Bool {
			return nil
		}
		if lc.v.Kind() == constant.String && x.Op != token.ADD {
			return nil
		}
		return avConst{constant.BinaryOp(lc.v, x.Op, rc.v)}
	}
	return nil
}

func avEqual(l, r AV) (eq bool, known bool) {
	switch a := l.(type) {
	case avConst:
		switch b := r.(type) {
		case avConst:
			if a.v == nil || b.v == nil {
				return a.v == nil && b.v == nil, true
			}
			if a.v.Kind() != b.v.Kind() {
				return false, false
			}
			return constant.Compare(a.v, token.EQL, b.v), true
		case avObj:
			if a.v == nil {
				return false, true // objects are non-nil
			}
		case *avSlice:
			if a.v == nil {
				return false, true
			}
		}
	case avObj:
		switch b := r.(type) {
		case avConst:
			if b.v == nil {
				return false, true
			}
		case avObj:
			if a.o == b.o {
				return true, true
			}
		}
	case *avSlice:
		if b, ok := r.(avConst); ok && b.v == nil {
			return false, true
		}
	case avNonNil:
		if b, ok := r.(avConst); ok && b.v == nil {
			return false, true
		}
	}
	if _, ok := r.(avNonNil); ok {
		if a, ok := l.(avConst); ok && a.v == nil {
			return false, true
		}
	}
	return false, false
}

func (f *Frame) childFrame(call ssa.CallInstruction) *Frame {
	if ch, ok := f.children[call]; ok {
		return ch
	}
	var child *Frame
	cc := call.Common()
	callee := cc.StaticCallee()
	var free []AV
	if callee == nil {
		// immediately-invoked or locally bound closure
		if mc, ok := cc.Value.(*ssa.MakeClosure); ok {
			callee, _ = mc.Fn.(*ssa.Function)
			for _, b := range mc.Bindings {
				free = append(free, f.Eval(b))
			}
		} else if !cc.IsInvoke() {
			// a func value whose target the cell determines (a builder passed
			// as an argument)
			if _, isB := cc.Value.(*ssa.Builtin); !isB {
				if fv, ok := f.Eval(cc.Value).(avFunc); ok && fv.fn != nil {
					callee, free = fv.fn, fv.free
				}
			}
		}
	} else if mc, ok := cc.Value.(*ssa.MakeClosure); ok {
		for _, b := range mc.Bindings {
			free = append(free, f.Eval(b))
		}
	}
	if callee != nil && callee.Blocks != nil && f.ev.c.isModuleFunc(callee) && f.depth < f.ev.MaxDepth {
		var args []AV
		for _, a := range cc.Args {
			args = append(args, f.Eval(a))
		}
		child = f.ev.explore(callee, args, free, f.depth+1)
	}
	f.children[call] = child
	return child
}

func (f *Frame) evalCall(x *ssa.Call) AV {
	cc := x.Common()
	if b, ok := cc.Value.(*ssa.Builtin); ok {
		if b.Name() == "len" && len(cc.Args) == 1 {
			switch a := f.Eval(cc.Args[0]).(type) {
			case *avSlice:
				return cInt(int64(len(a.elems)))
			case avConst:
				if s, ok := avStr(a); ok {
					return cInt(int64(len(s)))
				}
			}
		}
		return nil
	}
	if child := f.childFrame(x); child != nil {
		if x.Type() != nil {
			if _, isTuple := x.Type().(*types.Tuple); !isTuple {
				return child.ReturnValue(0)
			}
		}
		return nil
	}
	if o := calleeObj(x); o != nil {
		switch qualifiedName(o) {
		case "fmt.Errorf", "errors.New":
			return avNonNil{}
		case "os.Expand":
			if f.ev.Expand != nil && len(cc.Args) > 0 {
				if str, ok := avStr(f.Eval(cc.Args[0])); ok {
					if v, ok := f.ev.Expand[str]; ok {
						return v
					}
				}
			}
		}
	}
	// natively modelled pure string predicates
	if o := calleeObj(x); o != nil && o.Pkg() != nil && o.Pkg().Path() == "strings" {
		var ss []string
		for _, a := range cc.Args {
			s, ok := avStr(f.Eval(a))
			if !ok {
				return nil
			}
			ss = append(ss, s)
		}
		switch o.Name() {
		case "HasPrefix":
			return cBool(strings.HasPrefix(ss[0], ss[1]))
		case "HasSuffix":
			return cBool(strings.HasSuffix(ss[0], ss[1]))
		case "EqualFold":
			return cBool(strings.EqualFold(ss[0], ss[1]))
		case "TrimSpace":
			return cStr(strings.TrimSpace(ss[0]))
		case "ToLower":
			return cStr(strings.ToLower(ss[0]))
		}
	}
	return nil
}

// LiveInstr is an instruction possible under the cell, with its frame.
type LiveInstr struct {
	In ssa.Instruction
	F  *Frame
}

// LiveInstrs lists the live instructions of f and, transitively, of every
// module callee invoked from a live call site (each under its own bindings).
func (f *Frame) LiveInstrs() []LiveInstr {
	var out []LiveInstr
	seen := map[*Frame]bool{}
	var walk func(fr *Frame)
	walk = func(fr *Frame) {
		if fr == nil || seen[fr] {
			return
		}
		seen[fr] = true
		idx := make([]int, 0, len(fr.liveBlock))
		for b := range fr.liveBlock {
			idx = append(idx, b)
		}
		sort.Ints(idx)
		for _, bi := range idx {
			for _, in := range fr.Fn.Blocks[bi].Instrs {
				out = append(out, LiveInstr{in, fr})
				if call, ok := in.(ssa.CallInstruction); ok {
					if _, isGo := in.(*ssa.Go); isGo {
						continue
					}
					walk(fr.childFrame(call))
				}
			}
		}
	}
	walk(f)
	return out
}

// MustReach decides whether, under the cell, every live path from the frame's
// entry to a return that may report success executes an instruction satisfying
// pred — directly, or inside a module callee (or closure the cell determines)
// whose own frame must reach it. Paths that end in a provably failing return
// do not count.
func (f *Frame) MustReach(pred func(in ssa.Instruction, fr *Frame) bool) bool {
	return f.mustReach(pred, map[*Frame]bool{})
}

func (f *Frame) mustReach(pred func(in ssa.Instruction, fr *Frame) bool, inprog map[*Frame]bool) bool {
	if f == nil || len(f.Fn.Blocks) == 0 {
		return false
	}
	if inprog[f] {
		return false
	}
	inprog[f] = true
	defer delete(inprog, f)
	sat := map[int]bool{}
	for bi := range f.liveBlock {
		for _, in := range f.Fn.Blocks[bi].Instrs {
			if pred(in, f) {
				sat[bi] = true
				break
			}
			if call, ok := in.(ssa.CallInstruction); ok {
				if _, isGo := in.(*ssa.Go); isGo {
					continue
				}
				if _, isDefer := in.(*ssa.Defer); isDefer {
					continue
				}
				if ch := f.childFrame(call); ch != nil && ch.mustReach(pred, inprog) {
					sat[bi] = true
					break
				}
			}
		}
	}
	hasErr := errResultIndex(f.Fn.Signature) >= 0
	seen := map[int]bool{}
	var dfs func(bi int) bool // true = found a bypassing success path
	dfs = func(bi int) bool {
		if sat[bi] || seen[bi] {
			return false
		}
		seen[bi] = true
		b := f.Fn.Blocks[bi]
		if ret, ok := b.Instrs[len(b.Instrs)-1].(*ssa.Return); ok {
			if hasErr && errorIsNonNilAt(ret) {
				return false
			}
			return true
		}
		for _, s := range b.Succs {
			if f.liveEdge[[2]int{bi, s.Index}] && dfs(s.Index) {
				return true
			}
		}
		return false
	}
	return !dfs(0)
}

// privateCell: the local is only ever stored to and loaded from directly.
func privateCell(al *ssa.Alloc) bool {
	if al.Referrers() == nil {
		return false
	}
	for _, ref := range *al.Referrers() {
		switch r := ref.(type) {
		case *ssa.Store:
			if r.Addr != ssa.Value(al) {
				return false
			}
		case *ssa.UnOp:
		case *ssa.DebugRef:
		default:
			return false
		}
	}
	return true
}

// singleAssignment: the one store into a local that is otherwise only loaded,
// directly or through closures capturing it; nil when there is none or more.
func singleAssignment(al *ssa.Alloc) *ssa.Store {
	if al.Referrers() == nil {
		return nil
	}
	var only *ssa.Store
	n := 0
	captured := false
	for _, ref := range *al.Referrers() {
		switch r := ref.(type) {
		case *ssa.Store:
			if r.Addr != ssa.Value(al) {
				return nil
			}
			only = r
			n++
		case *ssa.UnOp, *ssa.DebugRef:
		case *ssa.MakeClosure:
			captured = true
			fn, _ := r.Fn.(*ssa.Function)
			for i, b := range r.Bindings {
				if b != ssa.Value(al) || fn == nil || i >= len(fn.FreeVars) {
					continue
				}
				for _, r2 := range *fn.FreeVars[i].Referrers() {
					if _, isLoad := r2.(*ssa.UnOp); !isLoad {
						if _, isDbg := r2.(*ssa.DebugRef); !isDbg {
							return nil
						}
					}
				}
			}
		default:
			return nil
		}
	}
	if n != 1 || !captured {
		return nil
	}
	return only
}

// liveMustPass: under the cell, every live path from the entry to block `to`
// passes through block `via` (dominance in the live sub-graph).
func (f *Frame) liveMustPass(via, to *ssa.BasicBlock) bool {
	if f == nil || len(f.Fn.Blocks) == 0 {
		return false
	}
	if via == to {
		return true
	}
	entry := f.Fn.Blocks[0]
	if entry == via {
		return true
	}
	seen := map[*ssa.BasicBlock]bool{entry: true}
	stack := []*ssa.BasicBlock{entry}
	for len(stack) > 0 {
		b := stack[len(stack)-1]
		stack = stack[:len(stack)-1]
		if b == to {
			return false
		}
		for _, s := range b.Succs {
			if s == via || seen[s] || !f.liveEdge[[2]int{b.Index, s.Index}] {
				continue
			}
			seen[s] = true
			stack = append(stack, s)
		}
	}
	return true
}

// zeroOf: the zero value of a basic type as a constant (nil: not modelled).
func (f *Frame) zeroOf(t types.Type) AV {
	b, ok := t.Underlying().(*types.Basic)
	if !ok {
		return nil
	}
	switch {
	case b.Info()&types.IsString != 0:
		return cStr("")
	case b.Info()&types.IsBoolean != 0:
		return cBool(false)
	case b.Info()&types.IsInteger != 0:
		return cInt(0)
	}
	return nil
}

// lookupLiteral: a lookup in a map built as a literal in this function - a
// MakeMap whose only other uses are updates with constant keys that dominate
// the lookup. known is false when the map or the key cannot be modelled.
func (f *Frame) lookupLiteral(lk *ssa.Lookup) (val AV, found, known bool) {
	key, ok := f.Eval(lk.Index).(avConst)
	if !ok || key.v == nil {
		return nil, false, false
	}
	if ld, isLd := lk.X.(*ssa.UnOp); isLd && ld.Op == token.MUL {
		// a package-level table: a map literal assigned once, in the
		// package initialiser, and never updated
		g, isG := ld.X.(*ssa.Global)
		if !isG || f.ev.c == nil {
			return nil, false, false
		}
		tbl, okT := f.ev.c.globalMapTable(g)
		if !okT {
			return nil, false, false
		}
		for k, v := range tbl {
			if k.Kind() == key.v.Kind() && constant.Compare(k, token.EQL, key.v) {
				return avConst{v}, true, true
			}
		}
		return nil, false, true
	}
	mk, ok := lk.X.(*ssa.MakeMap)
	if !ok || mk.Referrers() == nil {
		return nil, false, false
	}
	var hit *ssa.MapUpdate
	for _, ref := range *mk.Referrers() {
		switch x := ref.(type) {
		case *ssa.MapUpdate:
			if x.Map != ssa.Value(mk) {
				return nil, false, false
			}
			if !(x.Block() == lk.Block() && instrIndexOf(x) < instrIndexOf(lk) || x.Block() != lk.Block() && x.Block().Dominates(lk.Block())) {
				return nil, false, false
			}
			k, isK := f.Eval(x.Key).(avConst)
			if !isK || k.v == nil {
				return nil, false, false
			}
			if k.v.Kind() == key.v.Kind() && constant.Compare(k.v, token.EQL, key.v) {
				hit = x
			}
		case *ssa.Lookup, *ssa.DebugRef:
		default:
			return nil, false, false
		}
	}
	if hit == nil {
		return nil, false, true
	}
	v := f.Eval(hit.Value)
	if v == nil {
		// present, value not modelled: found is known, the value is not
		if !lk.CommaOk {
			return nil, false, false
		}
	}
	return v, true, true
}

func instrIndexOf(in ssa.Instruction) int {
	for i, x := range in.Block().Instrs {
		if x == in {
			return i
		}
	}
	return -1
}

// globalMapTable: the constant entries of a package-level map that is assigned
// exactly once - a literal with constant keys and values, in the package
// initialiser - and that no module code updates, deletes from or reassigns.
func (c *Ctx) globalMapTable(g *ssa.Global) (map[constant.Value]constant.Value, bool) {
	if c.gtables == nil {
		c.gtables = map[*ssa.Global]map[constant.Value]constant.Value{}
		c.gtablesBad = map[*ssa.Global]bool{}
		for _, sp := range c.SSAPkgs {
			init := sp.Func("init")
			if init == nil {
				continue
			}
			forEachInstr(init, func(in ssa.Instruction) {
				st, ok := in.(*ssa.Store)
				if !ok {
					return
				}
				gg, ok := st.Addr.(*ssa.Global)
				if !ok {
					return
				}
				mk, ok := st.Val.(*ssa.MakeMap)
				if !ok || mk.Referrers() == nil {
					return
				}
				tbl := map[constant.Value]constant.Value{}
				good := true
				for _, ref := range *mk.Referrers() {
					switch x := ref.(type) {
					case *ssa.MapUpdate:
						k, ok1 := x.Key.(*ssa.Const)
						v, ok2 := x.Value.(*ssa.Const)
						if !ok1 || !ok2 || k.Value == nil || v.Value == nil {
							good = false
							continue
						}
						tbl[k.Value] = v.Value
					case *ssa.Store, *ssa.DebugRef:
					default:
						good = false
					}
				}
				if _, dup := c.gtables[gg]; dup || !good {
					c.gtablesBad[gg] = true
				}
				c.gtables[gg] = tbl
			})
		}
		// any other write through the global disqualifies it
		for _, fn := range c.ModFuncs {
			isInit := fn.Name() == "init" && fn.Parent() == nil
			forEachInstr(fn, func(in ssa.Instruction) {
				switch x := in.(type) {
				case *ssa.Store:
					if gg, ok := x.Addr.(*ssa.Global); ok && !isInit {
						c.gtablesBad[gg] = true
					}
				case *ssa.MapUpdate:
					if gg := rootGlobal(x.Map); gg != nil {
						c.gtablesBad[gg] = true
					}
				case *ssa.Call:
					if b, ok := x.Call.Value.(*ssa.Builtin); ok && (b.Name() == "delete" || b.Name() == "clear") && len(x.Call.Args) > 0 {
						if gg := rootGlobal(x.Call.Args[0]); gg != nil {
							c.gtablesBad[gg] = true
						}
					}
				}
			})
		}
	}
	tbl, ok := c.gtables[g]
	if !ok || c.gtablesBad[g] {
		return nil, false
	}
	return tbl, true
}

// readOnlyStructCopy: al is a local struct assigned exactly once, as a whole,
// from a load (`t := *p`), and afterwards only read field by field; the
// address it was loaded from, else nil.
func readOnlyStructCopy(al *ssa.Alloc) ssa.Value {
	if al.Referrers() == nil {
		return nil
	}
	if _, isStruct := derefType(al.Type()).Underlying().(*types.Struct); !isStruct {
		return nil
	}
	var src ssa.Value
	for _, ref := range *al.Referrers() {
		switch x := ref.(type) {
		case *ssa.Store:
			if x.Addr != ssa.Value(al) || src != nil {
				return nil
			}
			ld, ok := x.Val.(*ssa.UnOp)
			if !ok || ld.Op != token.MUL {
				return nil
			}
			src = ld.X
		case *ssa.FieldAddr:
			if x.Referrers() == nil {
				continue
			}
			for _, r2 := range *x.Referrers() {
				switch y := r2.(type) {
				case *ssa.UnOp, *ssa.DebugRef:
				case *ssa.FieldAddr, *ssa.IndexAddr:
					_ = y // nested reads; writes below them are not followed: be conservative
					return nil
				default:
					return nil
				}
			}
		case *ssa.DebugRef:
		default:
			return nil
		}
	}
	return src
}

// onlyFieldwise: the allocation is used only through field addresses (stores
// and loads of single fields), as a returned value, or as the receiver /
// argument of nothing at all - nobody else can have written its fields.
// fieldwiseBut: like onlyFieldwise, but the struct may also be handed to
// module functions (as receiver or argument) that never write the given field
// through it and hand it on to nobody but functions of the same kind.
func fieldwiseBut(c *Ctx, al *ssa.Alloc, field int) bool {
	if al.Referrers() == nil {
		return false
	}
	if _, isStruct := derefType(al.Type()).Underlying().(*types.Struct); !isStruct {
		return false
	}
	var leaves func(v ssa.Value, depth int) bool
	leaves = func(v ssa.Value, depth int) bool {
		if v.Referrers() == nil {
			return true
		}
		for _, ref := range *v.Referrers() {
			switch x := ref.(type) {
			case *ssa.FieldAddr:
				if x.X != v || x.Field != field || x.Referrers() == nil {
					continue
				}
				if depth == 0 {
					continue // the allocating function's own stores are the ones modelled
				}
				for _, r2 := range *x.Referrers() {
					if _, isLoad := r2.(*ssa.UnOp); !isLoad {
						if _, isDbg := r2.(*ssa.DebugRef); !isDbg {
							return false
						}
					}
				}
			case *ssa.Return, *ssa.DebugRef:
				if depth > 0 {
					if _, isRet := ref.(*ssa.Return); isRet {
						return false
					}
				}
			case *ssa.Call:
				sc := x.Call.StaticCallee()
				if sc == nil || len(sc.Blocks) == 0 || !c.isModuleFunc(sc) || depth >= 2 {
					return false
				}
				for i, a := range x.Call.Args {
					if a != v {
						continue
					}
					if i >= len(sc.Params) || !leaves(sc.Params[i], depth+1) {
						return false
					}
				}
			default:
				return false
			}
		}
		return true
	}
	return leaves(al, 0)
}

func onlyFieldwise(al *ssa.Alloc) bool {
	if al.Referrers() == nil {
		return false
	}
	if _, isStruct := derefType(al.Type()).Underlying().(*types.Struct); !isStruct {
		return false
	}
	for _, ref := range *al.Referrers() {
		switch ref.(type) {
		case *ssa.FieldAddr, *ssa.Return, *ssa.DebugRef:
		default:
			return false
		}
	}
	return true
}
